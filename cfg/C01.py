"""C01: no source ack before every destination (or the DLQ) confirmed."""
import os, sys
sys.path.insert(0, os.path.dirname(__file__))
from stream_jobs import JOBS as _SJ, LEAN_MODULES as _SM, RULE as _SR, ASSUMPTIONS as _SA
from funnel_common import arbiter_job, funnel_job, funnel_conc_job, funnel_shared_job, FUNNEL_RULE, FUNNEL_ASSUME, tree_jobs, TREE_MODULES, TREE_RULE, TREE_ASSUME

PROP = {
    "lean_modules": ["ConduitModel.Props.ArbiterProps", "ConduitModel.Props.WorkerProps"],
    "jobs": [funnel_job("C01"), funnel_conc_job("C01"), funnel_shared_job("C01"), arbiter_job()],
    "rule": FUNNEL_RULE,
    "strength": 'fan-out arbitration: full (all M, n, vote orders); whole pass: partial (see note)',
    "assumptions": FUNNEL_ASSUME,
}
PROP["jobs"] += _SJ["C01"]
PROP["lean_modules"] += _SM["C01"]
PROP["rule"] += " || v1: " + _SR
PROP["assumptions"] = list(PROP["assumptions"]) + _SA

PROP["lean_modules"].append("ConduitModel.Props.MonSound")

# the trees the arch-v2 service builds are the trees Props/MonSound covers (Props/TreeShape, Props/TreeBuilt)
PROP["jobs"] += tree_jobs()
PROP["lean_modules"] += TREE_MODULES
PROP["rule"] += TREE_RULE
PROP["assumptions"] = list(PROP["assumptions"]) + TREE_ASSUME
# arch-v2 shared sink (N source workers on one shared TaskNode subtree): Model/SharedSink.lean, Props/SharedSink.lean
# (C01_v2_shared_*), Facts/SharedSink.lean, trace replay of the funnelshared runs (driver component sharedsink)
from funnel_common import funnel_sharedsink_job, SHAREDSINK_MODULES, SHAREDSINK_STRENGTH, SHAREDSINK_ASSUME
PROP["lean_modules"] += SHAREDSINK_MODULES
PROP["jobs"].append(funnel_sharedsink_job("C01"))
PROP["strength"] += SHAREDSINK_STRENGTH
PROP["assumptions"] = list(PROP["assumptions"]) + SHAREDSINK_ASSUME

META = {
    "text": 'Lean 4 theorems for every number of branches M, batch size n and every vote sequence/order of the arch-v2 fan-out arbiter (multiAckNacker): a position released as acked was voted ack by every branch (C01_ma_ack_unanimous); the acked set does not depend on the vote order (C01_ma_release_order_independent); simulation lemmas tie the monadic engine model (ackerCall/releaseLoop/voteLoop) to the pure arbiter. The executable model of the whole pass is tied to the real funnel.Worker by event-log equality; the C01 monitor (every acked record confirmed by every destination that received a piece of it, or filtered, or DLQ write confirmed) runs on every implementation trace. v1: C01_v1_source_ack_justified, _every_ack_event, _fanout_unanimous proved for every topology and event list of the v1 product model; real node graph tied by `pipe` trace acceptance.',
    "note": 'v1: proved for the product model. v2: arbiter, worker-acker and DLQ clauses proved; Monitor soundness is PROVED for the model for linear and one-level fan-out trees — the only shapes lifecycle-poc builds (source → processors → fan-out → per-branch processors → destination): PROVED for the model of the builder (Props/TreeShape workerTree_fan1/_kind/_tasks/_dests, monitor_sound_built; Props/TreeBuilt built_fan1/_kind/_dests/_nodup, buildWorkers_never_bug, monitor_sound_service: every tree of every configuration buildRunnablePipeline accepts; distinct task ids under IdSpaces = connector and processor ids do not meet, which the code does not check), the builder model tied to the real buildRunnablePipeline / buildSharedTail / AppendToEnd by the treeshape / appendtoend correspondence and Facts/TreeShape — RECORD SPLITTING INCLUDED (Props/MonSound: monitor_sound_linear, monitor_sound_fan1, the no-split forms monitor_sound_linear_nosplit / monitor_sound_nosplit_fan1 and the per-clause forms C01_v2_monitor_sound_*: every clause of the Lean trace monitor is silent on every run of the model, over multi-batch runs, any fuel/window/outcomes, under the decidable run hypotheses RootPreserving / FreshTags / sorted roots); for NESTED fan-out (a shape the engine API allows but the service never builds) the whole-pass claim rests on event-log equality with the model and on the monitor evaluated on every implementation trace (partial). Trusted: Lean kernel, factgen, harness/fakes, Go runtime.',
    "technique": 'Lean 4 invariant proofs over all vote sequences + model/implementation trace equality + Lean-defined trace monitor',
}
META["text"] += " Shared sink (N source workers on one shared subtree, Model/SharedSink.lean, every interleaving of doTask's sharedBoundary statements): C01_v2_shared_mutual_exclusion, _serializable (a root's log is a concatenation of complete single-worker sub-passes), _no_foreign_acks (every ack a worker consumes was produced by its own write in the same sub-pass), _poison_before_unlock / _poison_latch / _poisoned_entry_refused, _one_lock_per_branch / _lock_holder_progress / _no_deadlock, for every event list; statement order of doTask regenerated from worker.go; real concurrent runs replayed through the model (sharedsink)."
