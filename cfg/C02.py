"""C02: check configuration (PROP) and MANIFEST texts (META)."""
PROP = {
    "lean_modules": ["ConduitModel.Props.C02", "ConduitModel.Props.C02Batch", "ConduitModel.Facts.C02"],
    "jobs": [
        {"harness": "h_srcack", "comp": "srcack", "driver": "srcack", "n_quick": 400, "n_thorough": 5000, "timeout": 2400,
         "relevant": lambda case: "fail:" in case["model"] or case["impl"] != "ok",
         "why": "a trace recorded from the real connector.Source + Persister (fault-injecting snapshotting store, fake plugin "
                "stream) is not accepted by the M3 model whose every run satisfies C02, or the C02 monitor fails on it"},
        {"harness": "h_srcack", "comp": "srcbatch", "driver": "srcbatch", "n_quick": 400, "n_thorough": 8000, "timeout": 1800,
         "why": "2-4 real Sources sharing one real Persister batch, per-key Set failures / Commit failures injected round by round: the "
                "round's outcome (committed or not, stored position of every source, which acks reached which plugin) is not the one "
                "FlushBatch.flushNow (shape keep: proved commit-only-if-every-store-ok, callbacks-nil-iff-committed) gives, or an ack "
                "was delivered for a position the store does not hold for that source"},
    ],
    "rule": "srcbatch: K=2-4 sources, 2-8 flush rounds, each round acks for a random subset, a Set failure for one or two keys (4/10), a Commit failure (1/10) or none, flush and quiesce; non-trivial = a Set failure, a commit and a delivery in the trace; srcack: one real Source on one real Persister per case; seeded op scripts (acks of 1-3 positions, Flush / timer / "
            "bundle-threshold triggers, failures at NewTransaction/Set/Commit, held commits, failing and held Sends, optional "
            "Teardown); a case is non-trivial when the trace has a commit and a delivered ack and at least one fault, crash or "
            "teardown; distinct = distinct case lines",
    "strength": "full for the model (all event lists, all configurations); positions-in-read-order clauses under the explicit "
                "engine-side hypothesis ReachO (acks justified and in read order: C01/C04)",
    "assumptions": ["a successful Commit of the database is durable and atomic (store contract)",
                    "atomic-step granularity of M3 (one critical section / store call / stream send per step), validated by trace acceptance",
                    "M3 is the per-connector projection of the event system; that the flush outcome is ONE outcome for all connectors of a batch (commit only if every store write succeeded, every callback gets the same error) is decided separately for batches of any size and iteration order by Model/FlushBatch.lean + Props/C02Batch.lean (C02_batch_*) and tied by the regenerated loop shape ""(C02_fact_flushNow_loop_keeps_failure) and the srcbatch correspondence (K real Sources on one real Persister)"],
}

META = {
    "text": "Lean 4 invariants over every event list of the source-ack/persister event system M3 (acks, flush triggers, store "
            "outcomes incl. NewTransaction/Set/Commit failures, out-of-order callbacks, delivery retries, teardown, crash/restart): "
            "every delivered or queued ack is covered by a successful earlier commit (C02_delivered_implies_durable, "
            "_after_commit), failed flushes release nothing (C02_failed_flush_*), the store sequence/position never decreases "
            "or empties (C02_store_monotone, _stored_position_monotone), delivered acks are FIFO and gap-free unless dropped "
            "(C02_delivered_fifo, _prefix), stored position covers only handled records (C02_stored_position_handled). The model "
            "is tied to the code by trace acceptance of the real Source+Persister (h_srcack) and by regenerated structural facts.",
    "note": "Proved about the model; the code is tied by acceptance of recorded traces (finite sample) and regenerated facts "
            "(flushNow order and error propagation, Ack/triggerFlush call order, drain condition). Fails on the unfixed tree: "
            "F1 (failed store Set still commits and acks) and F12 (ack gap after exhausted retries). Since then F1 and F16 are repaired in /repo (fix: commits, see known_findings.json 'fixed'); the shared persister batch (several connectors in one flush) is covered by Model/FlushBatch, the loop-shape fact and the srcbatch correspondence; the engine-side clause (no empty position is acknowledged) by the funnel job. The position clauses no longer rest on a free engine hypothesis: Props/EndToEnd composes M3 with the engine models (C02_composed_history_positions, C02_composed_history_store_forward over histories with any number of crashes/restarts whose incarnations are fed in read order, which C03_v1_/C03_v2_engine_feeds_connector establish for both engines; v2 up to NoEmptyAckCall).",
    "technique": "Lean 4 invariant proofs over an event system + trace-acceptance correspondence against the real code",
}

# engine side of "the position only moves forward": the positions the arch-v2 engine hands to Source.Ack (event-log equality of the
# real funnel.Worker with the Lean engine model; Worker.Nack refuses to acknowledge a prefix that holds an empty source position)
from funnel_common import funnel_job
import re as _re
_fj = funnel_job("C02", 4000, 100000)
# the engine acknowledged an empty / nil position to the source: the durable position would be overwritten with nothing
_fj["relevant"] = lambda case: bool(_re.search(r"A\[(?:[^\]]*,)?[en](?:,[^\]]*)?\]", case["impl"]))
PROP["jobs"].append(_fj)
PROP["lean_modules"] += ["ConduitModel.Props.C04", "ConduitModel.Props.EndToEnd"]
PROP["rule"] += (" || funnel: see C04/C09 (one case = tree, window, batches, plugin scripts; a tenth of the cases from the bad-source-position "
                 "family: empty / nil source positions meeting nacks, partial DLQ acknowledgments and window refusals)")
