"""C03: check configuration (PROP) and MANIFEST texts (META)."""
PROP = {
    "lean_modules": ["ConduitModel.Props.C03", "ConduitModel.Facts.C03", "ConduitModel.Props.EndToEnd"],
    "jobs": [
        {"harness": "h_srcack", "comp": "srccrash", "driver": "srcack", "n_quick": 300, "n_thorough": 4000, "timeout": 2400,
         "relevant": lambda case: "fail:" in case["model"] or case["impl"] != "ok",
         "why": "crash points: a trace of the real Source+Persister with crashes/restarts (and a real connector.Service restart on "
                "EVERY commit snapshot) is not accepted by M3, or the C03 monitor (stored <= handled, delivered <= stored, "
                "reopen = stored) fails on it"},
    ],
    "rule": "srccrash: as srcack plus crash+restart ops at random instants (real Service.Init + Source.Open on the store content "
            "of that instant); after the run a fresh real Service is started on every recorded commit snapshot and the position "
            "handed to the plugin's Open is recorded next to the commit; non-trivial = trace has commit, delivery and a fault, "
            "crash or teardown",
    "strength": "full for the model under the explicit engine-side hypothesis ReachO (acks justified and in read order, C01/C04); "
                "sequence-number form (C03_crash_safe_seq) for every event list without hypothesis",
    "assumptions": ["atomic, durable Commit of the database (a crash sees the old or the new snapshot, never a torn one)",
                    "SIGKILL is simulated in-process: the old incarnation's later effects are discarded, not prevented",
                    "engine-side hypothesis ReachO: discharged for arch v2 by Props/EndToEnd (hypothesis left: NoEmptyAckCall, checked on every "
                    "funnel run), and for v1 without residue (C03_v1_engine_feeds_connector)"],
}

META = {
    "text": "Lean 4: every reachable state of M3 is a crash point (crash enabled in every live state, a dead process only restarts). "
            "Invariant crash_safe for all event lists with any number of crashes/restarts: every record at or before the committed "
            "position was handled, every position ever acked to the plugin is at or before it (pruned <= store <= handled), a "
            "restart reopens exactly at the store and every unhandled record lies after it (C03_restart_no_skip). Tied to the code "
            "by crash/restart traces of the real Source/Persister/Service and a real restart on every commit snapshot.",
    "note": "Proved about the model. The engine side used to enter as the bare hypothesis ReachO; for arch v2 it is now DISCHARGED by "
            "composition (Props/EndToEnd.lean): C03_v2_engine_feeds_connector (every run of the engine model acknowledges, call by call, exactly "
            "the records read after the open position, from C04_v2_run_acks_prefix), ReachO.incarnation / .incarnations (Proofs/SrcAckEngine: "
            "M3 needs nothing else, for any number of crashes and restarts), C03_v2_composed_crash_safe, C03_composed_history_crash_safe; the "
            "one engine-side hypothesis left is NoEmptyAckCall (no Source.Ack call with an empty position list), which the funnel job checks on "
            "every implementation run (the source fake flags such a call; the real connector.Source.Ack would index p[len(p)-1]). For the v1 "
            "engine (one position per Source.Ack call, so no call is empty) nothing is left: C03_v1_engine_feeds_connector, "
            "C03_v1_composed_crash_safe from C04_v1_ack_sequence_is_prefix. Torn DB writes and kill timing inside one store call "
            "are the store's contract. Needs F1 fixed (otherwise the plugin is told more than the store holds).",
    "technique": "Lean 4 invariant proofs (every state = crash point) + snapshot-and-restart correspondence against the real code",
}

# engine side of the composition (Props/EndToEnd.lean): the arch-v2 engine's Source.Ack calls. The event-log equality with the engine
# model ties C04_v2_run_acks_prefix to the real funnel.Worker; the source fake flags an empty Source.Ack call (NoEmptyAckCall).
from funnel_common import funnel_job
_fj = funnel_job("C03", 3000, 60000)
_fj["relevant"] = lambda case: "X[empty-ack-call]" in case["impl"]
PROP["jobs"].append(_fj)
PROP["lean_modules"] += ["ConduitModel.Props.C04"]
PROP["rule"] += (" || funnel: see C04/C09 (one case = tree, window, batches, plugin scripts); relevant to C03 = the engine called Source.Ack "
                 "with an empty position list")
