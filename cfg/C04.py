"""C04: acks reach each source in read order."""
import os, sys
sys.path.insert(0, os.path.dirname(__file__))
from stream_jobs import JOBS as _SJ, LEAN_MODULES as _SM, RULE as _SR, ASSUMPTIONS as _SA
from funnel_common import arbiter_job, funnel_job, funnel_conc_job, funnel_shared_job, FUNNEL_RULE, FUNNEL_ASSUME

PROP = {
    "lean_modules": ["ConduitModel.Props.PassC04", "ConduitModel.Props.C04", "ConduitModel.Props.ArbiterProps"],
    "jobs": [funnel_job("C04"), funnel_conc_job("C04"), funnel_shared_job("C04"), arbiter_job()],
    "rule": FUNNEL_RULE,
    "strength": 'arbiter release order and loop partition: full; whole pass: partial (see note)',
    "assumptions": FUNNEL_ASSUME,
}
PROP["jobs"] += _SJ["C04"]
PROP["lean_modules"] += _SM["C04"]
PROP["rule"] += " || v1: " + _SR
PROP["assumptions"] = list(PROP["assumptions"]) + _SA

PROP["jobs"].append({"harness": "h_srcack", "comp": "srcack", "driver": "srcack", "n_quick": 300, "n_thorough": 12000, "timeout": 2400,
                     "fail_tag": "C04",
                     "why": "the acks the real connector.Source delivers to the plugin stream (deferred-ack queue, retries, teardown) are not the "
                            "engine's acks in order without gap or repeat (monitor clause C04:ack-sequence-gap / order), or the trace is not a behaviour of the M3 model"})
PROP["lean_modules"].append("ConduitModel.Props.C02")

META = {
    "text": 'Lean 4 theorems: the multiAckNacker releases exactly the in-order prefix 0..released-1, each position once, released monotone, for every vote sequence (C04_ma_release_prefix/_next); the tainted loop hands out sub-batches left to right covering the batch exactly once (C04_groups_in_read_order, _strictly_advance). Whole-pass ack order is decided by the C04 monitor (acks = exact prefix of records read; overlapping Source.Ack calls flagged) on every implementation trace incl. real concurrent fan-out with a slow source, and by equality with the model.',
    "note": 'PARTIAL: the composition of these leaf theorems with the task recursion of Worker.doTaskAttempt/doNextTask (whole-pass statement) is validated by equality of event logs against the executable Lean model and by the Lean-defined trace monitor on every implementation trace (serial fan-out orders, real concurrent fan-out, several sources into one shared sink), not proved. v1 (default engine) part: Props/*Stream when merged. Trusted: Lean kernel, factgen, harness/fakes, Go runtime.',
    "technique": 'Lean 4 invariant proofs (release-prefix, partition law) + model/implementation trace equality + Lean-defined trace monitor',
}
