"""C04: acks reach each source in read order."""
import os, sys
sys.path.insert(0, os.path.dirname(__file__))
from stream_jobs import JOBS as _SJ, LEAN_MODULES as _SM, RULE as _SR, ASSUMPTIONS as _SA
from funnel_common import arbiter_job, funnel_job, funnel_conc_job, funnel_shared_job, FUNNEL_RULE, FUNNEL_ASSUME

PROP = {
    "lean_modules": ["ConduitModel.Props.PassC04", "ConduitModel.Props.C04", "ConduitModel.Props.ArbiterProps"],
    "jobs": [funnel_job("C04"), funnel_conc_job("C04"), funnel_shared_job("C04"), arbiter_job()],
    "rule": FUNNEL_RULE,
    "strength": 'arbiter release order and loop partition: full; whole pass: partial (see note)',
    "assumptions": FUNNEL_ASSUME,
}
PROP["jobs"] += _SJ["C04"]
PROP["lean_modules"] += _SM["C04"]
PROP["rule"] += " || v1: " + _SR
PROP["assumptions"] = list(PROP["assumptions"]) + _SA

PROP["jobs"].append({"harness": "h_srcack", "comp": "srcack", "driver": "srcack", "n_quick": 300, "n_thorough": 3000, "timeout": 2400,
                     "fail_tag": "C04",
                     "why": "the acks the real connector.Source delivers to the plugin stream (deferred-ack queue, retries, teardown) are not the "
                            "engine's acks in order without gap or repeat (monitor clause C04:ack-sequence-gap / order), or the trace is not a behaviour of the M3 model"})
PROP["lean_modules"].append("ConduitModel.Props.C02")

PROP["lean_modules"].append("ConduitModel.Props.MonSound")

# arch-v2 shared sink (N source workers on one shared TaskNode subtree): Model/SharedSink.lean, Props/SharedSink.lean
# (C04_v2_shared_*), Facts/SharedSink.lean, trace replay of the funnelshared runs (driver component sharedsink)
from funnel_common import funnel_sharedsink_job, SHAREDSINK_MODULES, SHAREDSINK_STRENGTH, SHAREDSINK_ASSUME
PROP["lean_modules"] += SHAREDSINK_MODULES
PROP["jobs"].append(funnel_sharedsink_job("C04"))
PROP["strength"] += SHAREDSINK_STRENGTH
PROP["assumptions"] = list(PROP["assumptions"]) + SHAREDSINK_ASSUME

META = {
    "text": "Lean 4 theorems. v2: the WHOLE-PASS theorem C04_v2_pass_acks_prefix (every task tree incl. nested fan-out and split runs, every fuel, plugin script, DLQ config, fan-out order and outcome: the positions acked to the source are a prefix of the batch's positions; equal to the batch when the pass returns ok), built on C04_ma_release_prefix/_next (multiAckNacker releases exactly the in-order prefix for every vote order) and the loop partition law (C04_groups_in_read_order). Connector: C02_delivered_fifo/_prefix (deferred-ack queue delivers in order, gap-free unless an ack was dropped, then nothing later is delivered). v1 (default engine): the product model Flow x Ack of pkg/lifecycle/stream is proved to satisfy the property's monitor for every topology and every event list (C04_v1_ack_sequence_is_prefix, C04_v1_fail_latch); the real node graph is tied by trace acceptance (`pipe`: every recorded trace must be a behaviour of the model; internal events are reconstructed and each is checked by the model's step). Ties: funnel event-log equality + monitors on concurrent / multi-source / slow-source runs, arbiter equality, pipe and srcack trace acceptance.",
    "note": 'Proved about the models (v2 pass: one pass, multi-batch loop by correspondence). Trusted: correspondence sampling, fakes for plugins, Go runtime/channel semantics, semaphore.Simple as FIFO ticket lock (v1).',
    "technique": 'Lean 4 whole-pass Hoare-style proof (v2), event-system invariants (v1, connector) + trace equality / acceptance against the real code',
}
META["text"] += ' Shared sink: C04_v2_shared_stream_clean_when_free and _clean_subpass_consumed_all (a sub-pass starts on an empty ack stream and returns nil only after consuming every ack of its own writes), for every event list of Model/SharedSink.lean; real concurrent runs replayed through the model (sharedsink).'
