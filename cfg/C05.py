"""C05: every destination receives each source's records in read order."""
import os, sys
sys.path.insert(0, os.path.dirname(__file__))
from stream_jobs import JOBS as _SJ, LEAN_MODULES as _SM, RULE as _SR, ASSUMPTIONS as _SA
from funnel_common import funnel_job, funnel_conc_job, funnel_shared_job, FUNNEL_RULE, FUNNEL_ASSUME, tree_jobs, TREE_MODULES, TREE_RULE, TREE_ASSUME

PROP = {
    "lean_modules": ["ConduitModel.Props.C05"],
    "jobs": [funnel_job("C05"), funnel_conc_job("C05"), funnel_shared_job("C05")],
    "rule": FUNNEL_RULE,
    "strength": "v2: proved — the tainted loop hands out the batch left to right exactly once (all status vectors); pass-level order "
                "to each destination is decided by the monitor on every implementation trace + equality with the model (partial: composition not proved). v1: see Props/C05Stream when merged",
    "assumptions": FUNNEL_ASSUME,
}
PROP["jobs"] += _SJ["C05"]
PROP["lean_modules"] += _SM["C05"]
PROP["rule"] += " || v1: " + _SR
PROP["assumptions"] = list(PROP["assumptions"]) + _SA

PROP["lean_modules"].append("ConduitModel.Props.MonSound")

# the trees the arch-v2 service builds are the trees Props/MonSound covers (Props/TreeShape, Props/TreeBuilt)
PROP["jobs"] += tree_jobs()
PROP["lean_modules"] += TREE_MODULES
PROP["rule"] += TREE_RULE
PROP["assumptions"] = list(PROP["assumptions"]) + TREE_ASSUME
# arch-v2 shared sink (N source workers on one shared TaskNode subtree): Model/SharedSink.lean, Props/SharedSink.lean
# (C05_v2_shared_*), Facts/SharedSink.lean, trace replay of the funnelshared runs (driver component sharedsink)
from funnel_common import funnel_sharedsink_job, SHAREDSINK_MODULES, SHAREDSINK_STRENGTH, SHAREDSINK_ASSUME
PROP["lean_modules"] += SHAREDSINK_MODULES
PROP["jobs"].append(funnel_sharedsink_job("C05"))
PROP["strength"] += SHAREDSINK_STRENGTH
PROP["assumptions"] = list(PROP["assumptions"]) + SHAREDSINK_ASSUME

META = {
    "text": 'Lean 4 theorems for every status vector: the sub-batches the arch-v2 worker hands to the next task are non-empty, contiguous, in index order and cover the batch exactly once (C05_subbatches_partition / _cover / _groups_progress). The executable model of the whole pass (Model/Funnel.lean) is tied to the real funnel.Worker by equality of event logs on generated topologies/scripts, and the C05 monitor (per destination: roots non-decreasing, no record written twice) is evaluated on every implementation trace. v1: every node protocol preserves per-source order for all schedules (C05_v1_*), tied by `pipe` trace acceptance.',
    "note": 'v1: proved for the product model (C05_v1_node_protocols_preserve_order, _writes_in_read_order, _filtered_absent). v2: loop partition proved; Monitor soundness is PROVED for the model for linear and one-level fan-out trees — the only shapes lifecycle-poc builds (source → processors → fan-out → per-branch processors → destination): PROVED for the model of the builder (Props/TreeShape workerTree_fan1/_kind/_tasks/_dests, monitor_sound_built; Props/TreeBuilt built_fan1/_kind/_dests/_nodup, buildWorkers_never_bug, monitor_sound_service: every tree of every configuration buildRunnablePipeline accepts; distinct task ids under IdSpaces = connector and processor ids do not meet, which the code does not check), the builder model tied to the real buildRunnablePipeline / buildSharedTail / AppendToEnd by the treeshape / appendtoend correspondence and Facts/TreeShape — RECORD SPLITTING INCLUDED (Props/MonSound: monitor_sound_linear, monitor_sound_fan1, the no-split forms monitor_sound_linear_nosplit / monitor_sound_nosplit_fan1 and the per-clause forms C01_v2_monitor_sound_*: every clause of the Lean trace monitor is silent on every run of the model, over multi-batch runs, any fuel/window/outcomes, under the decidable run hypotheses RootPreserving / FreshTags / sorted roots); for NESTED fan-out (a shape the engine API allows but the service never builds) the whole-pass claim rests on event-log equality with the model and on the monitor evaluated on every implementation trace (partial).',
    "technique": 'Lean 4 proof of the batch-partition law + model/implementation trace equality + Lean-defined trace monitor',
}
META["text"] += ' Shared sink: C05_v2_shared_per_root_source_order (in every shared root the visits of a source carry strictly increasing hand-off numbers, with M independently locked roots as with one), for every event list of Model/SharedSink.lean; doNextTask enters all roots (regenerated fact); real concurrent runs replayed through the model (sharedsink).'
