"""C06: check configuration (PROP) and MANIFEST texts (META)."""
PROP = {
    "lean_modules": ["ConduitModel.Props.C06", "ConduitModel.Facts.C06"],
    "jobs": [
        {"harness": "h_srcack", "comp": "srcstop", "driver": "srcack", "n_quick": 400, "n_thorough": 6000, "timeout": 2400,
         "relevant": lambda case: "fail:" in case["model"] or case["impl"] != "ok",
         "why": "a graceful stop (Source.Teardown, then WaitPersisted) at a random instant of a run of the real Source+Persister "
                "gives a trace M3 does not accept, or the C06 monitor fails at the return of Teardown (acks not all delivered, "
                "store != last acked, plugin not torn down exactly once, delivery after teardown, stop does not complete)"},
    ],
    "rule": "srcstop: 0-25 ops (acks, flush triggers, quiesce) then Teardown and WaitPersisted; 3/4 of the cases healthy with a "
            "teardown budget that cannot expire (strict post-condition at R1), 1/4 with store/send faults, held commits/sends and "
            "a 60 ms budget (timeouts may fire); non-trivial = commit + delivery + teardown in the trace",
    "strength": "source-side clauses: post-condition full under the explicit hypothesis ReachH (healthy environment, no Ack after "
                "Teardown); exactly-once teardown and no-delivery-after-teardown for every event list; node/worker-side clauses "
                "(in-flight messages, destinations, processors) are decided by the stream/funnel components",
    "assumptions": ["goroutine fairness and real-time bounds (10 s teardown budget) are not modelled: bounded waits are "
                    "nondeterministic timeout events",
                    "'store responds' is read as 'every flush succeeds' (F11 documents the other reading)"],
}

PROP["jobs"].append({"harness": "h_srcack", "comp": "srcnode", "driver": "srcack", "n_quick": 150, "n_thorough": 3000, "timeout": 2400,
                     "relevant": lambda case: "fail:" in case["model"] or case["impl"] != "ok",
                     "why": "the real connector.Source behind a real v1 stream.SourceNode (fake plugin handing out records on demand): runs "
                            "with records, graceful stop, restart from the store, stop again (also idle): the position the real Source.Stop "
                            "returns is not the last record handed out in that run, the node does not leave its loop (NH), or the trace "
                            "(Stop, control message, loop end, deferred Teardown, acks, commits) is not a run of M3 + read side"})
PROP["rule"] += ("; srcnode: 1-3 runs of one connector behind a real SourceNode, 0-4 records per run (0 = resumed run idle), flush triggers, "
                 "graceful stop of every run, restarts from the store in between; srcstop additionally has a stop-position shape "
                 "(records, Stop RPC, Teardown, restart, Stop idle or after k records)")
PROP["strength"] += ("; stop position / v1 SourceNode stop protocol (read-side layer rstep over M3): C06_stop_position_is_last_read, "
                     "C06_v1_source_node_ends, C06_v1_stop_no_deadlock, C06_v1_restart_idle_stop_ends for every event list of the code shape "
                     "'Source.Stop returns the plugin reply' (regenerated fact); the other shape hangs (C06_v1_stop_fallback_hangs)")
PROP["assumptions"] += ["plugin contract for the stop position: the Stop reply is the position of the last record the plugin handed out in "
                        "this run (empty if none), records come in read order after the opened position, none after Stop (the fake plugin "
                        "implements it; emit guard of rstep)"]

PROP["jobs"].append({"harness": "h_stream", "comp": "pipe", "n_quick": 400, "n_thorough": 6000, "timeout": 3000,
                     "why": "a run of the real v1 node graph with a graceful stop at a random instant hangs, panics, or its trace (writes, acks, "
                            "teardown-time nacks) is not a behaviour of the v1 pipeline model"})

PROP["lean_modules"].append("ConduitModel.Facts.Stream")
import os as _os, sys as _sys
_sys.path.insert(0, _os.path.dirname(__file__))
from funnel_common import funnel_stop_job
PROP["jobs"].append(funnel_stop_job("C06"))

# arch-v2 worker stop protocol: model Model/WorkerStop.lean, theorems Props/C06Worker.lean (C06_v2_*),
# statement-order facts Facts/C06Worker.lean, trace acceptance of the same funnelstop runs
PROP["lean_modules"] += ["ConduitModel.Props.C06Worker", "ConduitModel.Facts.C06Worker"]
PROP["jobs"].append({"harness": "h_funnel", "comp": "funnelstop", "driver": "workerstop", "n_quick": 1200, "n_thorough": 40000,
                     "fail_tag": "C06",
                     "why": "the recorded trace of a graceful Worker.Stop arriving at a random instant of a real funnel.Worker run (Read returns "
                            "R<k>/RE, pass events, source teardown T, Stop requested/returned SR/SD, Do returned Z) is not a run of the worker "
                            "stop model (reject@k: e.g. a pass or an ack after the teardown, a second Source.Teardown, Stop returning while a "
                            "pass is in flight), or the C06 post-condition Drained fails in a model state compatible with the trace"})

PROP["rule"] += ("; funnelstop (workerstop): the same funnel cases with >= 4 batches and a graceful Worker.Stop fired after 1-14 trace events "
                 "(also right after a Read returned, random yields), the whole trace replayed through the worker stop model")
PROP["strength"] += ("; arch-v2 worker (C06_v2_*): for every event list of the stop model (every interleaving of Stop's statements with the "
                     "Do loop, any batches / Read outcomes / pass behaviour allowed by the C04 pass theorems): Drained at and after the return "
                     "of Stop, exactly-once teardown, no ack after teardown, deadlock freedom with a decreasing variant; lock fairness, a "
                     "cancelled context and a failing Source.Teardown are not modelled")
PROP["assumptions"] += ["arch-v2 worker: a running pass eventually ends; Go's channel hand-off (a released processingLock slot goes to the "
                        "blocked Stop) is not modelled: the variant is non-increasing except when the reader re-takes the free lock first",
                        "arch-v2 worker: one Stop call, context never cancelled, Source.Teardown succeeds"]

META = {
    "text": "Lean 4: for every healthy run of M3 (all interleavings of acks, flush triggers, callbacks, delivery retries and the "
            "statements of Source.Teardown), when Teardown has returned nil: pending and delivery queue empty, every Ack of the "
            "incarnation delivered in order, nothing dropped, store = last acked, plugin torn down exactly once, no delivery "
            "possible afterwards (C06_stop_drained); exactly-once teardown and no delivery after plugin teardown for every event "
            "list. Teardown statement order is a regenerated call-order fact; traces of real stops are accepted by the model. "
            "arch-v2 worker (Model/WorkerStop.lean, statement-level interleaving of Worker.Stop with the Do loop): C06_v2_stop_drained "
            "(no pass in flight at/after the return of Stop, ok batches fully acked before the teardown, concurrently read batch discarded "
            "untouched), C06_v2_teardown_exactly_once, C06_v2_no_ack_after_teardown, C06_v2_stop_no_deadlock / _completes (variant) for every "
            "event list; statement order (lock before stop check, Stop: lock-flag-teardown, once-guard) regenerated from worker.go; real "
            "Worker.Stop traces replayed through the model (workerstop).",
    "note": "Proved about the model under explicit hypotheses; F11 (failed final flush => WaitPersisted never returns) is proved "
            "of the model (C06_F11_stop_and_wait_hangs), confirmed on the code and documented as outside the healthy hypothesis.",
    "technique": "Lean 4 invariant proofs over an event system with a program counter for Teardown + trace acceptance of real stops",
}
