"""C07: check configuration (PROP) and MANIFEST texts (META)."""
import os, sys
sys.path.insert(0, os.path.dirname(__file__))
from stream_jobs import JOBS as _SJ, LEAN_MODULES as _SM, RULE as _SR, ASSUMPTIONS as _SA
from funnel_common import arbiter_job, funnel_job, funnel_conc_job, funnel_shared_job, FUNNEL_RULE, FUNNEL_ASSUME, tree_jobs, TREE_MODULES, TREE_RULE, TREE_ASSUME

PROP = {
    "lean_modules": ["ConduitModel.Props.C07", "ConduitModel.Facts.C07", "ConduitModel.Props.ArbiterProps", "ConduitModel.Props.WorkerProps"],
    "jobs": [
        {"harness": "h_pure", "comp": "dlqwindow", "n_quick": 20000, "n_thorough": 700000,
         "why": "verdicts of the real dlqWindow (v1 stream / v2 funnel) differ from the model that is proved equal to the C07 window specification"},
        funnel_job("C07"), funnel_conc_job("C07"), funnel_shared_job("C07"), arbiter_job(),
        {"harness": "h_pure", "comp": "dlqcfg", "driver": "dlqwindow", "n_quick": 6000, "n_thorough": 200000,
         "why": "the nack window that the lifecycle service of an engine constructs for a pipeline (v1 buildDLQHandlerNode -> "
                "DLQHandlerNode, v2 buildDLQ -> funnel.NewDLQ) does not decide like the window model instantiated with the "
                "pipeline's CONFIGURED WindowSize / WindowNackThreshold (e.g. a configured size 0 = no limit is rewritten)"},
    ],
    "rule": "dlqwindow: (size, threshold, outcome sequence | batch list) from a seeded generator biased to small windows; "
            "a case is non-trivial when at least one nack was refused; distinct = distinct case lines. "
            "dlqcfg: DLQ configurations (0/0, 0/k, 1/0, n/k around the boundary) given to the real service-level builders of both "
            "engines through verif hooks, the constructed window driven with an outcome sequence / batch list and compared with the "
            "model for the configured parameters; non-trivial when the sequence holds a nack. " + FUNNEL_RULE,
    "strength": 'window clause: full (all sizes, thresholds, histories, partitions); fan-out nack arbitration: full; pipeline-level DLQ clauses: partial',
    "assumptions": ["the ring buffer is only driven through Ack/Nack (no concurrent access: it is owned by one goroutine in both engines)"],
}

PROP["jobs"] += _SJ["C07"]
PROP["lean_modules"] += _SM["C07"]
PROP["rule"] += " || v1: " + _SR
PROP["assumptions"] = list(PROP["assumptions"]) + _SA

PROP["lean_modules"].append("ConduitModel.Props.MonSound")

# the trees the arch-v2 service builds are the trees Props/MonSound covers (Props/TreeShape, Props/TreeBuilt)
PROP["jobs"] += tree_jobs()
PROP["lean_modules"] += TREE_MODULES
PROP["rule"] += TREE_RULE
PROP["assumptions"] = list(PROP["assumptions"]) + TREE_ASSUME

META = {
    "text": "Lean 4 theorems, for every window size, threshold, outcome history and batch partition: the v1 ring buffer refines the abstract 'last size outcomes' specification (C07_window_refines), v2 batches decide exactly as v1 record-by-record (C07_v1_v2_same_decisions), size 0 removes the limit, threshold 0 tolerates none, refusal is sticky; under fan-out every position is released at most once and a nack vote on a non-terminal position wins (C07_ma_nack_once, C07_ma_nack_wins). Tied to the real dlqWindow of both engines by differential runs, to the API's config guards by regenerated facts, and the pipeline-level clauses (DLQ exactly once, ack only after confirmed DLQ write, DLQ in source order) by the C07 monitor on funnel traces. v2 worker level: C07_nack_log_shape, _dlq_then_ack, _failed_dlq_write_never_acks, _window_refusal_stops, _dlq_record_is_original (all states, scripts, windows). v1: C07_v1_dlq_once_in_source_order, _dlq_then_ack, _failed_dlq_write_never_acks, _rejected_unacked for the product model.",
    "note": 'Window clause: full. Pipeline-level clauses for v2: PARTIAL: the composition of these leaf theorems with the task recursion of Worker.doTaskAttempt/doNextTask (whole-pass statement) is validated by equality of event logs against the executable Lean model and by the Lean-defined trace monitor on every implementation trace (serial fan-out orders, real concurrent fan-out, several sources into one shared sink), not proved. v1 (default engine) part: Props/*Stream when merged. Trusted: Lean kernel, factgen, harness/fakes, Go runtime. Monitor soundness is PROVED for the model for linear and one-level fan-out trees — the only shapes lifecycle-poc builds (source → processors → fan-out → per-branch processors → destination) — RECORD SPLITTING INCLUDED (Props/MonSound: monitor_sound_linear, monitor_sound_fan1, the no-split forms monitor_sound_linear_nosplit / monitor_sound_nosplit_fan1 and the per-clause forms C01_v2_monitor_sound_*: every clause of the Lean trace monitor is silent on every run of the model, over multi-batch runs, any fuel/window/outcomes, under the decidable run hypotheses RootPreserving / FreshTags / sorted roots); for NESTED fan-out (a shape the engine API allows but the service never builds) the whole-pass claim rests on event-log equality with the model and on the monitor evaluated on every implementation trace (partial).',
    "technique": 'Lean 4 refinement proof (ring buffer -> sliding-window spec) + arbiter invariants + differential correspondence + trace monitor',
}
