"""C08: filter/split/error/short results keep accounting exact."""
import os, sys
sys.path.insert(0, os.path.dirname(__file__))
from funnel_common import arbiter_job, funnel_job, funnel_conc_job, funnel_shared_job, FUNNEL_RULE, FUNNEL_ASSUME, tree_jobs, TREE_MODULES, TREE_RULE, TREE_ASSUME

PROP = {
    "lean_modules": ["ConduitModel.Props.BatchProps", "ConduitModel.Props.ArbiterProps"],
    "jobs": [funnel_job("C08"), funnel_conc_job("C08"), funnel_shared_job("C08"), arbiter_job()],
    "rule": FUNNEL_RULE,
    "strength": 'batch bookkeeping and run ledger: full; whole pass: partial',
    "assumptions": FUNNEL_ASSUME,
}
PROP["lean_modules"].append("ConduitModel.Props.MonSound")

PROP["jobs"].append({"harness": "h_stream", "comp": "pipe", "n_quick": 400, "n_thorough": 6000, "timeout": 3000,
                     "why": "v1 clause of C08 (nothing a processor returns can change which position is acknowledged; single-record contract): a trace of "
                            "the real v1 node graph is not a behaviour of the pipeline model (processor position-change refusal, source acks carry the read position)"})
PROP["lean_modules"] += ["ConduitModel.Props.C01Stream", "ConduitModel.Props.C09Stream", "ConduitModel.Facts.Stream"]
from stream_jobs import condmerge_job
PROP["jobs"].append(condmerge_job(4000, 150000))

# the trees the arch-v2 service builds are the trees Props/MonSound covers (Props/TreeShape, Props/TreeBuilt)
PROP["jobs"] += tree_jobs()
PROP["lean_modules"] += TREE_MODULES
PROP["rule"] += TREE_RULE
PROP["assumptions"] = list(PROP["assumptions"]) + TREE_ASSUME

META = {
    "text": 'Lean 4 theorems for every batch and every plugin reply: all Batch mutators preserve the alignment/filter-count invariant (C08_aligned_*), flag/nack/SetRecords marks hit exactly the physical index of the addressed active record and nothing else (C08_mark_hits_right_record*, C08_setRecords_hits_right_record, C08_dest_marks_right_record), the split-run ledger releases a run exactly once when all live pieces voted, nack iff some piece failed (C08_run_released_once*, C08_split_all_before_ack, C08_split_nack_only_after_failure); agreement lemmas tie the pure restatements to the monadic model. Whole-pass accounting is decided by equality with the model and the monitors.',
    "note": 'Batch bookkeeping and run ledger proved for all inputs; Monitor soundness is PROVED for the model for linear and one-level fan-out trees — the only shapes lifecycle-poc builds (source → processors → fan-out → per-branch processors → destination): PROVED for the model of the builder (Props/TreeShape workerTree_fan1/_kind/_tasks/_dests, monitor_sound_built; Props/TreeBuilt built_fan1/_kind/_dests/_nodup, buildWorkers_never_bug, monitor_sound_service: every tree of every configuration buildRunnablePipeline accepts; distinct task ids under IdSpaces = connector and processor ids do not meet, which the code does not check), the builder model tied to the real buildRunnablePipeline / buildSharedTail / AppendToEnd by the treeshape / appendtoend correspondence and Facts/TreeShape — RECORD SPLITTING INCLUDED (Props/MonSound: monitor_sound_linear, monitor_sound_fan1, the no-split forms monitor_sound_linear_nosplit / monitor_sound_nosplit_fan1 and the per-clause forms C01_v2_monitor_sound_*: every clause of the Lean trace monitor is silent on every run of the model, over multi-batch runs, any fuel/window/outcomes, under the decidable run hypotheses RootPreserving / FreshTags / sorted roots); for NESTED fan-out (a shape the engine API allows but the service never builds) the whole-pass claim rests on event-log equality with the model and on the monitor evaluated on every implementation trace (partial).',
    "technique": 'Lean 4 data-structure invariants and exact-effect theorems + model/implementation trace equality + Lean-defined trace monitor',
}
