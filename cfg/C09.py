"""C09: no reply shape can crash or wedge the engine."""
import os, sys
sys.path.insert(0, os.path.dirname(__file__))
from stream_jobs import JOBS as _SJ, LEAN_MODULES as _SM, RULE as _SR, ASSUMPTIONS as _SA
from funnel_common import funnel_job, funnel_conc_job, funnel_shared_job, FUNNEL_RULE, FUNNEL_ASSUME

PROP = {
    "lean_modules": ["ConduitModel.Props.BatchProps"],
    "jobs": [funnel_job("C09"), funnel_conc_job("C09"), funnel_shared_job("C09")],
    "rule": FUNNEL_RULE,
    "strength": 'task-level totality: full; whole pass and v1: partial',
    "assumptions": FUNNEL_ASSUME,
}
PROP["jobs"] += _SJ["C09"]
PROP["lean_modules"] += _SM["C09"]
PROP["rule"] += " || v1: " + _SR
PROP["assumptions"] = list(PROP["assumptions"]) + _SA

META = {
    "text": "Lean 4 totality theorems: under the batch invariant no mutator indexes out of range (C09_mutators_total, guards shown necessary), ProcessorTask.Do and DestinationTask.Do return ok-with-invariant or an error for ANY reply list (any length, kinds, positions, errors) and never panic (C09_procDo_total, C09_destDo_total, *_never_panics), the retry recursion is bounded (C09_retry_terminates). Every generated case (incl. a malformed reply stream) must end without panic/hang in the real engine; outcome class and event log equal the model's. v1: C09_v1_no_panic, _every_destination_reply_handled, _every_processor_reply_handled for the product model; RunnableProcessor condition merge C09_v1_cond_merge_aligned / _never_panics (all match patterns and reply lengths), tied by `condmerge` equality with the real RunnableProcessor.Process.",
    "note": 'v2 engine: task-level totality proved; pass-level by correspondence. v1 engine and RunnableProcessor condition merge: Props/C09Stream when merged. PARTIAL: the composition of these leaf theorems with the task recursion of Worker.doTaskAttempt/doNextTask (whole-pass statement) is validated by equality of event logs against the executable Lean model and by the Lean-defined trace monitor on every implementation trace (serial fan-out orders, real concurrent fan-out, several sources into one shared sink), not proved. v1 (default engine) part: Props/*Stream when merged. Trusted: Lean kernel, factgen, harness/fakes, Go runtime.',
    "technique": 'Lean 4 totality proofs (Except-valued model, partial indexing) + differential correspondence incl. malformed reply streams',
}
