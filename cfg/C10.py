"""C10: check configuration (PROP) and MANIFEST texts (META)."""
_why = ("a recorded trace of the real lifecycle service (status writes, plugin open/teardown, control-call results, failure-handler "
        "events) is not a run of model M5, or violates a C10 monitor (restart after stop / after a fatal error, fatal not degraded, "
        "back-off outside [MinDelay, MaxDelay], more restarts in the window than MaxRetries, wrong final stopped status)")
PROP = {
    "lean_modules": ["ConduitModel.Props.C10", "ConduitModel.Facts.C10"],
    "jobs": [
        {"harness": "h_lifecycle", "comp": "lifev2", "driver": "lifecycle", "args": ["-focus", "c10"],
         "n_quick": 110, "n_thorough": 3000, "timeout": 2400, "why": _why},
        {"harness": "h_lifecycle", "comp": "lifev1", "driver": "lifecycle", "args": ["-focus", "c10"],
         "n_quick": 110, "n_thorough": 3000, "timeout": 2400, "why": _why},
    ],
    "rule": "lifev1/lifev2: seeded histories of Start/Stop(graceful|force)/StopAndWait/StopAll/WaitPipeline calls against the REAL "
            "lifecycle.Service / lifecyclepoc.Service (real pipeline, connector, processor services on an in-memory DB, in-process fake "
            "plugins) with injected fatal/transient source failures, destination-teardown failures, open failures, store failures, and "
            "log-point gates that force interleavings (stop during the back-off, second stop during the drain, Start inside a terminating "
            "run's tail, …); back-off scaled to 25–60 ms. A case is non-trivial when the trace contains a recovery, a degradation, a "
            "force stop, a gate-forced interleaving or a wait; distinct = distinct case lines (script + recorded trace)",
    "strength": "classification, no-restart-after-fatal, attempt and delay bounds: full (all event lists, both engines, all fix flags); "
                "stopped-stays-stopped: v2 with the stop fixes under hypStop, counterexamples for the unchanged tree and for v1",
    "assumptions": [
        "atomic-step granularity of M5 (DESIGN §6): one step = one map/status operation or one plugin call",
        "jpillora/backoff yields a duration in [Min, Max]; real timers fire no earlier than asked (monitored with ms slack)",
        "cerrors.IsFatalError is the predicate `Cause.isFatal` (decided by C20)",
    ],
}

import re as _re
def _fatal_differs(case):
    a = _re.search(r"fatal=(\d)", case["impl"]); b = _re.search(r"fatal=(\d)", case["model"])
    return bool(a and b and a.group(1) != b.group(1)) or (("=> ok" in case["impl"]) != ("=> ok" in case["model"]))
PROP["jobs"].append({"harness": "h_funnel", "comp": "funnel", "n_quick": 4000, "n_thorough": 100000, "relevant": _fatal_differs,
                     "why": "the fatal / transient classification (or ok vs error) of the error a real funnel.Worker pass ends with differs from the "
                            "model's for the same plugin scripts: the lifecycle service would degrade where it should recover or vice versa (C10 cause classification)"})

META = {
    "text": "Lean 4 theorems over the lifecycle event system M5 (both engines, every event list = every interleaving of control calls, "
            "start-up, node failures, cleanup goroutines, recovery timers and store failures): a fatal tomb reason is classified Degraded "
            "with that cause and a run on the recovery path always classified a non-fatal error (C10_fatal_degrades, "
            "C10_fatal_never_restarts); pending retry timers per pipeline never exceed MaxRetries nor the attempt counter, exhausted "
            "retries degrade with a fatal cause, every restart is scheduled in [MinDelay, MaxDelay] after StatusRecovering and happens no "
            "earlier than MinDelay (C10_transient_restart_bounds, …); a stopped pipeline is never restarted for engine v2 with the two "
            "proposed stop fixes (C10_user_or_shutdown_stop_never_restarted_partial), with machine-checked counterexamples for the "
            "unchanged tree. The model is tied to the real services by trace acceptance + monitors on generated histories and by "
            "call-order / guard facts regenerated from both service.go files; the fix-dependent behaviours are model parameters "
            "regenerated from the source.",
    "note": "Proved about the model; the code is tied by correspondence (finite sample of traces; acceptance = every observed event is an "
            "enabled step) and regenerated facts. 'Stopped stays stopped' is FALSE on the unchanged tree (findings: Stop during the "
            "recovery back-off in both engines, repeated graceful Stop in v2, v1 has no intentional-stop marker / shutdown gate) and on "
            "v1 a fatal failure can be finalized UserStopped (tomb bookkeeping race); fixes proposed as diffs, v1 recovery findings "
            "recorded in known_findings.json. The 'within any window' bound is proved as a bound on pending decrement timers, not on "
            "wall-clock windows. Trusted: Lean kernel, factgen, harness, Go runtime, tomb.v2, backoff library. Status: F9 (v2), F17, F18, F21 are repaired in /repo; the v1 stop-marker findings, overlapping-starts, stop-during-nested-start, v1 graceful-stop deadlock and v2-start-racing-recovery-finalisation stay recorded in known_findings.json and are reported as KNOWN-FINDING lines.",
    "technique": "Lean 4 invariant proofs over an event-system model + trace acceptance / monitors against the real lifecycle services",
}
