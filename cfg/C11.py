"""C11: check configuration (PROP) and MANIFEST texts (META)."""
_why = ("a recorded trace of the real lifecycle service is not a run of model M5 (e.g. Stop/WaitPipeline answered for another run than "
        "the published one, a status written that no cleanup arm writes) or violates a C11 monitor (two live runs, live run under a "
        "non-running status, Stop refused on a running pipeline, status Running without a run, a control call that never returns)")
PROP = {
    "lean_modules": ["ConduitModel.Props.C11", "ConduitModel.Facts.C11"],
    "jobs": [
        {"harness": "h_lifecycle", "comp": "lifev2", "driver": "lifecycle", "args": ["-focus", "c11"],
         "n_quick": 110, "n_thorough": 3000, "timeout": 2400, "why": _why},
        {"harness": "h_lifecycle", "comp": "lifev1", "driver": "lifecycle", "args": ["-focus", "c11"],
         "n_quick": 110, "n_thorough": 3000, "timeout": 2400, "why": _why},
    ],
    "rule": "as C10, generator biased to publication races: a user Start inside a terminating run's cleanup tail (between its terminal "
            "status write and its map delete, forced with a gate on the 'pipeline stopped' log line), a user Start overlapping the nested "
            "Start of a recovery, overlapping WaitPipeline calls across failure/stop/restart, UpdateStatus failures; non-trivial as C10",
    "strength": "at-most-one-live-run, resources released / restartable, wait-returns-own-result, publication order: full; "
                "published-when-running, status-converges, no-wedge: NOT proved in general (counterexamples on the unchanged tree; local "
                "progress of the cleanup goroutine proved)",
    "assumptions": [
        "atomic-step granularity of M5; races inside csync.Map / below one model step are outside the proof",
        "the connector guards of one pipeline are acquired atomically per run (multi-connector partial acquisition is folded)",
    ],
}

META = {
    "text": "Lean 4 theorems over M5 for every event list and both engines: at most one run holds the connector guards "
            "(C11_at_most_one_live_run), a run whose goroutines returned holds none and the next Start's build is enabled "
            "(C11_resources_released, C11_restartable), WaitPipeline binds to the published run (or the recorded terminal error) and "
            "returns that run's tomb reason only after all its goroutines returned (C11_wait_binds, C11_wait_returns_own_result), the "
            "terminal error is recorded before the map delete, publication precedes the StatusRunning write; publication and tail orders, "
            "Start/Stop guards and the StopAndWait sequence are regenerated from the source (Facts/C11). Traces of the real services are "
            "accepted against the model and monitored.",
    "note": "PARTIAL: 'reported running ⇒ the map resolves the live run', 'status converges' and 'no wedge' are not proved in general and "
            "are false on the unchanged tree: v2 removes the map entry by key (blind delete) so a Start that lands in a terminating run's "
            "tail leaves a live run unreachable by Stop (fix proposed), a user Start overlapping a recovery's nested Start leaves a live "
            "run under status Degraded in both engines, and v1 Stop(graceful) racing a finishing source node deadlocks "
            "(InjectControlMessage holds the node lock); the last two are recorded in known_findings.json. Only local progress of the "
            "cleanup goroutine is proved (C11_no_wedge_partial). Trusted: Lean kernel, factgen, harness, Go runtime, tomb.v2. Status: the blind delete (F17) and the source leak on a failed worker open (F21) are repaired in /repo; recorded and reported as KNOWN-FINDING: overlapping starts, v1 graceful-stop deadlock, v1 stop-marker findings, v2-start-racing-recovery-finalisation, and the processor-reservation leaks of a failed build (both engines) and of a failed open phase (v2), with proposed fixes in proposed_fixes/. The open phase is un-folded in Model/LifecycleOpen (C11_failed_start_releases_all), the build step in Model/Rebuild (Props/C11Build).",
    "technique": "Lean 4 invariant proofs over an event-system model + trace acceptance / monitors against the real lifecycle services",
}

# build step of Start: processor reservations over build attempts / run ends / repairs (Props/C11Build, Facts/C11Build)
PROP["jobs"].append({"harness": "h_tree", "comp": "rebuild", "n_quick": 1500, "n_thorough": 40000, "fail_tag": "C11",
                     "why": "a recorded sequence of buildRunnablePipeline attempts, real Starts with injected Open failures of processors / connector plugins (v2 open phase "
                            "of runPipeline with its rollback; v1 nodes), run ends (Worker.Close + Sink.Close / ProcessorNode.Run exits; Stop + WaitPipeline) and "
                            "configuration repairs against the real lifecycle service (v1 pkg/lifecycle, v2 pkg/lifecycle-poc) with the real "
                            "connector / processor services, observing after every step which processor instances are reserved (processor.Service.Update "
                            "refuses them), is not a run of Model/Rebuild (reject@k), or violates the C11 monitor noLeakAfterFailedBuild: a failed build "
                            "keeps reservations (KNOWN FINDING in both engines), a failed open phase keeps the reservations of the processors it never opened (KNOWN FINDING, v2), something stays reserved after every run ended, a repaired configuration "
                            "does not build"})
PROP["lean_modules"] += ["ConduitModel.Props.C11Build", "ConduitModel.Facts.C11Build"]
