"""C12: check configuration (PROP) and MANIFEST texts (META)."""
_why = ("a force stop is lost or crashes when it races node start-up (latch), or a trace of the real lifecycle service shows a "
        "force-stopped pipeline that is not Degraded(ErrForceStop), is restarted, acks a record the destination did not write, or "
        "restarts from a position beyond the written records")
PROP = {
    "lean_modules": ["ConduitModel.Props.C12", "ConduitModel.Facts.C12"],
    "jobs": [
        {"harness": "h_lifecycle", "comp": "forcestop", "n_quick": 4000, "n_thorough": 200000,
         "why": "the real stream.forceStopper and the latch model disagree on which connector contexts are cancelled"},
        {"harness": "h_lifecycle", "comp": "lifev2", "driver": "lifecycle", "args": ["-focus", "c12"],
         "n_quick": 90, "n_thorough": 2500, "timeout": 2400, "why": _why},
        {"harness": "h_lifecycle", "comp": "lifev1", "driver": "lifecycle", "args": ["-focus", "c12"],
         "n_quick": 90, "n_thorough": 2500, "timeout": 2400, "why": _why},
    ],
    "rule": "forcestop: sequences of start()/stop() calls on the real forceStopper (3/4 with exactly one start, as the nodes use it); "
            "non-trivial when both kinds occur. lifev1/lifev2: as C10 with force stops at random instants (right after Start before the "
            "nodes opened, during a graceful stop, during the back-off, inside a terminating run's tail), records flowing; monitors "
            "force-stop ⇒ Degraded without restart, no source ack without a destination write, restart position ≤ written prefix",
    "strength": "latch law: full (any number of stops before/after the single start); force stop ⇒ fatal tomb reason ⇒ Degraded, reason "
                "never replaced, never on the recovery path: full over M5; data-path clauses: monitored here, proved by C01/C03",
    "assumptions": [
        "plugins honour context cancellation (termination under uncancellable plugins is a runtime property)",
        "each force-stoppable node calls stopper.start() exactly once per Run (regenerated fact)",
    ],
}

PROP["jobs"].append({"harness": "h_stream", "comp": "pipe", "n_quick": 400, "n_thorough": 6000, "timeout": 3000,
                     "why": "data-path clauses of C12 on the v1 engine: a forced stop at a random instant (incl. during node start-up, with blocked "
                            "destination / DLQ fakes) makes the real node graph hang or panic, or produces a trace that is not a behaviour of the v1 "
                            "pipeline model (a record acknowledged to the source without destination / DLQ confirmation)"})
PROP["lean_modules"] += ["ConduitModel.Props.C01Stream", "ConduitModel.Facts.Stream"]

META = {
    "text": "Lean 4 theorems: the forceStopper latch cancels the node's connector context for every placement of any number of ForceStop "
            "calls around the single start() (C12_force_stop_latch); over M5 for both engines, a force stop reaching a run with a live tomb "
            "records FatalError(ErrForceStop) as the run's reason, the reason is kept along every continuation, the cleanup switch takes the "
            "Degraded arm with it, and no run on the recovery path ever classified a fatal error (C12_force_stop_records_fatal, "
            "_reason_kept, _degrades, C12_no_restart_after_fatal). Tied to the code by equality runs of the real forceStopper, trace "
            "acceptance of force stops at random instants against the real services, and regenerated shape/usage facts.",
    "note": "Proved about the models. The 'acks nothing undelivered' and 'resumes without a gap' clauses are only monitored here on "
            "lifecycle traces (fake destination acks every write); their proofs live in the data-path models (C01/C03). A force stop issued "
            "while the pipeline is Recovering acts on the dead run on the unchanged tree (finding F9: fix proposed for v2, recorded for v1). "
            "Termination with plugins that ignore cancellation is not claimed. Trusted: Lean kernel, factgen, harness, Go runtime.",
    "technique": "Lean 4 proofs (latch law by induction over call sequences; invariants over the lifecycle event system) + correspondence",
}
