"""C13: check configuration (PROP) and MANIFEST texts (META)."""
PROP = {
    "lean_modules": ["ConduitModel.Props.C13", "ConduitModel.Facts.C13"],
    "jobs": [
        {"harness": "h_procnode", "comp": "procnode", "n_quick": 8000, "n_thorough": 70000,
         "why": "a trace recorded from the real stream.ProcessorNode (Run loop + Reconfigure callers on their own goroutines, "
                "fake processors stamping their generation) is not accepted by the event system the C13 theorems are proved "
                "about, or a C13 monitor fails on it, or the implementation hung / panicked"},
        {"harness": "h_procnode", "comp": "procsvc", "n_quick": 3000, "n_thorough": 40000,
         "why": "a trace of the real lifecycle.Service.ReconfigureProcessor driving the real node (fresh RunnableProcessor per "
                "request around a fake plugin; requests cancelled before / after the run loop claimed them) is not accepted by the "
                "service-level event system (Model/ProcSvc: the wrapper does nothing with the runnable after node.Reconfigure), or the "
                "processor installed in the node was torn down by the API goroutine / a record was processed by a torn-down plugin"},
    ],
    "rule": "procnode: seeded scripts of harness operations (feed / gated feed / release with a result kind, Reconfigure with "
            "scripted open outcome and optional gated Open, cancel, await, pending probes, stop by ctx / closed input) executed "
            "against the real node with handshakes instead of sleeps; the case line is script | recorded trace; a case is "
            "non-trivial when a reconfigure processor was opened (ok or failing) with Process calls before and after it; "
            "distinct = distinct case lines",
    "strength": "full: all interleavings of any number of Reconfigure callers, cancellations, open outcomes, Process result kinds "
                "and loop endings (induction over event lists); liveness of an answer is not claimed (a request that meets an "
                "ended loop is never answered - theorem C13_after_exit_frozen documents it)",
    "assumptions": [
        "atomicity: one model step = one swapMu critical section, one channel operation or one call into a processor / ack handler",
        "the node is driven through Sub/Pub/Run/Reconfigure only (n.Processor is not written from outside: regenerated fact)",
        "each Reconfigure call brings a processor object not used before (lifecycle.Service.ReconfigureProcessor builds a fresh runnable)",
    ],
}

META = {
    "text": "Lean 4 theorems over an event system of stream.ProcessorNode (Run loop, Reconfigure, applyPendingSwap), for every "
            "interleaving of callers and loop: one configuration per record and the outcome sequence is the arrival sequence "
            "(C13_one_generation_per_record), configurations are contiguous in record order (C13_generation_monotone_in_record_order), "
            "n.Processor changes only in the successful-open step with no record held (C13_swap_only_at_record_boundary), open failure "
            "keeps the old processor and the caller gets the error (C13_open_fail_keeps_old, C13_open_fail_keeps_old_and_reports), a "
            "second request is rejected (C13_second_request_rejected), a cancelled request is withdrawn or completes "
            "(C13_cancel_withdraws_or_completes), Instance.running stays set until the final teardown (C13_running_flag_stable), "
            "each request is answered at most once and the loop never blocks answering, no processor leaks or is torn down twice. "
            "Tied to the code by statement-order / guard / capacity facts regenerated from processor.go and by trace acceptance of "
            "runs of the real node.",
    "note": "Proved about the model; the code is tied by regenerated facts and by acceptance of recorded traces (finite sample). "
            "Observed as-is behaviour, not a violation of the statement: Reconfigure on a node whose loop has ended blocks until the "
            "caller's context ends; a Send cut by ctx cancellation of a processed record continues the loop once. "
            "Trusted: Lean kernel, factgen, harness (incl. three read-only/marking hooks in stream/zz_verif_hooks.go), Go runtime.",
    "technique": "Lean 4 invariant proofs over all event lists + call-order facts + trace acceptance (subset construction over unobserved steps) against the real node",
}
