"""C14: check configuration (PROP) and MANIFEST texts (META)."""
PROP = {
    "lean_modules": ["ConduitModel.Props.C14", "ConduitModel.Facts.C14"],
    "jobs": [
        {"harness": "h_ctl", "comp": "crud", "n_quick": 20000, "n_thorough": 400000, "timeout": 3000,
         "why": "histories of management-API calls (valid and invalid arguments, one failing store operation per call) on the REAL "
                "orchestrator + services + fault-injecting in-memory DB: List/Get dumps, fresh services reloaded from the same DB and raw keys "
                "differ from the M6 model, or the C14 monitor (all-or-nothing, memory = store, references, guards) fails on the history"},
    ],
    "rule": "crud: history of 2-16 ops from a seeded generator that tracks live entities (mostly valid arguments, ~5% dangling ids, invalid "
            "names/plugins/settings/types, environment ops: status, FAILED status write followed by mutating calls, position, file-provisioned resources), failing store-op index 1-5 on one or "
            "several API ops; non-trivial = a store failure was hit or a running / file-provisioned guard refused; distinct = distinct case lines",
    "strength": "all-or-nothing: every op, argument, failing index, outside the F7 triggers (explicit table, shrinking with each repair); "
                "guards and memory=store-on-success: full; references: RefInv (exactly the harness monitor's refsB, C14_refsB_of_inv) is an "
                "inductive invariant of the orchestrator model - every op kind, every guard outcome, every failing store-operation index "
                "outside the F7 trigger table - for memory and for the store image (C14_refs_init / _step / _reachable), so with "
                "C14_mem_eq_store_partial memory = store = references is a theorem on every trigger-free history; inside the table the "
                "counterexample theorems stand",
    "assumptions": ["one failing store operation per API call; NewTransaction/Set/Commit are the failure points (reads never fail)",
                    "a sequential client: the in-memory transaction (snapshot + change set) is a working copy",
                    "no processor instance is live (`running` flag) while the API is used; timestamps are not content"],
}

META = {
    "text": "Lean 4 theorems over an executable model of the three services (every method = validate / mutate / store-write sub-steps) and "
            "the orchestrator (transaction + rollback stack): a frame theorem (rollbacks that exactly undo their steps make every failing "
            "store-operation index all-or-nothing) instantiated for all ten API operations (C14_atomic_partial), guards for every state and "
            "failing index (C14_guards), memory = store after every successful call and after failed ones outside the triggers, and reference "
            "consistency (pipelines list exactly their existing connectors/processors, those point back, lists duplicate-free; with unique "
            "pipeline names, fresh ids and field well-formedness: Inv) as an inductive invariant: holds initially, is preserved by every "
            "operation with every argument and failing index outside the triggers (C14_inv_step), hence on every trigger-free history for "
            "memory and for the store image (C14_refs_reachable). The triggers "
            "(where the code as found is NOT atomic) are an explicit table with kernel-evaluated counterexamples. Tied to the code by "
            "differential runs of the real orchestrator/services on a fault-injecting DB and by regenerated sub-step orders, guards and call orders.",
    "note": "Proved about the model; the code is tied by correspondence testing (finite sample) and regenerated facts. Reference consistency is "
            "proved as an inductive invariant (no longer assumed) and still monitored on every history; the theorems exclude exactly the "
            "recorded F7 trigger table (op kind x failing index x code variant flag), where kernel-evaluated counterexamples show the code as found breaks it.",
    "technique": "Lean 4 frame theorem for transaction+rollback programs + differential correspondence against the real orchestrator and services",
}
