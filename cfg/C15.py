"""C15: check configuration (PROP) and MANIFEST texts (META)."""
PROP = {
    "lean_modules": ["ConduitModel.Props.C15", "ConduitModel.Facts.C15"],
    "jobs": [
        {"harness": "h_ctl", "comp": "import", "n_quick": 2500, "n_thorough": 15000, "timeout": 3000,
         "why": "chains of Plan + ApplyPlan of generated pipeline configs (nested processors, list insert/delete/reorder, field, condition, "
                "worker and type changes, invalid plugins, failing store-operation index) on the REAL provisioning.Service + services: result "
                "class, planned changes, Export, state dumps, reload and raw keys differ from the model, or the C15 monitor (converges, "
                "idempotent, fails atomically, position kept) fails"},
    ],
    "rule": "import: chain of 1-6 imports of 1-2 pipelines, each new config = mutation of the last imported one (1-3 mutations out of 20 kinds, "
            "lists 0-5), 1/7 made invalid (unknown processor plugin, bad connector type, negative workers), store failure index 1-40 on one or "
            "several imports, positions of sources and destinations written between imports (3/4), plugin-only connector changes among the mutations, status writes in between; non-trivial = chain of >= 2 imports or a failed import; distinct = distinct lines",
    "strength": "convergence: full - for every code variant with the F5/F6 repair flags, every state reachable by API calls and earlier imports "
                "(needed of the state: the references below the imported pipeline are intact, PlRefs - implied by the C14 invariant and "
                "re-established by every successful import), every configuration the service accepts (cfgValid), no injected failure, "
                "pipeline not running: ApplyPlan succeeds and Export of the result equals the configuration on every configuration field "
                "(C15_import_converges, _reachable), the store is a copy of memory again (_store), entities outside old+new config untouched "
                "and old ones not mentioned gone (C15_import_frame); idempotent, store-level failure atomicity, position kept: full (all "
                "variants, states, configs, failing indices); memory-level failure atomicity: decided per history by the monitor on the "
                "correspondence-tied model, not proved in general (F8 and rollback re-creation counterexamples)",
    "assumptions": ["one failing store operation per import (a validation failure plus a store failure during its rollback is outside the quantifier)",
                    "ids are unique within each list of a configuration (config.Validate enforces it)",
                    "convergence across several pipelines: the ids of a configuration are not in use under another pipeline (CfgOwned; the real "
                    "service prefixes connector and processor ids with the pipeline id) - not needed for chains of imports of one pipeline",
                    "ApplyPlan is presented with the hash of the plan computed just before (C16 covers stale plans)"],
}

META = {
    "text": "Lean 4 theorems over an executable model of Export, the actions builder, the nine import actions with Do/Rollback, the import frame "
            "(execute, roll back the executed prefix incl. the failed action), transactionalImport and Plan/ApplyPlan: re-importing a converged "
            "configuration is a no-op with an empty plan (C15_import_idempotent, via Build(c,c)=[]), a failed import leaves the committed store "
            "untouched (C15_import_fail_store_atomic), a connector persisting with the same id and type keeps its position through successful, "
            "failed and rolled-back imports for every failing store-operation index (C15_position_kept). Convergence is a theorem: every import "
            "action has a closed-form effect and precondition without store failure (act_yields), the action list Build(old, c) run from a "
            "state exporting to old satisfies every precondition in turn and ends in a memory that holds exactly c (converge_mem), so "
            "ApplyPlan succeeds and Export = c for every accepted configuration from every reachable state (C15_import_converges, "
            "C15_import_converges_reachable, store side, frame and invariant preservation). Kernel-evaluated counterexamples for the "
            "defects of the code as found (F5 aliasing remove loop, F6 condition - the two flags the convergence theorem requires repaired -, "
            "F8 commit failure, position lost on rollback re-creation).",
    "note": "Proved about the model; the code is tied by correspondence testing of the real provisioning service (finite sample) and regenerated "
            "field-coverage facts. Convergence is proved for the code variants with the F5/F6 repairs (the regenerated flags of the current tree) "
            "and additionally checked per history by the monitor; memory-level failure atomicity is monitored only.",
    "technique": "Lean 4 proofs (builder laws, closed-form action effects, per-entity induction over the action list, transaction-only "
                 "writes, state-preservation of actions) + differential correspondence",
}
