"""C15: check configuration (PROP) and MANIFEST texts (META)."""
PROP = {
    "lean_modules": ["ConduitModel.Props.C15", "ConduitModel.Facts.C15"],
    "jobs": [
        {"harness": "h_ctl", "comp": "import", "n_quick": 2500, "n_thorough": 60000, "timeout": 3000,
         "why": "chains of Plan + ApplyPlan of generated pipeline configs (nested processors, list insert/delete/reorder, field, condition, "
                "worker and type changes, invalid plugins, failing store-operation index) on the REAL provisioning.Service + services: result "
                "class, planned changes, Export, state dumps, reload and raw keys differ from the model, or the C15 monitor (converges, "
                "idempotent, fails atomically, position kept) fails"},
    ],
    "rule": "import: chain of 1-6 imports of 1-2 pipelines, each new config = mutation of the last imported one (1-3 mutations out of 20 kinds, "
            "lists 0-5), 1/7 made invalid (unknown processor plugin, bad connector type, negative workers), store failure index 1-40 on one or "
            "several imports, positions of sources and destinations written between imports (3/4), plugin-only connector changes among the mutations, status writes in between; non-trivial = chain of >= 2 imports or a failed import; distinct = distinct lines",
    "strength": "idempotent, store-level failure atomicity, position kept: full (all variants, states, configs, failing indices); convergence and "
                "memory-level failure atomicity: decided per history by the monitor on the correspondence-tied model, not proved in general",
    "assumptions": ["one failing store operation per import (a validation failure plus a store failure during its rollback is outside the quantifier)",
                    "ids are unique within each list of a configuration (config.Validate enforces it)",
                    "ApplyPlan is presented with the hash of the plan computed just before (C16 covers stale plans)"],
}

META = {
    "text": "Lean 4 theorems over an executable model of Export, the actions builder, the nine import actions with Do/Rollback, the import frame "
            "(execute, roll back the executed prefix incl. the failed action), transactionalImport and Plan/ApplyPlan: re-importing a converged "
            "configuration is a no-op with an empty plan (C15_import_idempotent, via Build(c,c)=[]), a failed import leaves the committed store "
            "untouched (C15_import_fail_store_atomic), a connector persisting with the same id and type keeps its position through successful, "
            "failed and rolled-back imports for every failing store-operation index (C15_position_kept). Kernel-evaluated counterexamples for the "
            "defects of the code as found (F5 aliasing remove loop, F6 condition, F8 commit failure, position lost on rollback re-creation).",
    "note": "Proved about the model; the code is tied by correspondence testing of the real provisioning service (finite sample) and regenerated "
            "field-coverage facts. Convergence for every valid configuration is checked per history by the monitor, not proved in general.",
    "technique": "Lean 4 proofs (builder laws, transaction-only writes, state-preservation of actions) + differential correspondence",
}
