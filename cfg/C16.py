"""C16: check configuration (PROP) and MANIFEST texts (META)."""
PROP = {
    "lean_modules": ["ConduitModel.Props.C16", "ConduitModel.Facts.C16"],
    "jobs": [
        {"harness": "h_ctl", "comp": "live", "n_quick": 2500, "n_thorough": 60000, "timeout": 3000,
         "why": "ApplyPlanLive of generated config changes (live-eligible and not) against running / stopped pipelines with scripted "
                "StopAndWait / Start / ReconfigureProcessor outcomes, stale hashes, missing authorisation and failing store operations, on the "
                "REAL provisioning.Service: result class, lifecycle/commit event order, Export and state dumps differ from the model, or the C16 "
                "monitor (stale refused, authorisation, drain before mutate, failed apply consistent) fails"},
    ],
    "rule": "live: import a pipeline, then 1-4 rounds of (status write, optional position write, ApplyPlanLive of a live-eligible change / any "
            "mutation / no change) with allow 3/4, stale 1/8, stop and start succeeding 4/5, reconfigure scripts over {ok, not-live, error}, "
            "store failure index 1-12 on 1/5, in 1/5 of the applies an external Start flips the pipeline to running between the two status reads (mostly stopped before, mostly allow=0); 1/3 of the cases are the real-hash scenario (plan at T1, out-of-band change of the same / another field or resource through the services, ApplyPlanLive with the kept REAL hash); non-trivial = a lifecycle call, a stale or unauthorised refusal happened",
    "strength": "stale refused, authorisation, drain-before-mutate and store-level consistency of the failed restart apply: full for the model; "
                "data-path clauses (no record skipped, in-place swap at a record boundary) are C03/C06/C13 and assumed here",
    "assumptions": ["plan hash = the view computeHash digests (changes with config paths / live-swappability, desired config); SHA-256 collision-freeness", "the per-pipeline lock gives mutual exclusion (one apply is sequential)",
                    "a successful StopAndWait leaves the pipeline stopped with durable positions (C06), Start resumes from them (C03)",
                    "an external Start can land only between ApplyPlanLive's two status reads (the window the re-read closes), modelled as one scripted flip", "lifecycle outcomes are inputs (scripted) — concurrency with record flow is not exercised by this harness"],
}

META = {
    "text": "Lean 4 theorems over ApplyPlanLive as a sequential program on the control-plane model with an abstract lifecycle: a presented "
            "plan other than the current one is refused with nothing touched (C16_stale_plan_refused), a running pipeline is untouched without "
            "authorisation (C16_running_needs_authorisation), on the restart path StopAndWait comes first and the import only after it "
            "succeeded (C16_drain_before_mutate), a failed restart apply leaves the store unchanged-and-stopped or committed-and-stopped "
            "(C16_failed_apply_consistent_restart, using C15's store atomicity). The in-place path's fallback defect is a kernel-evaluated "
            "counterexample. Tied by differential runs of the real provisioning service with a scripted lifecycle and call-order facts.",
    "note": "Proved about the model; tied to the code by correspondence testing (finite sample) and regenerated call orders. The record-level "
            "clauses (nothing skipped across the apply) are not exercised here: the lifecycle is scripted.",
    "technique": "Lean 4 sequential-program proofs + differential correspondence with a scripted lifecycle + call-order facts",
}
