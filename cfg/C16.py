"""C16: check configuration (PROP) and MANIFEST texts (META)."""
PROP = {
    "lean_modules": ["ConduitModel.Props.C16", "ConduitModel.Facts.C16"],
    "jobs": [
        {"harness": "h_ctl", "comp": "live", "n_quick": 2500, "n_thorough": 20000, "timeout": 3000,
         "why": "ApplyPlanLive of generated config changes (live-eligible and not) against running / stopped pipelines with scripted "
                "StopAndWait / Start / ReconfigureProcessor outcomes, stale hashes, missing authorisation and failing store operations, on the "
                "REAL provisioning.Service: result class, lifecycle/commit event order, Export and state dumps differ from the model, or the C16 "
                "monitor (stale refused, authorisation, drain before mutate, failed apply consistent) fails"},
        {"harness": "h_ctl", "comp": "locks", "n_quick": 150, "n_thorough": 4000, "timeout": 3000,
         "relevant": lambda case: case["impl"] != "overlaps=0",
         "why": "first-use contention on the REAL per-pipeline lock table (provisioning.pipelineLocks via the verif hook): goroutines released "
                "together call Lock on never-used pipeline ids; an occupancy counter inside the per-id section saw two callers at once (impl "
                "line = count + the first overlap: round, id, the two goroutines), while the lock-table event system with the section structure "
                "regenerated from lock.go has no interleaving with two callers inside (C16_apply_lock_mutual_exclusion) - or the model itself "
                "finds an overlapping schedule for the regenerated structure (model line)"},
        {"harness": "h_ctl", "comp": "apigate", "n_quick": 120, "n_thorough": 3000, "timeout": 3000,
         "relevant": lambda case: case["impl"].split(" srcgate=")[0] != case["model"].split(" srcgate=")[0],
         "why": "the live-apply authorisation gate on the API surface, end to end: the REAL Runtime.serveGRPCAPI (verif hook) serves gRPC under a "
                "configuration (API.AllowLiveRestartApply, Dev.Enabled), a gRPC client plans and applies a change to a running / stopped pipeline "
                "on the real provisioning service: result class or lifecycle events differ from the specification 'the API's authorisation is the "
                "operator flag and nothing else' (gatesearch: the four configurations probed; srcgate = configurations on which the gate "
                "expression regenerated from the source differs from the flag)"},
    ],
    "rule": "live: import a pipeline, then 1-4 rounds of (status write, optional position write, ApplyPlanLive of a live-eligible change / any "
            "mutation / no change) with allow 3/4, stale 1/8, stop and start succeeding 4/5, reconfigure scripts over {ok, not-live, error}, "
            "store failure index 1-12 on 1/5, in 1/5 of the applies an external Start flips the pipeline to running between the two status reads (mostly stopped before, mostly allow=0); 1/3 of the cases are the real-hash scenario (plan at T1, out-of-band change of the same / another field or resource through the services, ApplyPlanLive with the kept REAL hash); non-trivial = a lifecycle call, a stale or unauthorised refusal happened; locks: 2-8 goroutines x 1-3 fresh ids x 300-1200 rounds per line, spinning start barrier, Go scheduler interleavings (a line is not bit-for-bit replayable: the observed overlap is in the result); apigate: gatesearch + (allow 1/3, dev 1/2, status mostly running, change none / processor settings / connector settings / description, stop and start failing 1/6)",
    "strength": "stale refused, authorisation, drain-before-mutate and store-level consistency of the failed restart apply: full for the model; "
                "per-pipeline lock: mutual exclusion and 'the apply mutates the state its hash check read' for every interleaving of any number of "
                "callers and ids (event system with the regenerated section structure, C16_apply_lock_mutual_exclusion, C16_apply_sees_checked_state); "
                "authorisation chain: every ApplyPlanLive caller regenerated, the API's allow flag = the operator flag for every configuration "
                "(C16_api_gate_is_operator_flag), running pipeline touched => operator flag or dev watcher (C16_running_touched_needs_flag_or_watcher); "
                "data-path clauses (no record skipped, in-place swap at a record boundary) are C03/C06/C13 and assumed here",
    "assumptions": ["plan hash = the view computeHash digests (changes with config paths / live-swappability, desired config); SHA-256 collision-freeness", "sync.Mutex semantics (acquire only when free) and: a p.mu critical section is atomic with respect to the other p.mu sections (every access to the lock map is inside one - regenerated fact)",
                    "applies for different pipelines work on disjoint state (C15_import_frame)",
                    "a successful StopAndWait leaves the pipeline stopped with durable positions (C06), Start resumes from them (C03)",
                    "an external Start can land only between ApplyPlanLive's two status reads (the window the re-read closes), modelled as one scripted flip", "lifecycle outcomes are inputs (scripted) — concurrency with record flow is not exercised by this harness"],
}

META = {
    "text": "Lean 4 theorems over ApplyPlanLive as a sequential program on the control-plane model with an abstract lifecycle: a presented "
            "plan other than the current one is refused with nothing touched (C16_stale_plan_refused), a running pipeline is untouched without "
            "authorisation (C16_running_needs_authorisation), on the restart path StopAndWait comes first and the import only after it "
            "succeeded (C16_drain_before_mutate), a failed restart apply leaves the store unchanged-and-stopped or committed-and-stopped "
            "(C16_failed_apply_consistent_restart, using C15's store atomicity). The in-place path's fallback defect is a kernel-evaluated "
            "counterexample. The per-pipeline lock table is an event system (lookup / create / insert sections, acquire, check, apply, unlock per "
            "caller) whose section structure is regenerated from lock.go: all callers of one id obtain the same mutex, at most one is inside, and "
            "the state an apply mutates is the state its plan-hash check read, in every interleaving (C16_apply_lock_mutual_exclusion, "
            "C16_apply_sees_checked_state; counterexample for the split lookup/insert variant). The authorisation chain is regenerated from the "
            "source: the expression handed to api.NewPipelineAPIv1 (translated to Lean, local definitions inlined) equals the operator flag for "
            "every configuration, the handler passes its constructor argument, the only other ApplyPlanLive caller is the dev watcher "
            "(C16_running_touched_needs_flag_or_watcher). Tied by differential runs of the real provisioning service with a scripted lifecycle, "
            "a first-use stress of the real lock table, the real serveGRPCAPI + gRPC handler, and call-order facts.",
    "note": "Proved about the model; tied to the code by correspondence testing (finite sample) and regenerated call orders. The record-level "
            "clauses (nothing skipped across the apply) are not exercised here: the lifecycle is scripted.",
    "technique": "Lean 4 sequential-program proofs + event-system invariant (lock table) + regenerated gate expressions + differential "
                 "correspondence with a scripted lifecycle, lock stress and real gRPC gate probing + call-order facts",
}

# "the restart path drains before it mutates": ApplyPlanLive's StopAndWait ends with connector.Service.WaitPersisted, the durability
# barrier after which the import may rewrite the connector records. The `live` job scripts StopAndWait; the barrier itself is the
# real one here (seeded change C16_7: a bounded WaitPersisted lets the import start while the final position flush is in flight).
PROP["jobs"].append(
    {"harness": "h_srcack", "comp": "srccrash", "driver": "srcack", "n_quick": 300, "n_thorough": 4000, "timeout": 2400,
     "relevant": lambda case: "commit-after-durability-barrier" in case["model"],
     "why": "the durability barrier of StopAndWait (real connector.Service.WaitPersisted on the real Persister, slow commits): a commit of the "
            "stopped pipeline's source position is observed after the barrier returned, i.e. after the point where ApplyPlanLive starts to "
            "rewrite the stored connectors"})
PROP["lean_modules"] += ["ConduitModel.Props.C03", "ConduitModel.Facts.C03"]
PROP["rule"] += (" || srccrash: see C03 (acks, flushes with slow commits, Teardown, the WaitPersisted barrier `Wb`, crash + restart); relevant to "
                 "C16 = a commit observed after the barrier returned")
