"""C17: check configuration (PROP) and MANIFEST texts (META)."""
_WHY = ("the real %s differs from the codec model for which the round-trip theorems of Props/C17.lean are proved")
PROP = {
    "lean_modules": ["ConduitModel.Props.C17", "ConduitModel.Facts.C17"],
    "jobs": [
        {"harness": "h_pure", "comp": "b64", "n_quick": 5000, "n_thorough": 100000,
         "why": _WHY % "base64 codec of positions (encoding/base64 as used by goccy/go-json for []byte)"},
        {"harness": "h_pure", "comp": "jsonstr", "n_quick": 6000, "n_thorough": 120000,
         "why": _WHY % "JSON string literal codec of goccy/go-json (escape set, \\u forms, surrogates)"},
        {"harness": "h_pure", "comp": "storedoc", "n_quick": 5000, "n_thorough": 50000,
         "why": _WHY % "connector / pipeline / processor Store (Set, then Get by a new store on the same DB): stored bytes or read-back instance"},
        {"harness": "h_pure", "comp": "golden", "n_quick": 3000, "n_thorough": 30000,
         "why": _WHY % "store reading a foreign / older-shape document (golden files, missing / null / unknown members) and writing it again"},
        {"harness": "h_pure", "comp": "pre041", "n_quick": 2000, "n_thorough": 20000,
         "why": _WHY % "pre-0.4.1 connector migration at NewStore (new key, new document, loaded instance)"},
        {"harness": "h_pure", "comp": "oldstore", "n_quick": 1500, "n_thorough": 15000,
         "why": _WHY % "pre-0.4.1 migration of a whole store at NewStore (1-4 old-format connectors of different plugins / setting key sets, "
                       "some lacking optional members, next to current-format records): every record of the database afterwards, and GetAll"},
        {"harness": "h_pure", "comp": "resume", "n_quick": 1500, "n_thorough": 15000,
         "why": _WHY % "restart status logic (pipeline.Service.Init + lifecycle.Service.Init v1/v2 on stored pipelines)"},
    ],
    "rule": "b64: byte strings (nil/empty/small/all 256 values/large) and decoder inputs (canonical, newlines, trailing bits, padding edits, junk); "
            "non-trivial = a non-empty input that encodes / decodes successfully. "
            "jsonstr: strings by Unicode class (empty, ASCII, controls+DEL, quotes/backslash, <>&, U+2028/9, BMP, astral, combining, mixed, long, key-order probes) "
            "and literals assembled from raw runs, short escapes, \\u forms, surrogate pairs / lone surrogates, malformed tails; non-trivial = encoder escaped something and it round-trips, or decoder accepted. "
            "storedoc: a generated entity (every field generated: nil / empty / populated maps, lists, positions; all string classes; extreme ints; years 0..9999, zone offsets, nanosecond patterns; every status / type) "
            "written by the real store and read by a new store on the same DB; compared: the stored bytes (hex) and the instance read back; non-trivial = read back identical and line > 120 chars. "
            "golden: the repo's golden documents + generated documents in older / foreign shapes; non-trivial = decodes. "
            "pre041: generated old-format documents (fixture of TestStore_MigratePre041 in the corpus); non-trivial = migrated and loaded. "
            "oldstore: 1..4 old-format connector records (settings mostly drawn from per-plugin key sets file/postgres/kafka/generator/s3/none so that neighbours differ; "
            "XState / ProcessorIDs / Settings / Plugin / PipelineID / Name / timestamps independently absent; occasionally perturbed or of unknown type) + 0..2 current-format records, "
            "all IDs distinct, shuffled; compared: every database record after NewStore (sorted by key, as trees) and GetAll; non-trivial = >= 2 records under the connector prefix afterwards, one of them migrated. "
            "resume: 0..5 stored pipelines with generated statuses; non-trivial = something is started and all other fields unchanged. distinct = distinct case lines",
    "strength": "full: base64 (all byte strings), JSON strings (all Unicode scalar sequences, also at UTF-8 String level), printer/parser (all JSON trees), "
                "the three entity documents at stored-text level (all field values; maps in canonical order, timestamps valid calendar times with whole-minute zone), "
                "pre-0.4.1 migration (all old records), restart status logic (all pipeline sets). Partial on: the JSON library itself (validated by byte/tree comparison, not verified), "
                "time.Time internals (a timestamp is modelled as its RFC 3339 fields: civil time + zone offset in minutes).",
    "assumptions": [
        "github.com/goccy/go-json and encoding/base64, time.Time.{Marshal,Unmarshal}JSON behave as the executable model (compared byte-for-byte / tree-for-tree on every run; not verified)",
        "Go strings in stored fields hold valid UTF-8 ('any Unicode text'); invalid bytes would be replaced by U+FFFD by the encoder and are outside the property",
        "zone offsets of stored timestamps are whole minutes (true of every tz-database zone for current dates; Go's RFC 3339 layout drops offset seconds); monotonic clock readings are not part of the stored form; times compare by instant + offset",
        "connector State holds nil, SourceState or DestinationState matching the connector Type (invariant of the running system; mismatches are still compared model-vs-code)",
        "stored documents have no duplicate member names and member names are spelt exactly as the Go fields (goccy also matches case-insensitively; the stores never write that)",
        "the key-value database returns the bytes it was given (inmemory DB in the harness)",
        "old-format records of one store have distinct XIDs, also distinct from the IDs of current records (equal IDs would overwrite each other in GetKeys order, which the in-memory DB leaves unspecified)",
    ],
}

META = {
    "text": "Lean 4 theorems over an executable model of the stores' codec: base64 round trip for every byte string (C17_base64_roundtrip); goccy's JSON string "
            "escaper/unescaper round trip for every Unicode scalar sequence, also at UTF-8 String level (C17_json_string_roundtrip, _utf8); printer/parser round trip for every JSON tree "
            "(C17_json_print_parse); for connector, pipeline and processor instances: the stored text read back by the model of the store's decode is the instance, for every value of every field, "
            "nil vs empty preserved (C17_connector/pipeline/processor_roundtrip, C17_store_injective and corollaries), including the untyped re-decode of connector State; member order of a document is irrelevant "
            "(C17_member_order_irrelevant), every Go map has a canonical form (C17_every_map_has_canonical_form), store key spaces are disjoint (C17_store_keys); the pre-0.4.1 migration carries every field "
            "(C17_pre041_migration_preserves), the migration of a whole store is a per-record map — each old record decoded on its own into a fresh target (regenerated fact), other records untouched, a second restart a no-op (C17_pre041_store_independent, _store_migrates_each, _store_leaves_current_untouched, _store_idempotent) — and a document older than LastActiveConfig is understood; a pipeline stored Running is loaded SystemStopped and is started by lifecycle Init, UserStopped/Degraded "
            "are not, nothing else changes (C17_restart_loads_all, C17_running_resumed, C17_stopped_not_resumed, C17_init_changes_only_status). "
            "The model is tied to the code by regenerated facts (struct members and types, PrepareSet whitelist, decode switch, status constants and Init guards, key prefixes, JSON package) and by "
            "differential runs of the real stores / services on an in-memory DB against the compiled model: stored bytes and read-back instances must be identical.",
    "note": "Proved about the model; the JSON library, encoding/base64 and time.Time are validated by comparison on generated inputs (finite sample), not verified. "
            "Timestamps are modelled by their RFC 3339 fields. Trusted: Lean kernel, factgen, harness, Go runtime and libraries.",
    "technique": "Lean 4 round-trip proofs (structural induction on JSON trees, per-character escape lemmas, base64 quantum arithmetic) + regenerated source facts + differential correspondence against the real stores",
}
