"""C18: check configuration (PROP) and MANIFEST texts (META)."""
PROP = {
    "lean_modules": ["ConduitModel.Props.C18", "ConduitModel.Facts.C18"],
    "jobs": [
        {"harness": "h_pure", "comp": "egress", "n_quick": 60000, "n_thorough": 1500000,
         "why": "the real egress.Refuse / ResolvePolicy / Service.dialContext+dialControl (fake resolver, Control hook observed at the "
                "syscall boundary) decide differently from the model the C18 theorems are proved about: an address of the refused floor "
                "would be dialed, a carve-out would match more than the exact (IP, port) pair, or the effective policy would exceed the ceiling"},
    ],
    "rule": "egress: 50% Refuse on byte slices (4-byte, 16-byte and malformed lengths; every refused range at first/last/first-1/last+1 and "
            "inside; metadata and other special addresses; each embedded form - v4-mapped, v4-compatible, IPv4-translated, NAT64 and "
            "near-NAT64, 6to4, Teredo server+inverted client - of boundary/random IPv4; IPv6 prefix boundaries; random), 18% ResolvePolicy on "
            "generated policy pairs sharing entries, 10% Service.Do end to end (proxy environment variables set, http/https, name or "
            "IP-literal host, Stage-1 hit or miss, resolver answers, loopback HTTP server answering 200 or a 302 to the metadata endpoint), "
            "22% the dial loop with 0-4 candidates in either form, IP-literal or resolved hosts, "
            "carve-outs drawn from the candidates, resolver failures, a real loopback listener for successful connects. non-trivial: refuse = "
            "refused, resolve = effective policy enabled, dial / do = the base dialer was reached",
    "strength": "full: every IPv4 (2^32) and 16-byte (2^128) address against the regenerated tables (omega, kernel only), every resolver "
                "answer list / policy / port / connect outcome / dialer address expansion, every pair of policies",
    "assumptions": [
        "net.IP.To4/To16/Equal, IPNet.Contains and net.ParseIP(ip.String()) behave as documented (modelled, validated by the harness)",
        "Go's HTTP transport and net.Dialer call the supplied DialContext / Control hook for every connection they open (no other dial path: "
        "Proxy nil, no DialTLS*, regenerated from service.go)",
        "floor = the ranges the property lists; other special-purpose blocks (192.0.0.0/24, 198.18.0.0/15, 64:ff9b:1::/48 local-use NAT64, "
        "ISATAP interface identifiers …) are outside the documented floor",
    ],
}

META = {
    "text": "Lean 4 theorems over the tables regenerated from ipguard.go: for every a < 2^32 the v4 classifier refuses exactly the documented "
            "floor (both directions); for every x < 2^128 Refuse rejects ::, ::1, fe80::/10, fec0::/10, fc00::/7, ff00::/8 and every "
            "embedded-IPv4 form (mapped, compatible, translated, NAT64, 6to4, Teredo server/client) of a floor address, the synthesized blocks "
            "wholesale. For every resolver answer list, policy, port, connect outcome and dialer address expansion, connect(2) is attempted "
            "only on addresses Refuse allows or that are an exact (IP, port) allowlist entry (the Control hook alone suffices and agrees with "
            "the per-candidate gate). For every pair of policies the effective policy is within the ceiling in hosts, secrets, timeout and size, "
            "and dropped entries are reported. Proxy nil / redirects refused / gated dial hooks / reserved headers are regenerated facts.",
    "note": "Proved about the model; tied to the code by regenerated tables and guard order, and by differential runs of the real Refuse, "
            "ResolvePolicy and dial path (Control hook observed at the syscall boundary, connects aborted except to the harness' loopback "
            "listener). Trusted: Lean kernel, factgen, harness, Go net/http below the supplied hooks.",
    "technique": "Lean 4 proofs (omega over regenerated CIDR tables; induction over candidate lists) + differential correspondence",
}
