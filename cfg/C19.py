"""C19: check configuration (PROP) and MANIFEST texts (META)."""
PROP = {
    "lean_modules": ["ConduitModel.Props.C19", "ConduitModel.Props.C19Flock", "ConduitModel.Facts.C19"],
    "jobs": [
        {"harness": "h_registry", "comp": "pathclean", "n_quick": 20000, "n_thorough": 200000,
         "why": "filepath.Clean/Join/IsAbs/Dir differ from the model of them that the confinement theorem (C19_extract_confined) is proved about"},
        {"harness": "h_registry", "comp": "extract", "n_quick": 1200, "n_thorough": 20000,
         "why": "the real ExtractBinary leaves a different file tree / refusal class than extractBinary, the model proved confined; "
                "anything created outside the destination prints as ESCAPE"},
        {"harness": "h_registry", "comp": "extractbig", "n_quick": 1, "n_thorough": 3, "timeout": 3000,
         "why": "the real ExtractBinary treats an archive expanding to exactly / just over maxExtractedBytes (1 GiB, really expanded) differently from the model"},
        {"harness": "h_registry", "comp": "corruption", "n_quick": 5000, "n_thorough": 300000,
         "why": "the real CheckCorruption accepts/refuses a declared digest differently from checkCorruption (C19_check_corruption_exact)"},
        {"harness": "h_registry", "comp": "install", "n_quick": 500, "n_thorough": 8000,
         "why": "the real Install (httptest server, fake verifiers, chaos-point snapshots) behaves differently from the gate program over the "
                "regenerated order that C19_install_gated is proved about, or the harness's own monitor saw an artifact installed without "
                "digest match / verification (viol=…)"},
        {"harness": "h_registry", "comp": "hwmseq", "n_quick": 200, "n_thorough": 4000,
         "why": "the real TrustedVerifier.VerifyIndex (real ed25519-signed indexes, real index-state.json) accepts/refuses/persists differently "
                "from the model C19_hwm_monotone is proved about, or the persisted version decreased (viol=…)"},
        {"harness": "h_registry", "comp": "hwmconc", "n_quick": 60, "n_thorough": 1200,
         "why": "results of concurrent VerifyIndex calls are not explained by any order of the calls under the state lock, or the final "
                "high-water mark is below the initial one / an accepted version"},
        {"harness": "h_registry", "comp": "atomicfile", "n_quick": 300, "n_thorough": 6000,
         "why": "the real atomicfile.WriteFile under injected faults (missing directory, un-renamable target) ends in a different state than "
                "the operation-list model C19_atomic_replace is proved about"},
        {"harness": "h_registry", "comp": "atomickill", "n_quick": 4, "n_thorough": 40, "timeout": 3000,
         "why": "a writer process SIGKILLed at a random instant inside WriteFile left a target that is neither the complete old nor the "
                "complete new content"},
    ],
    "rule": "pathclean: pairs of generated paths (normal / . / .. / empty / long / random-byte elements, rooted or not, trailing separators); "
            "non-trivial = Clean changed the path. extract: generated archives with hand-made tar headers (entry names as pathclean, types "
            "reg/dir/symlink/hardlink/fifo, sizes 0..200k, duplicate names, stream cut inside content, corrupt trailing header); non-trivial = "
            "refused for a reason other than 'no candidate', or accepted with >= 2 entries. corruption: 32 random digest bytes x declared string (exact, prefixed, upper/mixed case, double prefix, nibble flipped, truncated/extended, non-hex, empty); non-trivial = declared string is not the plain lower-case hex. install: a scenario = all-good perturbed in 0..5 "
            "of 15 dimensions (index verifier, resolve, platform, already-installed, cache hit/poisoned, download 404/oversize, digest "
            "mismatch/malformed, bundle fetch 404/oversize, verifier signed/unsigned-ok/refuse, unsigned log unwritable, archive kinds, "
            "rename/manifest/audit failure) x allow-unsigned x all 64 policy contexts x chaos-point snapshot; non-trivial = a gate refused or "
            "an unsigned install was requested. hwmseq: initial state + 1..8 calls (root/freshness/bad/unknown-key signature, version "
            "below/equal/above the mark, content id, stale); non-trivial = a rollback was refused or a freshness-only index judged. hwmconc: "
            "2..5 concurrent root-signed calls around the mark; non-trivial = one was refused as rollback. atomicfile: old/new sizes 0..300k x "
            "fault; non-trivial = fault injected. atomickill: SIGKILL at a uniform instant in [0, 1.5 x write time]; non-trivial = a temp file "
            "existed at the kill. distinct = distinct case lines",
    "strength": "extract_confined, links_refused, extract_result: full (all entry lists, names = arbitrary byte strings, all caps, all clean "
                "absolute destinations); install_gated, manifest_after_rename, verifier_after_digest: full over the scenario space, for the "
                "gate order regenerated from the source; decide_table: full (all 64 contexts, regenerated function); rollback_refused, "
                "hwm_monotone: full (all states, all request sequences = all lock orders); atomic_replace: full (all contents, every crash "
                "point incl. torn writes, every failing operation) for the regenerated operation list",
    "assumptions": [
        "POSIX rename(2) replaces the target atomically and os.CreateTemp yields a fresh name (O_EXCL); flock gives mutual exclusion between VerifyIndex calls",
        "archive/tar and compress/gzip deliver the entry list the model is given; the kernel resolves a path without ./.. components literally (no symlinks exist in the freshly created extraction directory: links are refused before anything is created)",
        "SHA-256 collision resistance and Sigstore/ed25519 verification are outside the model: the verifier is an oracle (signed / unsigned-ok / refuse)",
        "early success returns inside inlined helpers (cache hit in stageArtifact, already-installed) are modelled by hand on top of the regenerated call order; verifyBundleIndex's stale-bundle override is covered by facts on its structure only",
    ],
}

META = {
    "text": "Lean 4 theorems: (a) for every tar entry list — names arbitrary byte strings, any types, sizes, order — a model of ExtractBinary "
            "with a faithful element-level model of filepath.Clean/Join/Dir creates files and directories only strictly inside the destination "
            "through normal path elements, refuses every link and escaping name, keeps the expanded size <= cap+1, and returns a root-level file "
            "it wrote (C19_extract_confined, _links_refused, _extract_result, _extract_unique_candidate, _clean_shape; _clean_bytes_model: the byte-level filepath.Clean loop equals the element-level model; _check_corruption_exact); (b) over the gate order regenerated from "
            "Install/installArtifact/downloadVerifyAndInstall/finalizeArtifactInstall and the mechanically translated policy.Decide, an artifact "
            "is renamed into the install directory only if the digest matched, the archive was accepted and the verifier answered signed — or "
            "--allow-unsigned was requested and Decide allowed it (operator policy on, not MCP, env acknowledgement or typed confirmation) and "
            "the audit entry was written; manifest only after rename, audit only after manifest, verifier only after digest "
            "(C19_install_gated, _manifest_after_rename, _verifier_after_digest, _decide_table, _bundle_gated); (c) over the regenerated order "
            "of TrustedVerifier.VerifyIndex and the translated CheckRollback, an index below the recorded mark is refused and, for every "
            "sequence of calls in any lock order, the persisted version never decreases and dominates every accepted version "
            "(C19_rollback_refused, _hwm_monotone, _accepted_is_verified); (d) for the regenerated operation list of atomicfile.WriteFile, "
            "every crash state (before/after/inside any operation, torn writes included) has the complete old or new content at the target, "
            "nil means new, error means old, no temp file is left (C19_atomic_replace, _atomic_replace_outcomes). Tied to the code by "
            "regenerated facts and seven differential/trace components driving the real ExtractBinary, filepath, Install, VerifyIndex and WriteFile.",
    "note": "Proved about the models; the code is tied by regenerated facts (gate orders with dominance, translated decision functions, "
            "statement shapes of ExtractBinary, WriteFile operation list) and by correspondence runs (finite samples) incl. an independent "
            "monitor in the install and index harnesses. Assumed, not verified: rename(2)/flock/O_EXCL semantics, tar/gzip readers, "
            "cryptography, Go's filepath implementation beyond the differential, NAME_MAX=255. The flock contract itself (a lock addressed by PATH "
            "serialises only while the path keeps naming one inode) is no longer a bare assumption: Model/FlockFile (open / flock / unlock / unlink "
            "of a lock file by any number of processes), C19_flock_mutual_exclusion (every interleaving without an unlink keeps at most one "
            "process inside), C19_flock_unlink_counterexample (one unlink while held lets two in), and the regenerated fact that pkg/registry "
            "never unlinks, renames or reads the path of a lock file (C19_fact_lock_files_never_unlinked, C19_locks_serialise). The offline-bundle path is covered by gate-order "
            "theorems and facts only (no differential component). Trusted: Lean kernel, factgen, harness.",
    "technique": "Lean 4 proofs (invariant over the extraction loop, dominance in gate programs over regenerated call orders, abstract "
                 "interpretation of the WriteFile operation list proved sound, induction over request sequences) + regenerated facts + "
                 "differential / trace-acceptance correspondence against the real code",
}
