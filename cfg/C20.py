"""C20: check configuration (PROP) and MANIFEST texts (META)."""
PROP = {
    "lean_modules": ["ConduitModel.Props.C20", "ConduitModel.Facts.C20", "ConduitModel.Facts.C20Sites", "ConduitModel.Facts.C20Prop"],
    "jobs": [
        {"harness": "h_pure", "comp": "errsite", "n_quick": 800, "n_thorough": 800,
         "why": "a cerrors.Errorf call site of the code base drops an error it was given with %w (xerrors wraps nothing when the "
                "format holds several %w): the classification of that error (fatal mark, code, sentinel) is lost on this path"},
        {"harness": "h_pure", "comp": "ackerr", "n_quick": 20000, "n_thorough": 400000,
         "why": "the error a v1 DestinationAckerNode stops with (real SourceAckerNode, DestinationAckerNode, DLQHandlerNode + "
                "lifecycle.DLQDestination over scripted connectors) is classified differently from the model whose wrappers are the "
                "transparent %w wrappers of the clean tree: an error of the ack / nack handler chain (the fatal 'DLQ nack threshold "
                "exceeded', a DLQ write failure, a failed Source.Ack, the original nack reason) was flattened on its way to "
                "lifecycle.Service's IsFatalError classification - recoverable restart instead of degraded, code and sentinels lost"},
        {"harness": "h_pure", "comp": "workernack", "n_quick": 20000, "n_thorough": 400000,
         "why": "the error funnel.Worker.Nack returns (real Worker, real DLQ window and DestinationTask, scripted connectors) is classified "
                "differently from the model, or - with equal classification - drops the fatal mark / code / sentinel of an error the call "
                "combined into its result (prop=lost:...): the classification depends on the path the error took"},
        {"harness": "h_pure", "comp": "errtree", "n_quick": 30000, "n_thorough": 600000,
         "why": "IsFatalError / conduiterr.Get / ToStatus+FromStatus / grpc FromError / ExitCode / API boundary status / cerrors.Is of an "
                "error built with the real constructors differ from the model the C20 theorems are proved about"},
        {"harness": "h_pure", "comp": "errfmt", "n_quick": 20000, "n_thorough": 400000,
         "why": "the argument the real cerrors.Errorf (xerrors) wraps differs from the model's errorfIdx"},
    ],
    "rule": "errtree: constructor expressions (depth <= 6) over the real constructors: Errorf with %w at end/middle/twice/none and random "
            "formats, Join, FatalError, conduiterr New/Wrap/WithCode/WithUnknownReason, std wrapper types, gRPC status errors and the "
            "ToStatus/FromStatus round trip, codes drawn from the live registry / unregistered / other category / OK; non-trivial = non-nil "
            "result of at least two nested constructors. errsite: one case per cerrors.Errorf call site of the repository (non-trivial = "
            "some argument stays reachable). errfmt: random and template formats x argument kinds (non-trivial = something is wrapped). workernack: DLQ window "
            "configuration x 0-5 nacked records (empty / non-empty position, generated nack error, generated DLQ ack error) x source ack "
            "outcome x DLQ write outcome (non-trivial = Worker.Nack returned an error). ackerr: DLQ window (off / small / large, thresholds that "
            "trip) x 1-7 messages, each acked or nacked by the destination with a generated error, DLQ destination behaviour (ok / Write "
            "fails / Ack fails / nacks the DLQ record) and Source.Ack outcome (ok / generated error / closed stream) (non-trivial = the "
            "destination acker node stopped with an error)",
    "strength": "full for every error tree, every list of wrapping layers, every code and registry (structural induction); registry, exit "
                "switch and every Errorf call site decided over the regenerated tables",
    "assumptions": [
        "error-valued arguments of propagation sites are recognised syntactically (names err / xxxErr / ErrXxx / reason / cause, fields and "
        "calls Err / Error / Reason / Cause, calls into cerrors / errors / fmt.Errorf, identifiers declared `error` in the enclosing function); "
        "propagation packages = pkg/lifecycle, lifecycle/stream, lifecycle-poc, lifecycle-poc/funnel, connector, processor, foundation/cerrors",
        "error types outside the modelled node kinds (leaf, transparent wrapper, xerrors noWrapError, joinError, fatalError, ConduitError, "
        "grpc status.Error) do not define their own As/Is/Unwrap behaviour on the paths considered (the Unwrap method set of the repository is "
        "listed by factgen: dnsError, ValidationError, ConduitError, fatalError)",
        "Errorf formats keep non-ASCII bytes out of % directives (checked per call site; such a site fails the facts obligation)",
    ],
}

META = {
    "text": "Lean 4 theorems by structural induction over error trees and over arbitrary lists of wrapping layers (real constructor "
            "semantics of cerrors.Errorf = xerrors.Errorf, Join, FatalError, conduiterr.Wrap/WithCode, wrapper types): IsFatalError is true "
            "exactly when a fatal mark is reachable; code, sentinel and gRPC status survive any number of plain wrappers; Wrap passes an inner "
            "code through; ToStatus->FromStatus is the identity exactly for non-OK codes that are unregistered or registered with that "
            "category, hence for the whole regenerated registry; ExitCode is a function of (cancelled, code, status, env sentinel) and is "
            "invariant under plain wrappers; the regenerated exit switch gives the documented bucket for every code number. The hypothesis "
            "that annotating keeps classification is decided per call site: Lean's model of xerrors.Errorf is run on the regenerated format "
            "and arity of every cerrors.Errorf site of the repository.",
    "note": "Proved about the model; the model is tied to the code by differential runs of the real constructors/classifiers on generated "
            "constructor expressions, by running the real Errorf on every call-site format, and by regenerated tables (registry, exit switch, "
            "API sentinel switches, call sites). Trusted: Lean kernel, factgen, harness, Go runtime, grpc/xerrors libraries below the modelled functions.",
    "technique": "Lean 4 structural-induction proofs over error trees + finite-table decisions over regenerated facts + differential correspondence",
}
