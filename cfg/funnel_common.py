"""Shared job description of the arch-v2 (funnel) engine correspondence."""

def funnel_job(tag, n_quick=6000, n_thorough=150000):
    return {"harness": "h_funnel", "comp": "funnel", "n_quick": n_quick, "n_thorough": n_thorough,
            "monitor": "funnelmon", "monitor_tag": tag, "panic_tag": "C09",
            "why": "event log (processor calls, destination writes, DLQ writes, source acks, result class) of the real "
                   "funnel.Worker differs from the Lean model of the arch-v2 engine on the same batches, plugin scripts and fan-out order"}

def funnel_conc_job(tag, n_quick=1500, n_thorough=60000):
    return {"harness": "h_funnel", "comp": "funnelconc", "driver": "funnelmon", "n_quick": n_quick, "n_thorough": n_thorough,
            "fail_tag": tag,
            "why": "the Lean-defined property monitor fails on the event log of the real funnel.Worker running fan-out branches "
                   "concurrently (real goroutine interleavings, GOMAXPROCS unrestricted, random yields)"}

def funnel_shared_job(tag, n_quick=2500, n_thorough=60000):
    return {"harness": "h_funnel", "comp": "funnelshared", "driver": "funnelmon", "n_quick": n_quick, "n_thorough": n_thorough,
            "fail_tag": tag,
            "why": "the Lean-defined property monitor fails, for one of the sources, on the event log of 2-3 real funnel.Workers "
                   "(one per source, own DLQ) running concurrently into one shared sink (funnel.NewSink shared boundary)"}

def funnel_sharedsink_job(tag, n_quick=2500, n_thorough=60000):
    return {"harness": "h_funnel", "comp": "funnelshared", "driver": "sharedsink", "n_quick": n_quick, "n_thorough": n_thorough,
            "fail_tag": tag,
            "why": "the recorded global trace of 2-3 real funnel.Workers running concurrently into one shared sink (shared processor calls "
                   "SP, destination writes SW and ack-stream reads SK attributed to their source, with the root's lock / poison latch probed "
                   "at each call, Worker.Do results SZ) is not a run of the shared-sink model Model/SharedSink.lean (reject@k: e.g. a write or "
                   "ack read inside a root another worker's failed sub-pass poisoned, an ack read beyond what the holder wrote, a worker inside a "
                   "root whose lock another worker holds), or a probe / the observational serializability monitor fails (lock not held, event "
                   "inside a poisoned root, a worker touching a root while another worker's acks are outstanding)"}

SHAREDSINK_MODULES = ["ConduitModel.Props.SharedSink", "ConduitModel.Facts.SharedSink"]
SHAREDSINK_STRENGTH = ("; shared sink (C01/C04/C05_v2_shared_*): for every event list of the W-workers x R-roots model (every interleaving of "
                       "doTask's sharedBoundary statements with the writes / ack reads of the sub-passes): mutual exclusion per root, root logs "
                       "serial (complete single-worker single-hand-off sub-passes), every consumed ack produced by the reader's own write in the "
                       "same sub-pass, poison latch without window, per-root per-source hand-off order, no lock deadlock; acks to the own source "
                       "and context cancellation not modelled")
SHAREDSINK_ASSUME = ["shared sink: a destination queues one ack per record it accepted on ONE FIFO ack stream; a running sub-pass eventually returns"]

def arbiter_job(n_quick=20000, n_thorough=600000):
    return {"harness": "h_pure", "comp": "arbiter", "n_quick": n_quick, "n_thorough": n_thorough,
            "why": "parent calls / verdicts of the real multiAckNacker or runAckNacker+splitRun differ from the pure arbiter functions "
                   "(Spec/Arbiter.lean) about which the C01/C04/C07/C08 arbiter theorems are proved and to which the engine model is tied by simulation lemmas"}

def funnel_stop_job(tag, n_quick=1200, n_thorough=40000):
    return {"harness": "h_funnel", "comp": "funnelstop", "driver": "funnelmon", "n_quick": n_quick, "n_thorough": n_thorough,
            "fail_tag": tag,
            "why": "a graceful Worker.Stop arriving at a random instant of a real funnel.Worker run leaves a record half-handled (written to a "
                   "destination / the DLQ but not acknowledged before the source was torn down, or acknowledged after the teardown), or the stop "
                   "does not complete (Lean monitor clauses C06 on the recorded trace)"}

def tree_jobs(n_quick=2500, n_thorough=60000):
    """the tie between the hypotheses of the monitor-soundness theorems (Fan1 tree, source root, distinct ids) and the trees the
    arch-v2 service really builds (Props/TreeShape, Props/TreeBuilt, Facts/TreeShape)"""
    return [
        {"harness": "h_tree", "comp": "treeshape", "n_quick": n_quick, "n_thorough": n_thorough,
         "why": "the task trees (worker.FirstTask of every worker, walked through Next) that the REAL lifecycle-poc buildRunnablePipeline / "
                "buildSharedTail link for a pipeline configuration, or the class of its error exit, differ from the Lean model "
                "(Model/TreeBuild: buildWorkers / buildSharedTail) about which Fan1 / source-root / distinct-ids / destinations are proved "
                "(Props/TreeShape, Props/TreeBuilt) - the soundness of the C01/C04/C05/C07/C08 trace monitor is proved for exactly those trees"},
        {"harness": "h_tree", "comp": "appendtoend", "n_quick": n_quick * 2, "n_thorough": n_thorough * 2,
         "why": "the real funnel.(*TaskNode).AppendToEnd on an arbitrary small tree (chains, receivers with several Next where it must refuse "
                "and leave the receiver untouched) differs from the model function appendToEnd"},
    ]

TREE_MODULES = ["ConduitModel.Props.TreeShape", "ConduitModel.Props.TreeBuilt", "ConduitModel.Facts.TreeShape"]

TREE_RULE = (" || treeshape: pipeline configurations (1-3 sources with 0-2 connector processors, 0-3 pipeline processors, 1-4 destinations with "
             "0-2 connector processors, ConnectorIDs order shuffled; 1 in 4 degenerate: no source / no destination / unknown connector or "
             "processor id / a processor or connector listed twice / a connector id equal to a processor id / malformed line) through the real "
             "service builder, and direct buildSharedTail calls (0-4 branches, empty branches, 0-3 processors); appendtoend: random trees of "
             "depth <= 5 (half of them chains) + 0-3 trees to append; non-trivial = a fan-out was built, a build was refused, the recursion or "
             "the refusal of AppendToEnd was exercised")

TREE_ASSUME = ["treeshape: connector plugins, the processor registry and the pipeline store are fakes that a build never calls into; connector "
               "and processor instances live in the real connector.Service / processor.Service (in-memory database); buildDLQ is assumed not to fail",
               "the task-tree theorems identify a task with its id: connector and processor ids are natural numbers in the model, strings in the code"]

FUNNEL_RULE = ("funnel: task tree (0-3 processors, 1-3 destination branches, optional branch processor), DLQ window config, 1-3 source "
               "batches, and plugin replies generated reactively per call (pass/modify/filter/error/split/nil, fewer/more/none; "
               "destination acks partitioned into several responses with errors, wrong/extra/out-of-order/short/empty/error responses), "
               "fan-out branch order chosen per invocation; non-trivial = a DLQ write, an engine error, a fan-out, a split, a retry or a filter occurs")

FUNNEL_ASSUME = ["fan-out branches are compared under a serial order per fan-out invocation (GOMAXPROCS=1, no async preemption); "
                 "interleavings finer than whole-branch granularity are covered only through the multiAckNacker theorems (all vote orders)",
                 "plugins are in-process fakes implementing funnel.Source / Processor / Destination"]
