"""Shared job description of the arch-v2 (funnel) engine correspondence."""

def funnel_job(tag, n_quick=6000, n_thorough=150000):
    return {"harness": "h_funnel", "comp": "funnel", "n_quick": n_quick, "n_thorough": n_thorough,
            "monitor": "funnelmon", "monitor_tag": tag, "panic_tag": "C09",
            "why": "event log (processor calls, destination writes, DLQ writes, source acks, result class) of the real "
                   "funnel.Worker differs from the Lean model of the arch-v2 engine on the same batches, plugin scripts and fan-out order"}

def funnel_conc_job(tag, n_quick=1500, n_thorough=60000):
    return {"harness": "h_funnel", "comp": "funnelconc", "driver": "funnelmon", "n_quick": n_quick, "n_thorough": n_thorough,
            "fail_tag": tag,
            "why": "the Lean-defined property monitor fails on the event log of the real funnel.Worker running fan-out branches "
                   "concurrently (real goroutine interleavings, GOMAXPROCS unrestricted, random yields)"}

def funnel_shared_job(tag, n_quick=2500, n_thorough=60000):
    return {"harness": "h_funnel", "comp": "funnelshared", "driver": "funnelmon", "n_quick": n_quick, "n_thorough": n_thorough,
            "fail_tag": tag,
            "why": "the Lean-defined property monitor fails, for one of the sources, on the event log of 2-3 real funnel.Workers "
                   "(one per source, own DLQ) running concurrently into one shared sink (funnel.NewSink shared boundary)"}

def arbiter_job(n_quick=20000, n_thorough=600000):
    return {"harness": "h_pure", "comp": "arbiter", "n_quick": n_quick, "n_thorough": n_thorough,
            "why": "parent calls / verdicts of the real multiAckNacker or runAckNacker+splitRun differ from the pure arbiter functions "
                   "(Spec/Arbiter.lean) about which the C01/C04/C07/C08 arbiter theorems are proved and to which the engine model is tied by simulation lemmas"}

def funnel_stop_job(tag, n_quick=1200, n_thorough=40000):
    return {"harness": "h_funnel", "comp": "funnelstop", "driver": "funnelmon", "n_quick": n_quick, "n_thorough": n_thorough,
            "fail_tag": tag,
            "why": "a graceful Worker.Stop arriving at a random instant of a real funnel.Worker run leaves a record half-handled (written to a "
                   "destination / the DLQ but not acknowledged before the source was torn down, or acknowledged after the teardown), or the stop "
                   "does not complete (Lean monitor clauses C06 on the recorded trace)"}

FUNNEL_RULE = ("funnel: task tree (0-3 processors, 1-3 destination branches, optional branch processor), DLQ window config, 1-3 source "
               "batches, and plugin replies generated reactively per call (pass/modify/filter/error/split/nil, fewer/more/none; "
               "destination acks partitioned into several responses with errors, wrong/extra/out-of-order/short/empty/error responses), "
               "fan-out branch order chosen per invocation; non-trivial = a DLQ write, an engine error, a fan-out, a split, a retry or a filter occurs")

FUNNEL_ASSUME = ["fan-out branches are compared under a serial order per fan-out invocation (GOMAXPROCS=1, no async preemption); "
                 "interleavings finer than whole-branch granularity are covered only through the multiAckNacker theorems (all vote orders)",
                 "plugins are in-process fakes implementing funnel.Source / Processor / Destination"]
