"""Jobs, Lean modules and texts of the DEFAULT (v1) engine halves of C01, C04, C05, C07, C09
(pkg/lifecycle/stream, pkg/processor/runnable_processor.go) — to be merged by the integrator into
cfg/C01.py … cfg/C09.py (`PROP["jobs"] += JOBS[pid]`, `PROP["lean_modules"] += LEAN_MODULES[pid]`,
`PROP["assumptions"] += ASSUMPTIONS`, rule text RULE)."""

_PIPE_WHY = {
    "C01": "a trace of the real v1 node graph (built as lifecycle.buildNodes does, scripted fake plugins) is not a "
           "behaviour of the pipeline model, or a source ack in it is not preceded by every destination's ack / a filter / "
           "the DLQ ack (monC01, proved of every run of the model: C01_v1_source_ack_justified)",
    "C04": "a trace of the real v1 node graph is not a behaviour of the pipeline model, or the acks a source receives are "
           "not 0,1,2,... in read order (monC04; C04_v1_acks_in_read_order)",
    "C05": "a trace of the real v1 node graph is not a behaviour of the pipeline model, or a destination is given a source's "
           "records out of read order / twice / although filtered (monC05; C05_v1_writes_in_read_order)",
    "C07": "a trace of the real v1 node graph is not a behaviour of the pipeline model, or a record reaches the DLQ twice / out of "
           "source order / is acked before the DLQ confirmed it / is acked after its DLQ write failed (monC07; C07_v1_dlq_monitor)",
    "C09": "the real v1 node graph panicked or hung on a plugin reply shape (empty / unknown / swapped / repeated destination "
           "acks, failing calls, wrong processor result shapes), or its trace is not a behaviour of the model",
}


def _pipe(pid, nq, nt):
    return {"harness": "h_stream", "comp": "pipe", "n_quick": nq, "n_thorough": nt, "timeout": 3000, "why": _PIPE_WHY[pid]}


def condmerge_job(nq=6000, nt=300000):
    return {"harness": "h_stream", "comp": "condmerge", "n_quick": nq, "n_thorough": nt,
            "why": "processor.RunnableProcessor.Process (condition merge, used by both engines) differs from the model condMerge that is proved "
                   "aligned and panic-free for every match pattern and plugin output length (C09_v1_cond_merge_aligned): a pass-through record "
                   "slides into the slot of a record without a result (written under the wrong position / twice, C05, C08)"}


JOBS = {
    "C01": [_pipe("C01", 500, 8000)],
    "C04": [_pipe("C04", 400, 6000)],
    "C05": [_pipe("C05", 400, 6000), condmerge_job(4000, 150000)],
    "C07": [_pipe("C07", 400, 6000)],
    "C09": [
        {"harness": "h_stream", "comp": "condmerge", "n_quick": 6000, "n_thorough": 300000,
         "why": "processor.RunnableProcessor.Process (condition merge) differs from the model condMerge that is proved aligned and "
                "panic-free for every match pattern and plugin output length (C09_v1_cond_merge_aligned)"},
        _pipe("C09", 500, 8000),
    ],
}

LEAN_MODULES = {
    "C01": ["ConduitModel.Props.C01Stream", "ConduitModel.Facts.Stream"],
    "C04": ["ConduitModel.Props.C04Stream", "ConduitModel.Facts.Stream"],
    "C05": ["ConduitModel.Props.C05Stream", "ConduitModel.Props.C09Stream", "ConduitModel.Facts.Stream"],
    "C07": ["ConduitModel.Props.C07Stream", "ConduitModel.Facts.Stream"],
    "C09": ["ConduitModel.Props.C09Stream", "ConduitModel.Facts.Stream"],
}

RULE = ("pipe: one case = one scenario (N<=3 sources x M<=4 destinations, processor chains with 1-4 workers at source / pipeline / "
        "destination level, per-destination ack/nack/batch reply scripts, DLQ and source-ack fault scripts, natural / graceful / "
        "force stop at a random instant, GOMAXPROCS in {1,2,4,16}, scripted latencies) run once on the real node graph; every 4th "
        "scenario is from the malformed stream (empty / unknown / swapped / repeated acks, failing Write / Ack / DLQ calls, wrong "
        "processor result shapes). A third of the well-formed scenarios with >= 2 destinations are from the batching family: one destination "
        "rejects every record (all settled through the DLQ), the others buffer writes and acknowledge only when their batch is full or at "
        "Stop(lastPosition) (size based batching), natural end or graceful stop at a random instant — the acks arrive during the node's drain. A sixth of the well-formed scenarios are from the refused-result family: a parallel processor (2-4 workers, at source / pipeline / "
        "destination level) returns for one early record a result the ProcessorNode refuses (changed position, MultiRecord, zero / two "
        "results, nil), tolerant DLQ, later records follow. Graceful stops are issued without reason (user stop) or with the non-nil "
        "shutdown reason (StopAll); the fake source refuses acks after its Teardown (trace token S:s:i:t = violation) and every fake "
        "processor stamps the record it returns, the W token carries the stamps and must show every processor on the way. Non-trivial = a record reached a destination and a source was acked and at least one of: DLQ write, "
        "filter, >1 destination, >1 source, batch ack, early stop. condmerge: (match pattern, plugin reply kinds) with full / short / "
        "long / empty replies and condition errors; non-trivial = kept and pass-through records both present. distinct = distinct case lines")

ASSUMPTIONS = [
    "v1 atomicity: one model step = one channel operation / critical section / plugin call (DESIGN §6); handler chains run to completion "
    "in the caller's goroutine (message.go) and are modelled as the sequence of their plugin calls",
    "channel capacity is abstracted: stages are unbounded queues, FIFO per source (no property depends on the order between different "
    "sources inside the pipeline; the real FIFO channels are a special case); semaphore.Simple is a FIFO ticket lock",
    "internal events of a recorded trace are reconstructed by the driver (forced FIFO moves, buffered acks, anonymous nacks chosen with "
    "look-ahead); the reconstruction is checked by the model's step function, never trusted",
    "with several sources the order of DLQ-window updates of different sources is not observable: verdict-sensitive windows are only "
    "generated for one source",
]
