"""Per-property tables for ./check: Lean modules whose theorems are the obligations, and the
correspondence jobs (harness command, component, case counts per tier)."""

TRUSTED_BASE = [
    "Lean 4.33.0 kernel; axioms limited to propext, Classical.choice, Quot.sound (audited per theorem on every run)",
    "factgen (go/ast extractor) and the Go correspondence harness + canonicalisers",
    "Go runtime, standard library and third-party libraries below the modelled code",
]

PROPS = {}

PROPS["C07"] = {
    "lean_modules": ["ConduitModel.Props.C07", "ConduitModel.Facts.C07"],
    "jobs": [
        {"harness": "h_pure", "comp": "dlqwindow", "n_quick": 20000, "n_thorough": 700000,
         "why": "verdicts of the real dlqWindow (v1 stream / v2 funnel) differ from the model that is proved equal to the C07 window specification"},
    ],
    "rule": "dlqwindow: (size, threshold, outcome sequence | batch list) from a seeded generator biased to small windows; "
            "a case is non-trivial when at least one nack was refused; distinct = distinct case lines",
    "strength": "window clause: full (all sizes, thresholds, histories, partitions); pipeline-level DLQ clauses: see level_note",
    "assumptions": ["the ring buffer is only driven through Ack/Nack (no concurrent access: it is owned by one goroutine in both engines)"],
}
