"""Loads per-property tables for ./check from cfg/Cxx.py: PROP = Lean modules whose theorems are
the obligations + correspondence jobs; META = MANIFEST level texts."""
import os, glob, importlib.util

TRUSTED_BASE = [
    "Lean 4.33.0 kernel; axioms limited to propext, Classical.choice, Quot.sound (audited per theorem on every run)",
    "factgen (go/ast extractor) and the Go correspondence harness + canonicalisers",
    "Go runtime, standard library and third-party libraries below the modelled code",
]

PROPS, META = {}, {}
_here = os.path.dirname(os.path.abspath(__file__))
for _p in sorted(glob.glob(os.path.join(_here, "cfg", "C*.py"))):
    _pid = os.path.basename(_p)[:-3]
    _spec = importlib.util.spec_from_file_location("cfg_" + _pid, _p)
    _m = importlib.util.module_from_spec(_spec)
    _spec.loader.exec_module(_m)
    PROPS[_pid] = _m.PROP
    META[_pid] = _m.META
