package main

import (
	"fmt"
	"go/ast"
	"go/token"
	"os"
	"path/filepath"
	"sort"
	"strings"
)

// Call-order facts (DESIGN §4.1): for a named function, the relative order of a fixed vocabulary
// of *gate* callees, following calls into same-package helpers (inlined to depth 3), with for each
// gate: whether its failure ends the function (`guarded`: the error result is tested by
// `if err != nil { … return … }` right after the call, or the call is the returned expression),
// under which enclosing condition it runs ("" = on the straight-line path of every function on the
// way), and whether it is deferred. Moving code into a helper or renaming locals leaves the fact
// unchanged; reordering, deleting, un-guarding or making a gate conditional changes it.

type callFact struct {
	Name     string // callee as written, e.g. "os.Rename", "opts.ArtifactVerifier.VerifyArtifact"
	Short    string // final identifier
	Guarded  bool
	Cond     string
	Deferred bool
}

type pkgFuncs struct {
	funcs map[string]*ast.FuncDecl // plain functions and methods by name (methods: "Recv.Name" and "Name")
}

// parsePkg parses every non-test, non-windows .go file of a package directory.
func parsePkg(relDir string) *pkgFuncs {
	dir := filepath.Join(repo, relDir)
	ents, err := os.ReadDir(dir)
	if err != nil {
		panic(fmt.Sprintf("read dir %s: %v", relDir, err))
	}
	p := &pkgFuncs{funcs: map[string]*ast.FuncDecl{}}
	var names []string
	for _, e := range ents {
		n := e.Name()
		if e.IsDir() || !strings.HasSuffix(n, ".go") || strings.HasSuffix(n, "_test.go") ||
			strings.HasSuffix(n, "_windows.go") || strings.HasPrefix(n, "zz_verif") {
			continue
		}
		names = append(names, n)
	}
	sort.Strings(names)
	for _, n := range names {
		f := parse(filepath.Join(relDir, n))
		for _, d := range f.Decls {
			if fd, ok := d.(*ast.FuncDecl); ok && fd.Body != nil {
				if fd.Recv == nil {
					p.funcs[fd.Name.Name] = fd
				}
			}
		}
	}
	return p
}

func calleeName(c *ast.CallExpr) (full, short string) {
	full = src(c.Fun)
	switch f := c.Fun.(type) {
	case *ast.Ident:
		short = f.Name
	case *ast.SelectorExpr:
		short = f.Sel.Name
	default:
		short = full
	}
	return
}

// callsIn lists the calls inside an expression / statement in evaluation order (arguments before
// the call), not descending into function literals.
func callsIn(n ast.Node) []*ast.CallExpr {
	var out []*ast.CallExpr
	var visit func(n ast.Node)
	visit = func(n ast.Node) {
		if n == nil {
			return
		}
		switch v := n.(type) {
		case *ast.FuncLit:
			return
		case *ast.CallExpr:
			visit(v.Fun)
			for _, a := range v.Args {
				visit(a)
			}
			out = append(out, v)
			return
		}
		ast.Inspect(n, func(m ast.Node) bool {
			if m == n || m == nil {
				return true
			}
			switch m.(type) {
			case *ast.FuncLit:
				return false
			case *ast.CallExpr:
				visit(m)
				return false
			}
			return true
		})
	}
	visit(n)
	return out
}

func endsInReturn(b *ast.BlockStmt) bool {
	if b == nil || len(b.List) == 0 {
		return false
	}
	_, ok := b.List[len(b.List)-1].(*ast.ReturnStmt)
	return ok
}

// isErrGuard: `if <x>err != nil { …; return … }` (possibly `logErr`, `rerr`, … any ident compared with nil).
func isErrGuard(is *ast.IfStmt) bool {
	be, ok := is.Cond.(*ast.BinaryExpr)
	if !ok || be.Op != token.NEQ {
		return false
	}
	id, ok := be.X.(*ast.Ident)
	if !ok || !strings.HasSuffix(strings.ToLower(id.Name), "err") {
		return false
	}
	if n, ok := be.Y.(*ast.Ident); !ok || n.Name != "nil" {
		return false
	}
	return endsInReturn(is.Body)
}

func assignsErr(as *ast.AssignStmt) bool {
	for _, l := range as.Lhs {
		if id, ok := l.(*ast.Ident); ok && strings.HasSuffix(strings.ToLower(id.Name), "err") {
			return true
		}
	}
	return false
}

type orderWalker struct {
	pkg   *pkgFuncs
	vocab map[string]bool
	out   []callFact
}

func joinCond(a, b string) string {
	if a == "" {
		return b
	}
	if b == "" {
		return a
	}
	return a + " && " + b
}

func (w *orderWalker) emit(calls []*ast.CallExpr, guarded bool, cond string, deferred bool, depth int) {
	for i, c := range calls {
		full, short := calleeName(c)
		// only the outermost call of a statement can be the guarded one
		g := guarded && i == len(calls)-1
		if w.vocab[short] || w.vocab[full] {
			if short == "fireChaos" {
				full = src(c) // keep the point argument
				short = full
			}
			w.out = append(w.out, callFact{Name: full, Short: short, Guarded: g, Cond: cond, Deferred: deferred})
			continue
		}
		if id, ok := c.Fun.(*ast.Ident); ok && depth < 3 {
			if fd, ok := w.pkg.funcs[id.Name]; ok {
				sub := &orderWalker{pkg: w.pkg, vocab: w.vocab}
				sub.block(fd.Body.List, "", depth+1)
				for _, f := range sub.out {
					f.Guarded = f.Guarded && g
					f.Cond = joinCond(cond, f.Cond)
					f.Deferred = f.Deferred || deferred
					w.out = append(w.out, f)
				}
			}
		}
	}
}

func (w *orderWalker) block(stmts []ast.Stmt, cond string, depth int) {
	for i, st := range stmts {
		var next ast.Stmt
		if i+1 < len(stmts) {
			next = stmts[i+1]
		}
		nextGuards := false
		if is, ok := next.(*ast.IfStmt); ok && is.Init == nil && isErrGuard(is) {
			nextGuards = true
		}
		switch s := st.(type) {
		case *ast.AssignStmt:
			w.emit(callsIn(s), nextGuards && assignsErr(s), cond, false, depth)
		case *ast.ExprStmt:
			w.emit(callsIn(s), false, cond, false, depth)
		case *ast.DeclStmt:
			w.emit(callsIn(s), false, cond, false, depth)
		case *ast.DeferStmt:
			if fl, ok := s.Call.Fun.(*ast.FuncLit); ok {
				// defer func() { … }(): the calls of the literal's body run at function exit
				sub := &orderWalker{pkg: w.pkg, vocab: w.vocab}
				sub.block(fl.Body.List, cond, depth)
				for _, f := range sub.out {
					f.Deferred = true
					f.Guarded = false
					w.out = append(w.out, f)
				}
				continue
			}
			w.emit(callsIn(s.Call), false, cond, true, depth)
		case *ast.GoStmt:
			w.emit(callsIn(s.Call), false, joinCond(cond, "go"), false, depth)
		case *ast.ReturnStmt:
			for _, r := range s.Results {
				w.emit(callsIn(r), true, cond, false, depth)
			}
		case *ast.IfStmt:
			if s.Init != nil {
				if as, ok := s.Init.(*ast.AssignStmt); ok {
					w.emit(callsIn(as), isErrGuard(s) && assignsErr(as), cond, false, depth)
				} else {
					w.emit(callsIn(s.Init), false, cond, false, depth)
				}
			}
			if isErrGuard(s) {
				w.block(s.Body.List, joinCond(cond, "on-error"), depth)
				continue
			}
			w.emit(callsIn(s.Cond), false, cond, false, depth)
			c := src(s.Cond)
			w.block(s.Body.List, joinCond(cond, c), depth)
			switch e := s.Else.(type) {
			case *ast.BlockStmt:
				w.block(e.List, joinCond(cond, "!("+c+")"), depth)
			case *ast.IfStmt:
				w.block([]ast.Stmt{e}, joinCond(cond, "!("+c+")"), depth)
			}
		case *ast.BlockStmt:
			w.block(s.List, cond, depth)
		case *ast.ForStmt:
			w.block(s.Body.List, joinCond(cond, "loop"), depth)
		case *ast.RangeStmt:
			w.block(s.Body.List, joinCond(cond, "loop"), depth)
		case *ast.SwitchStmt:
			for _, cc := range s.Body.List {
				w.block(cc.(*ast.CaseClause).Body, joinCond(cond, "switch"), depth)
			}
		case *ast.TypeSwitchStmt:
			for _, cc := range s.Body.List {
				w.block(cc.(*ast.CaseClause).Body, joinCond(cond, "switch"), depth)
			}
		}
	}
}

// callOrder extracts the gate order of fd.
func callOrder(pkg *pkgFuncs, fd *ast.FuncDecl, vocab []string) []callFact {
	w := &orderWalker{pkg: pkg, vocab: map[string]bool{}}
	for _, v := range vocab {
		w.vocab[v] = true
	}
	w.block(fd.Body.List, "", 0)
	return w.out
}

func leanBool(b bool) string {
	if b {
		return "true"
	}
	return "false"
}

// leanCallFacts renders facts as `List (String × Bool × String × Bool)`:
// (callee's final identifier, guarded, condition, deferred). The callee as written (with its
// package / receiver expression) is given by leanCallees.
func leanCallFacts(fs []callFact) string {
	if len(fs) == 0 {
		return "[]"
	}
	parts := make([]string, len(fs))
	for i, f := range fs {
		parts[i] = fmt.Sprintf("(%s, %s, %s, %s)", leanStr(f.Short), leanBool(f.Guarded), leanStr(f.Cond), leanBool(f.Deferred))
	}
	return "[\n    " + strings.Join(parts, ",\n    ") + "]"
}

func leanCallees(fs []callFact) string {
	xs := make([]string, len(fs))
	for i, f := range fs {
		xs[i] = f.Name
	}
	return leanStrList(xs)
}
