package main

import (
	"fmt"
	"go/ast"
	"go/token"
	"strings"
)

// Codec (C17): what the store codec model assumes about the source — key prefixes, the exported
// members of the stored structs (names, order, types, no json tags), the PrepareSet whitelist,
// the status / type constants, the State switch of connector decode, the pre-0.4.1 struct and its
// mapping, the status guards of pipeline.Service.Init and lifecycle.Service.Init, and the JSON
// package each store imports. Anything not found panics (the obligation then fails).

func findStruct(f *ast.File, name string) *ast.StructType {
	var st *ast.StructType
	ast.Inspect(f, func(n ast.Node) bool {
		if ts, ok := n.(*ast.TypeSpec); ok && ts.Name.Name == name {
			if s, ok := ts.Type.(*ast.StructType); ok && st == nil {
				st = s
			}
		}
		return true
	})
	if st == nil {
		panic(fmt.Sprintf("struct %s not found", name))
	}
	return st
}

// exportedFields lists the members encoding/json-style encoders see: exported named fields as
// "Name Type" in declaration order (a json tag is appended, so a tagged field fails the
// obligation), embedded fields as "+Type".
func exportedFields(st *ast.StructType) []string {
	var out []string
	for _, fl := range st.Fields.List {
		tag := ""
		if fl.Tag != nil {
			tag = " " + fl.Tag.Value
		}
		if len(fl.Names) == 0 {
			out = append(out, "+"+src(fl.Type)+tag)
			continue
		}
		for _, n := range fl.Names {
			if n.IsExported() {
				out = append(out, n.Name+" "+src(fl.Type)+tag)
			}
		}
	}
	return out
}

// flatFields flattens a struct type with anonymous nested structs into "Path Type" entries.
func flatFields(prefix string, st *ast.StructType) []string {
	var out []string
	for _, fl := range st.Fields.List {
		tag := ""
		if fl.Tag != nil {
			tag = " " + fl.Tag.Value
		}
		for _, n := range fl.Names {
			if inner, ok := fl.Type.(*ast.StructType); ok {
				out = append(out, flatFields(prefix+n.Name+".", inner)...)
			} else {
				out = append(out, prefix+n.Name+" "+src(fl.Type)+tag)
			}
		}
		if len(fl.Names) == 0 {
			out = append(out, prefix+"+"+src(fl.Type)+tag)
		}
	}
	return out
}

// litPairs flattens a composite literal with nested literals into "Path=value" entries.
func litPairs(prefix string, cl *ast.CompositeLit) []string {
	var out []string
	for _, el := range cl.Elts {
		kv, ok := el.(*ast.KeyValueExpr)
		if !ok {
			panic("positional element in literal " + src(cl))
		}
		k := src(kv.Key)
		if inner, ok := kv.Value.(*ast.CompositeLit); ok {
			out = append(out, litPairs(prefix+k+".", inner)...)
		} else {
			out = append(out, prefix+k+"="+src(kv.Value))
		}
	}
	return out
}

// findLit returns the first composite literal of the named type inside a function.
func findLit(fd *ast.FuncDecl, typ string) *ast.CompositeLit {
	var res *ast.CompositeLit
	ast.Inspect(fd.Body, func(n ast.Node) bool {
		if cl, ok := n.(*ast.CompositeLit); ok && res == nil && cl.Type != nil && src(cl.Type) == typ {
			res = cl
		}
		return res == nil
	})
	if res == nil {
		panic(fmt.Sprintf("literal %s not found in %s", typ, fd.Name.Name))
	}
	return res
}

// iotaConsts returns the names of the const block whose first spec has the given initialiser
// text (e.g. "iota + 1"), in order.
func iotaConsts(f *ast.File, first, init string) []string {
	for _, d := range f.Decls {
		gd, ok := d.(*ast.GenDecl)
		if !ok || gd.Tok != token.CONST || len(gd.Specs) == 0 {
			continue
		}
		vs := gd.Specs[0].(*ast.ValueSpec)
		if vs.Names[0].Name != first {
			continue
		}
		if len(vs.Values) != 1 || src(vs.Values[0]) != init {
			panic(fmt.Sprintf("const %s is not `%s`", first, init))
		}
		var out []string
		for i, s := range gd.Specs {
			v := s.(*ast.ValueSpec)
			if i > 0 && len(v.Values) != 0 {
				panic("const block with explicit later values: " + v.Names[0].Name)
			}
			for _, n := range v.Names {
				out = append(out, n.Name)
			}
		}
		return out
	}
	panic("const block starting with " + first + " not found")
}

// ifsOf lists every if statement of a function (any depth) as "cond => first statement of body".
func ifsOf(fd *ast.FuncDecl) []string {
	var out []string
	ast.Inspect(fd.Body, func(n ast.Node) bool {
		if is, ok := n.(*ast.IfStmt); ok && len(is.Body.List) > 0 {
			c := src(is.Cond)
			if is.Init != nil {
				c = src(is.Init) + "; " + c
			}
			out = append(out, c+" => "+src(is.Body.List[0]))
		}
		return true
	})
	return out
}

func jsonImports(f *ast.File) []string {
	var out []string
	for _, im := range f.Imports {
		p := strLit(im.Path)
		if strings.Contains(p, "json") {
			out = append(out, p)
		}
	}
	return out
}

// callsOf lists, in source order, the calls `x.….Fn(args)` of a function (logger calls left out).
func callsOf(fd *ast.FuncDecl, x string) []string {
	var out []string
	ast.Inspect(fd.Body, func(n ast.Node) bool {
		if c, ok := n.(*ast.CallExpr); ok {
			if fn := src(c.Fun); strings.HasPrefix(fn, x+".") && !strings.Contains(fn, "logger") {
				out = append(out, src(c))
			}
		}
		return true
	})
	return out
}

func init() {
	register("Codec", func(b *leanFile) {
		cstore := parse("pkg/connector/store.go")
		pstore := parse("pkg/pipeline/store.go")
		rstore := parse("pkg/processor/store.go")
		// key prefixes
		b.P("def connKeyPrefix : String := %s", leanStr(strLit(findValue(cstore, "storeKeyPrefix"))))
		b.P("def pipeKeyPrefix : String := %s", leanStr(strLit(findValue(pstore, "storeKeyPrefix"))))
		b.P("def procKeyPrefix : String := %s", leanStr(strLit(findValue(rstore, "storeKeyPrefix"))))
		mig := findFunc(cstore, "Store", "migratePre041")
		pre := ""
		var oldStruct *ast.StructType
		ast.Inspect(mig.Body, func(n ast.Node) bool {
			switch v := n.(type) {
			case *ast.ValueSpec:
				if len(v.Names) == 1 && v.Names[0].Name == "pre041prefix" && len(v.Values) == 1 {
					pre = strLit(v.Values[0])
				}
			case *ast.TypeSpec:
				if v.Name.Name == "connectorPre041" {
					oldStruct = v.Type.(*ast.StructType)
				}
			}
			return true
		})
		if pre == "" || oldStruct == nil {
			panic("pre041prefix / connectorPre041 not found")
		}
		b.P("def connPre041KeyPrefix : String := %s", leanStr(pre))
		b.P("/-- which key prefix `migratePre041` scans, and under which the store writes -/")
		b.P("def prefixUses : List String := %s", leanStrList(append(callsOf(mig, "s"),
			src(findFunc(cstore, "Store", "addKeyPrefix").Body.List[0]))))

		// JSON package of each store
		b.P("def jsonImports : List (List String) := [%s, %s, %s]", leanStrList(jsonImports(cstore)),
			leanStrList(jsonImports(pstore)), leanStrList(jsonImports(rstore)))

		// struct members
		cinst := parse("pkg/connector/instance.go")
		pinst := parse("pkg/pipeline/instance.go")
		rinst := parse("pkg/processor/instance.go")
		emit := func(name string, st *ast.StructType) {
			var names, types, emb []string
			for _, f := range exportedFields(st) {
				if strings.HasPrefix(f, "+") {
					emb = append(emb, f[1:])
					continue
				}
				i := strings.Index(f, " ")
				names = append(names, f[:i])
				types = append(types, f[i+1:])
			}
			b.P("def %sNames : List String := %s", name, leanStrList(names))
			b.P("def %sTypes : List String := %s", name, leanStrList(types))
			b.P("def %sEmbedded : List String := %s", name, leanStrList(emb))
		}
		emit("connInstance", findStruct(cinst, "Instance"))
		emit("connConfig", findStruct(cinst, "Config"))
		emit("sourceState", findStruct(parse("pkg/connector/source.go"), "SourceState"))
		emit("destinationState", findStruct(parse("pkg/connector/destination.go"), "DestinationState"))
		emit("pipeInstance", findStruct(pinst, "Instance"))
		emit("pipeEncodable", findStruct(pinst, "encodableInstance"))
		emit("pipeConfig", findStruct(pinst, "Config"))
		emit("pipeDLQ", findStruct(pinst, "DLQ"))
		emit("procInstance", findStruct(rinst, "Instance"))
		emit("procParent", findStruct(rinst, "Parent"))
		emit("procConfig", findStruct(rinst, "Config"))
		b.P("def connPre041Fields : List String := %s", leanStrList(flatFields("", oldStruct)))

		// PrepareSet whitelist and the migration literal
		b.P("/-- the `icopy := Instance{…}` literal of `PrepareSet`, flattened -/")
		b.P("def prepareSetCopies : List String := %s", leanStrList(litPairs("", findLit(findFunc(cstore, "Store", "PrepareSet"), "Instance"))))
		b.P("/-- what `PrepareSet` encodes and under which key -/")
		b.P("def prepareSetCalls : List String := %s", leanStrList(callsOf(findFunc(cstore, "Store", "PrepareSet"), "s")))
		b.P("/-- the `instance := &Instance{…}` literal of `migratePre041`, flattened -/")
		b.P("def migrateCopies : List String := %s", leanStrList(litPairs("", findLit(mig, "Instance"))))
		var typeMap []string
		ast.Inspect(mig.Body, func(n ast.Node) bool {
			if cl, ok := n.(*ast.CompositeLit); ok && cl.Type != nil && src(cl.Type) == "map[string]Type" {
				typeMap = litPairs("", cl)
			}
			return true
		})
		if typeMap == nil {
			panic("type map of migratePre041 not found")
		}
		b.P("def migrateTypeMap : List String := %s", leanStrList(typeMap))
		ts := parse("pkg/connector/type_string.go")
		name := strLit(findValue(ts, "_Type_name"))
		idx := findValue(ts, "_Type_index").(*ast.CompositeLit)
		var names []string
		for i := 0; i+1 < len(idx.Elts); i++ {
			names = append(names, name[intLit(idx.Elts[i]):intLit(idx.Elts[i+1])])
		}
		b.P("/-- `Type.String()` of the constants 1, 2, … (stringer table) -/")
		b.P("def connTypeNames : List String := %s", leanStrList(names))

		// constants
		b.P("def connTypeConsts : List String := %s", leanStrList(iotaConsts(cinst, "TypeSource", "iota + 1")))
		b.P("def pipeStatusConsts : List String := %s", leanStrList(iotaConsts(pinst, "StatusRunning", "iota + 1")))

		// encode / decode shape
		b.P("def connEncodeCalls : List String := %s", leanStrList(callsOf(findFunc(cstore, "Store", "encode"), "json")))
		dec := findFunc(cstore, "Store", "decode")
		b.P("def connDecodeCalls : List String := %s", leanStrList(callsOf(dec, "json")))
		var decConds []string
		for _, st := range dec.Body.List {
			if is, ok := st.(*ast.IfStmt); ok {
				decConds = append(decConds, src(is.Cond))
			}
		}
		b.P("/-- the conditions of the top-level `if`s of `Store.decode` -/")
		b.P("def connDecodeIfs : List String := %s", leanStrList(decConds))
		var sw []string
		ast.Inspect(dec.Body, func(n ast.Node) bool {
			if s, ok := n.(*ast.SwitchStmt); ok {
				for _, c := range s.Body.List {
					cc := c.(*ast.CaseClause)
					lbl := "default"
					if len(cc.List) > 0 {
						lbl = src(cc.List[0])
					}
					sw = append(sw, src(s.Tag)+" "+lbl+" => "+src(cc.Body[0]))
				}
			}
			return true
		})
		b.P("/-- the `switch conn.Type` of `Store.decode`: case and the first statement of its body -/")
		b.P("def connDecodeSwitch : List String := %s", leanStrList(sw))
		penc := findFunc(pstore, "Store", "encode")
		b.P("def pipeEncodeLit : List String := %s", leanStrList(litPairs("", findLit(penc, "encodableInstance"))))
		b.P("def pipeEncodeCalls : List String := %s", leanStrList(append(callsOf(penc, "json"), callsOf(penc, "enc")...)))
		pdec := findFunc(pstore, "Store", "decode")
		b.P("def pipeDecodeCalls : List String := %s", leanStrList(append(append(callsOf(pdec, "json"), callsOf(pdec, "dec")...), callsOf(pdec, "inst")...)))
		renc := findFunc(rstore, "Store", "encode")
		b.P("def procEncodeCalls : List String := %s", leanStrList(append(callsOf(renc, "json"), callsOf(renc, "enc")...)))
		rdec := findFunc(rstore, "Store", "decode")
		b.P("def procDecodeCalls : List String := %s", leanStrList(append(callsOf(rdec, "json"), callsOf(rdec, "dec")...)))

		// restart status logic
		b.P("/-- every `if` of `pipeline.Service.Init`: condition => first statement -/")
		b.P("def pipelineInitIfs : List String := %s", leanStrList(ifsOf(findFunc(parse("pkg/pipeline/service.go"), "Service", "Init"))))
		b.P("def lifecycleInitIfs : List String := %s", leanStrList(ifsOf(findFunc(parse("pkg/lifecycle/service.go"), "Service", "Init"))))
		b.P("def lifecycleV2InitIfs : List String := %s", leanStrList(ifsOf(findFunc(parse("pkg/lifecycle-poc/service.go"), "Service", "Init"))))
		summary["Codec.prepareSetCopies"] = litPairs("", findLit(findFunc(cstore, "Store", "PrepareSet"), "Instance"))
	})
}
