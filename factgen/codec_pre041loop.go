package main

import (
	"go/ast"
	"go/token"
)

// C17: the per-record independence of migratePre041 (pkg/connector/store.go). The migration
// decodes every old-format record with json.Unmarshal into a local struct; goccy (like
// encoding/json) MERGES into an already populated struct (maps keep their entries, absent members
// keep the previous value), so the decode target must be a fresh zero value for every record:
// declared *inside* the body of the loop over the old keys, without initialiser.
//
// Generated/Pre041Loop.lean:
//   pre041LoopOver          – the range expression of the loop
//   pre041UnmarshalTargets  – the 2nd argument of every json.Unmarshal call in the function
//   pre041TargetDecls       – for each such target variable: "in-loop" / "outside-loop" / "not-found",
//                             followed by ":" and the declaration text
//   pre041InstanceInLoop    – the `instance := &Instance{…}` literal is built inside the loop
func init() {
	register("Pre041Loop", genPre041LoopFacts)
}

func genPre041LoopFacts(b *leanFile) {
	f := parse("pkg/connector/store.go")
	mig := findFunc(f, "Store", "migratePre041")

	// the (outermost) range loop
	var loop *ast.RangeStmt
	for _, st := range mig.Body.List {
		if rs, ok := st.(*ast.RangeStmt); ok {
			loop = rs
		}
	}
	if loop == nil {
		panic("migratePre041: range loop not found")
	}
	b.P("def pre041LoopOver : String := %s", leanStr(src(loop.X)))

	// json.Unmarshal targets
	var targets []string
	var targetIdents []string
	ast.Inspect(mig.Body, func(n ast.Node) bool {
		c, ok := n.(*ast.CallExpr)
		if !ok {
			return true
		}
		if se, ok := c.Fun.(*ast.SelectorExpr); ok && se.Sel.Name == "Unmarshal" && len(c.Args) == 2 {
			targets = append(targets, src(c.Args[1]))
			if ue, ok := c.Args[1].(*ast.UnaryExpr); ok && ue.Op == token.AND {
				if id, ok := ue.X.(*ast.Ident); ok {
					targetIdents = append(targetIdents, id.Name)
					return true
				}
			}
			targetIdents = append(targetIdents, "")
		}
		return true
	})
	if len(targets) == 0 {
		panic("migratePre041: no Unmarshal call found")
	}
	b.P("def pre041UnmarshalTargets : List String := %s", leanStrList(targets))

	inLoop := func(p token.Pos) bool { return loop.Body.Pos() <= p && p < loop.Body.End() }
	var decls []string
	for _, name := range targetIdents {
		where, text := "not-found", ""
		ast.Inspect(mig.Body, func(n ast.Node) bool {
			switch v := n.(type) {
			case *ast.DeclStmt:
				gd, ok := v.Decl.(*ast.GenDecl)
				if !ok || gd.Tok != token.VAR {
					return true
				}
				for _, sp := range gd.Specs {
					vs := sp.(*ast.ValueSpec)
					for _, nm := range vs.Names {
						if nm.Name == name && name != "" {
							text = "var " + nm.Name
							if vs.Type != nil {
								text += " " + src(vs.Type)
							}
							if len(vs.Values) > 0 {
								text += " = <initialised>"
							}
							if inLoop(v.Pos()) {
								where = "in-loop"
							} else {
								where = "outside-loop"
							}
						}
					}
				}
			case *ast.AssignStmt:
				if v.Tok == token.DEFINE {
					for _, l := range v.Lhs {
						if id, ok := l.(*ast.Ident); ok && id.Name == name && name != "" {
							text = src(v)
							if inLoop(v.Pos()) {
								where = "in-loop"
							} else {
								where = "outside-loop"
							}
						}
					}
				}
			}
			return true
		})
		decls = append(decls, where+":"+text)
	}
	b.P("def pre041TargetDecls : List String := %s", leanStrList(decls))

	// the new instance is built from scratch per record, too
	instIn := false
	ast.Inspect(loop.Body, func(n ast.Node) bool {
		if as, ok := n.(*ast.AssignStmt); ok && as.Tok == token.DEFINE && len(as.Lhs) == 1 && src(as.Lhs[0]) == "instance" {
			instIn = true
		}
		return true
	})
	b.P("def pre041InstanceInLoop : Bool := %s", map[bool]string{true: "true", false: "false"}[instIn])
	summary["Pre041Loop.targets"] = decls
}
