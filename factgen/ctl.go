package main

import (
	"fmt"
	"go/ast"
	"go/token"
	"sort"
	"strings"
)

// Ctl: facts about the control plane (C14/C15/C16).
//
//   - for every mutating method of the three services the order of its sub-steps: `M` (a
//     mutation of the in-memory instance / the instances map / instanceNames), `S` (the store
//     write) and `R` (assignments in the error branch of the store write = restore). From these
//     the model's `Variant` (which mutate-then-store sites leave memory old on a failed write)
//     is generated, and `Facts/C14` checks the shapes the model assumes constant.
//   - for every mutating orchestrator method: its guard conditions in source order and the
//     ordered list of service calls, with the calls made from registered rollbacks marked `R:`.
//   - the plugin argument of ConnectorOrchestrator.Update's rollback.
//   - status / provision-type constants.
//   - provisioning: mutable/immutable/ignored config field classes, which fields the
//     `…ToConfig` exporters copy, which fields the update actions pass to the services, and
//     whether updateConnectorAction.update ranges over the live ProcessorIDs slice.
func init() {
	register("Ctl", func(b *leanFile) {
		shapes := map[string]string{}
		type m struct{ file, recv, fn, key string }
		methods := []m{
			{"pkg/pipeline/service.go", "Service", "Create", "pipeline.Create"},
			{"pkg/pipeline/service.go", "Service", "Update", "pipeline.Update"},
			{"pkg/pipeline/service.go", "Service", "UpdateDLQ", "pipeline.UpdateDLQ"},
			{"pkg/pipeline/service.go", "Service", "AddConnector", "pipeline.AddConnector"},
			{"pkg/pipeline/service.go", "Service", "RemoveConnector", "pipeline.RemoveConnector"},
			{"pkg/pipeline/service.go", "Service", "AddProcessor", "pipeline.AddProcessor"},
			{"pkg/pipeline/service.go", "Service", "RemoveProcessor", "pipeline.RemoveProcessor"},
			{"pkg/pipeline/service.go", "Service", "Delete", "pipeline.Delete"},
			{"pkg/pipeline/service.go", "Service", "UpdateStatus", "pipeline.UpdateStatus"},
			{"pkg/connector/service.go", "Service", "Create", "connector.Create"},
			{"pkg/connector/service.go", "Service", "Update", "connector.Update"},
			{"pkg/connector/service.go", "Service", "AddProcessor", "connector.AddProcessor"},
			{"pkg/connector/service.go", "Service", "RemoveProcessor", "connector.RemoveProcessor"},
			{"pkg/connector/service.go", "Service", "Delete", "connector.Delete"},
			{"pkg/processor/service.go", "Service", "Create", "processor.Create"},
			{"pkg/processor/service.go", "Service", "updateConfig", "processor.updateConfig"},
			{"pkg/processor/service.go", "Service", "Delete", "processor.Delete"},
		}
		files := map[string]*ast.File{}
		for _, x := range methods {
			f, ok := files[x.file]
			if !ok {
				f = parse(x.file)
				files[x.file] = f
			}
			shapes[x.key] = svcShape(findFunc(f, x.recv, x.fn))
		}
		keys := make([]string, 0, len(shapes))
		for k := range shapes {
			keys = append(keys, k)
		}
		sort.Strings(keys)
		b.P("/-- sub-step order of every mutating service method: M = in-memory mutation, S = store write,")
		b.P("R = restore in the store write's error branch. -/")
		b.P("def svcShapes : List (String × String) := [")
		for i, k := range keys {
			sep := ","
			if i == len(keys)-1 {
				sep = ""
			}
			b.P("  (%s, %s)%s", leanStr(k), leanStr(shapes[k]), sep)
		}
		b.P("]")
		summary["Ctl.svcShapes"] = shapes
		keep := func(key string) string {
			sh := shapes[key]
			switch {
			case sh == "SM" || sh == "S": // store first
				return "true"
			case strings.HasPrefix(sh, "M") && strings.HasSuffix(sh, "SR"): // mutate, store, restore on error
				return "true"
			case strings.HasPrefix(sh, "M") && strings.HasSuffix(sh, "S"): // mutate, store, no restore
				return "false"
			}
			panic(fmt.Sprintf("unmodelled sub-step shape %q of %s", sh, key))
		}

		orch := parse("pkg/orchestrator/connectors.go")
		oldPlugin := connUpdateRollbackPlugin(findFunc(orch, "ConnectorOrchestrator", "Update"))
		b.P("/-- plugin argument of the rollback `Update` call in ConnectorOrchestrator.Update -/")
		b.P("def connUpdateRollbackPluginArg : String := %s", leanStr(oldPlugin))
		summary["Ctl.connUpdateRollbackPluginArg"] = oldPlugin
		var oldPluginFlag string
		switch {
		case oldPlugin == "conn.Plugin":
			oldPluginFlag = "false"
		case !strings.Contains(oldPlugin, "."):
			oldPluginFlag = "true" // a local captured before the update
		default:
			panic("unmodelled rollback plugin argument " + oldPlugin)
		}

		prov := provisioningFacts(b)

		b.P("/-- what memory holds when the store write of a mutate-then-store site fails (true = the old value);")
		b.P("the driver assembles the model's `Variant` from these (Driver/Ctl.lean `genVariant`). -/")
		for _, kv := range [][2]string{
			{"keepPlUpdate", keep("pipeline.Update")}, {"keepPlUpdateDLQ", keep("pipeline.UpdateDLQ")},
			{"keepPlAddConn", keep("pipeline.AddConnector")}, {"keepPlRemConn", keep("pipeline.RemoveConnector")},
			{"keepPlAddProc", keep("pipeline.AddProcessor")}, {"keepPlRemProc", keep("pipeline.RemoveProcessor")},
			{"keepCnUpdate", keep("connector.Update")}, {"keepCnAddProc", keep("connector.AddProcessor")},
			{"keepCnRemProc", keep("connector.RemoveProcessor")}, {"keepPrUpdate", keep("processor.updateConfig")},
			{"keepPlCreate", keep("pipeline.Create")}, {"keepPlDelete", keep("pipeline.Delete")},
			{"keepCnCreate", keep("connector.Create")}, {"keepCnDelete", keep("connector.Delete")},
			{"keepPrCreate", keep("processor.Create")}, {"keepPrDelete", keep("processor.Delete")},
			{"keepPlStatus", keep("pipeline.UpdateStatus")},
			{"cnOrchOldPlugin", oldPluginFlag},
			{"updConnCopies", prov.updConnCopies}, {"condExported", prov.condExported},
			{"condUpdated", prov.condUpdated}, {"condRecreates", prov.condRecreates},
		} {
			b.P("def %s : Bool := %s", kv[0], kv[1])
		}

		// which instance fields the connector methods used by the import's update action assign
		csvc := files["pkg/connector/service.go"]
		for _, fn := range []string{"Update", "AddProcessor", "RemoveProcessor"} {
			fs := assignedFields(findFunc(csvc, "Service", fn), "conn")
			b.P("/-- instance fields connector.Service.%s assigns (anywhere in its body) -/", fn)
			b.P("def connector%sAssigns : List String := %s", fn, leanStrList(fs))
			summary["Ctl.connector"+fn+"Assigns"] = fs
		}

		// orchestrator guards and call orders
		type om struct{ file, recv, fn string }
		oms := []om{
			{"pkg/orchestrator/pipelines.go", "PipelineOrchestrator", "Update"},
			{"pkg/orchestrator/pipelines.go", "PipelineOrchestrator", "UpdateDLQ"},
			{"pkg/orchestrator/pipelines.go", "PipelineOrchestrator", "Delete"},
			{"pkg/orchestrator/connectors.go", "ConnectorOrchestrator", "Create"},
			{"pkg/orchestrator/connectors.go", "ConnectorOrchestrator", "Update"},
			{"pkg/orchestrator/connectors.go", "ConnectorOrchestrator", "Delete"},
			{"pkg/orchestrator/processors.go", "ProcessorOrchestrator", "Create"},
			{"pkg/orchestrator/processors.go", "ProcessorOrchestrator", "Update"},
			{"pkg/orchestrator/processors.go", "ProcessorOrchestrator", "Delete"},
		}
		b.P("/-- guard conditions (each refuses the call) of the orchestrator methods, in source order -/")
		b.P("def orchGuards : List (String × List String) := [")
		guards := map[string][]string{}
		for i, x := range oms {
			f, ok := files[x.file]
			if !ok {
				f = parse(x.file)
				files[x.file] = f
			}
			var conds []string
			for _, c := range ifConds(findFunc(f, x.recv, x.fn)) {
				if c != "err != nil" {
					conds = append(conds, c)
				}
			}
			guards[x.recv+"."+x.fn] = conds
			sep := ","
			if i == len(oms)-1 {
				sep = ""
			}
			b.P("  (%s, %s)%s", leanStr(x.recv+"."+x.fn), leanStrList(conds), sep)
		}
		b.P("]")
		summary["Ctl.orchGuards"] = guards
		b.P("/-- ordered service / transaction calls of the orchestrator methods (R: = inside a registered rollback) -/")
		b.P("def orchCalls : List (String × List String) := [")
		calls := map[string][]string{}
		for i, x := range oms {
			cs := orchCallOrder(findFunc(files[x.file], x.recv, x.fn))
			calls[x.recv+"."+x.fn] = cs
			sep := ","
			if i == len(oms)-1 {
				sep = ""
			}
			b.P("  (%s, %s)%s", leanStr(x.recv+"."+x.fn), leanStrList(cs), sep)
		}
		b.P("]")
		summary["Ctl.orchCalls"] = calls

		// C16: gate call order of the apply paths
		plan := parse("pkg/provisioning/plan.go")
		vocab := []string{"Lock", "Plan", "isRunning", "transactionalImport", "Export", "applyInPlace", "StopAndWait", "Start",
			"ReconfigureProcessor", "rollbackInPlace", "importPipeline", "NewTransaction", "Commit", "LiveEligible", "Empty"}
		for _, fn := range []string{"ApplyPlan", "ApplyPlanLive", "applyInPlace", "rollbackInPlace", "transactionalImport"} {
			cs := gateCalls(findFunc(plan, "Service", fn), vocab)
			b.P("/-- gate calls of provisioning.Service.%s in source order -/", fn)
			b.P("def calls%s : List String := %s", strings.ToUpper(fn[:1])+fn[1:], leanStrList(cs))
			summary["Ctl.calls."+fn] = cs
		}
		// what Diff.computeHash digests
		hk, cf := hashInputs(plan)
		b.P("/-- fields of the value `Diff.computeHash` marshals, and the fields of each `Change` that reach it")
		b.P("(all JSON-visible fields of Change when `d.Changes` is passed as it is) -/")
		b.P("def hashFields : List String := %s", leanStrList(hk))
		b.P("def hashChangeFields : List String := %s", leanStrList(cf))
		summary["Ctl.hashFields"] = hk
		summary["Ctl.hashChangeFields"] = cf
		// the TOCTOU re-read of the running status must come before the authorisation gate
		total, before := isRunningVsGate(findFunc(plan, "Service", "ApplyPlanLive"))
		b.P("/-- `isRunning` reads in ApplyPlanLive: how many there are, and how many of them precede the")
		b.P("authorisation gate `if running && !allowRestartOnRunning` -/")
		b.P("def isRunningReads : Nat := %d", total)
		b.P("def isRunningReadsBeforeGate : Nat := %d", before)
		summary["Ctl.isRunningReads"] = []int{total, before}
		b.P("/-- `isRunningStatus`: statuses that count as running -/")
		b.P("def runningStatuses : List String := %s", leanStrList(runningCases(findFunc(plan, "", "isRunningStatus"))))

		// constants
		inst := parse("pkg/pipeline/instance.go")
		b.P("/-- pipeline.Status constants in iota order (first = 1) -/")
		b.P("def statusNames : List String := %s", leanStrList(constBlock(inst, "StatusRunning")))
		b.P("def pipelineProvisionNames : List String := %s", leanStrList(constBlock(inst, "ProvisionTypeAPI")))
		cinst := parse("pkg/connector/instance.go")
		b.P("def connectorTypeNames : List String := %s", leanStrList(constBlock(cinst, "TypeSource")))
		b.P("def connectorProvisionNames : List String := %s", leanStrList(constBlock(cinst, "ProvisionTypeAPI")))
		pinst := parse("pkg/processor/instance.go")
		b.P("def parentTypeNames : List String := %s", leanStrList(constBlock(pinst, "ParentTypeConnector")))
	})
}

type provFacts struct{ updConnCopies, condExported, condUpdated, condRecreates string }

func boolStr(b bool) string {
	if b {
		return "true"
	}
	return "false"
}

// provisioningFacts: field classes, exporter coverage, update-action coverage (C15).
func provisioningFacts(b *leanFile) provFacts {
	pf := parse("pkg/provisioning/config/parser.go")
	for _, n := range []string{"PipelineMutableFields", "PipelineIgnoredFields", "ConnectorImmutableFields", "ConnectorMutableFields"} {
		cl := findValue(pf, n).(*ast.CompositeLit)
		var xs []string
		for _, e := range cl.Elts {
			xs = append(xs, strLit(e))
		}
		b.P("def %s : List String := %s", lowerFirst(n), leanStrList(xs))
		summary["Ctl."+n] = xs
	}
	for _, n := range []string{"Pipeline", "Connector", "Processor", "DLQ"} {
		b.P("/-- fields of config.%s in declaration order -/", n)
		b.P("def config%sFields : List String := %s", n, leanStrList(structFields(pf, n)))
	}
	ex := parse("pkg/provisioning/export.go")
	for _, n := range []string{"pipelineToConfig", "dlqToConfig", "connectorToConfig", "processorToConfig"} {
		ks := returnedLiteralKeys(findFunc(ex, "Service", n))
		b.P("/-- config fields the exporter `%s` sets -/", n)
		b.P("def %sFields : List String := %s", n, leanStrList(ks))
		summary["Ctl."+n] = ks
	}
	ia := parse("pkg/provisioning/import_actions.go")
	upd := map[string][]string{}
	for _, n := range []string{"updatePipelineAction", "updateConnectorAction", "updateProcessorAction"} {
		fs := cfgFieldsUsed(findFunc(ia, n, "update"))
		upd[n] = fs
		b.P("/-- fields of the config the `%s.update` reads (passes on to the services) -/", n)
		b.P("def %sFields : List String := %s", n, leanStrList(fs))
	}
	summary["Ctl.updateFields"] = upd
	for _, n := range []string{"createPipelineAction", "createConnectorAction", "createProcessorAction"} {
		fs := cfgFieldsUsed(findFunc(ia, n, "Do"))
		b.P("/-- fields of the config the `%s.Do` reads -/", n)
		b.P("def %sFields : List String := %s", n, leanStrList(fs))
	}
	// range expression of the remove loop in updateConnectorAction.update
	rng := ""
	ast.Inspect(findFunc(ia, "updateConnectorAction", "update").Body, func(n ast.Node) bool {
		if rs, ok := n.(*ast.RangeStmt); ok && rng == "" && containsCall(rs.Body, "RemoveProcessor") {
			rng = src(rs.X)
		}
		return true
	})
	if rng == "" {
		panic("remove loop of updateConnectorAction.update not found")
	}
	b.P("/-- what the remove loop of updateConnectorAction.update ranges over -/")
	b.P("def updConnRemoveRange : String := %s", leanStr(rng))
	summary["Ctl.updConnRemoveRange"] = rng
	var copies bool
	switch {
	case rng == "c.ProcessorIDs":
		copies = false
	case !strings.Contains(rng, ".") || strings.HasPrefix(rng, "slices.Clone(") || strings.HasPrefix(rng, "append([]string"):
		copies = true
	default:
		panic("unmodelled range expression " + rng)
	}
	im := parse("pkg/provisioning/import.go")
	prep := src(findFunc(im, "actionsBuilder", "prepareProcessorActions").Body)
	has := func(xs []string, x string) bool {
		for _, y := range xs {
			if y == x {
				return true
			}
		}
		return false
	}
	condExp := false
	for _, k := range returnedLiteralKeys(findFunc(ex, "Service", "processorToConfig")) {
		if k == "Condition" {
			condExp = true
		}
	}
	return provFacts{boolStr(copies), boolStr(condExp), boolStr(has(upd["updateProcessorAction"], "Condition")),
		boolStr(strings.Contains(prep, ".Condition"))}
}

func lowerFirst(s string) string { return strings.ToLower(s[:1]) + s[1:] }

func structFields(f *ast.File, name string) []string {
	for _, d := range f.Decls {
		gd, ok := d.(*ast.GenDecl)
		if !ok || gd.Tok != token.TYPE {
			continue
		}
		for _, s := range gd.Specs {
			ts := s.(*ast.TypeSpec)
			if ts.Name.Name != name {
				continue
			}
			st, ok := ts.Type.(*ast.StructType)
			if !ok {
				panic(name + " is not a struct")
			}
			var out []string
			for _, fl := range st.Fields.List {
				for _, n := range fl.Names {
					out = append(out, n.Name)
				}
			}
			return out
		}
	}
	panic("struct " + name + " not found")
}

// returnedLiteralKeys: keys of the composite literal a function returns, minus those set to nil.
func returnedLiteralKeys(fd *ast.FuncDecl) []string {
	var out []string
	for _, st := range fd.Body.List {
		rs, ok := st.(*ast.ReturnStmt)
		if !ok || len(rs.Results) != 1 {
			continue
		}
		cl, ok := rs.Results[0].(*ast.CompositeLit)
		if !ok {
			continue
		}
		for _, e := range cl.Elts {
			kv := e.(*ast.KeyValueExpr)
			if src(kv.Value) == "nil" {
				continue
			}
			out = append(out, src(kv.Key))
		}
		return out
	}
	panic("no returned composite literal in " + fd.Name.Name)
}

// cfgFieldsUsed: the distinct `cfg.X` / `a.cfg.X` (first-level) selectors read in a function, in order.
func cfgFieldsUsed(fd *ast.FuncDecl) []string {
	var out []string
	seen := map[string]bool{}
	ast.Inspect(fd.Body, func(n ast.Node) bool {
		se, ok := n.(*ast.SelectorExpr)
		if !ok {
			return true
		}
		x := src(se.X)
		if x == "cfg" || x == "a.cfg" {
			if !seen[se.Sel.Name] {
				seen[se.Sel.Name] = true
				out = append(out, se.Sel.Name)
			}
		}
		return true
	})
	return out
}

func containsCall(n ast.Node, name string) bool {
	found := false
	ast.Inspect(n, func(x ast.Node) bool {
		if ce, ok := x.(*ast.CallExpr); ok {
			if se, ok := ce.Fun.(*ast.SelectorExpr); ok && se.Sel.Name == name {
				found = true
			}
		}
		return !found
	})
	return found
}

// svcShape classifies the top-level statements of a service method.
func svcShape(fd *ast.FuncDecl) string {
	var sb strings.Builder
	var afterStore bool
	for _, st := range fd.Body.List {
		switch {
		case containsStoreCall(st):
			sb.WriteByte('S')
			afterStore = true
			// `if err := s.store.Set(...); err != nil { ... }` form: restore inside the same stmt
			if is, ok := st.(*ast.IfStmt); ok && hasInstanceAssign(is.Body) {
				sb.WriteByte('R')
			}
		case isMutation(st):
			sb.WriteByte('M')
			afterStore = false
		default:
			if is, ok := st.(*ast.IfStmt); ok && afterStore && src(is.Cond) == "err != nil" {
				if hasInstanceAssign(is.Body) {
					sb.WriteByte('R')
				}
			}
			if _, ok := st.(*ast.IfStmt); !ok {
				// non-if statements (metrics, Close, logging) end the "directly after the store" window
				if _, isAssign := st.(*ast.AssignStmt); !isAssign {
					afterStore = false
				}
			}
		}
	}
	// collapse repeated M
	s := sb.String()
	for strings.Contains(s, "MM") {
		s = strings.ReplaceAll(s, "MM", "M")
	}
	return s
}

func containsStoreCall(n ast.Node) bool {
	found := false
	ast.Inspect(n, func(x ast.Node) bool {
		if ce, ok := x.(*ast.CallExpr); ok {
			if se, ok := ce.Fun.(*ast.SelectorExpr); ok && (se.Sel.Name == "Set" || se.Sel.Name == "Delete") {
				if strings.HasSuffix(src(se.X), ".store") {
					found = true
				}
			}
		}
		return !found
	})
	return found
}

// isMutation: an assignment to a field of a local instance pointer / to a service map entry, or
// delete(s.<map>, …).
func isMutation(st ast.Stmt) bool {
	switch v := st.(type) {
	case *ast.AssignStmt:
		if v.Tok != token.ASSIGN {
			return false
		}
		for _, l := range v.Lhs {
			if isInstanceLhs(l) {
				return true
			}
		}
	case *ast.ExprStmt:
		if ce, ok := v.X.(*ast.CallExpr); ok {
			if id, ok := ce.Fun.(*ast.Ident); ok && id.Name == "delete" && len(ce.Args) > 0 && strings.HasPrefix(src(ce.Args[0]), "s.") {
				return true
			}
			// <instance>.SetStatus(…) mutates the instance
			if se, ok := ce.Fun.(*ast.SelectorExpr); ok && se.Sel.Name == "SetStatus" {
				if id, ok := se.X.(*ast.Ident); ok && id.Name != "s" {
					return true
				}
			}
		}
	}
	return false
}

func isInstanceLhs(e ast.Expr) bool {
	switch v := e.(type) {
	case *ast.SelectorExpr:
		// pl.Config, conn.Plugin, instance.UpdatedAt …
		if id, ok := v.X.(*ast.Ident); ok && id.Name != "s" {
			return true
		}
		return isInstanceLhs(v.X)
	case *ast.IndexExpr:
		return strings.HasPrefix(src(v.X), "s.")
	}
	return false
}

func hasInstanceAssign(b *ast.BlockStmt) bool {
	for _, st := range b.List {
		if isMutation(st) {
			return true
		}
	}
	return false
}

// connUpdateRollbackPlugin returns the source of the plugin argument of the Update call inside
// the rollback closure of ConnectorOrchestrator.Update.
func connUpdateRollbackPlugin(fd *ast.FuncDecl) string {
	var out string
	ast.Inspect(fd.Body, func(n ast.Node) bool {
		ce, ok := n.(*ast.CallExpr)
		if !ok {
			return true
		}
		se, ok := ce.Fun.(*ast.SelectorExpr)
		if !ok || se.Sel.Name != "Append" || src(se.X) != "r" || len(ce.Args) != 1 {
			return true
		}
		ast.Inspect(ce.Args[0], func(m ast.Node) bool {
			if c2, ok := m.(*ast.CallExpr); ok {
				if s2, ok := c2.Fun.(*ast.SelectorExpr); ok && s2.Sel.Name == "Update" && len(c2.Args) == 4 {
					out = src(c2.Args[2])
				}
			}
			return true
		})
		return false
	})
	if out == "" {
		panic("rollback Update call not found in ConnectorOrchestrator.Update")
	}
	return out
}

// orchCallOrder lists, in source order, the transaction / service calls of an orchestrator method.
func orchCallOrder(fd *ast.FuncDecl) []string {
	var out []string
	var walk func(n ast.Node, prefix string)
	walk = func(n ast.Node, prefix string) {
		ast.Inspect(n, func(x ast.Node) bool {
			ce, ok := x.(*ast.CallExpr)
			if !ok {
				return true
			}
			se, ok := ce.Fun.(*ast.SelectorExpr)
			if !ok {
				return true
			}
			recv := src(se.X)
			switch {
			case recv == "r" && (se.Sel.Name == "Append" || se.Sel.Name == "AppendPure"):
				for _, a := range ce.Args {
					if fl, ok := a.(*ast.FuncLit); ok {
						walk(fl.Body, "R:")
					} else {
						out = append(out, "R:"+src(a))
					}
				}
				return false
			case recv == "r" && se.Sel.Name == "Skip":
				out = append(out, prefix+"Skip")
			case recv == "txn" && se.Sel.Name == "Commit":
				out = append(out, prefix+"Commit")
			case strings.HasSuffix(recv, ".db") && se.Sel.Name == "NewTransaction":
				out = append(out, prefix+"NewTransaction")
			case strings.HasSuffix(recv, ".pipelines") || strings.HasSuffix(recv, ".connectors") || strings.HasSuffix(recv, ".processors"):
				parts := strings.Split(recv, ".")
				out = append(out, prefix+parts[len(parts)-1]+"."+se.Sel.Name)
			case se.Sel.Name == "Validate" || se.Sel.Name == "getProcessorsPipeline":
				out = append(out, prefix+se.Sel.Name)
			}
			return true
		})
	}
	walk(fd.Body, "")
	return out
}

// gateCalls lists, in source order, the calls whose selector / function name is in vocab.
func gateCalls(fd *ast.FuncDecl, vocab []string) []string {
	in := map[string]bool{}
	for _, v := range vocab {
		in[v] = true
	}
	var out []string
	ast.Inspect(fd.Body, func(n ast.Node) bool {
		ce, ok := n.(*ast.CallExpr)
		if !ok {
			return true
		}
		switch f := ce.Fun.(type) {
		case *ast.SelectorExpr:
			if in[f.Sel.Name] {
				out = append(out, f.Sel.Name)
			}
		case *ast.Ident:
			if in[f.Name] {
				out = append(out, f.Name)
			}
		}
		return true
	})
	return out
}

// assignedFields: distinct fields X of `<recv>.X = …` / `<recv>.X, … = …` assignments in a function.
func assignedFields(fd *ast.FuncDecl, recv string) []string {
	var out []string
	seen := map[string]bool{}
	ast.Inspect(fd.Body, func(n ast.Node) bool {
		as, ok := n.(*ast.AssignStmt)
		if !ok || as.Tok != token.ASSIGN {
			return true
		}
		for _, l := range as.Lhs {
			if se, ok := l.(*ast.SelectorExpr); ok && src(se.X) == recv && !seen[se.Sel.Name] {
				seen[se.Sel.Name] = true
				out = append(out, se.Sel.Name)
			}
		}
		return true
	})
	return out
}

// hashInputs: the keys of the `hashable{…}` literal in Diff.computeHash and the Change fields that
// reach it: if the Changes value is `d.Changes` itself, every field of struct Change that JSON
// marshals; if the function rebuilds the changes (a `Change{…}` literal), the keys of that literal.
func hashInputs(plan *ast.File) (hashKeys, changeFields []string) {
	fd := findFunc(plan, "Diff", "computeHash")
	var changesExpr ast.Expr
	ast.Inspect(fd.Body, func(n ast.Node) bool {
		cl, ok := n.(*ast.CompositeLit)
		if !ok {
			return true
		}
		if id, ok := cl.Type.(*ast.Ident); ok && id.Name == "hashable" {
			for _, e := range cl.Elts {
				kv := e.(*ast.KeyValueExpr)
				hashKeys = append(hashKeys, src(kv.Key))
				if src(kv.Key) == "Changes" {
					changesExpr = kv.Value
				}
			}
		}
		return true
	})
	if changesExpr == nil {
		panic("computeHash: hashable{… Changes: …} not found")
	}
	if src(changesExpr) == "d.Changes" {
		for _, d := range plan.Decls {
			gd, ok := d.(*ast.GenDecl)
			if !ok || gd.Tok != token.TYPE {
				continue
			}
			for _, sp := range gd.Specs {
				ts := sp.(*ast.TypeSpec)
				st, ok := ts.Type.(*ast.StructType)
				if ts.Name.Name != "Change" || !ok {
					continue
				}
				for _, fl := range st.Fields.List {
					if fl.Tag != nil && strings.Contains(fl.Tag.Value, "json:\"-\"") {
						continue
					}
					for _, n := range fl.Names {
						changeFields = append(changeFields, n.Name)
					}
				}
			}
		}
		return hashKeys, changeFields
	}
	// rebuilt changes: keys of the Change{…} literal(s) in the function
	seen := map[string]bool{}
	ast.Inspect(fd.Body, func(n ast.Node) bool {
		cl, ok := n.(*ast.CompositeLit)
		if !ok {
			return true
		}
		if id, ok := cl.Type.(*ast.Ident); ok && id.Name == "Change" {
			for _, e := range cl.Elts {
				if kv, ok := e.(*ast.KeyValueExpr); ok && !seen[src(kv.Key)] {
					seen[src(kv.Key)] = true
					changeFields = append(changeFields, src(kv.Key))
				}
			}
		}
		return true
	})
	if len(changeFields) == 0 {
		panic("computeHash: cannot tell which Change fields are hashed (Changes: " + src(changesExpr) + ")")
	}
	return hashKeys, changeFields
}

// isRunningVsGate counts the isRunning calls of ApplyPlanLive and those of them that come (in
// source order, at the top level of the function body or nested in an earlier statement) before
// the statement `if running && !allowRestartOnRunning`.
func isRunningVsGate(fd *ast.FuncDecl) (total, before int) {
	gate := token.NoPos
	for _, st := range fd.Body.List {
		if is, ok := st.(*ast.IfStmt); ok && src(is.Cond) == "running && !allowRestartOnRunning" {
			gate = is.Pos()
			break
		}
	}
	if gate == token.NoPos {
		panic("authorisation gate `if running && !allowRestartOnRunning` not found in ApplyPlanLive")
	}
	ast.Inspect(fd.Body, func(n ast.Node) bool {
		if ce, ok := n.(*ast.CallExpr); ok {
			if se, ok := ce.Fun.(*ast.SelectorExpr); ok && se.Sel.Name == "isRunning" {
				total++
				if ce.Pos() < gate {
					before++
				}
			}
		}
		return true
	})
	return total, before
}

// runningCases: the case labels of the switch arm of isRunningStatus that returns true.
func runningCases(fd *ast.FuncDecl) []string {
	var out []string
	ast.Inspect(fd.Body, func(n ast.Node) bool {
		cc, ok := n.(*ast.CaseClause)
		if !ok || len(cc.Body) != 1 {
			return true
		}
		if rs, ok := cc.Body[0].(*ast.ReturnStmt); ok && len(rs.Results) == 1 && src(rs.Results[0]) == "true" {
			for _, e := range cc.List {
				out = append(out, src(e))
			}
		}
		return true
	})
	if len(out) == 0 {
		panic("isRunningStatus: no `return true` arm found")
	}
	return out
}

// constBlock returns the names of the const block that starts with first.
func constBlock(f *ast.File, first string) []string {
	for _, d := range f.Decls {
		gd, ok := d.(*ast.GenDecl)
		if !ok || gd.Tok != token.CONST || len(gd.Specs) == 0 {
			continue
		}
		vs := gd.Specs[0].(*ast.ValueSpec)
		if vs.Names[0].Name != first {
			continue
		}
		var out []string
		for _, s := range gd.Specs {
			out = append(out, s.(*ast.ValueSpec).Names[0].Name)
		}
		return out
	}
	panic("const block " + first + " not found")
}
