package main

import (
	"go/ast"
	"strings"
)

// Dlq: DLQ defaults and the validation guards of pipeline.Service.UpdateDLQ — the hypotheses
// under which the window theorems of C07 are applied to configurations the API accepts.
func init() {
	register("Dlq", func(b *leanFile) {
		inst := parse("pkg/pipeline/instance.go")
		def := findValue(inst, "DefaultDLQ").(*ast.CompositeLit)
		b.P("def defaultWindowSize : Nat := %d", intLit(field(def, "WindowSize")))
		b.P("def defaultWindowNackThreshold : Nat := %d", intLit(field(def, "WindowNackThreshold")))
		svc := parse("pkg/pipeline/service.go")
		var conds []string
		for _, c := range ifConds(findFunc(svc, "Service", "UpdateDLQ")) {
			if strings.Contains(c, "Window") {
				conds = append(conds, c)
			}
		}
		b.P("/-- window guard conditions (each rejects the config) of `UpdateDLQ`, in source order -/")
		b.P("def dlqRejectConds : List String := %s", leanStrList(conds))
		summary["Dlq.rejectConds"] = conds
	})
}
