package main

import (
	"fmt"
	"go/ast"
	"strings"
)

// DlqCfg (C07): the nack-window parameters that reach the window constructor are exactly the
// pipeline's configured pl.DLQ.WindowSize / pl.DLQ.WindowNackThreshold, in BOTH engines:
//   v1  lifecycle.Service.buildDLQHandlerNode  -> stream.DLQHandlerNode{WindowSize, WindowNackThreshold}
//       -> DLQHandlerNode.Run: newDLQWindow(n.WindowSize, n.WindowNackThreshold)
//   v2  lifecyclepoc.Service.buildDLQ -> funnel.NewDLQ(…, windowSize, windowNackThreshold)
//       -> newDLQWindow(windowSize, windowNackThreshold)
func init() {
	register("DlqCfg", func(b *leanFile) {
		// ---- v1 service: composite literal
		v1 := parse("pkg/lifecycle/service.go")
		bd := findFunc(v1, "Service", "buildDLQHandlerNode")
		var lit *ast.CompositeLit
		ast.Inspect(bd.Body, func(x ast.Node) bool {
			if cl, ok := x.(*ast.CompositeLit); ok && strings.HasSuffix(src(cl.Type), "DLQHandlerNode") {
				lit = cl
			}
			return true
		})
		if lit == nil {
			panic("buildDLQHandlerNode: stream.DLQHandlerNode literal not found")
		}
		b.P("/-- values of the DLQHandlerNode literal's WindowSize / WindowNackThreshold fields in v1 buildDLQHandlerNode. -/")
		b.P("def v1NodeWindowFields : List String := %s", leanStrList([]string{src(field(lit, "WindowSize")), src(field(lit, "WindowNackThreshold"))}))
		b.P("/-- assignments in buildDLQHandlerNode whose value mentions a window parameter (there are none on the clean tree). -/")
		b.P("def v1WindowRewrites : List String := %s", leanStrList(dlqcfgWindowAssigns(bd)))
		// ---- v1 node: constructor call in Run
		nd := parse("pkg/lifecycle/stream/dlq.go")
		b.P("def v1WindowCtorArgs : List String := %s", leanStrList(dlqcfgCallArgs(findFunc(nd, "DLQHandlerNode", "Run"), "newDLQWindow")))
		// ---- v2 service: NewDLQ call
		v2 := parse("pkg/lifecycle-poc/service.go")
		b2 := findFunc(v2, "Service", "buildDLQ")
		args := dlqcfgCallArgs(b2, "NewDLQ")
		if len(args) != 6 {
			panic(fmt.Sprintf("buildDLQ: funnel.NewDLQ has %d arguments, expected 6", len(args)))
		}
		b.P("/-- the last two arguments of funnel.NewDLQ in v2 buildDLQ. -/")
		b.P("def v2NewDLQWindowArgs : List String := %s", leanStrList(args[4:]))
		b.P("def v2WindowRewrites : List String := %s", leanStrList(dlqcfgWindowAssigns(b2)))
		// ---- v2 funnel: parameter names and constructor call
		fn := parse("pkg/lifecycle-poc/funnel/dlq.go")
		nf := findFunc(fn, "", "NewDLQ")
		var params []string
		for _, p := range nf.Type.Params.List {
			for _, n := range p.Names {
				params = append(params, n.Name)
			}
		}
		if len(params) != 6 {
			panic("funnel.NewDLQ: expected 6 parameters")
		}
		b.P("def v2NewDLQWindowParams : List String := %s", leanStrList(params[4:]))
		b.P("def v2WindowCtorArgs : List String := %s", leanStrList(dlqcfgCallArgs(nf, "newDLQWindow")))
		summary["DlqCfg.v1"] = []string{src(field(lit, "WindowSize")), src(field(lit, "WindowNackThreshold"))}
		summary["DlqCfg.v2"] = args[4:]
	})
}

// dlqcfgCallArgs returns the rendered arguments of the single call to a function named suffix.
func dlqcfgCallArgs(fd *ast.FuncDecl, suffix string) []string {
	var out []string
	found := 0
	ast.Inspect(fd.Body, func(x ast.Node) bool {
		if c, ok := x.(*ast.CallExpr); ok && strings.HasSuffix(selName(c.Fun), suffix) {
			found++
			out = nil
			for _, a := range c.Args {
				out = append(out, src(a))
			}
		}
		return true
	})
	if found != 1 {
		panic(fmt.Sprintf("%s: expected exactly one call of %s, found %d", fd.Name.Name, suffix, found))
	}
	return out
}

// dlqcfgWindowAssigns lists assignments / definitions in fd that involve a DLQ window parameter.
func dlqcfgWindowAssigns(fd *ast.FuncDecl) []string {
	var out []string
	ast.Inspect(fd.Body, func(x ast.Node) bool {
		if as, ok := x.(*ast.AssignStmt); ok {
			s := src(as)
			if strings.Contains(s, "WindowSize") || strings.Contains(s, "WindowNackThreshold") || strings.Contains(strings.ToLower(s), "windowsize") {
				out = append(out, s)
			}
		}
		return true
	})
	return out
}
