package main

import (
	"fmt"
	"go/ast"
	"go/token"
	"math/big"
	"net"
	"os"
	"path/filepath"
	"sort"
	"strings"
)

// Egress (C18): the refused-range tables, synthesized-prefix nets, thresholds and reason labels
// of ipguard.go; the guard order of Refuse / classifyV4 / dialControl / dialContext; the
// policy defaults; and how service.go constructs the http client (proxy, redirects, dial hooks,
// reserved headers).

const egressDir = "pkg/plugin/processor/egress"

// cidrOf evaluates mustCIDR("…") with the same library function the code uses.
func cidrOf(e ast.Expr, wantBits int) (string, int) {
	c, ok := e.(*ast.CallExpr)
	if !ok || src(c.Fun) != "mustCIDR" || len(c.Args) != 1 {
		panic("not a mustCIDR(…) call: " + src(e))
	}
	s := strLit(c.Args[0])
	_, n, err := net.ParseCIDR(s)
	if err != nil {
		panic("invalid CIDR " + s)
	}
	ones, bits := n.Mask.Size()
	if bits != wantBits || len(n.IP)*8 != wantBits {
		panic(fmt.Sprintf("CIDR %s is not a %d-bit network", s, wantBits))
	}
	return new(big.Int).SetBytes(n.IP).String(), ones
}

func stringConsts(f *ast.File, typ string) map[string]string {
	out := map[string]string{}
	for _, d := range f.Decls {
		gd, ok := d.(*ast.GenDecl)
		if !ok || gd.Tok != token.CONST {
			continue
		}
		for _, s := range gd.Specs {
			vs := s.(*ast.ValueSpec)
			if typ != "" {
				if id, ok := vs.Type.(*ast.Ident); !ok || id.Name != typ {
					continue
				}
			}
			for i, n := range vs.Names {
				if i < len(vs.Values) {
					if bl, ok := vs.Values[i].(*ast.BasicLit); ok && bl.Kind == token.STRING {
						out[n.Name] = strLit(bl)
					}
				}
			}
		}
	}
	return out
}

// guards lists every `if` of a function body (any depth, source order) as "cond => last statement of the then-branch".
func guards(fd *ast.FuncDecl) []string {
	var out []string
	ast.Inspect(fd.Body, func(n ast.Node) bool {
		is, ok := n.(*ast.IfStmt)
		if !ok {
			return true
		}
		h := ""
		if is.Init != nil {
			h = src(is.Init) + "; "
		}
		body := ""
		if k := len(is.Body.List); k > 0 {
			last := is.Body.List[k-1]
			if _, nested := last.(*ast.IfStmt); !nested {
				body = src(last)
			} else {
				body = "…"
			}
		}
		out = append(out, h+src(is.Cond)+" => "+body)
		return true
	})
	return out
}

func init() {
	register("Egress", func(b *leanFile) {
		ig := parse(egressDir + "/ipguard.go")
		reasons := stringConsts(ig, "refusedReason")
		reason := func(e ast.Expr) string {
			v, ok := reasons[src(e)]
			if !ok {
				panic("unknown reason constant " + src(e))
			}
			return v
		}
		table := func(name string, bits int) {
			cl, ok := findValue(ig, name).(*ast.CompositeLit)
			if !ok {
				panic(name + " is not a composite literal")
			}
			var rows []string
			for _, el := range cl.Elts {
				row, ok := el.(*ast.CompositeLit)
				if !ok || len(row.Elts) != 2 {
					panic("unexpected row in " + name + ": " + src(el))
				}
				n, ones := cidrOf(row.Elts[0], bits)
				rows = append(rows, fmt.Sprintf("(%s, %d, %s)", n, ones, leanStr(reason(row.Elts[1]))))
			}
			b.P("/-- `%s` of ipguard.go: (network as a number, prefix length, reason) -/", name)
			b.P("def %s : List (Nat × Nat × String) := [%s]", name, strings.Join(rows, ", "))
		}
		table("refusedV4", 32)
		table("refusedV6", 128)
		for _, n := range []string{"nat64Net", "v4TranslatedNet"} {
			v, ones := cidrOf(findValue(ig, n), 128)
			b.P("def %s : Nat × Nat := (%s, %d)", n, v, ones)
		}
		for _, n := range []string{"reasonUnparseable", "reasonV4Mapped", "reasonV4Compatible", "reasonV4Translated",
			"reasonNAT64", "reasonSixToFour", "reasonTeredo", "reasonMulticastEtc", "reasonNotRefused"} {
			v, ok := reasons[n]
			if !ok {
				panic("reason constant " + n + " not found")
			}
			b.P("def %s : String := %s", n, leanStr(v))
		}
		// thresholds: `v4[0] >= N` in classifyV4, `ip16[0] == N` as the last test of Refuse
		thr := -1
		ast.Inspect(findFunc(ig, "", "classifyV4").Body, func(n ast.Node) bool {
			if be, ok := n.(*ast.BinaryExpr); ok && be.Op == token.GEQ && src(be.X) == "v4[0]" {
				thr = intLit(be.Y)
			}
			return true
		})
		if thr < 0 {
			panic("classifyV4: `v4[0] >= N` not found")
		}
		b.P("def v4McastFirstByte : Nat := %d", thr)
		b.P("/-- every `if` of the function, source order: \"cond => last statement of its then-branch\" -/")
		b.P("def classifyV4Guards : List String := %s", leanStrList(guards(findFunc(ig, "", "classifyV4"))))
		b.P("def refuseGuards : List String := %s", leanStrList(guards(findFunc(ig, "", "Refuse"))))
		b.P("def isV4CompatibleBody : List String := %s", leanStrList(append(guards(findFunc(ig, "", "isV4Compatible")), stmtShapes(findFunc(ig, "", "isV4Compatible"))...)))
		b.P("def isRawV4Body : List String := %s", leanStrList(stmtShapes(findFunc(ig, "", "isRawV4"))))

		// ---- policy.go
		pol := parse(egressDir + "/policy.go")
		b.P("def resolvePolicyGuards : List String := %s", leanStrList(guards(findFunc(pol, "", "ResolvePolicy"))))
		b.P("def matchesCarveOutGuards : List String := %s", leanStrList(guards(findFunc(pol, "Policy", "matchesCarveOut"))))
		b.P("def entryKeyBody : List String := %s", leanStrList(stmtShapes(findFunc(pol, "", "entryKey"))))
		b.P("def intersectRefsGuards : List String := %s", leanStrList(guards(findFunc(pol, "", "intersectRefs"))))
		dt := src(findValue(pol, "DefaultTimeout"))
		if dt != "30 * time.Second" {
			// only `N * time.Second` is translated
			var n int
			if _, err := fmt.Sscanf(dt, "%d * time.Second", &n); err != nil {
				panic("DefaultTimeout: untranslatable " + dt)
			}
			b.P("def defaultTimeoutNs : Int := %d", int64(n)*1_000_000_000)
		} else {
			b.P("def defaultTimeoutNs : Int := %d", int64(30)*1_000_000_000)
		}
		b.P("def defaultMaxResponseBytes : Int := %d", intLit(findValue(pol, "DefaultMaxResponseBytes")))

		// ---- service.go
		svc := parse(egressDir + "/service.go")
		b.P("def dialControlGuards : List String := %s", leanStrList(guards(findFunc(svc, "Service", "dialControl"))))
		b.P("def dialContextGuards : List String := %s", leanStrList(guards(findFunc(svc, "Service", "dialContext"))))
		newFn := findFunc(svc, "", "New")
		var transport, client, dialer *ast.CompositeLit
		ast.Inspect(newFn.Body, func(n ast.Node) bool {
			if cl, ok := n.(*ast.CompositeLit); ok {
				switch src(cl.Type) {
				case "http.Transport":
					transport = cl
				case "http.Client":
					client = cl
				case "net.Dialer":
					dialer = cl
				}
			}
			return true
		})
		if transport == nil || client == nil || dialer == nil {
			panic("New: http.Transport / http.Client / net.Dialer literal not found")
		}
		keys := func(cl *ast.CompositeLit) []string {
			var ks []string
			for _, el := range cl.Elts {
				kv, ok := el.(*ast.KeyValueExpr)
				if !ok {
					panic("positional field in " + src(cl.Type))
				}
				ks = append(ks, src(kv.Key))
			}
			sort.Strings(ks)
			return ks
		}
		b.P("/-- fields set on the http.Transport built in `New` (sorted) -/")
		b.P("def transportFields : List String := %s", leanStrList(keys(transport)))
		b.P("def transportProxy : String := %s", leanStr(src(field(transport, "Proxy"))))
		b.P("def transportDialContext : String := %s", leanStr(src(field(transport, "DialContext"))))
		b.P("def dialerControl : String := %s", leanStr(src(field(dialer, "Control"))))
		b.P("def clientFields : List String := %s", leanStrList(keys(client)))
		b.P("def clientTransport : String := %s", leanStr(src(field(client, "Transport"))))
		cr, ok := field(client, "CheckRedirect").(*ast.FuncLit)
		if !ok {
			panic("CheckRedirect is not a function literal")
		}
		var crBody []string
		for _, st := range cr.Body.List {
			crBody = append(crBody, src(st))
		}
		b.P("def checkRedirectBody : List String := %s", leanStrList(crBody))
		// assignments to the transport / client after construction would undo the pinning
		var later []string
		ast.Inspect(newFn.Body, func(n ast.Node) bool {
			if as, ok := n.(*ast.AssignStmt); ok {
				for _, l := range as.Lhs {
					s := src(l)
					if strings.HasPrefix(s, "transport.") || strings.HasPrefix(s, "s.client.") || strings.HasPrefix(s, "base.") {
						later = append(later, src(as))
					}
				}
			}
			return true
		})
		b.P("def newLaterAssignments : List String := %s", leanStrList(later))
		// the words ProxyFromEnvironment / DialTLS anywhere in the package's non-test code
		var proxyEnv []string
		ents, err := os.ReadDir(filepath.Join(repo, egressDir))
		if err != nil {
			panic(err)
		}
		for _, e := range ents {
			n := e.Name()
			if !strings.HasSuffix(n, ".go") || strings.HasSuffix(n, "_test.go") || n == "zz_verif_hooks.go" {
				continue
			}
			f := parse(egressDir + "/" + n)
			ast.Inspect(f, func(nd ast.Node) bool {
				if id, ok := nd.(*ast.Ident); ok && (id.Name == "ProxyFromEnvironment" || strings.HasPrefix(id.Name, "DialTLS") || id.Name == "ProxyURL") {
					proxyEnv = append(proxyEnv, fmt.Sprintf("%s:%d %s", n, fset.Position(id.Pos()).Line, id.Name))
				}
				return true
			})
		}
		b.P("/-- identifiers ProxyFromEnvironment / ProxyURL / DialTLS* used in the package's non-test code -/")
		b.P("def proxyOrTLSDialIdents : List String := %s", leanStrList(proxyEnv))
		// reserved headers
		hdr := stringConsts(svc, "")
		rh, ok := findValue(svc, "reservedHeaders").(*ast.CompositeLit)
		if !ok {
			panic("reservedHeaders is not a composite literal")
		}
		var hs []string
		for _, el := range rh.Elts {
			kv := el.(*ast.KeyValueExpr)
			v, ok := hdr[src(kv.Key)]
			if !ok {
				if bl, isLit := kv.Key.(*ast.BasicLit); isLit {
					v = strLit(bl)
				} else {
					panic("reservedHeaders key " + src(kv.Key))
				}
			}
			hs = append(hs, v)
		}
		sort.Strings(hs)
		b.P("def reservedHeaders : List String := %s", leanStrList(hs))
		b.P("def doGuards : List String := %s", leanStrList(conds(findFunc(svc, "Service", "Do"))))
		b.P("def classifyDoErrorGuards : List String := %s", leanStrList(guards(findFunc(svc, "Service", "classifyDoError"))))
		b.P("def matchHostPortGuards : List String := %s", leanStrList(guards(findFunc(pol, "Policy", "MatchHostPort"))))
		b.P("def buildHTTPRequestGuards : List String := %s", leanStrList(guards(findFunc(svc, "Service", "buildHTTPRequest"))))
		summary["Egress.refusedV4"] = len(findValue(ig, "refusedV4").(*ast.CompositeLit).Elts)
	})
}
