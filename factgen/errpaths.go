package main

import (
	"encoding/hex"
	"fmt"
	"go/ast"
	"strings"
)

// ErrPaths (C20): the error-composition expressions of the arch-v2 nack path
// (funnel.Worker.Nack, DLQ.Nack, DLQ.sendToDLQ, DestinationTask.Do), translated mechanically
// into the constructor-expression syntax of the `errtree` driver with `$name` placeholders for
// the error values combined. The control flow of these functions is modelled by hand
// (Driver/ErrPaths.lean); HOW the errors are combined on each return is regenerated, so a change
// of a format string, of Join vs Errorf, or of a FatalError mark changes the model with the code.
//
// Translatable subset: cerrors.FatalError(x), cerrors.Errorf("literal", args…), cerrors.Join(args…),
// error variables, `<batch>.recordStatuses[i].Error` ($statusErr), nil. Anything else panics.

func errExprSX(f *ast.File, e ast.Expr, errVars map[string]bool) string {
	alias := importName(f, cerrorsPath)
	switch v := e.(type) {
	case *ast.Ident:
		if v.Name == "nil" {
			return "nil"
		}
		if errVars[v.Name] {
			return "$" + v.Name
		}
	case *ast.SelectorExpr:
		if v.Sel.Name == "Error" && strings.Contains(src(v.X), ".recordStatuses[") {
			return "$statusErr"
		}
	case *ast.CallExpr:
		if sel, ok := v.Fun.(*ast.SelectorExpr); ok {
			if id, ok := sel.X.(*ast.Ident); ok && id.Name == alias {
				switch sel.Sel.Name {
				case "FatalError":
					if len(v.Args) == 1 {
						return "(f " + errExprSX(f, v.Args[0], errVars) + ")"
					}
				case "Join":
					parts := []string{"j"}
					for _, a := range v.Args {
						parts = append(parts, errExprSX(f, a, errVars))
					}
					return "(" + strings.Join(parts, " ") + ")"
				case "Errorf":
					if len(v.Args) >= 1 {
						format, ok := resolveString(f, v.Args[0])
						if !ok {
							panic("Errorf with a non-constant format: " + src(v))
						}
						h := "-"
						if format != "" {
							h = hex.EncodeToString([]byte(format))
						}
						parts := []string{"ef", h}
						for _, a := range v.Args[1:] {
							parts = append(parts, errArgSX(f, a, errVars))
						}
						return "(" + strings.Join(parts, " ") + ")"
					}
				}
			}
		}
	}
	panic("untranslatable error expression: " + src(e))
}

// errArgSX: an Errorf argument is an error expression if it translates, otherwise a plain value.
func errArgSX(f *ast.File, e ast.Expr, errVars map[string]bool) (out string) {
	defer func() {
		if p := recover(); p != nil {
			out = "other"
		}
	}()
	return errExprSX(f, e, errVars)
}

// returnsOf lists the error result (last result) of every return statement of fd, source order.
func returnsOf(fd *ast.FuncDecl) []ast.Expr {
	var out []ast.Expr
	ast.Inspect(fd.Body, func(n ast.Node) bool {
		if _, ok := n.(*ast.FuncLit); ok {
			return false
		}
		if r, ok := n.(*ast.ReturnStmt); ok && len(r.Results) > 0 {
			out = append(out, r.Results[len(r.Results)-1])
		}
		return true
	})
	return out
}

// conds lists "init; cond" of every `if` (any depth, source order), without the branch bodies.
func conds(fd *ast.FuncDecl) []string {
	var out []string
	ast.Inspect(fd.Body, func(n ast.Node) bool {
		if is, ok := n.(*ast.IfStmt); ok {
			h := ""
			if is.Init != nil {
				h = src(is.Init) + "; "
			}
			out = append(out, h+src(is.Cond))
		}
		return true
	})
	return out
}

func init() {
	register("ErrPaths", func(b *leanFile) {
		emit := func(name, file, recv, fn string, vars ...string) {
			f := parse(file)
			fd := findFunc(f, recv, fn)
			ev := map[string]bool{}
			for _, v := range vars {
				ev[v] = true
			}
			var rows []string
			for _, r := range returnsOf(fd) {
				rows = append(rows, errExprSX(f, r, ev))
			}
			b.P("/-- error result of every `return` of `%s.%s` (%s), source order -/", recv, fn, file)
			b.P("def %s : List String := %s", name, leanStrList(rows))
			b.P("/-- the conditions of every `if` of that function (any depth, source order) -/")
			b.P("def %sConds : List String := %s", name, leanStrList(conds(fd)))
			summary["ErrPaths."+name] = rows
		}
		emit("workerNack", "pkg/lifecycle-poc/funnel/worker.go", "Worker", "Nack", "posErr", "err", "ackErr")
		emit("dlqNack", "pkg/lifecycle-poc/funnel/dlq.go", "DLQ", "Nack", "err")
		emit("sendToDLQ", "pkg/lifecycle-poc/funnel/dlq.go", "DLQ", "sendToDLQ", "err")
		emit("destinationDo", "pkg/lifecycle-poc/funnel/destination.go", "DestinationTask", "Do", "err")
		// validateAckPositions: which code the position error carries
		w := parse("pkg/lifecycle-poc/funnel/worker.go")
		var code string
		ast.Inspect(findFunc(w, "", "validateAckPositions").Body, func(n ast.Node) bool {
			if c, ok := n.(*ast.CallExpr); ok && src(c.Fun) == "conduiterr.New" && len(c.Args) >= 1 {
				code = src(c.Args[0])
			}
			return true
		})
		if code == "" {
			panic("validateAckPositions: conduiterr.New(code, …) not found")
		}
		cf := parse("pkg/lifecycle-poc/funnel/codes.go")
		reg, ok := findValue(cf, code).(*ast.CallExpr)
		if !ok || len(reg.Args) != 2 {
			panic(code + " is not a Register call")
		}
		reason, _ := resolveString(cf, reg.Args[0])
		b.P("/-- the code `validateAckPositions` raises: (reason, gRPC category) -/")
		b.P("def emptyPositionCode : String × Nat := (%s, %d)", leanStr(reason), codeNum(grpcCodeNumbers(), cf, reg.Args[1]))
		_ = fmt.Sprint
	})
}
