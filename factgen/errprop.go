package main

import (
	"fmt"
	"go/ast"
	"go/token"
	"math/big"
	"os"
	"path/filepath"
	"sort"
	"strings"
)

// ErrProp (C20): every error-PROPAGATION site of the packages an error crosses between a node /
// task failure (or an ack / nack handler) and the lifecycle service's fatal-vs-recoverable
// classification. A propagation site is a call that builds a new error FROM an error value:
//
//	cerrors.Errorf / xerrors.Errorf (kind "x"), fmt.Errorf (kind "f")  with an error-valued argument
//	cerrors.New / errors.New (kind "n")                                 whose text is made from an error
//
// For each site the table holds file, enclosing function, line, kind, the format (bytes, shipped
// as a little-endian base-256 number, and as text for pinning), the number of arguments after
// the format and the 0-based argument indices that are error-valued. Lean decides with its model
// of the format scanner whether each error argument sits on a `%w` the constructor honours
// (Facts/C20Prop.lean): a site that formats an error with %v / %s / .Error() flattens it — the
// fatal mark, the code and every sentinel of that error are gone for the classifier.
//
// go/ast only (no type information), so "error-valued" is decided syntactically, on purpose
// broadly: identifiers named like errors (err, xxxErr, xxxerr, ErrXxx, errXxx, reason, cause) or declared `error`
// in the enclosing function's signature / var declarations, fields and calls named Err / Error /
// Reason / Cause (x.Err, ack.Error, nackMetadata.Reason, ctx.Err(), err.Error()), and calls into
// cerrors / errors / fmt.Errorf. A false positive shows up as a site to pin, never as a miss.

var epScope = []string{
	"pkg/lifecycle",
	"pkg/lifecycle/stream",
	"pkg/lifecycle-poc",
	"pkg/lifecycle-poc/funnel",
	"pkg/connector",
	"pkg/processor",
	"pkg/foundation/cerrors",
}

var epKindCode = map[string]int{"x": 0, "f": 1, "n": 2, "?": 3}

type epSite struct {
	file, fn string
	line     int
	kind     string
	format   string
	argc     int
	errArgs  []int
}

func epErrName(n string) bool {
	l := strings.ToLower(n)
	return l == "err" || strings.HasSuffix(l, "err") || strings.HasSuffix(l, "error") || l == "reason" || l == "cause" ||
		strings.HasSuffix(l, "errs") || strings.HasPrefix(n, "Err") || (strings.HasPrefix(n, "err") && len(n) > 3 && n[3] >= 'A' && n[3] <= 'Z')
}

// epErrorTyped collects the identifiers the enclosing function declares with type `error`.
func epErrorTyped(fd *ast.FuncDecl) map[string]bool {
	out := map[string]bool{}
	addFields := func(fl *ast.FieldList) {
		if fl == nil {
			return
		}
		for _, f := range fl.List {
			if id, ok := f.Type.(*ast.Ident); ok && id.Name == "error" {
				for _, n := range f.Names {
					out[n.Name] = true
				}
			}
		}
	}
	addFields(fd.Type.Params)
	addFields(fd.Type.Results)
	if fd.Body != nil {
		ast.Inspect(fd.Body, func(n ast.Node) bool {
			switch v := n.(type) {
			case *ast.FuncLit:
				addFields(v.Type.Params)
				addFields(v.Type.Results)
			case *ast.ValueSpec:
				if id, ok := v.Type.(*ast.Ident); ok && id.Name == "error" {
					for _, n := range v.Names {
						out[n.Name] = true
					}
				}
			}
			return true
		})
	}
	return out
}

// epIsErrorExpr: is e (syntactically) an error value, or text made from one (x.Error())?
func epIsErrorExpr(f *ast.File, e ast.Expr, typed map[string]bool) bool {
	switch v := e.(type) {
	case *ast.Ident:
		return v.Name != "nil" && (typed[v.Name] || epErrName(v.Name))
	case *ast.ParenExpr:
		return epIsErrorExpr(f, v.X, typed)
	case *ast.SelectorExpr:
		switch v.Sel.Name {
		case "Err", "Error", "Reason", "Cause":
			return true
		}
		return epErrName(v.Sel.Name)
	case *ast.IndexExpr:
		return epIsErrorExpr(f, v.X, typed)
	case *ast.CallExpr:
		switch fn := v.Fun.(type) {
		case *ast.SelectorExpr:
			switch fn.Sel.Name {
			case "Err", "Error", "Unwrap", "Cause":
				return true // ctx.Err(), err.Error(), errors.Unwrap(err)
			}
			if id, ok := fn.X.(*ast.Ident); ok {
				if id.Name == importName(f, cerrorsPath) || id.Name == "errors" || id.Name == "xerrors" {
					switch fn.Sel.Name {
					case "Is", "As", "GetStackTrace", "ForEach":
						return false
					}
					return true
				}
				if id.Name == "fmt" && fn.Sel.Name == "Errorf" {
					return true
				}
			}
		}
	}
	return false
}

// epContainsErr: does the expression contain an error-valued subexpression anywhere?
func epContainsErr(f *ast.File, e ast.Expr, typed map[string]bool) bool {
	found := false
	ast.Inspect(e, func(n ast.Node) bool {
		if x, ok := n.(ast.Expr); ok && epIsErrorExpr(f, x, typed) {
			found = true
		}
		return !found
	})
	return found
}

func epBig(s string) string {
	n := new(big.Int)
	bs := []byte(s)
	for k := len(bs) - 1; k >= 0; k-- {
		n.Lsh(n, 8)
		n.Or(n, big.NewInt(int64(bs[k])))
	}
	return n.String()
}

func epScan() []epSite {
	var out []epSite
	for _, dir := range epScope {
		ents, err := os.ReadDir(filepath.Join(repo, dir))
		if err != nil {
			panic(fmt.Sprintf("propagation scope %s: %v", dir, err))
		}
		for _, e := range ents {
			n := e.Name()
			if e.IsDir() || !strings.HasSuffix(n, ".go") || strings.HasSuffix(n, "_test.go") || n == "zz_verif_hooks.go" {
				continue
			}
			rel := dir + "/" + n
			f := parse(rel)
			calias := importName(f, cerrorsPath)
			inCerrors := f.Name.Name == "cerrors"
			for _, d := range f.Decls {
				fd, ok := d.(*ast.FuncDecl)
				if !ok || fd.Body == nil {
					continue
				}
				fname := fd.Name.Name
				if fd.Recv != nil && len(fd.Recv.List) > 0 {
					t := fd.Recv.List[0].Type
					if s, ok := t.(*ast.StarExpr); ok {
						t = s.X
					}
					if ix, ok := t.(*ast.IndexExpr); ok {
						t = ix.X
					}
					fname = src(t) + "." + fname
				}
				typed := epErrorTyped(fd)
				ast.Inspect(fd.Body, func(nd ast.Node) bool {
					c, ok := nd.(*ast.CallExpr)
					if !ok {
						return true
					}
					kind := ""
					switch fn := c.Fun.(type) {
					case *ast.SelectorExpr:
						if id, ok := fn.X.(*ast.Ident); ok {
							switch {
							case fn.Sel.Name == "Errorf" && (id.Name == calias && calias != "" || id.Name == "xerrors"):
								kind = "x"
							case fn.Sel.Name == "Errorf" && id.Name == "fmt":
								kind = "f"
							case fn.Sel.Name == "New" && (id.Name == calias && calias != "" || id.Name == "errors" || id.Name == "xerrors"):
								kind = "n"
							}
						}
					case *ast.Ident:
						if inCerrors && fn.Name == "Errorf" {
							kind = "x"
						} else if inCerrors && fn.Name == "New" {
							kind = "n"
						}
					}
					if kind == "" || len(c.Args) == 0 {
						return true
					}
					line := fset.Position(c.Pos()).Line
					if kind == "n" {
						if _, lit := resolveString(f, c.Args[0]); lit {
							return true // constant text: a fresh leaf, nothing is propagated
						}
						if epContainsErr(f, c.Args[0], typed) {
							out = append(out, epSite{rel, fname, line, kind, src(c.Args[0]), 0, []int{0}})
						}
						return true
					}
					var errArgs []int
					for i, a := range c.Args[1:] {
						if epIsErrorExpr(f, a, typed) {
							errArgs = append(errArgs, i)
						}
					}
					if len(errArgs) == 0 {
						return true
					}
					format, ok := resolveString(f, c.Args[0])
					if !ok || c.Ellipsis != token.NoPos {
						// a non-constant format cannot be decided: listed with kind "?" (always a violation unless pinned)
						out = append(out, epSite{rel, fname, line, "?", src(c.Args[0]), len(c.Args) - 1, errArgs})
						return true
					}
					out = append(out, epSite{rel, fname, line, kind, format, len(c.Args) - 1, errArgs})
					return true
				})
			}
		}
	}
	sort.SliceStable(out, func(i, j int) bool {
		if out[i].file != out[j].file {
			return out[i].file < out[j].file
		}
		return out[i].line < out[j].line
	})
	return out
}

func init() {
	register("ErrProp", func(b *leanFile) {
		sites := epScan()
		if len(sites) < 50 {
			panic(fmt.Sprintf("only %d propagation sites found: extraction is broken", len(sites)))
		}
		b.P("/-- the packages scanned -/")
		b.P("def scope : List String := %s", leanStrList(epScope))
		b.P("/-- every error-propagation site of the scope:")
		b.P("(file, function, line, kind (0 = cerrors/xerrors.Errorf, 1 = fmt.Errorf, 2 = New(text made from an error), 3 = non-constant format), format text, format length, format bytes as a little-endian base-256 number,")
		b.P(" number of arguments after the format, indices of the error-valued arguments) -/")
		const chunk = 60
		nchunks := 0
		for i := 0; i < len(sites); i += chunk {
			b.P("def sites%d : List (String × String × Nat × Nat × String × Nat × Nat × Nat × List Nat) := [", nchunks)
			end := min(i+chunk, len(sites))
			for j := i; j < end; j++ {
				s := sites[j]
				var ix []string
				for _, k := range s.errArgs {
					ix = append(ix, fmt.Sprint(k))
				}
				sep := ","
				if j == end-1 {
					sep = ""
				}
				b.P("  (%s, %s, %d, %d, %s, %d, %s, %d, [%s])%s", leanStr(s.file), leanStr(s.fn), s.line, epKindCode[s.kind],
					leanStr(s.format), len(s.format), epBig(s.format), s.argc, strings.Join(ix, ", "), sep)
			}
			b.P("]")
			nchunks++
		}
		var parts []string
		for i := 0; i < nchunks; i++ {
			parts = append(parts, fmt.Sprintf("sites%d", i))
		}
		b.P("def sites : List (String × String × Nat × Nat × String × Nat × Nat × Nat × List Nat) := %s", strings.Join(parts, " ++ "))
		summary["ErrProp.sites"] = len(sites)
	})
}
