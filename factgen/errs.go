package main

import (
	"fmt"
	"go/ast"
	"go/parser"
	"go/token"
	"math/big"
	"os"
	"path/filepath"
	"regexp"
	"sort"
	"strings"
)

// Errs (C20): the error-code registry (every conduiterr.Register call of the repository), the
// gRPC code numbering of the grpc module the repository builds against, the exit-code switch,
// the API-boundary sentinel→category switches, and every cerrors.Errorf call site whose format
// could hold a %w verb (format bytes + argument count), so that Lean decides with its own model
// of xerrors.Errorf which sites really wrap.

const (
	cerrorsPath    = "github.com/conduitio/conduit/pkg/foundation/cerrors"
	conduiterrPath = "github.com/conduitio/conduit/pkg/foundation/cerrors/conduiterr"
	grpcCodesPath  = "google.golang.org/grpc/codes"
)

// repoGoFiles parses every non-test Go file of the repository once.
var repoFilesCache []*repoFile

type repoFile struct {
	rel string
	f   *ast.File
}

func repoGoFiles() []*repoFile {
	if repoFilesCache != nil {
		return repoFilesCache
	}
	var out []*repoFile
	err := filepath.Walk(repo, func(p string, info os.FileInfo, err error) error {
		if err != nil {
			return err
		}
		if info.IsDir() {
			n := info.Name()
			if p != repo && (strings.HasPrefix(n, ".") || n == "node_modules" || n == "testdata" || n == "vendor") {
				return filepath.SkipDir
			}
			return nil
		}
		n := info.Name()
		if !strings.HasSuffix(n, ".go") || strings.HasSuffix(n, "_test.go") || n == "zz_verif_hooks.go" {
			return nil
		}
		f, err := parser.ParseFile(fset, p, nil, parser.SkipObjectResolution)
		if err != nil {
			panic(fmt.Sprintf("parse %s: %v", p, err))
		}
		rel, _ := filepath.Rel(repo, p)
		out = append(out, &repoFile{rel: rel, f: f})
		return nil
	})
	if err != nil {
		panic(err)
	}
	sort.Slice(out, func(i, j int) bool { return out[i].rel < out[j].rel })
	repoFilesCache = out
	return out
}

// importName returns the local name under which file f imports path ("" if it does not).
func importName(f *ast.File, path string) string {
	for _, im := range f.Imports {
		if strings.Trim(im.Path.Value, "\"`") != path {
			continue
		}
		if im.Name != nil {
			return im.Name.Name
		}
		return path[strings.LastIndex(path, "/")+1:]
	}
	return ""
}

// grpcCodeNumbers reads the numbering of codes.Code from the grpc module named in go.mod.
func grpcCodeNumbers() map[string]int {
	gomod, err := os.ReadFile(filepath.Join(repo, "go.mod"))
	if err != nil {
		panic(err)
	}
	m := regexp.MustCompile(`(?m)^\s*google\.golang\.org/grpc\s+(v\S+)`).FindSubmatch(gomod)
	if m == nil {
		panic("grpc version not found in go.mod")
	}
	var roots []string
	if v := os.Getenv("GOMODCACHE"); v != "" {
		roots = append(roots, v)
	}
	if v := os.Getenv("GOPATH"); v != "" {
		roots = append(roots, filepath.Join(v, "pkg", "mod"))
	}
	if h, err := os.UserHomeDir(); err == nil {
		roots = append(roots, filepath.Join(h, "go", "pkg", "mod"))
	}
	for _, r := range roots {
		p := filepath.Join(r, "google.golang.org", "grpc@"+string(m[1]), "codes", "codes.go")
		f, err := parser.ParseFile(fset, p, nil, 0)
		if err != nil {
			continue
		}
		out := map[string]int{}
		for _, d := range f.Decls {
			gd, ok := d.(*ast.GenDecl)
			if !ok || gd.Tok != token.CONST {
				continue
			}
			for _, s := range gd.Specs {
				vs := s.(*ast.ValueSpec)
				if id, ok := vs.Type.(*ast.Ident); !ok || id.Name != "Code" || len(vs.Values) != 1 {
					continue
				}
				out[vs.Names[0].Name] = intLit(vs.Values[0])
			}
		}
		if len(out) < 17 {
			panic("grpc codes.go: fewer than 17 codes found")
		}
		return out
	}
	panic("grpc module " + string(m[1]) + " not found in the module cache")
}

func codeNum(codes map[string]int, f *ast.File, e ast.Expr) int {
	sel, ok := e.(*ast.SelectorExpr)
	if ok {
		if id, ok := sel.X.(*ast.Ident); ok && id.Name == importName(f, grpcCodesPath) {
			if n, ok := codes[sel.Sel.Name]; ok {
				return n
			}
		}
	}
	panic("not a grpc codes.X constant: " + src(e))
}

// resolveString evaluates a constant string expression (literal, concatenation, same-file const).
func resolveString(f *ast.File, e ast.Expr) (string, bool) {
	switch v := e.(type) {
	case *ast.BasicLit:
		if v.Kind == token.STRING {
			return strLit(v), true
		}
	case *ast.ParenExpr:
		return resolveString(f, v.X)
	case *ast.BinaryExpr:
		if v.Op == token.ADD {
			a, ok1 := resolveString(f, v.X)
			b, ok2 := resolveString(f, v.Y)
			return a + b, ok1 && ok2
		}
	case *ast.Ident:
		for _, d := range f.Decls {
			gd, ok := d.(*ast.GenDecl)
			if !ok || gd.Tok != token.CONST {
				continue
			}
			for _, s := range gd.Specs {
				vs := s.(*ast.ValueSpec)
				for i, n := range vs.Names {
					if n.Name == v.Name && i < len(vs.Values) {
						return resolveString(f, vs.Values[i])
					}
				}
			}
		}
	}
	return "", false
}

// isTarget renders the X of `cerrors.Is(err, X)`.
func isCallTarget(f *ast.File, e ast.Expr) string {
	c, ok := e.(*ast.CallExpr)
	if ok {
		if sel, ok := c.Fun.(*ast.SelectorExpr); ok && sel.Sel.Name == "Is" && len(c.Args) == 2 {
			if id, ok := sel.X.(*ast.Ident); ok && id.Name == importName(f, cerrorsPath) && src(c.Args[0]) == "err" {
				return src(c.Args[1])
			}
		}
	}
	panic("not a cerrors.Is(err, X) condition: " + src(e))
}

// isSwitch extracts `switch { case cerrors.Is(err, X): <assign or return codes.Y> … }` as ordered
// (target, code) arms and the source of the default arm.
func isSwitch(codes map[string]int, f *ast.File, sw *ast.SwitchStmt) (arms [][2]string, dflt string) {
	if sw.Tag != nil || sw.Init != nil {
		panic("unexpected switch shape: " + src(sw))
	}
	for _, st := range sw.Body.List {
		cc := st.(*ast.CaseClause)
		if len(cc.Body) != 1 {
			panic("switch arm with more than one statement: " + src(cc))
		}
		var val ast.Expr
		switch b := cc.Body[0].(type) {
		case *ast.ReturnStmt:
			if len(b.Results) != 1 {
				panic("unexpected return: " + src(b))
			}
			val = b.Results[0]
		case *ast.AssignStmt:
			if len(b.Lhs) != 1 || len(b.Rhs) != 1 || src(b.Lhs[0]) != "code" || b.Tok != token.ASSIGN {
				panic("unexpected assignment: " + src(b))
			}
			val = b.Rhs[0]
		default:
			panic("unexpected arm body: " + src(cc))
		}
		if cc.List == nil {
			dflt = src(val)
			continue
		}
		if len(cc.List) != 1 {
			panic("multi-condition arm: " + src(cc))
		}
		arms = append(arms, [2]string{isCallTarget(f, cc.List[0]), fmt.Sprint(codeNum(codes, f, val))})
	}
	return arms, dflt
}

func leanPairs(arms [][2]string) string {
	var q []string
	for _, a := range arms {
		q = append(q, fmt.Sprintf("(%s, %s)", leanStr(a[0]), a[1]))
	}
	return "[" + strings.Join(q, ", ") + "]"
}

func firstSwitch(fd *ast.FuncDecl) *ast.SwitchStmt {
	for _, st := range fd.Body.List {
		if sw, ok := st.(*ast.SwitchStmt); ok {
			return sw
		}
	}
	panic("no switch in " + fd.Name.Name)
}

// stmtShapes lists the top-level statements of a function body in a normalised one-line form
// (used to pin the order of classification steps).
func stmtShapes(fd *ast.FuncDecl) []string {
	var out []string
	for _, st := range fd.Body.List {
		switch s := st.(type) {
		case *ast.IfStmt:
			h := "if "
			if s.Init != nil {
				h += src(s.Init) + "; "
			}
			h += src(s.Cond)
			body := ""
			if n := len(s.Body.List); n > 0 {
				body = src(s.Body.List[n-1])
			}
			out = append(out, h+" => "+body)
		case *ast.SwitchStmt:
			out = append(out, "switch")
		default:
			out = append(out, src(st))
		}
	}
	return out
}

func init() {
	register("Errs", func(b *leanFile) {
		codes := grpcCodeNumbers()
		// ---- gRPC code numbering
		var names []string
		for n := range codes {
			names = append(names, n)
		}
		sort.Slice(names, func(i, j int) bool { return codes[names[i]] < codes[names[j]] })
		var cp [][2]string
		for _, n := range names {
			cp = append(cp, [2]string{n, fmt.Sprint(codes[n])})
		}
		b.P("/-- `codes.Code` numbering of the grpc module in go.mod -/")
		b.P("def grpcCodes : List (String × Nat) := %s", leanPairs(cp))

		// ---- registry: every conduiterr.Register(reason, codes.X) of the repository
		type reg struct {
			reason, loc, varName string
			code                 int
		}
		var regs []reg
		for _, rf := range repoGoFiles() {
			alias := importName(rf.f, conduiterrPath)
			inPkg := rf.f.Name.Name == "conduiterr" && strings.HasPrefix(rf.rel, "pkg/foundation/cerrors/conduiterr")
			if alias == "" && !inPkg {
				continue
			}
			ast.Inspect(rf.f, func(n ast.Node) bool {
				// remember variable names for `X = Register(…)`
				var call *ast.CallExpr
				varName := ""
				switch v := n.(type) {
				case *ast.ValueSpec:
					for i, val := range v.Values {
						if c, ok := val.(*ast.CallExpr); ok && isRegisterCall(c, alias, inPkg) && i < len(v.Names) {
							call, varName = c, v.Names[i].Name
							r := regOf(codes, rf, call)
							regs = append(regs, reg{r.reason, r.loc, varName, r.code})
						}
					}
					return false
				case *ast.CallExpr:
					if isRegisterCall(v, alias, inPkg) {
						r := regOf(codes, rf, v)
						regs = append(regs, reg{r.reason, r.loc, "", r.code})
					}
				}
				return true
			})
		}
		sort.Slice(regs, func(i, j int) bool { return regs[i].reason < regs[j].reason })
		if len(regs) == 0 {
			panic("no conduiterr.Register call found")
		}
		b.P("/-- every `conduiterr.Register(reason, codes.X)` in non-test code, sorted by reason -/")
		b.P("def registry : List (String × Nat) := [")
		for i, r := range regs {
			sep := ","
			if i == len(regs)-1 {
				sep = ""
			}
			b.P("  (%s, %d)%s  -- %s", leanStr(r.reason), r.code, sep, r.loc)
		}
		b.P("]")
		unknown := ""
		for _, r := range regs {
			if r.varName == "CodeUnknown" && strings.HasPrefix(r.loc, "pkg/foundation/cerrors/conduiterr/") {
				unknown = r.reason
			}
		}
		if unknown == "" {
			panic("conduiterr.CodeUnknown not found")
		}
		b.P("def unknownReason : String := %s", leanStr(unknown))
		summary["Errs.registry.size"] = len(regs)

		// ---- exit codes
		ex := parse("pkg/conduit/exitcode/exitcode.go")
		consts := map[string]int{}
		for _, n := range []string{"OK", "Runtime", "Validation", "Environment"} {
			consts[n] = intLit(findValue(ex, n))
			b.P("def exit%s : Nat := %d", n, consts[n])
		}
		fg := findFunc(ex, "", "fromGRPCCode")
		sw := fg.Body.List[0].(*ast.SwitchStmt)
		if src(sw.Tag) != "c" || len(fg.Body.List) != 1 {
			panic("fromGRPCCode: unexpected shape")
		}
		var tbl [][2]string
		dflt := -1
		for _, st := range sw.Body.List {
			cc := st.(*ast.CaseClause)
			if len(cc.Body) != 1 {
				panic("fromGRPCCode arm: " + src(cc))
			}
			ret := cc.Body[0].(*ast.ReturnStmt)
			v, ok := consts[src(ret.Results[0])]
			if !ok {
				panic("fromGRPCCode returns " + src(ret.Results[0]))
			}
			if cc.List == nil {
				dflt = v
				continue
			}
			for _, e := range cc.List {
				tbl = append(tbl, [2]string{fmt.Sprint(codeNum(codes, ex, e)), fmt.Sprint(v)})
			}
		}
		if dflt < 0 {
			panic("fromGRPCCode has no default")
		}
		var tq []string
		for _, t := range tbl {
			tq = append(tq, fmt.Sprintf("(%s, %s)", t[0], t[1]))
		}
		b.P("/-- arms of `fromGRPCCode` (gRPC code, exit code) in source order -/")
		b.P("def fromGRPCCodeTable : List (Nat × Nat) := [%s]", strings.Join(tq, ", "))
		b.P("def fromGRPCCodeDefault : Nat := %d", dflt)
		b.P("/-- the classification steps of `ExitCode`, in source order -/")
		b.P("def exitCodeSteps : List String := %s", leanStrList(stmtShapes(findFunc(ex, "", "ExitCode"))))
		b.P("def isEnvironmentSentinelBody : List String := %s", leanStrList(stmtShapes(findFunc(ex, "", "isEnvironmentSentinel"))))

		// ---- API boundary switches
		st := parse("pkg/http/api/status/status.go")
		arms, d := isSwitch(codes, st, firstSwitch(findFunc(st, "", "codeFromError")))
		b.P("/-- `codeFromError`: ordered `cerrors.Is(err, X)` arms -/")
		b.P("def codeFromErrorArms : List (String × Nat) := %s", leanPairs(arms))
		b.P("def codeFromErrorDefault : Nat := %d", codeNumStr(codes, st, d))
		for _, fn := range []string{"PipelineError", "ConnectorError", "ProcessorError"} {
			fd := findFunc(st, "", fn)
			arms, d := isSwitch(codes, st, firstSwitch(fd))
			if d != "codeFromError(err)" {
				panic(fn + ": default arm is " + d)
			}
			b.P("def %sArms : List (String × Nat) := %s", lowerFirst(fn), leanPairs(arms))
			b.P("def %sSteps : List String := %s", lowerFirst(fn), leanStrList(stmtShapes(fd)))
		}
		b.P("def pluginErrorSteps : List String := %s", leanStrList(stmtShapes(findFunc(st, "", "PluginError"))))
		b.P("def conduitErrorStatusSteps : List String := %s", leanStrList(stmtShapes(findFunc(st, "", "conduitErrorStatus"))))
		b.P("def fallbackStatusSteps : List String := %s", leanStrList(stmtShapes(findFunc(st, "", "fallbackStatus"))))

		// ---- cerrors.Errorf call sites
		type site struct {
			loc, format string
			argc        int
		}
		var sites []site
		var dynamic []string
		total := 0
		for _, rf := range repoGoFiles() {
			alias := importName(rf.f, cerrorsPath)
			inPkg := rf.f.Name.Name == "cerrors" && strings.HasPrefix(rf.rel, "pkg/foundation/cerrors/")
			xalias := importName(rf.f, "golang.org/x/xerrors")
			ast.Inspect(rf.f, func(n ast.Node) bool {
				c, ok := n.(*ast.CallExpr)
				if !ok {
					return true
				}
				hit := false
				switch fn := c.Fun.(type) {
				case *ast.SelectorExpr:
					if id, ok := fn.X.(*ast.Ident); ok && fn.Sel.Name == "Errorf" &&
						((alias != "" && id.Name == alias) || (xalias != "" && id.Name == xalias)) {
						hit = true
					}
				case *ast.Ident:
					hit = inPkg && fn.Name == "Errorf"
				}
				if !hit {
					return true
				}
				total++
				loc := fmt.Sprintf("%s:%d", rf.rel, fset.Position(c.Pos()).Line)
				if len(c.Args) == 0 || c.Ellipsis != token.NoPos {
					dynamic = append(dynamic, loc)
					return true
				}
				s, ok := resolveString(rf.f, c.Args[0])
				if !ok {
					dynamic = append(dynamic, loc)
					return true
				}
				if strings.Contains(s, "%") && strings.Contains(s, "w") {
					sites = append(sites, site{loc, s, len(c.Args) - 1})
				}
				return true
			})
		}
		if total < 100 {
			panic(fmt.Sprintf("only %d cerrors.Errorf call sites found: extraction is broken", total))
		}
		b.P("/-- number of `cerrors.Errorf` call sites in non-test code -/")
		b.P("def errorfTotal : Nat := %d", total)
		b.P("/-- call sites whose format is not a constant string (cannot be checked statically) -/")
		b.P("def errorfDynamic : List String := %s", leanStrList(dynamic))
		b.P("/-- every call site whose constant format contains both '%%' and 'w':")
		b.P("(location, length of the format in bytes, the bytes as a little-endian base-256 number, number of arguments after the format) -/")
		const chunk = 100
		nchunks := 0
		for i := 0; i < len(sites); i += chunk {
			b.P("def errorfSites%d : List (String × Nat × Nat × Nat) := [", nchunks)
			end := min(i+chunk, len(sites))
			for j := i; j < end; j++ {
				s := sites[j]
				n := new(big.Int)
				bs := []byte(s.format)
				for k := len(bs) - 1; k >= 0; k-- {
					n.Lsh(n, 8)
					n.Or(n, big.NewInt(int64(bs[k])))
				}
				sep := ","
				if j == end-1 {
					sep = ""
				}
				b.P("  (%s, %d, %s, %d)%s  -- %s", leanStr(s.loc), len(bs), n.String(), s.argc, sep, strings.ReplaceAll(fmt.Sprintf("%q", s.format), "\n", " "))
			}
			b.P("]")
			nchunks++
		}
		var parts []string
		for i := 0; i < nchunks; i++ {
			parts = append(parts, fmt.Sprintf("errorfSites%d", i))
		}
		if len(parts) == 0 {
			parts = []string{"[]"}
		}
		b.P("def errorfSites : List (String × Nat × Nat × Nat) := %s", strings.Join(parts, " ++ "))
		summary["Errs.errorf.total"] = total
		summary["Errs.errorf.withW"] = len(sites)
		summary["Errs.errorf.dynamic"] = dynamic
	})
}

func codeNumStr(codes map[string]int, f *ast.File, s string) int {
	name := strings.TrimPrefix(s, importName(f, grpcCodesPath)+".")
	if n, ok := codes[name]; ok && name != s {
		return n
	}
	panic("not a grpc code: " + s)
}


func isRegisterCall(c *ast.CallExpr, alias string, inPkg bool) bool {
	switch fn := c.Fun.(type) {
	case *ast.SelectorExpr:
		id, ok := fn.X.(*ast.Ident)
		return ok && alias != "" && id.Name == alias && fn.Sel.Name == "Register"
	case *ast.Ident:
		return inPkg && fn.Name == "Register"
	}
	return false
}

type regEntry struct {
	reason, loc string
	code        int
}

func regOf(codes map[string]int, rf *repoFile, c *ast.CallExpr) regEntry {
	if len(c.Args) != 2 {
		panic("Register with != 2 args: " + src(c))
	}
	reason, ok := resolveString(rf.f, c.Args[0])
	if !ok {
		panic("Register with a non-constant reason: " + src(c))
	}
	for _, c := range []byte(reason) {
		if c >= 128 || c <= 32 {
			// ToStatus passes reasons through valid() (UTF-8 coercion); the model treats it as the
			// identity, which holds for ASCII. Anything else must fail the obligations, not be guessed.
			panic("reason is not printable ASCII: " + reason)
		}
	}
	if reason == "" {
		panic("empty reason: " + src(c))
	}
	return regEntry{reason, fmt.Sprintf("%s:%d", rf.rel, fset.Position(c.Pos()).Line), codeNum(codes, rf.f, c.Args[1])}
}
