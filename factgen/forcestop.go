package main

import (
	"fmt"
	"go/ast"
)

// ForceStop (C12): the shape of stream.forceStopper (latch) and its use by the force-stoppable
// nodes — every such node calls stopper.start() exactly once in Run and stopper.stop() in ForceStop.
func init() {
	register("ForceStop", func(b *leanFile) {
		f := parse("pkg/lifecycle/stream/force_stop.go")
		start := findFunc(f, "forceStopper", "start")
		stop := findFunc(f, "forceStopper", "stop")
		b.P("/-- `start()`: statements after the lock, rendered -/")
		var st []string
		for _, s := range start.Body.List {
			st = append(st, src(s))
		}
		b.P("def start_body : List String := %s", leanStrList(st))
		var sp []string
		for _, s := range stop.Body.List {
			sp = append(sp, src(s))
		}
		b.P("def stop_body : List String := %s", leanStrList(sp))
		type node struct{ file, recv string }
		var rows []string
		for _, n := range []node{
			{"pkg/lifecycle/stream/source.go", "SourceNode"},
			{"pkg/lifecycle/stream/destination.go", "DestinationNode"},
			{"pkg/lifecycle/stream/destination_acker.go", "DestinationAckerNode"},
			{"pkg/lifecycle/stream/dlq.go", "DLQHandlerNode"},
		} {
			nf := parse(n.file)
			run := findFunc(nf, n.recv, "Run")
			fs := findFunc(nf, n.recv, "ForceStop")
			starts := len(callSeq(run.Body, true, "stopper.start"))
			stops := len(callSeq(fs.Body, true, "stopper.stop"))
			inLoop := 0
			ast.Inspect(run.Body, func(x ast.Node) bool {
				switch l := x.(type) {
				case *ast.ForStmt:
					inLoop += len(callSeq(l.Body, true, "stopper.start"))
				case *ast.RangeStmt:
					inLoop += len(callSeq(l.Body, true, "stopper.start"))
				}
				return true
			})
			rows = append(rows, fmt.Sprintf("(%s, %d, %d, %d)", leanStr(n.recv), starts, inLoop, stops))
		}
		b.P("/-- (node, calls of stopper.start in Run, … of which inside a loop, calls of stopper.stop in ForceStop) -/")
		b.P("def nodes : List (String × Nat × Nat × Nat) := [%s]", joinComma(rows))
	})
}

func joinComma(xs []string) string {
	out := ""
	for i, x := range xs {
		if i > 0 {
			out += ", "
		}
		out += x
	}
	return out
}
