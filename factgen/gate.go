package main

import (
	"fmt"
	"go/ast"
	"go/token"
	"os"
	"path/filepath"
	"sort"
	"strings"
)

// Generated/Gate.lean (C16):
//
//  1. the critical-section structure of pipelineLocks.Lock (pkg/provisioning/lock.go): which of
//     its statements (map lookup, mutex creation, map insert, acquiring the per-id mutex) sit
//     between which p.mu.Lock()/RLock() and p.mu.Unlock()/RUnlock(); who else touches the map;
//     how ApplyPlan / ApplyPlanLive take and release the lock;
//  2. the authorisation gate of the live apply: every construction site of the pipeline API's
//     allow flag (the third argument of api.NewPipelineAPIv1), what the constructor stores, what
//     the ApplyPipeline handler hands to ApplyPlanLive, every other ApplyPlanLive call site and
//     the condition under which the dev watcher is started — the boolean expressions translated
//     into Lean functions of the configuration (GateCfg).
//
// Expressions that are not boolean combinations of configuration fields become opaque atoms
// (extra Bool fields of GateCfg with their source recorded): never a guess, and the obligation
// `apiGate cfg = cfg.API_AllowLiveRestartApply` then fails with a witness.
func init() {
	register("Gate", func(b *leanFile) {
		lockFacts(b)
		gateFacts(b)
	})
}

// ---------------------------------------------------------------- lock sections

type lockSeg struct {
	kind  string // "Lock", "RLock" (a p.mu section) or "-" (outside)
	stmts []string
}

type lockWalker struct {
	recv string // receiver name of Lock (p)
	segs []lockSeg
	cur  string // kind of the open p.mu section, "" = none
}

func (w *lockWalker) add(s string) {
	if w.cur != "" {
		// inside the open p.mu section = the last segment
		w.segs[len(w.segs)-1].stmts = append(w.segs[len(w.segs)-1].stmts, s)
		return
	}
	if n := len(w.segs); n > 0 && w.segs[n-1].kind == "-" {
		w.segs[n-1].stmts = append(w.segs[n-1].stmts, s)
		return
	}
	w.segs = append(w.segs, lockSeg{kind: "-", stmts: []string{s}})
}

func (w *lockWalker) open(kind string) {
	if w.cur != "" {
		w.add("nested-" + kind)
		return
	}
	w.cur = kind
	w.segs = append(w.segs, lockSeg{kind: kind})
}

func (w *lockWalker) close(kind string) {
	if w.cur != kind {
		w.add("unbalanced-un" + kind)
		return
	}
	w.cur = ""
}

func (w *lockWalker) isMu(e ast.Expr, method string) bool {
	c, ok := e.(*ast.CallExpr)
	if !ok {
		return false
	}
	return src(c.Fun) == w.recv+".mu."+method
}

func (w *lockWalker) isLocksIndex(e ast.Expr) bool {
	ix, ok := e.(*ast.IndexExpr)
	return ok && src(ix.X) == w.recv+".locks"
}

func (w *lockWalker) stmt(st ast.Stmt, guard string) {
	sfx := ""
	if guard != "!ok" {
		sfx = "!" // not under `if !ok`: unconditional (or under another guard)
		if guard != "" {
			sfx = "@" + guard
		}
	}
	switch s := st.(type) {
	case *ast.ExprStmt:
		switch {
		case w.isMu(s.X, "Lock"):
			w.open("Lock")
		case w.isMu(s.X, "RLock"):
			w.open("RLock")
		case w.isMu(s.X, "Unlock"):
			w.close("Lock")
		case w.isMu(s.X, "RUnlock"):
			w.close("RLock")
		case src(s.X) == "l.Lock()":
			w.add("acquire")
		default:
			w.add("other:" + src(s.X))
		}
	case *ast.DeferStmt:
		if w.isMu(s.Call, "Unlock") || w.isMu(s.Call, "RUnlock") {
			w.add("deferred-unlock")
		} else {
			w.add("other:" + src(s))
		}
	case *ast.AssignStmt:
		switch {
		case len(s.Rhs) == 1 && w.isLocksIndex(s.Rhs[0]):
			if guard == "" {
				w.add("lookup")
			} else {
				w.add("lookup@" + guard)
			}
		case len(s.Lhs) == 1 && w.isLocksIndex(s.Lhs[0]):
			w.add("insert" + sfx)
		case len(s.Lhs) == 1 && len(s.Rhs) == 1 && src(s.Lhs[0]) == "l" && strings.Contains(src(s.Rhs[0]), "sync.Mutex"):
			w.add("create" + sfx)
		default:
			w.add("other:" + src(s))
		}
	case *ast.IfStmt:
		if s.Init != nil || s.Else != nil {
			w.add("other:" + src(s))
			return
		}
		g := src(s.Cond)
		if guard != "" {
			g = guard + "&&" + g
		}
		for _, x := range s.Body.List {
			w.stmt(x, g)
		}
	case *ast.ReturnStmt:
		if len(s.Results) == 1 && src(s.Results[0]) == "l.Unlock" {
			w.add("return-release")
		} else {
			w.add("other:" + src(s))
		}
	default:
		w.add("other:" + src(st))
	}
}

func leanSegs(segs []lockSeg) string {
	parts := make([]string, len(segs))
	for i, s := range segs {
		parts[i] = "(" + leanStr(s.kind) + ", " + leanStrList(s.stmts) + ")"
	}
	return "[" + strings.Join(parts, ", ") + "]"
}

func lockFacts(b *leanFile) {
	f := parse("pkg/provisioning/lock.go")
	fd := findFunc(f, "pipelineLocks", "Lock")
	w := &lockWalker{recv: "p"}
	if fd.Recv != nil && len(fd.Recv.List) == 1 && len(fd.Recv.List[0].Names) == 1 {
		w.recv = fd.Recv.List[0].Names[0].Name
	}
	for _, st := range fd.Body.List {
		w.stmt(st, "")
	}
	if w.cur != "" {
		w.segs = append(w.segs, lockSeg{kind: "-", stmts: []string{"section-left-open:" + w.cur}})
	}
	b.P("/-- `pipelineLocks.Lock` (pkg/provisioning/lock.go): its statements in source order, grouped by")
	b.P("the `p.mu` critical section they sit in (`Lock` / `RLock` = between `p.mu.Lock()`/`RLock()` and the")
	b.P("matching unlock, `-` = outside). `lookup` = `l, ok := p.locks[id]`, `create` = `l = &sync.Mutex{}`")
	b.P("and `insert` = `p.locks[id] = l` under `if !ok` (a `!` / `@guard` suffix = not under that guard),")
	b.P("`acquire` = `l.Lock()`, `return-release` = `return l.Unlock`. -/")
	b.P("def lockSegments : List (String × List String) := %s", leanSegs(w.segs))
	summary["lockSegments"] = leanSegs(w.segs)

	// kind of the guard mutex field
	muType := "?"
	for _, d := range f.Decls {
		gd, ok := d.(*ast.GenDecl)
		if !ok {
			continue
		}
		for _, sp := range gd.Specs {
			ts, ok := sp.(*ast.TypeSpec)
			if !ok || ts.Name.Name != "pipelineLocks" {
				continue
			}
			if st, ok := ts.Type.(*ast.StructType); ok {
				for _, fl := range st.Fields.List {
					for _, n := range fl.Names {
						if n.Name == "mu" {
							muType = src(fl.Type)
						}
					}
				}
			}
		}
	}
	b.P("/-- type of the guard `pipelineLocks.mu` -/")
	b.P("def lockGuardType : String := %s", leanStr(muType))

	// every function of package provisioning that touches the map
	var touch []string
	ents, err := os.ReadDir(filepath.Join(repo, "pkg/provisioning"))
	if err != nil {
		panic(err)
	}
	type lockUse struct {
		fn, arg   string
		deferNext bool
		first     bool
	}
	var uses []lockUse
	for _, e := range ents {
		n := e.Name()
		if e.IsDir() || !strings.HasSuffix(n, ".go") || strings.HasSuffix(n, "_test.go") || strings.HasPrefix(n, "zz_verif") {
			continue
		}
		pf := parse(filepath.Join("pkg/provisioning", n))
		for _, d := range pf.Decls {
			fn, ok := d.(*ast.FuncDecl)
			if !ok || fn.Body == nil {
				continue
			}
			touches := false
			ast.Inspect(fn.Body, func(m ast.Node) bool {
				if se, ok := m.(*ast.SelectorExpr); ok && se.Sel.Name == "locks" {
					touches = true
				}
				if cl, ok := m.(*ast.CompositeLit); ok && src(cl.Type) == "pipelineLocks" {
					touches = true
				}
				return true
			})
			if touches {
				touch = append(touch, fn.Name.Name)
			}
			// how the callers take the lock: `unlock := s.pipelineLocks.Lock(<arg>)` then `defer unlock()`
			for i, st := range fn.Body.List {
				as, ok := st.(*ast.AssignStmt)
				if !ok || len(as.Rhs) != 1 {
					continue
				}
				c, ok := as.Rhs[0].(*ast.CallExpr)
				if !ok || !strings.HasSuffix(src(c.Fun), ".pipelineLocks.Lock") || len(c.Args) != 1 {
					continue
				}
				u := lockUse{fn: fn.Name.Name, arg: src(c.Args[0]), first: i == 0}
				if i+1 < len(fn.Body.List) && len(as.Lhs) == 1 {
					if ds, ok := fn.Body.List[i+1].(*ast.DeferStmt); ok && src(ds.Call) == src(as.Lhs[0])+"()" {
						u.deferNext = true
					}
				}
				uses = append(uses, u)
			}
			// calls of the lock that are not of this shape
			ast.Inspect(fn.Body, func(m ast.Node) bool {
				if c, ok := m.(*ast.CallExpr); ok && strings.HasSuffix(src(c.Fun), ".pipelineLocks.Lock") {
					found := false
					for _, u := range uses {
						if u.fn == fn.Name.Name {
							found = true
						}
					}
					if !found {
						uses = append(uses, lockUse{fn: fn.Name.Name, arg: "?"})
					}
				}
				return true
			})
		}
	}
	sort.Strings(touch)
	b.P("/-- functions of package provisioning that touch `pipelineLocks.locks` (or build the table) -/")
	b.P("def lockMapAccessors : List String := %s", leanStrList(touch))
	sort.Slice(uses, func(i, j int) bool { return uses[i].fn < uses[j].fn })
	var us []string
	for _, u := range uses {
		us = append(us, fmt.Sprintf("(%s, %s, %s, %s)", leanStr(u.fn), leanStr(u.arg), leanBool(u.first), leanBool(u.deferNext)))
	}
	b.P("/-- callers of the per-pipeline lock: (function, argument, it is the function's first statement,")
	b.P("the release is deferred by the very next statement — i.e. the lock is held for the entire body) -/")
	b.P("def lockCallers : List (String × String × Bool × Bool) := [%s]", strings.Join(us, ", "))
	b.P("")
}

// ---------------------------------------------------------------- gate expressions

type gateTr struct {
	fd      *ast.FuncDecl
	paths   map[string]bool // config paths read (joined with _)
	opaque  []string        // sources of opaque atoms
	subst   map[string]string
	cfgRoot string // e.g. "r.Config"
	depth   int
}

func (g *gateTr) atom(e ast.Expr) string {
	s := src(e)
	for i, o := range g.opaque {
		if o == s {
			return fmt.Sprintf("cfg.opaque_%d", i)
		}
	}
	g.opaque = append(g.opaque, s)
	return fmt.Sprintf("cfg.opaque_%d", len(g.opaque)-1)
}

// localDef returns the single `x := rhs` of the enclosing function, nil if x is assigned elsewhere too.
func (g *gateTr) localDef(name string) ast.Expr {
	var defs []ast.Expr
	other := false
	ast.Inspect(g.fd.Body, func(m ast.Node) bool {
		switch s := m.(type) {
		case *ast.AssignStmt:
			for i, l := range s.Lhs {
				if id, ok := l.(*ast.Ident); ok && id.Name == name {
					if s.Tok == token.DEFINE && len(s.Lhs) == len(s.Rhs) {
						defs = append(defs, s.Rhs[i])
					} else {
						other = true
					}
				}
			}
		case *ast.IncDecStmt:
			if id, ok := s.X.(*ast.Ident); ok && id.Name == name {
				other = true
			}
		case *ast.UnaryExpr:
			if s.Op == token.AND {
				if id, ok := s.X.(*ast.Ident); ok && id.Name == name {
					other = true
				}
			}
		}
		return true
	})
	if len(defs) == 1 && !other {
		return defs[0]
	}
	return nil
}

func (g *gateTr) tr(e ast.Expr) string {
	switch v := e.(type) {
	case *ast.ParenExpr:
		return "(" + g.tr(v.X) + ")"
	case *ast.Ident:
		if v.Name == "true" || v.Name == "false" {
			return v.Name
		}
		if s, ok := g.subst[v.Name]; ok {
			return s
		}
		if g.fd != nil && g.depth < 8 {
			if d := g.localDef(v.Name); d != nil {
				g.depth++
				defer func() { g.depth-- }()
				return g.tr(d)
			}
		}
	case *ast.SelectorExpr:
		s := src(v)
		if t, ok := g.subst[s]; ok {
			return t
		}
		if g.cfgRoot != "" && strings.HasPrefix(s, g.cfgRoot+".") {
			p := strings.ReplaceAll(strings.TrimPrefix(s, g.cfgRoot+"."), ".", "_")
			g.paths[p] = true
			return "cfg." + p
		}
	case *ast.UnaryExpr:
		if v.Op == token.NOT {
			return "(!" + g.tr(v.X) + ")"
		}
	case *ast.BinaryExpr:
		switch v.Op {
		case token.LAND:
			return "(" + g.tr(v.X) + " && " + g.tr(v.Y) + ")"
		case token.LOR:
			return "(" + g.tr(v.X) + " || " + g.tr(v.Y) + ")"
		}
	}
	return g.atom(e)
}

type site struct {
	file  string
	fd    *ast.FuncDecl
	call  *ast.CallExpr
	conds []string // enclosing if-conditions (then-branches), outermost first
	condX []ast.Expr
}

// goFiles lists the non-test .go files under the given roots (no mocks, no verif hooks).
func goFiles(roots ...string) []string {
	var out []string
	for _, root := range roots {
		filepath.Walk(filepath.Join(repo, root), func(p string, info os.FileInfo, err error) error {
			if err != nil {
				return nil
			}
			if info.IsDir() {
				if n := info.Name(); n == "mock" || n == "testdata" || n == "node_modules" || strings.HasPrefix(n, ".") {
					return filepath.SkipDir
				}
				return nil
			}
			n := info.Name()
			if strings.HasSuffix(n, ".go") && !strings.HasSuffix(n, "_test.go") && !strings.HasPrefix(n, "zz_verif") &&
				!strings.HasSuffix(n, ".pb.go") && !strings.HasSuffix(n, ".pb.gw.go") {
				rel, _ := filepath.Rel(repo, p)
				out = append(out, rel)
			}
			return nil
		})
	}
	sort.Strings(out)
	return out
}

// callSites finds the calls whose callee ends in name, with the enclosing function and the
// conditions of the enclosing `if` then-branches.
func callSites(files []string, match func(c *ast.CallExpr) bool) []site {
	var out []site
	for _, rel := range files {
		data, err := os.ReadFile(filepath.Join(repo, rel))
		if err != nil {
			continue
		}
		f := parseSrcQuiet(rel, data)
		if f == nil {
			continue
		}
		for _, d := range f.Decls {
			fd, ok := d.(*ast.FuncDecl)
			if !ok || fd.Body == nil {
				continue
			}
			var visit func(n ast.Node, conds []string, cx []ast.Expr)
			visit = func(n ast.Node, conds []string, cx []ast.Expr) {
				ast.Inspect(n, func(m ast.Node) bool {
					if m == nil {
						return true
					}
					if is, ok := m.(*ast.IfStmt); ok && m != n {
						if is.Init != nil {
							visit(is.Init, conds, cx)
						}
						visit(is.Cond, conds, cx)
						visit(is.Body, append(append([]string{}, conds...), src(is.Cond)), append(append([]ast.Expr{}, cx...), is.Cond))
						if is.Else != nil {
							visit(is.Else, append(append([]string{}, conds...), "!("+src(is.Cond)+")"),
								append(append([]ast.Expr{}, cx...), &ast.UnaryExpr{Op: token.NOT, X: &ast.ParenExpr{X: is.Cond}}))
						}
						return false
					}
					if c, ok := m.(*ast.CallExpr); ok && match(c) {
						out = append(out, site{file: rel, fd: fd, call: c, conds: conds, condX: cx})
					}
					return true
				})
			}
			visit(fd.Body, nil, nil)
		}
	}
	return out
}

func parseSrcQuiet(rel string, data []byte) *ast.File {
	// cheap pre-filter: only parse files that mention one of the names we look for
	s := string(data)
	if !strings.Contains(s, "NewPipelineAPIv1") && !strings.Contains(s, "ApplyPlanLive") && !strings.Contains(s, "startDevWatcher") &&
		!strings.Contains(s, "allowLiveRestartApply") {
		return nil
	}
	defer func() { recover() }()
	return parse(rel)
}

func siteName(s site) string { return s.file + ":" + s.fd.Name.Name }

func recvName(fd *ast.FuncDecl) string {
	if fd != nil && fd.Recv != nil && len(fd.Recv.List) == 1 && len(fd.Recv.List[0].Names) == 1 {
		return fd.Recv.List[0].Names[0].Name
	}
	return ""
}

func gateFacts(b *leanFile) {
	files := goFiles("pkg", "cmd")
	// root package files (embed API)
	if ents, err := os.ReadDir(repo); err == nil {
		for _, e := range ents {
			n := e.Name()
			if !e.IsDir() && strings.HasSuffix(n, ".go") && !strings.HasSuffix(n, "_test.go") {
				files = append(files, n)
			}
		}
	}
	ends := func(name string) func(c *ast.CallExpr) bool {
		return func(c *ast.CallExpr) bool {
			_, short := calleeName(c)
			return short == name
		}
	}
	ctor := callSites(files, ends("NewPipelineAPIv1"))
	live := callSites(files, ends("ApplyPlanLive"))
	devw := callSites(files, ends("startDevWatcher"))

	paths := map[string]bool{"API_AllowLiveRestartApply": true, "Dev_Enabled": true}
	var opaque []string
	mk := func(fd *ast.FuncDecl, subst map[string]string) *gateTr {
		g := &gateTr{fd: fd, paths: paths, opaque: opaque, subst: subst}
		if r := recvName(fd); r != "" {
			g.cfgRoot = r + ".Config"
		}
		return g
	}

	// (1) construction sites of the API's allow flag
	var ctorNames, ctorExprs, ctorSrc []string
	for _, s := range ctor {
		if len(s.call.Args) != 3 {
			ctorNames = append(ctorNames, siteName(s))
			ctorExprs = append(ctorExprs, "")
			ctorSrc = append(ctorSrc, "arity")
			continue
		}
		g := mk(s.fd, nil)
		e := g.tr(s.call.Args[2])
		opaque = g.opaque
		ctorNames = append(ctorNames, siteName(s))
		ctorExprs = append(ctorExprs, e)
		ctorSrc = append(ctorSrc, src(s.call.Args[2]))
	}

	// (2) what the constructor stores and what the handler passes on
	apiFile := parse("pkg/http/api/pipeline_v1.go")
	nfd := findFunc(apiFile, "", "NewPipelineAPIv1")
	param := ""
	if ps := nfd.Type.Params.List; len(ps) > 0 {
		last := ps[len(ps)-1]
		if len(last.Names) > 0 {
			param = last.Names[len(last.Names)-1].Name
		}
	}
	stores := ""
	ast.Inspect(nfd.Body, func(m ast.Node) bool {
		if cl, ok := m.(*ast.CompositeLit); ok && src(cl.Type) == "PipelineAPIv1" {
			for _, el := range cl.Elts {
				if kv, ok := el.(*ast.KeyValueExpr); ok && src(kv.Key) == "allowLiveRestartApply" {
					g := mk(nil, map[string]string{param: "arg"})
					stores = g.tr(kv.Value)
					opaque = g.opaque
				}
			}
		}
		return true
	})
	if stores == "" {
		stores = "false" // the field is left at its zero value
	}
	// every write of the field in package api
	var writers []string
	for _, rel := range goFiles("pkg/http/api") {
		if strings.Contains(rel, "/fromproto/") || strings.Contains(rel, "/toproto/") || strings.Contains(rel, "/status/") ||
			strings.Contains(rel, "/openapi/") || strings.Contains(rel, "/grpcutil/") {
			continue
		}
		data, err := os.ReadFile(filepath.Join(repo, rel))
		if err != nil || !strings.Contains(string(data), "allowLiveRestartApply") {
			continue
		}
		pf := parse(rel)
		for _, d := range pf.Decls {
			fn, ok := d.(*ast.FuncDecl)
			if !ok || fn.Body == nil {
				continue
			}
			ast.Inspect(fn.Body, func(m ast.Node) bool {
				switch s := m.(type) {
				case *ast.AssignStmt:
					for _, l := range s.Lhs {
						if se, ok := l.(*ast.SelectorExpr); ok && se.Sel.Name == "allowLiveRestartApply" {
							writers = append(writers, fn.Name.Name+":assign")
						}
					}
				case *ast.KeyValueExpr:
					if src(s.Key) == "allowLiveRestartApply" {
						writers = append(writers, fn.Name.Name)
					}
				case *ast.UnaryExpr:
					if s.Op == token.AND {
						if se, ok := s.X.(*ast.SelectorExpr); ok && se.Sel.Name == "allowLiveRestartApply" {
							writers = append(writers, fn.Name.Name+":addr")
						}
					}
				}
				return true
			})
		}
	}
	sort.Strings(writers)

	// (3) ApplyPlanLive call sites
	var liveSites []string
	handlerArg := ""
	for _, s := range live {
		if len(s.call.Args) != 4 {
			liveSites = append(liveSites, "("+leanStr(siteName(s))+", \"arity\")")
			continue
		}
		liveSites = append(liveSites, "("+leanStr(siteName(s))+", "+leanStr(src(s.call.Args[3]))+")")
		if strings.HasPrefix(s.file, "pkg/http/api/") {
			g := mk(s.fd, map[string]string{recvName(s.fd) + ".allowLiveRestartApply": "field"})
			g.cfgRoot = ""
			e := g.tr(s.call.Args[3])
			opaque = g.opaque
			if handlerArg == "" {
				handlerArg = e
			} else {
				handlerArg = "(" + handlerArg + " || " + e + ")"
			}
		}
	}
	if handlerArg == "" {
		handlerArg = "false"
	}

	// (4) the dev watcher is started under …
	var devGuards, devSrc []string
	for _, s := range devw {
		g := mk(s.fd, nil)
		parts := []string{}
		for _, c := range s.condX {
			parts = append(parts, g.tr(c))
		}
		opaque = g.opaque
		if len(parts) == 0 {
			parts = []string{"true"}
		}
		devGuards = append(devGuards, "("+strings.Join(parts, " && ")+")")
		devSrc = append(devSrc, siteName(s)+" if "+strings.Join(s.conds, " && "))
	}
	devGuard := "false"
	if len(devGuards) > 0 {
		devGuard = strings.Join(devGuards, " || ")
	}

	// ---- emit
	var fields []string
	for p := range paths {
		fields = append(fields, p)
	}
	sort.Strings(fields)
	for i := range opaque {
		fields = append(fields, fmt.Sprintf("opaque_%d", i))
	}
	if len(fields) > 8 {
		panic(fmt.Sprintf("gate expressions read %d atoms: %v", len(fields), fields))
	}
	b.P("/-- the configuration fields (`conduit.Config.<path>`) the gate expressions read; `opaque_i` = a")
	b.P("sub-expression that is not a boolean combination of configuration fields (see `gateOpaque`). -/")
	leanBoolStruct(b, "GateCfg", fields)
	b.P("def gateOpaque : List String := %s", leanStrList(opaque))
	b.P("def gateCfgFields : List String := %s", leanStrList(fields))
	b.P("")
	b.P("def GateCfg.show (cfg : GateCfg) : String :=")
	var sh []string
	for _, f := range fields {
		sh = append(sh, fmt.Sprintf("%s ++ (if cfg.%s then \"1\" else \"0\")", leanStr(f+"="), f))
	}
	b.P("  \"{\" ++ %s ++ \"}\"", strings.Join(sh, " ++ \" \" ++ "))
	b.P("")
	// all assignments
	var all []string
	for m := 0; m < 1<<len(fields); m++ {
		var kv []string
		for i, f := range fields {
			v := "false"
			if m&(1<<(len(fields)-1-i)) != 0 {
				v = "true"
			}
			kv = append(kv, f+" := "+v)
		}
		all = append(all, "{ "+strings.Join(kv, ", ")+" }")
	}
	b.P("/-- every assignment of the fields -/")
	b.P("def allGateCfgs : List GateCfg := [")
	b.P("  %s ]", strings.Join(all, ",\n  "))
	b.P("")
	b.P("/-- construction sites of the pipeline API (`api.NewPipelineAPIv1`) and the source of their third argument -/")
	b.P("def apiGateSites : List (String × String) := [%s]", func() string {
		var xs []string
		for i := range ctorNames {
			xs = append(xs, "("+leanStr(ctorNames[i])+", "+leanStr(ctorSrc[i])+")")
		}
		return strings.Join(xs, ", ")
	}())
	b.P("/-- the allow flag handed to `api.NewPipelineAPIv1`, as a function of the configuration, per site -/")
	b.P("def apiGateAt (cfg : GateCfg) : List Bool := [%s]", strings.Join(ctorExprs, ", "))
	if len(ctorExprs) == 1 && ctorExprs[0] != "" {
		b.P("def apiGate (cfg : GateCfg) : Bool := %s", ctorExprs[0])
	}
	b.P("/-- what `NewPipelineAPIv1(…, %s)` stores in `PipelineAPIv1.allowLiveRestartApply` -/", param)
	b.P("def apiCtorStores (arg : Bool) : Bool := %s", stores)
	b.P("/-- where the field is written (composite literal key / assignment / address taken) in package api -/")
	b.P("def apiGateFieldWriters : List String := %s", leanStrList(writers))
	b.P("/-- the `allowRestartOnRunning` argument of the handler's `ApplyPlanLive` call, as a function of the field -/")
	b.P("def apiHandlerPasses (field : Bool) : Bool := %s", handlerArg)
	b.P("/-- every `ApplyPlanLive` call site (non-test, non-mock) with the source of its `allowRestartOnRunning` argument -/")
	b.P("def applyLiveSites : List (String × String) := [%s]", strings.Join(liveSites, ", "))
	b.P("/-- call sites of `startDevWatcher` with their guards -/")
	b.P("def devWatcherSites : List String := %s", leanStrList(devSrc))
	b.P("/-- the dev watcher (the only `ApplyPlanLive` caller passing a literal `true`) runs iff -/")
	b.P("def devWatcherGuard (cfg : GateCfg) : Bool := %s", devGuard)
	summary["apiGate"] = ctorSrc
}
