module verif/factgen

go 1.23
