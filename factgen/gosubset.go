package main

import (
	"fmt"
	"go/ast"
	"go/token"
	"strings"
)

// A deliberately tiny Go-subset → Lean translator (DESIGN §4.1): straight-line functions made of
// `x := expr`, `if cond { … } [else { … }]` and `return …` over bools, ints and struct fields.
// Anything else panics ("untranslatable"), which leaves the generated file without the definition
// and fails the Lean obligation — never a guess.

type subsetCfg struct {
	// ret renders the result list of a return statement as a Lean term.
	ret func(results []ast.Expr) string
}

func trExpr(e ast.Expr) string {
	switch v := e.(type) {
	case *ast.Ident:
		switch v.Name {
		case "true", "false":
			return v.Name
		}
		return v.Name
	case *ast.SelectorExpr:
		if id, ok := v.X.(*ast.Ident); ok {
			return id.Name + "." + v.Sel.Name
		}
	case *ast.ParenExpr:
		return "(" + trExpr(v.X) + ")"
	case *ast.UnaryExpr:
		if v.Op == token.NOT {
			return "(!" + trExpr(v.X) + ")"
		}
	case *ast.BasicLit:
		if v.Kind == token.INT {
			return v.Value
		}
	case *ast.BinaryExpr:
		a, b := trExpr(v.X), trExpr(v.Y)
		switch v.Op {
		case token.ADD:
			return "(" + a + " + " + b + ")"
		case token.SUB:
			return "(" + a + " - " + b + ")"
		case token.LAND:
			return "(" + a + " && " + b + ")"
		case token.LOR:
			return "(" + a + " || " + b + ")"
		case token.LSS:
			return "(decide (" + a + " < " + b + "))"
		case token.LEQ:
			return "(decide (" + a + " ≤ " + b + "))"
		case token.GTR:
			return "(decide (" + a + " > " + b + "))"
		case token.GEQ:
			return "(decide (" + a + " ≥ " + b + "))"
		case token.EQL:
			return "(" + a + " == " + b + ")"
		case token.NEQ:
			return "(" + a + " != " + b + ")"
		}
	}
	panic(fmt.Sprintf("untranslatable expression: %s", src(e)))
}

// trStmts translates a statement list in continuation style; every path must end in `return`.
func trStmts(stmts []ast.Stmt, cfg subsetCfg, indent string) string {
	if len(stmts) == 0 {
		panic("untranslatable: control reaches the end of the function without return")
	}
	rest := stmts[1:]
	switch s := stmts[0].(type) {
	case *ast.ReturnStmt:
		return indent + cfg.ret(s.Results)
	case *ast.AssignStmt:
		if s.Tok == token.DEFINE && len(s.Lhs) == 1 && len(s.Rhs) == 1 {
			if id, ok := s.Lhs[0].(*ast.Ident); ok {
				return indent + "let " + id.Name + " := " + trExpr(s.Rhs[0]) + "\n" + trStmts(rest, cfg, indent)
			}
		}
	case *ast.IfStmt:
		if s.Init == nil {
			thenS := append(append([]ast.Stmt{}, s.Body.List...), rest...)
			var elseS []ast.Stmt
			switch e := s.Else.(type) {
			case nil:
				elseS = rest
			case *ast.BlockStmt:
				elseS = append(append([]ast.Stmt{}, e.List...), rest...)
			case *ast.IfStmt:
				elseS = append([]ast.Stmt{e}, rest...)
			}
			return indent + "if " + trExpr(s.Cond) + " then\n" + trStmts(thenS, cfg, indent+"  ") + "\n" +
				indent + "else\n" + trStmts(elseS, cfg, indent+"  ")
		}
	}
	panic(fmt.Sprintf("untranslatable statement: %s", src(stmts[0])))
}

// boolStructFields returns the field names of a struct type all of whose fields are bool.
func boolStructFields(f *ast.File, name string) []string {
	for _, d := range f.Decls {
		gd, ok := d.(*ast.GenDecl)
		if !ok {
			continue
		}
		for _, s := range gd.Specs {
			ts, ok := s.(*ast.TypeSpec)
			if !ok || ts.Name.Name != name {
				continue
			}
			st, ok := ts.Type.(*ast.StructType)
			if !ok {
				panic("not a struct: " + name)
			}
			var out []string
			for _, fl := range st.Fields.List {
				if id, ok := fl.Type.(*ast.Ident); !ok || id.Name != "bool" {
					panic(fmt.Sprintf("untranslatable: field of %s is not bool: %s", name, src(fl.Type)))
				}
				for _, n := range fl.Names {
					out = append(out, n.Name)
				}
			}
			return out
		}
	}
	panic("struct not found: " + name)
}

func leanBoolStruct(b *leanFile, name string, fields []string) {
	b.P("structure %s where", name)
	for _, f := range fields {
		b.P("  %s : Bool", f)
	}
	b.P("deriving DecidableEq, Repr, Inhabited")
	b.P("")
}

// errCode renders an `error` result: nil → none, conduiterr.New(CodeX, …) / Wrap(CodeX, …) → some "CodeX".
func errCode(e ast.Expr) string {
	if id, ok := e.(*ast.Ident); ok && id.Name == "nil" {
		return "none"
	}
	if c, ok := e.(*ast.CallExpr); ok {
		full, _ := calleeName(c)
		if (full == "conduiterr.New" || full == "conduiterr.Wrap") && len(c.Args) >= 1 {
			return "(some " + leanStr(strings.TrimPrefix(src(c.Args[0]), "conduiterr.")) + ")"
		}
	}
	panic(fmt.Sprintf("untranslatable error result: %s", src(e)))
}

// decisionVal renders a policy.Decision composite literal as its `allowed` bool.
func decisionVal(e ast.Expr) string {
	cl, ok := e.(*ast.CompositeLit)
	if !ok || src(cl.Type) != "Decision" {
		panic(fmt.Sprintf("untranslatable Decision result: %s", src(e)))
	}
	if len(cl.Elts) == 0 {
		return "false"
	}
	if len(cl.Elts) == 1 {
		if kv, ok := cl.Elts[0].(*ast.KeyValueExpr); ok && src(kv.Key) == "allowed" {
			return trExpr(kv.Value)
		}
	}
	panic(fmt.Sprintf("untranslatable Decision result: %s", src(e)))
}
