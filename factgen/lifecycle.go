package main

import (
	"fmt"
	"go/ast"
	"strings"
)

// Lifecycle: structure facts of the two lifecycle services the M5 model depends on
// (C10, C11, C12): orders of the gate calls in Start / runPipeline / the cleanup goroutine /
// StartWithBackoff / StopAndWait, the status guards of Start and Stop, which arm of the cleanup
// switch writes which status, and the four source facts that differ between the unchanged tree
// and the proposed fixes (`Fixes`).

// selName renders a call's function expression ("s.runningPipelines.Set", "time.After", …).
func selName(e ast.Expr) string {
	switch v := e.(type) {
	case *ast.Ident:
		return v.Name
	case *ast.SelectorExpr:
		return selName(v.X) + "." + v.Sel.Name
	case *ast.CallExpr:
		return selName(v.Fun) + "()"
	}
	return "?"
}

// callSeq lists, in source order, the calls under n whose rendered name has one of the given
// suffixes. Function literals are entered only when deep is true.
func callSeq(n ast.Node, deep bool, suffixes ...string) []string {
	var out []string
	ast.Inspect(n, func(x ast.Node) bool {
		if x == nil {
			return false
		}
		if _, ok := x.(*ast.FuncLit); ok && !deep && x != n {
			return false
		}
		if c, ok := x.(*ast.CallExpr); ok {
			name := selName(c.Fun)
			for _, s := range suffixes {
				if strings.HasSuffix(name, s) {
					label := s
					if s == "UpdateStatus" && len(c.Args) >= 3 {
						label = "UpdateStatus(" + strings.TrimPrefix(src(c.Args[2]), "pipeline.Status") + ")"
					}
					out = append(out, label)
					break
				}
			}
		}
		return true
	})
	return out
}

// funcLitsWith returns the function literals under n (outermost first) containing a call with
// the given suffix.
func funcLitsWith(n ast.Node, suffix string) []*ast.FuncLit {
	var out []*ast.FuncLit
	ast.Inspect(n, func(x ast.Node) bool {
		if fl, ok := x.(*ast.FuncLit); ok {
			if len(callSeq(fl, true, suffix)) > 0 {
				out = append(out, fl)
			}
		}
		return true
	})
	return out
}

func boolLean(b bool) string {
	if b {
		return "true"
	}
	return "false"
}

func init() {
	register("Lifecycle", func(b *leanFile) {
		for _, eng := range []struct{ tag, file string }{
			{"v1", "pkg/lifecycle/service.go"},
			{"v2", "pkg/lifecycle-poc/service.go"},
		} {
			f := parse(eng.file)
			run := findFunc(f, "Service", "runPipeline")
			// top level of runPipeline: publication vs status write vs registration of the cleanup goroutine
			cleanups := funcLitsWith(run, "terminalErrors.Set")
			if len(cleanups) != 1 {
				panic(fmt.Sprintf("%s runPipeline: expected exactly one cleanup goroutine, found %d", eng.tag, len(cleanups)))
			}
			cleanup := cleanups[0]
			var top []string
			ast.Inspect(run.Body, func(x ast.Node) bool {
				if x == nil {
					return false
				}
				if c, ok := x.(*ast.CallExpr); ok {
					name := selName(c.Fun)
					switch {
					case strings.HasSuffix(name, "runningPipelines.Set"):
						top = append(top, "publish")
					case strings.HasSuffix(name, "UpdateStatus"):
						top = append(top, "UpdateStatus(Running)")
					case strings.HasSuffix(name, "t.Go") && len(c.Args) == 1 && c.Args[0] == ast.Expr(cleanup):
						top = append(top, "registerCleanup")
						return false
					case strings.HasSuffix(name, "deleteRunningPipelineIfCurrent"):
						top = append(top, "rollback")
					case name == "close" && len(c.Args) == 1 && src(c.Args[0]) == "startupDone":
						top = append(top, "releaseCleanup")
					}
				}
				if _, ok := x.(*ast.FuncLit); ok {
					return false
				}
				return true
			})
			b.P("def %s_runPipeline_order : List String := %s", eng.tag, leanStrList(top))
			// the cleanup goroutine
			cl := callSeq(cleanup.Body, false, "Wait", "t.Err", "UpdateStatus", "recoverPipeline", "terminalErrors.Set",
				"runningPipelines.Delete", "deleteRunningPipelineIfCurrent", "s.notify")
			b.P("def %s_cleanup_order : List String := %s", eng.tag, leanStrList(cl))
			// Start
			st := findFunc(f, "Service", "Start")
			b.P("def %s_start_order : List String := %s", eng.tag, leanStrList(
				callSeq(st.Body, false, "pipelines.Get", "GetStatus", "buildRunnablePipeline", "runningPipelines.Get", "terminalErrors.Delete", "runPipeline")))
			var startGuards []string
			for _, c := range ifConds(st) {
				if strings.Contains(c, "GetStatus") {
					startGuards = append(startGuards, c)
				}
			}
			b.P("def %s_start_guards : List String := %s", eng.tag, leanStrList(startGuards))
			// Stop
			stop := findFunc(f, "Service", "Stop")
			b.P("def %s_stop_guards : List String := %s", eng.tag, leanStrList(ifConds(stop)))
			// StartWithBackoff
			swb := findFunc(f, "Service", "StartWithBackoff")
			b.P("def %s_backoff_order : List String := %s", eng.tag, leanStrList(
				callSeq(swb.Body, false, "recoveryAttempts.Add", "ForAttempt", "time.AfterFunc", "time.After", "runningPipelines.Get",
					"forceStopped.Load", "isGracefulShutdown.Load", "intentionalStop.Load", "s.Start")))
			b.P("def %s_backoff_guards : List String := %s", eng.tag, leanStrList(ifConds(swb)))
			// StopAndWait
			saw := findFunc(f, "Service", "StopAndWait")
			b.P("def %s_stopAndWait_order : List String := %s", eng.tag, leanStrList(
				callSeq(saw.Body, true, "s.Stop", "s.WaitPipeline", "WaitPersisted")))
			// WaitPipeline
			wp := findFunc(f, "Service", "WaitPipeline")
			b.P("def %s_wait_order : List String := %s", eng.tag, leanStrList(
				callSeq(wp.Body, false, "runningPipelines.Get", "t.Wait", "terminalErrors.Get")))
			// recoverPipeline
			rc := findFunc(f, "Service", "recoverPipeline")
			b.P("def %s_recover_order : List String := %s", eng.tag, leanStrList(callSeq(rc.Body, false, "UpdateStatus", "StartWithBackoff")))
			summary["Lifecycle."+eng.tag+".runPipeline"] = top
			summary["Lifecycle."+eng.tag+".cleanup"] = cl

			if eng.tag == "v1" {
				// node goroutine: is the error recorded on the tomb before the function returns?
				nodes := funcLitsWith(run, "node.Run")
				if len(nodes) == 0 {
					panic("v1 runPipeline: node goroutine not found")
				}
				kill := len(callSeq(nodes[0].Body, false, "t.Kill")) > 0
				b.P("def v1KillBeforeDone : Bool := %s", boolLean(kill))
				// stopForceful kills the tomb with a FatalError
				sf := findFunc(f, "Service", "stopForceful")
				b.P("def v1_forceStop_calls : List String := %s", leanStrList(callSeq(sf.Body, false, "t.Kill", "FatalError", "ForceStop")))
				del := findFunc(f, "Service", "deleteRunningPipelineIfCurrent")
				b.P("def v1_compareDelete_guards : List String := %s", leanStrList(lifeAllIfConds(del.Body)))
			} else {
				// blind Delete vs compare-and-delete in the cleanup tail
				blind := len(callSeq(cleanup.Body, false, "runningPipelines.Delete")) > 0
				cmp := len(callSeq(cleanup.Body, false, "deleteRunningPipelineIfCurrent")) > 0
				if cmp {
					del := findFunc(f, "Service", "deleteRunningPipelineIfCurrent")
					conds := lifeAllIfConds(del.Body)
					ok := false
					for _, c := range conds {
						if strings.Contains(c, "current == rp") {
							ok = true
						}
					}
					cmp = ok
				}
				b.P("def v2CompareDelete : Bool := %s", boolLean(cmp && !blind))
				// StartWithBackoff re-checks the stop markers after the back-off
				order := callSeq(swb.Body, false, "time.After", "forceStopped.Load", "intentionalStop.Load", "s.Start")
				re := strings.Join(order, ",") == "time.After,forceStopped.Load,intentionalStop.Load,s.Start"
				// … and the force branch sets the marker
				srp := findFunc(f, "Service", "stopRunnablePipeline")
				setsForce := len(callSeq(srp.Body, false, "forceStopped.Store")) > 0
				b.P("def v2RecheckStop : Bool := %s", boolLean(re && setsForce))
				// the arm that resets intentionalStop: which conditions guard it
				keep, arms := keepIntent(srp)
				b.P("def v2_stop_switch_arms : List String := %s", leanStrList(arms))
				b.P("def v2KeepIntent : Bool := %s", boolLean(keep))
				b.P("def v2_forceStop_calls : List String := %s", leanStrList(forceBranchCalls(srp)))
			}
			b.P("")
		}
	})
}

// allIfConds lists every `if` condition under n (source order).
func lifeAllIfConds(n ast.Node) []string {
	var out []string
	ast.Inspect(n, func(x ast.Node) bool {
		if is, ok := x.(*ast.IfStmt); ok {
			out = append(out, src(is.Cond))
		}
		return true
	})
	return out
}

// keepIntent inspects the tagless switch in stopRunnablePipeline whose arm resets
// rp.intentionalStop: the marker survives a repeated graceful stop iff an earlier arm catches
// "nothing armed and nothing unarmed" without resetting, or the resetting arm itself requires an
// unarmed source.
func keepIntent(fd *ast.FuncDecl) (bool, []string) {
	var keep, found bool
	var arms []string
	ast.Inspect(fd.Body, func(x ast.Node) bool {
		sw, ok := x.(*ast.SwitchStmt)
		if !ok || sw.Tag != nil {
			return true
		}
		var local []string
		resetIdx := -1
		for i, st := range sw.Body.List {
			cc := st.(*ast.CaseClause)
			cond := "default"
			if len(cc.List) > 0 {
				cond = src(cc.List[0])
			}
			resets := false
			for _, s := range cc.Body {
				for _, c := range callSeqArgs(s, "intentionalStop.Store") {
					if c == "false" {
						resets = true
					}
				}
			}
			if resets {
				resetIdx = i
				cond += " => reset"
			}
			local = append(local, cond)
		}
		if resetIdx < 0 {
			return true
		}
		found = true
		arms = local
		rc := local[resetIdx]
		if strings.Contains(rc, "len(unarmedSources) > 0") || strings.Contains(rc, "len(unarmedSources) != 0") {
			keep = true
		}
		for _, c := range local[:resetIdx] {
			if c == "len(armedSources) == 0 && len(unarmedSources) == 0" {
				keep = true
			}
		}
		return false
	})
	if !found {
		// no arm resets the marker at all
		return true, []string{"no-reset"}
	}
	return keep, arms
}

// callSeqArgs returns the first argument (rendered) of every call under n with the suffix.
func callSeqArgs(n ast.Node, suffix string) []string {
	var out []string
	ast.Inspect(n, func(x ast.Node) bool {
		if c, ok := x.(*ast.CallExpr); ok && strings.HasSuffix(selName(c.Fun), suffix) && len(c.Args) > 0 {
			out = append(out, src(c.Args[0]))
		}
		return true
	})
	return out
}

// forceBranchCalls: the calls of the `case true:` arm of stopRunnablePipeline's switch on force.
func forceBranchCalls(fd *ast.FuncDecl) []string {
	var out []string
	ast.Inspect(fd.Body, func(x ast.Node) bool {
		sw, ok := x.(*ast.SwitchStmt)
		if !ok || sw.Tag == nil || src(sw.Tag) != "force" {
			return true
		}
		for _, st := range sw.Body.List {
			cc := st.(*ast.CaseClause)
			if len(cc.List) == 1 && src(cc.List[0]) == "true" {
				for _, s := range cc.Body {
					out = append(out, callSeq(s, false, "forceStopped.Store", "t.Kill", "FatalError")...)
				}
			}
		}
		return false
	})
	if out == nil {
		panic("stopRunnablePipeline: force arm not found")
	}
	return out
}
