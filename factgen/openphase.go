package main

import (
	"fmt"
	"go/ast"
	"strings"
)

// OpenPhase (C11): the rollback of a Start whose open phase fails.
//   v2  lifecycle-poc Service.runPipeline: the loop that closes the workers opened so far when worker i
//       fails to open (collection, bounds, the append that fills the collection, sink close after it);
//       funnel.Worker.Open: whether its own rollback releases the already opened source.
//   v1  every connector node's Run registers the deferred Teardown right after its Open succeeded
//       (nodes open themselves; a failing node ends the run, every other node's defer releases its plugin).
func init() {
	register("OpenPhase", func(b *leanFile) {
		f := parse("pkg/lifecycle-poc/service.go")
		run := findFunc(f, "Service", "runPipeline")
		var rng *ast.RangeStmt
		ast.Inspect(run.Body, func(x ast.Node) bool {
			if r, ok := x.(*ast.RangeStmt); ok && rng == nil && src(r.X) == "rp.workers" && len(callSeq(r.Body, false, "w.Open")) > 0 {
				rng = r
				return false
			}
			return true
		})
		if rng == nil {
			panic("runPipeline: range over rp.workers with w.Open not found")
		}
		var ifOpen *ast.IfStmt
		for _, st := range rng.Body.List {
			if is, ok := st.(*ast.IfStmt); ok && is.Init != nil && strings.Contains(src(is.Init), "w.Open(") {
				ifOpen = is
			}
		}
		if ifOpen == nil {
			panic("runPipeline: `if err := w.Open(ctx); err != nil` not found")
		}
		var loop *ast.ForStmt
		var afterLoop []string
		for _, st := range ifOpen.Body.List {
			if fs, ok := st.(*ast.ForStmt); ok && loop == nil {
				loop = fs
				continue
			}
			if loop != nil {
				afterLoop = append(afterLoop, openphaseHead(st))
			}
		}
		if loop == nil {
			panic("runPipeline: rollback loop not found")
		}
		b.P("/-- the rollback loop of v2 runPipeline: init, condition, post, body. -/")
		body := []string{}
		for _, st := range loop.Body.List {
			body = append(body, src(st))
		}
		b.P("def v2RollbackLoop : List String := %s", leanStrList(append([]string{src(loop.Init), src(loop.Cond), src(loop.Post)}, body...)))
		b.P("/-- statements of the failure branch after the loop (heads). -/")
		b.P("def v2RollbackAfterLoop : List String := %s", leanStrList(afterLoop))
		// the collection the loop indexes, and the statements of the range body after the `if`
		coll := ""
		ast.Inspect(loop.Body, func(x ast.Node) bool {
			if ix, ok := x.(*ast.IndexExpr); ok && coll == "" {
				coll = src(ix.X)
			}
			return true
		})
		b.P("def v2RollbackCollection : String := %s", leanStr(coll))
		var rest []string
		seen := false
		for _, st := range rng.Body.List {
			if st == ast.Stmt(ifOpen) {
				seen = true
				continue
			}
			if seen {
				rest = append(rest, src(st))
			}
		}
		b.P("/-- what the range body does with a worker that opened. -/")
		b.P("def v2AfterOpenOk : List String := %s", leanStrList(rest))
		// first index closed by the loop (model parameter Shape.lo)
		lo := -1
		switch src(loop.Cond) {
		case "j >= 0":
			lo = 0
		case "j > 0":
			lo = 1
		}
		if lo < 0 {
			panic(fmt.Sprintf("runPipeline: rollback loop condition %q not understood", src(loop.Cond)))
		}
		b.P("def v2RollbackLo : Nat := %d", lo)
		// funnel.Worker.Open / SourceTask.Close
		wf := parse("pkg/lifecycle-poc/funnel/worker.go")
		wo := findFunc(wf, "Worker", "Open")
		sf := parse("pkg/lifecycle-poc/funnel/source.go")
		sc := findFunc(sf, "SourceTask", "Close")
		rolls := len(callSeq(wo.Body, true, "tearDownSource")) > 0 || len(callSeq(wo.Body, true, "Source.Teardown")) > 0 ||
			len(callSeq(sc.Body, true, ".Teardown")) > 0
		b.P("/-- funnel.Worker.Open releases the worker's already opened source when a later open of the same worker fails")
		b.P("(through its rollback or through SourceTask.Close). Model parameter Shape.workerRollsBackSource. -/")
		b.P("def v2WorkerRollsBackSource : Bool := %s", boolLean(rolls))
		b.P("def v2WorkerOpenCalls : List String := %s", leanStrList(callSeq(wo.Body, true, "task.Open", "task.Close", "DLQ.Open", "tearDownSource", "r.Skip", "r.Execute")))
		// the body of the loop over the worker's tasks: statement heads; for `r.Append(func…)` the calls it registers
		var loopHeads []string
		ast.Inspect(wo.Body, func(x ast.Node) bool {
			r, ok := x.(*ast.RangeStmt)
			if !ok || !strings.Contains(src(r.X), "Tasks()") {
				return true
			}
			for _, st := range r.Body.List {
				loopHeads = append(loopHeads, openphaseWorkerHead(st)...)
			}
			return false
		})
		b.P("/-- funnel.Worker.Open, body of the loop over the tasks (statement heads; an `if` is followed by the heads of its body in brackets). -/")
		b.P("def v2WorkerOpenLoop : List String := %s", leanStrList(loopHeads))
		// v1: Open, then a deferred Teardown, at the top level of each connector node's Run
		var rows []string
		for _, n := range []struct{ file, recv, open, td string }{
			{"pkg/lifecycle/stream/source.go", "SourceNode", "Source.Open", "Source.Teardown"},
			{"pkg/lifecycle/stream/destination.go", "DestinationNode", "Destination.Open", "Destination.Teardown"},
			{"pkg/lifecycle/stream/dlq.go", "DLQHandlerNode", "Handler.Open", "Handler.Close"},
		} {
			nf := parse(n.file)
			fd := findFunc(nf, n.recv, "Run")
			openAt, deferAt := -1, -1
			for i, st := range fd.Body.List {
				if _, isDefer := st.(*ast.DeferStmt); !isDefer && openAt < 0 && len(callSeq(st, false, n.open)) > 0 {
					openAt = i
				}
				if d, ok := st.(*ast.DeferStmt); ok && deferAt < 0 && openAt >= 0 && len(callSeq(d, true, n.td)) > 0 {
					deferAt = i
				}
			}
			between := []string{}
			if openAt >= 0 && deferAt > openAt {
				for _, st := range fd.Body.List[openAt+1 : deferAt] {
					between = append(between, openphaseHead(st))
				}
			}
			rows = append(rows, fmt.Sprintf("(%s, %s, %s)", leanStr(n.recv), boolLean(openAt >= 0 && deferAt > openAt), leanStrList(between)))
		}
		b.P("/-- (node, Run has Open followed by a deferred teardown at top level, heads of the statements in between). -/")
		b.P("def v1NodeOpenThenDefer : List (String × Bool × List String) := [%s]", strings.Join(rows, ", "))
	})
}

// openphaseWorkerHead: heads of a statement of Worker.Open's task loop; `r.Append(func…)` is rendered by
// the calls the registered closure makes, an `if` by its condition plus the bracketed heads of its body.
func openphaseWorkerHead(st ast.Stmt) []string {
	switch v := st.(type) {
	case *ast.IfStmt:
		out := []string{"if " + src(v.Cond) + " ["}
		for _, s := range v.Body.List {
			out = append(out, openphaseWorkerHead(s)...)
		}
		return append(out, "]")
	case *ast.ExprStmt:
		if c, ok := v.X.(*ast.CallExpr); ok && strings.HasSuffix(selName(c.Fun), "r.Append") {
			return []string{"r.Append{" + strings.Join(callSeq(c, true, "task.Close", "tearDownSource"), ",") + "}"}
		}
	case *ast.ReturnStmt:
		return []string{"return"}
	}
	return []string{src(st)}
}

// openphaseHead renders the head of a statement (an `if` by its condition, anything else in full).
func openphaseHead(st ast.Stmt) string {
	if is, ok := st.(*ast.IfStmt); ok {
		return "if " + src(is.Cond)
	}
	return src(st)
}
