package main

import (
	"fmt"
	"go/ast"
	"go/token"
	"os"
	"path/filepath"
	"sort"
	"strings"
)

// ProcNode: structure of the live-reconfigure hand-off in stream.ProcessorNode (C13) — the statement
// order of Run's loop, applyPendingSwap, Reconfigure and teardownForReconfigure, channel capacities,
// every place that assigns a node's Processor field, and which teardown touches Instance.running.
//
// Functions are flattened into an ordered token list: one token per simple statement (assignments,
// calls, sends, returns — printed from the AST), `if … {` / `}` and `select {` / `case …:` / `}`
// brackets around compound ones; logger calls (n.logger.…) are skipped, nothing else is.
func init() {
	register("ProcNode", func(b *leanFile) {
		const procFile = "pkg/lifecycle/stream/processor.go"
		f := parse(procFile)

		run := findFunc(f, "ProcessorNode", "Run")
		// top level of Run up to and including the `for`
		var runTop []string
		var loop *ast.ForStmt
		for _, st := range run.Body.List {
			if fs, ok := st.(*ast.ForStmt); ok {
				if fs.Init != nil || fs.Cond != nil || fs.Post != nil {
					panic("Run: the loop is no longer a bare `for {}`")
				}
				loop = fs
				runTop = append(runTop, "for {")
				break
			}
			runTop = append(runTop, summary1(st)...)
		}
		if loop == nil {
			panic("Run: no for loop found")
		}
		b.P("/-- `Run` before its loop: one summary per top-level statement. -/")
		b.P("def runTop : List String := %s", leanStrList(runTop))
		var loopTop []string
		for _, st := range loop.Body.List {
			loopTop = append(loopTop, summary1(st)...)
		}
		b.P("/-- top-level statements of the body of `Run`'s loop, in order. -/")
		b.P("def runLoop : List String := %s", leanStrList(loopTop))
		// the select of the loop, flattened
		var sel *ast.SelectStmt
		for _, st := range loop.Body.List {
			if s, ok := st.(*ast.SelectStmt); ok {
				if sel != nil {
					panic("Run loop: more than one select")
				}
				sel = s
			}
		}
		if sel == nil {
			panic("Run loop: no select")
		}
		b.P("/-- the `select` of `Run`'s loop, flattened. -/")
		b.P("def runSelect : List String := %s", leanStrList(flatten([]ast.Stmt{sel})))

		b.P("/-- `applyPendingSwap`, flattened. -/")
		b.P("def applyPendingSwap : List String := %s", leanStrList(flatten(findFunc(f, "ProcessorNode", "applyPendingSwap").Body.List)))
		b.P("/-- `Reconfigure`, flattened. -/")
		b.P("def reconfigure : List String := %s", leanStrList(flatten(findFunc(f, "ProcessorNode", "Reconfigure").Body.List)))
		b.P("/-- `teardownForReconfigure`, flattened. -/")
		b.P("def teardownForReconfigure : List String := %s", leanStrList(flatten(findFunc(f, "", "teardownForReconfigure").Body.List)))
		b.P("/-- `wake`, flattened. -/")
		b.P("def wake : List String := %s", leanStrList(flatten(findFunc(f, "ProcessorNode", "wake").Body.List)))

		b.P("/-- capacity of the per-request `done` channel made in `Reconfigure`. -/")
		b.P("def doneCap : Nat := %d", chanCap(findFunc(f, "ProcessorNode", "Reconfigure"), "done"))
		b.P("/-- capacity of `wakeCh` made in `wake`. -/")
		b.P("def wakeCap : Nat := %d", chanCapField(findFunc(f, "ProcessorNode", "wake"), "wakeCh"))

		// who calls applyPendingSwap, who assigns <x>.Processor / <x>.pending, in the non-test files of the packages
		var callers, procAssign, pendAssign []string
		for _, dir := range []string{"pkg/lifecycle/stream", "pkg/lifecycle"} {
			ents, err := os.ReadDir(filepath.Join(repo, dir))
			if err != nil {
				panic(err)
			}
			for _, e := range ents {
				n := e.Name()
				if e.IsDir() || !strings.HasSuffix(n, ".go") || strings.HasSuffix(n, "_test.go") || strings.HasPrefix(n, "zz_verif") {
					continue
				}
				gf := parse(filepath.Join(dir, n))
				for _, d := range gf.Decls {
					fd, ok := d.(*ast.FuncDecl)
					if !ok || fd.Body == nil {
						continue
					}
					where := dir + "/" + n + ":" + fd.Name.Name
					ast.Inspect(fd.Body, func(x ast.Node) bool {
						switch v := x.(type) {
						case *ast.CallExpr:
							if se, ok := v.Fun.(*ast.SelectorExpr); ok && se.Sel.Name == "applyPendingSwap" {
								callers = append(callers, where)
							}
						case *ast.AssignStmt:
							for _, l := range v.Lhs {
								if se, ok := l.(*ast.SelectorExpr); ok {
									if se.Sel.Name == "Processor" {
										procAssign = append(procAssign, where+": "+src(v))
									}
									if se.Sel.Name == "pending" && dir == "pkg/lifecycle/stream" && n == "processor.go" {
										pendAssign = append(pendAssign, fd.Name.Name+": "+src(v))
									}
								}
							}
						case *ast.IncDecStmt:
							_ = v
						}
						return true
					})
				}
			}
		}
		sort.Strings(callers)
		b.P("/-- every call site of `applyPendingSwap` (non-test files of pkg/lifecycle/stream and pkg/lifecycle). -/")
		b.P("def applyPendingSwapCallers : List String := %s", leanStrList(callers))
		b.P("/-- every assignment statement whose target is a field named `Processor` (same files). -/")
		b.P("def processorAssignments : List String := %s", leanStrList(procAssign))
		b.P("/-- every assignment to a field named `pending` in processor.go, by function, in source order. -/")
		b.P("def pendingAssignments : List String := %s", leanStrList(pendAssign))

		// runnable_processor.go: which teardown touches Instance.running
		rp := parse("pkg/processor/runnable_processor.go")
		b.P("/-- `RunnableProcessor.Teardown`, flattened. -/")
		b.P("def runnableTeardown : List String := %s", leanStrList(flatten(findFunc(rp, "RunnableProcessor", "Teardown").Body.List)))
		b.P("/-- `RunnableProcessor.TeardownForReconfigure`, flattened. -/")
		b.P("def runnableTeardownForReconfigure : List String := %s", leanStrList(flatten(findFunc(rp, "RunnableProcessor", "TeardownForReconfigure").Body.List)))
		b.P("/-- identifiers named `running` inside `TeardownForReconfigure`. -/")
		b.P("def rcTeardownMentionsRunning : Nat := %d", countIdent(findFunc(rp, "RunnableProcessor", "TeardownForReconfigure"), "running"))
		svc := parse("pkg/processor/service.go")
		b.P("/-- identifiers named `running` inside `Service.MakeRunnableProcessorForReconfigure`. -/")
		b.P("def makeForReconfigureMentionsRunning : Nat := %d", countIdent(findFunc(svc, "Service", "MakeRunnableProcessorForReconfigure"), "running"))

		// lifecycle.Service.ReconfigureProcessor: gate order
		lr := parse("pkg/lifecycle/reconfigure.go")
		var gates []string
		vocab := map[string]bool{"Get": true, "MakeRunnableProcessorForReconfigure": true, "Reconfigure": true, "MakeRunnableProcessor": true}
		ast.Inspect(findFunc(lr, "Service", "ReconfigureProcessor").Body, func(x ast.Node) bool {
			if ce, ok := x.(*ast.CallExpr); ok {
				if se, ok := ce.Fun.(*ast.SelectorExpr); ok && vocab[se.Sel.Name] {
					gates = append(gates, src(ce.Fun))
				}
			}
			return true
		})
		b.P("/-- gate calls of `lifecycle.Service.ReconfigureProcessor`, in source order. -/")
		b.P("def serviceReconfigureGates : List String := %s", leanStrList(gates))
		summary["ProcNode.applyPendingSwap"] = flatten(findFunc(f, "ProcessorNode", "applyPendingSwap").Body.List)
		summary["ProcNode.processorAssignments"] = procAssign
	})
}

func isLoggerCall(e ast.Expr) bool {
	s := src(e)
	return strings.HasPrefix(s, "n.logger.") || strings.HasPrefix(s, "s.logger.")
}

// summary1 gives a one-token summary of a top-level statement (compound statements are not entered).
func summary1(st ast.Stmt) []string {
	switch v := st.(type) {
	case *ast.ExprStmt:
		if isLoggerCall(v.X) {
			return nil
		}
		return []string{src(v)}
	case *ast.AssignStmt, *ast.ReturnStmt, *ast.SendStmt, *ast.BranchStmt, *ast.IncDecStmt:
		return []string{src(st)}
	case *ast.DeclStmt:
		return []string{src(st)}
	case *ast.IfStmt:
		h := "if "
		if v.Init != nil {
			h += src(v.Init) + "; "
		}
		return []string{h + src(v.Cond)}
	case *ast.SelectStmt:
		return []string{"select"}
	case *ast.ForStmt:
		return []string{"for"}
	case *ast.DeferStmt:
		if fl, ok := v.Call.Fun.(*ast.FuncLit); ok {
			// deferred closure: list the non-logger calls on n.Processor inside it
			var calls []string
			ast.Inspect(fl.Body, func(x ast.Node) bool {
				if ce, ok := x.(*ast.CallExpr); ok && strings.HasPrefix(src(ce.Fun), "n.Processor.") {
					calls = append(calls, src(ce))
				}
				return true
			})
			return []string{"defer func{" + strings.Join(calls, "; ") + "}"}
		}
		return []string{src(st)}
	}
	panic(fmt.Sprintf("summary1: unsupported statement %T: %s", st, src(st)))
}

// flatten turns a statement list into the ordered token list described at the top of this file.
func flatten(list []ast.Stmt) []string {
	var out []string
	for _, st := range list {
		switch v := st.(type) {
		case *ast.ExprStmt:
			if isLoggerCall(v.X) {
				continue
			}
			out = append(out, src(v))
		case *ast.AssignStmt, *ast.ReturnStmt, *ast.SendStmt, *ast.BranchStmt, *ast.IncDecStmt, *ast.DeclStmt, *ast.DeferStmt:
			out = append(out, src(st))
		case *ast.IfStmt:
			h := "if "
			if v.Init != nil {
				h += src(v.Init) + "; "
			}
			out = append(out, h+src(v.Cond)+" {")
			out = append(out, flatten(v.Body.List)...)
			for v.Else != nil {
				switch e := v.Else.(type) {
				case *ast.BlockStmt:
					out = append(out, "} else {")
					out = append(out, flatten(e.List)...)
					v = &ast.IfStmt{}
				case *ast.IfStmt:
					out = append(out, "} else")
					out = append(out, flatten([]ast.Stmt{e})...)
					out = out[:len(out)-1] // the nested if closes below
					v = &ast.IfStmt{}
				default:
					panic("flatten: unsupported else")
				}
			}
			out = append(out, "}")
		case *ast.SelectStmt:
			out = append(out, "select {")
			for _, c := range v.Body.List {
				cc := c.(*ast.CommClause)
				if cc.Comm == nil {
					out = append(out, "default:")
				} else {
					out = append(out, "case "+src(cc.Comm)+":")
				}
				out = append(out, flatten(cc.Body)...)
			}
			out = append(out, "}")
		case *ast.BlockStmt:
			out = append(out, flatten(v.List)...)
		default:
			panic(fmt.Sprintf("flatten: unsupported statement %T: %s", st, src(st)))
		}
	}
	return out
}

// chanCap finds `name := make(chan T, N)` in fd and returns N (an unbuffered make is capacity 0).
func chanCap(fd *ast.FuncDecl, name string) int {
	res := -1
	ast.Inspect(fd.Body, func(x ast.Node) bool {
		as, ok := x.(*ast.AssignStmt)
		if !ok || len(as.Lhs) != 1 || len(as.Rhs) != 1 || as.Tok != token.DEFINE {
			return true
		}
		if id, ok := as.Lhs[0].(*ast.Ident); ok && id.Name == name {
			res = makeCap(as.Rhs[0])
		}
		return true
	})
	if res < 0 {
		panic("make of channel " + name + " not found in " + fd.Name.Name)
	}
	return res
}

// chanCapField finds `<x>.field = make(chan T, N)`.
func chanCapField(fd *ast.FuncDecl, field string) int {
	res := -1
	ast.Inspect(fd.Body, func(x ast.Node) bool {
		as, ok := x.(*ast.AssignStmt)
		if !ok || len(as.Lhs) != 1 || len(as.Rhs) != 1 {
			return true
		}
		if se, ok := as.Lhs[0].(*ast.SelectorExpr); ok && se.Sel.Name == field {
			res = makeCap(as.Rhs[0])
		}
		return true
	})
	if res < 0 {
		panic("make of channel field " + field + " not found in " + fd.Name.Name)
	}
	return res
}

func makeCap(e ast.Expr) int {
	ce, ok := e.(*ast.CallExpr)
	if !ok {
		panic("not a make call: " + src(e))
	}
	if id, ok := ce.Fun.(*ast.Ident); !ok || id.Name != "make" {
		panic("not a make call: " + src(e))
	}
	if _, ok := ce.Args[0].(*ast.ChanType); !ok {
		panic("make of a non-channel: " + src(e))
	}
	if len(ce.Args) == 1 {
		return 0
	}
	return intLit(ce.Args[1])
}

func countIdent(fd *ast.FuncDecl, name string) int {
	n := 0
	ast.Inspect(fd.Body, func(x ast.Node) bool {
		if id, ok := x.(*ast.Ident); ok && id.Name == name {
			n++
		}
		return true
	})
	return n
}
