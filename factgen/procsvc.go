package main

import (
	"go/ast"
	"strings"
)

// ProcSvc (C13): the shape of lifecycle.Service.ReconfigureProcessor around its node.Reconfigure
// call — the call is the last one, its result is returned directly, and the freshly built runnable
// is used for nothing else (in particular never torn down by the API goroutine). The Lean model
// Model/ProcSvc.lean takes `svcTearsDownAfterReconfigure` as its parameter.
func init() {
	register("ProcSvc", func(b *leanFile) {
		f := parse("pkg/lifecycle/reconfigure.go")
		fd := findFunc(f, "Service", "ReconfigureProcessor")
		// position of the node.Reconfigure call
		var reconf *ast.CallExpr
		ast.Inspect(fd.Body, func(x ast.Node) bool {
			if c, ok := x.(*ast.CallExpr); ok && strings.HasSuffix(selName(c.Fun), ".Reconfigure") {
				if reconf != nil {
					panic("ReconfigureProcessor: more than one Reconfigure call")
				}
				reconf = c
			}
			return true
		})
		if reconf == nil {
			panic("ReconfigureProcessor: node.Reconfigure call not found")
		}
		b.P("/-- the `node.Reconfigure` call of `lifecycle.Service.ReconfigureProcessor`, rendered. -/")
		b.P("def svcReconfigureCall : String := %s", leanStr(src(reconf)))
		// every call that starts textually after it
		var after []string
		teardown := false
		ast.Inspect(fd.Body, func(x ast.Node) bool {
			if c, ok := x.(*ast.CallExpr); ok {
				if strings.Contains(selName(c.Fun), "Teardown") {
					teardown = true
				}
				if c.Pos() > reconf.End() {
					after = append(after, selName(c.Fun))
				}
			}
			return true
		})
		b.P("/-- calls made after `node.Reconfigure` returned, in source order. -/")
		b.P("def svcCallsAfterReconfigure : List String := %s", leanStrList(after))
		b.P("/-- some teardown is called inside ReconfigureProcessor (model parameter `Cfg.tdOnError`). -/")
		b.P("def svcTearsDownAfterReconfigure : Bool := %s", boolLean(teardown))
		// the statement that contains the call, and whether it is the last statement of the body
		last := fd.Body.List[len(fd.Body.List)-1]
		b.P("/-- the last statement of the function body, rendered. -/")
		b.P("def svcLastStatement : String := %s", leanStr(src(last)))
		// the runnable built for the request: the variable assigned from MakeRunnableProcessorForReconfigure
		runnable := ""
		ast.Inspect(fd.Body, func(x ast.Node) bool {
			if as, ok := x.(*ast.AssignStmt); ok && len(as.Rhs) == 1 {
				if c, ok := as.Rhs[0].(*ast.CallExpr); ok && strings.HasSuffix(selName(c.Fun), "MakeRunnableProcessorForReconfigure") {
					if id, ok := as.Lhs[0].(*ast.Ident); ok {
						runnable = id.Name
					}
				}
			}
			return true
		})
		if runnable == "" {
			panic("ReconfigureProcessor: runnable variable not found")
		}
		uses := 0
		ast.Inspect(fd.Body, func(x ast.Node) bool {
			if id, ok := x.(*ast.Ident); ok && id.Name == runnable {
				uses++
			}
			return true
		})
		b.P("/-- occurrences of the runnable's variable (%s) in the body: its definition and its uses. -/", runnable)
		b.P("def svcRunnableOccurrences : Nat := %d", uses)
		summary["ProcSvc.callsAfterReconfigure"] = after
	})
}
