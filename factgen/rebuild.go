package main

import (
	"go/ast"
	"strings"
)

// C11Build: the statements behind Model/Rebuild.lean — who reserves a processor instance
// (processor.Service.MakeRunnableProcessor), who releases it (RunnableProcessor.Teardown, reached
// from funnel.ProcessorTask.Close via Worker.Close / Sink.Close in arch-v2 and from the deferred call
// in stream.ProcessorNode.Run in v1), and that NO builder function of either lifecycle service
// releases anything on its error exits (the fact behind the known finding "a failed build keeps its
// reservations"; a fix changes it and the model has to follow).
// Flattening as in treebuild.go (tbFlatten).

func rbReleaseCalls(f *ast.File, recv string, names []string) []string {
	var out []string
	for _, n := range names {
		fd := findFunc(f, recv, n)
		ast.Inspect(fd.Body, func(x ast.Node) bool {
			if c, ok := x.(*ast.CallExpr); ok {
				_, short := calleeName(c)
				if short == "Teardown" || short == "Close" || short == "TeardownForReconfigure" || short == "Store" {
					out = append(out, n+": "+src(c))
				}
			}
			return true
		})
	}
	return out
}

func init() {
	register("C11Build", func(b *leanFile) {
		v2 := parse("pkg/lifecycle-poc/service.go")
		v1 := parse("pkg/lifecycle/service.go")
		ps := parse("pkg/processor/service.go")
		rp := parse("pkg/processor/runnable_processor.go")
		ft := parse("pkg/lifecycle-poc/funnel/processor.go")
		fw := parse("pkg/lifecycle-poc/funnel/worker.go")
		fs := parse("pkg/lifecycle-poc/funnel/sink.go")
		sp := parse("pkg/lifecycle/stream/processor.go")

		b.P("/-- v2 `(*Service).buildProcessorTasks`, whole body -/")
		b.P("def v2BuildProcessorTasks : List String := %s", leanStrList(tbFlatten(findFunc(v2, "Service", "buildProcessorTasks").Body.List, "", nil)))
		b.P("/-- v1 `(*Service).buildProcessorNodes`, whole body -/")
		b.P("def v1BuildProcessorNodes : List String := %s", leanStrList(tbFlatten(findFunc(v1, "Service", "buildProcessorNodes").Body.List, "", nil)))
		b.P("/-- `processor.(*Service).MakeRunnableProcessor`, whole body -/")
		b.P("def makeRunnableProcessor : List String := %s", leanStrList(tbFlatten(findFunc(ps, "Service", "MakeRunnableProcessor").Body.List, "", nil)))
		b.P("/-- `(*RunnableProcessor).Teardown`, whole body -/")
		b.P("def runnableTeardown : List String := %s", leanStrList(tbFlatten(findFunc(rp, "RunnableProcessor", "Teardown").Body.List, "", nil)))
		b.P("/-- `funnel.(*ProcessorTask).Close`, logging skipped -/")
		var cl []string
		for _, l := range tbFlatten(findFunc(ft, "ProcessorTask", "Close").Body.List, "", nil) {
			if !strings.HasPrefix(l, "t.logger.") {
				cl = append(cl, l)
			}
		}
		b.P("def processorTaskClose : List String := %s", leanStrList(cl))
		b.P("/-- `funnel.(*Worker).Close` and `funnel.(*Sink).Close`, whole bodies -/")
		b.P("def workerClose : List String := %s", leanStrList(tbFlatten(findFunc(fw, "Worker", "Close").Body.List, "", nil)))
		b.P("def sinkClose : List String := %s", leanStrList(tbFlatten(findFunc(fs, "Sink", "Close").Body.List, "", nil)))

		// v1 ProcessorNode.Run: the deferred Teardown and its position relative to Open
		run := findFunc(sp, "ProcessorNode", "Run")
		deferAt, openAt := -1, -1
		var deferBody []string
		for i, st := range run.Body.List {
			if d, ok := st.(*ast.DeferStmt); ok && strings.Contains(src(d), "n.Processor.Teardown") {
				if fl, ok := d.Call.Fun.(*ast.FuncLit); ok && deferAt < 0 {
					deferAt = i
					for _, l := range tbFlatten(fl.Body.List, "", nil) {
						if !strings.HasPrefix(l, "n.logger.") {
							deferBody = append(deferBody, l)
						}
					}
				}
			}
			if as, ok := st.(*ast.AssignStmt); ok && strings.Contains(src(as), "n.Processor.Open(ctx)") && openAt < 0 {
				openAt = i
			}
		}
		if deferAt < 0 || openAt < 0 {
			panic("ProcessorNode.Run: deferred Teardown / Open not found at top level")
		}
		b.P("/-- v1 `stream.(*ProcessorNode).Run`: the deferred func that tears the processor down (logging skipped),")
		b.P("and whether it is registered BEFORE `n.Processor.Open` (so it runs on every exit after that point) -/")
		b.P("def v1RunDeferredTeardown : List String := %s", leanStrList(deferBody))
		b.P("def v1TeardownDeferredBeforeOpen : Bool := %v", deferAt < openAt)
		var early []string
		for _, st := range run.Body.List[:deferAt] {
			if is, ok := st.(*ast.IfStmt); ok {
				early = append(early, tbFlatten([]ast.Stmt{is}, "", nil)...)
			}
		}
		b.P("/-- … and the exits of Run before that defer is registered -/")
		b.P("def v1RunExitsBeforeDefer : List String := %s", leanStrList(early))

		b.P("/-- calls of Teardown / Close / TeardownForReconfigure / (running.)Store inside Start and the builder functions -/")
		b.P("def v2BuilderReleaseCalls : List String := %s", leanStrList(rbReleaseCalls(v2, "Service",
			[]string{"Start", "buildRunnablePipeline", "buildSourceTasks", "buildDestinationTasks", "buildProcessorTasks", "buildSharedTail"})))
		b.P("def v1BuilderReleaseCalls : List String := %s", leanStrList(rbReleaseCalls(v1, "Service",
			[]string{"Start", "buildRunnablePipeline", "buildNodes", "buildSourceNodes", "buildProcessorNodes", "buildDestinationNodes"})))
		// order of the builder calls (who reserves first)
		order := func(f *ast.File, fn string, vocab ...string) []string {
			var out []string
			ast.Inspect(findFunc(f, "Service", fn).Body, func(x ast.Node) bool {
				if c, ok := x.(*ast.CallExpr); ok {
					_, short := calleeName(c)
					for _, v := range vocab {
						if short == v {
							out = append(out, short)
						}
					}
				}
				return true
			})
			return out
		}
		b.P("/-- builder calls in source order -/")
		b.P("def v2BuilderOrder : List String := %s", leanStrList(order(v2, "buildRunnablePipeline",
			"buildSourceTasks", "buildDestinationTasks", "buildProcessorTasks", "buildSharedTail", "NewSink", "NewWorker")))
		b.P("def v1BuilderOrder : List String := %s", leanStrList(order(v1, "buildNodes",
			"buildSourceNodes", "buildProcessorNodes", "buildDestinationNodes")))
	})
}
