package main

import (
	"go/ast"
	"strings"
)

// C11Build: the statements behind Model/Rebuild.lean — who reserves a processor instance
// (processor.Service.MakeRunnableProcessor), who releases it (RunnableProcessor.Teardown, reached
// from funnel.ProcessorTask.Close via Worker.Close / Sink.Close in arch-v2 and from the deferred call
// in stream.ProcessorNode.Run in v1), and that NO builder function of either lifecycle service
// releases anything on its error exits (the fact behind the known finding "a failed build keeps its
// reservations"; a fix changes it and the model has to follow).
// Flattening as in treebuild.go (tbFlatten).

func rbReleaseCalls(f *ast.File, recv string, names []string) []string {
	var out []string
	for _, n := range names {
		fd := findFunc(f, recv, n)
		ast.Inspect(fd.Body, func(x ast.Node) bool {
			if c, ok := x.(*ast.CallExpr); ok {
				_, short := calleeName(c)
				if short == "Teardown" || short == "Close" || short == "TeardownForReconfigure" || short == "Store" {
					out = append(out, n+": "+src(c))
				}
			}
			return true
		})
	}
	return out
}

func init() {
	register("C11Build", func(b *leanFile) {
		v2 := parse("pkg/lifecycle-poc/service.go")
		v1 := parse("pkg/lifecycle/service.go")
		ps := parse("pkg/processor/service.go")
		rp := parse("pkg/processor/runnable_processor.go")
		ft := parse("pkg/lifecycle-poc/funnel/processor.go")
		fw := parse("pkg/lifecycle-poc/funnel/worker.go")
		fs := parse("pkg/lifecycle-poc/funnel/sink.go")
		sp := parse("pkg/lifecycle/stream/processor.go")

		b.P("/-- v2 `(*Service).buildProcessorTasks`, whole body -/")
		b.P("def v2BuildProcessorTasks : List String := %s", leanStrList(tbFlatten(findFunc(v2, "Service", "buildProcessorTasks").Body.List, "", nil)))
		b.P("/-- v1 `(*Service).buildProcessorNodes`, whole body -/")
		b.P("def v1BuildProcessorNodes : List String := %s", leanStrList(tbFlatten(findFunc(v1, "Service", "buildProcessorNodes").Body.List, "", nil)))
		b.P("/-- `processor.(*Service).MakeRunnableProcessor`, whole body -/")
		b.P("def makeRunnableProcessor : List String := %s", leanStrList(tbFlatten(findFunc(ps, "Service", "MakeRunnableProcessor").Body.List, "", nil)))
		b.P("/-- `(*RunnableProcessor).Teardown`, whole body -/")
		b.P("def runnableTeardown : List String := %s", leanStrList(tbFlatten(findFunc(rp, "RunnableProcessor", "Teardown").Body.List, "", nil)))
		b.P("/-- `funnel.(*ProcessorTask).Close`, logging skipped -/")
		var cl []string
		for _, l := range tbFlatten(findFunc(ft, "ProcessorTask", "Close").Body.List, "", nil) {
			if !strings.HasPrefix(l, "t.logger.") {
				cl = append(cl, l)
			}
		}
		b.P("def processorTaskClose : List String := %s", leanStrList(cl))
		b.P("/-- `funnel.(*Worker).Close` and `funnel.(*Sink).Close`, whole bodies -/")
		b.P("def workerClose : List String := %s", leanStrList(tbFlatten(findFunc(fw, "Worker", "Close").Body.List, "", nil)))
		b.P("def sinkClose : List String := %s", leanStrList(tbFlatten(findFunc(fs, "Sink", "Close").Body.List, "", nil)))

		// v1 ProcessorNode.Run: the deferred Teardown and its position relative to Open
		run := findFunc(sp, "ProcessorNode", "Run")
		deferAt, openAt := -1, -1
		var deferBody []string
		for i, st := range run.Body.List {
			if d, ok := st.(*ast.DeferStmt); ok && strings.Contains(src(d), "n.Processor.Teardown") {
				if fl, ok := d.Call.Fun.(*ast.FuncLit); ok && deferAt < 0 {
					deferAt = i
					for _, l := range tbFlatten(fl.Body.List, "", nil) {
						if !strings.HasPrefix(l, "n.logger.") {
							deferBody = append(deferBody, l)
						}
					}
				}
			}
			if as, ok := st.(*ast.AssignStmt); ok && strings.Contains(src(as), "n.Processor.Open(ctx)") && openAt < 0 {
				openAt = i
			}
		}
		if deferAt < 0 || openAt < 0 {
			panic("ProcessorNode.Run: deferred Teardown / Open not found at top level")
		}
		b.P("/-- v1 `stream.(*ProcessorNode).Run`: the deferred func that tears the processor down (logging skipped),")
		b.P("and whether it is registered BEFORE `n.Processor.Open` (so it runs on every exit after that point) -/")
		b.P("def v1RunDeferredTeardown : List String := %s", leanStrList(deferBody))
		b.P("def v1TeardownDeferredBeforeOpen : Bool := %v", deferAt < openAt)
		var early []string
		for _, st := range run.Body.List[:deferAt] {
			if is, ok := st.(*ast.IfStmt); ok {
				early = append(early, tbFlatten([]ast.Stmt{is}, "", nil)...)
			}
		}
		b.P("/-- … and the exits of Run before that defer is registered -/")
		b.P("def v1RunExitsBeforeDefer : List String := %s", leanStrList(early))

		b.P("/-- calls of Teardown / Close / TeardownForReconfigure / (running.)Store inside Start and the builder functions -/")
		b.P("def v2BuilderReleaseCalls : List String := %s", leanStrList(rbReleaseCalls(v2, "Service",
			[]string{"Start", "buildRunnablePipeline", "buildSourceTasks", "buildDestinationTasks", "buildProcessorTasks", "buildSharedTail"})))
		b.P("def v1BuilderReleaseCalls : List String := %s", leanStrList(rbReleaseCalls(v1, "Service",
			[]string{"Start", "buildRunnablePipeline", "buildNodes", "buildSourceNodes", "buildProcessorNodes", "buildDestinationNodes"})))
		// order of the builder calls (who reserves first)
		order := func(f *ast.File, fn string, vocab ...string) []string {
			var out []string
			ast.Inspect(findFunc(f, "Service", fn).Body, func(x ast.Node) bool {
				if c, ok := x.(*ast.CallExpr); ok {
					_, short := calleeName(c)
					for _, v := range vocab {
						if short == v {
							out = append(out, short)
						}
					}
				}
				return true
			})
			return out
		}
		// ---- the open phase
		rpv2 := findFunc(v2, "Service", "runPipeline")
		var openPart []ast.Stmt
		started := false
		for _, st := range rpv2.Body.List {
			text := src(st)
			if !started && strings.Contains(text, "rp.sink.Open(ctx)") {
				started = true
			}
			if started {
				if ds, ok := st.(*ast.DeclStmt); ok && strings.Contains(src(ds), "workersWg") {
					break
				}
				openPart = append(openPart, st)
			}
		}
		if len(openPart) == 0 {
			panic("runPipeline: open part not found")
		}
		b.P("/-- v2 `runPipeline`: from `rp.sink.Open` up to (excluding) `var workersWg` — the open phase and its rollback -/")
		b.P("def v2OpenPhase : List String := %s", leanStrList(tbFlatten(openPart, "", nil)))
		noLog := func(ls []string, pre string) []string {
			var out []string
			for _, l := range ls {
				if !strings.Contains(l, pre) {
					out = append(out, l)
				}
			}
			return out
		}
		b.P("/-- `funnel.(*Worker).Open` and `funnel.(*Sink).Open`, whole bodies -/")
		b.P("def workerOpen : List String := %s", leanStrList(tbFlatten(findFunc(fw, "Worker", "Open").Body.List, "", nil)))
		b.P("def sinkOpen : List String := %s", leanStrList(tbFlatten(findFunc(fs, "Sink", "Open").Body.List, "", nil)))
		b.P("/-- `funnel.(*ProcessorTask).Open`, logging skipped -/")
		b.P("def processorTaskOpen : List String := %s", leanStrList(noLog(tbFlatten(findFunc(ft, "ProcessorTask", "Open").Body.List, "", nil), "t.logger.")))
		// v1: every node is run
		rpv1 := findFunc(v1, "Service", "runPipeline")
		var nodeLoop []string
		for _, st := range rpv1.Body.List {
			if rs, ok := st.(*ast.RangeStmt); ok && src(rs.X) == "rp.n" {
				for _, bs := range rs.Body.List {
					if es, ok := bs.(*ast.ExprStmt); ok {
						if c, ok := es.X.(*ast.CallExpr); ok {
							lab := src(c.Fun)
							if fl, ok := c.Args[0].(*ast.FuncLit); ok && len(c.Args) == 1 {
								runs := 0
								ast.Inspect(fl.Body, func(x ast.Node) bool {
									if cc, ok := x.(*ast.CallExpr); ok && src(cc.Fun) == "node.Run" {
										runs++
									}
									return true
								})
								lab += " { " + strings.Repeat("node.Run ", runs) + "}"
							}
							nodeLoop = append(nodeLoop, lab)
							continue
						}
					}
					nodeLoop = append(nodeLoop, tbFlatten([]ast.Stmt{bs}, "", nil)...)
				}
			}
		}
		b.P("/-- v1 `runPipeline`: the top-level statements of `for _, node := range rp.n` (closures: the `node.Run` calls inside) -/")
		b.P("def v1NodeLoop : List String := %s", leanStrList(nodeLoop))

		b.P("/-- builder calls in source order -/")
		b.P("def v2BuilderOrder : List String := %s", leanStrList(order(v2, "buildRunnablePipeline",
			"buildSourceTasks", "buildDestinationTasks", "buildProcessorTasks", "buildSharedTail", "NewSink", "NewWorker")))
		b.P("def v1BuilderOrder : List String := %s", leanStrList(order(v1, "buildNodes",
			"buildSourceNodes", "buildProcessorNodes", "buildDestinationNodes")))
	})
}
