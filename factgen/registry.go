package main

import (
	"fmt"
	"go/ast"
	"go/token"
	"os"
	"path/filepath"
	"strings"
)

// C19 facts: policy decision functions (translated), rollback check (translated), gate orders of
// the install pipelines and of TrustedVerifier.VerifyIndex, the op list of atomicfile.WriteFile,
// and the guard structure / constants of ExtractBinary.

func init() {
	register("Policy", genPolicy)
	register("RegistryIndex", genRegistryIndex)
	register("RegistryInstall", genRegistryInstall)
	register("RegistryExtract", genRegistryExtract)
	register("Atomicfile", genAtomicfile)
}

func genPolicy(b *leanFile) {
	f := parse("pkg/registry/policy/gate.go")
	ctxFields := boolStructFields(f, "Context")
	staleFields := boolStructFields(f, "StaleBundleContext")
	leanBoolStruct(b, "Context", ctxFields)
	leanBoolStruct(b, "StaleBundleContext", staleFields)

	dec := findFunc(f, "", "Decide")
	b.P("/-- `policy.Decide` (pkg/registry/policy/gate.go), translated: (Decision.allowed, error code). -/")
	b.P("def Decide (ctx : Context) : Bool × Option String :=")
	b.P("%s", trStmts(dec.Body.List, subsetCfg{ret: func(rs []ast.Expr) string {
		if len(rs) != 2 {
			panic("Decide: unexpected result arity")
		}
		return "(" + decisionVal(rs[0]) + ", " + errCode(rs[1]) + ")"
	}}, "  "))
	b.P("")
	ds := findFunc(f, "", "DecideStaleBundle")
	b.P("/-- `policy.DecideStaleBundle`, translated: (Decision.allowed, reason is empty). -/")
	b.P("def DecideStaleBundle (ctx : StaleBundleContext) : Bool × Bool :=")
	b.P("%s", trStmts(ds.Body.List, subsetCfg{ret: func(rs []ast.Expr) string {
		if len(rs) != 2 {
			panic("DecideStaleBundle: unexpected result arity")
		}
		return "(" + decisionVal(rs[0]) + ", " + leanBool(strLit(rs[1]) == "") + ")"
	}}, "  "))
	// Decision.Allowed() must be the plain field read
	al := findFunc(f, "Decision", "Allowed")
	b.P("")
	b.P("def decisionAllowedBody : String := %s", leanStr(src(al.Body)))
	summary["Policy.ContextFields"] = ctxFields
}

func genRegistryIndex(b *leanFile) {
	fz := parse("pkg/registry/index/freeze.go")
	cr := findFunc(fz, "", "CheckRollback")
	var params []string
	for _, p := range cr.Type.Params.List {
		if src(p.Type) != "int64" {
			panic("CheckRollback: parameter is not int64")
		}
		for _, n := range p.Names {
			params = append(params, n.Name)
		}
	}
	b.P("/-- `index.CheckRollback` (pkg/registry/index/freeze.go), translated: the error code, if any. -/")
	b.P("def CheckRollback (%s : Int) : Option String :=", strings.Join(params, " "))
	b.P("%s", trStmts(cr.Body.List, subsetCfg{ret: func(rs []ast.Expr) string {
		if len(rs) != 1 {
			panic("CheckRollback: unexpected result arity")
		}
		return errCode(rs[0])
	}}, "  "))
	b.P("")

	// TrustedVerifier.VerifyIndex: gate order under the lock, and what is persisted
	pkg := parsePkg("pkg/registry")
	tv := parse("pkg/registry/trustverifier.go")
	vi := findFunc(tv, "TrustedVerifier", "VerifyIndex")
	order := callOrder(pkg, vi, []string{"acquireIndexStateLock", "Unlock", "LoadState", "Verify", "CheckRollback",
		"CheckStaleness", "HashContentSubtree", "SaveState", "fireChaos"})
	b.P("/-- gate order of `TrustedVerifier.VerifyIndex`: (callee, guarded, condition, deferred). -/")
	b.P("def verifyIndexOrder : List (String × Bool × String × Bool) := %s", leanCallFacts(order))
	b.P("def verifyIndexOrderCallees : List String := %s", leanCallees(order))
	b.P("")
	// flock contract (Model/FlockFile.lean): mutual exclusion through flock on a fixed PATH holds only while nobody unlinks or
	// replaces the lock file. Every call in pkg/registry (all non-test files, function literals included) that removes or renames
	// a path whose expression mentions a lock (`…LockPath(…)`, `lock.Path()`, a `*flock.Flock` value, "….lock"), and every use of
	// `(*flock.Flock).Path()`.
	b.P("/-- calls in pkg/registry that unlink / rename a lock file or read a lock's path: (file, function, call). -/")
	b.P("def lockFileUnlinks : List (String × String × String) := %s", leanTriples(lockFileUnlinks("pkg/registry")))
	b.P("")
	// arguments of CheckRollback and the value persisted as the new high-water mark
	var crArgs []string
	var newStateVersion string
	ast.Inspect(vi.Body, func(n ast.Node) bool {
		switch v := n.(type) {
		case *ast.CallExpr:
			if full, _ := calleeName(v); full == "index.CheckRollback" {
				for _, a := range v.Args {
					crArgs = append(crArgs, src(a))
				}
			}
		case *ast.AssignStmt:
			if len(v.Lhs) == 1 && src(v.Lhs[0]) == "newState" && len(v.Rhs) == 1 {
				if cl, ok := v.Rhs[0].(*ast.CompositeLit); ok {
					newStateVersion = src(field(cl, "Version"))
				}
			}
		}
		return true
	})
	if crArgs == nil || newStateVersion == "" {
		panic("VerifyIndex: CheckRollback call or newState literal not found")
	}
	b.P("def checkRollbackArgs : List String := %s", leanStrList(crArgs))
	b.P("def newStateVersionExpr : String := %s", leanStr(newStateVersion))
	// every assignment to newState.Version afterwards would change what is persisted
	var later []string
	ast.Inspect(vi.Body, func(n ast.Node) bool {
		if as, ok := n.(*ast.AssignStmt); ok {
			for _, l := range as.Lhs {
				if strings.HasPrefix(src(l), "newState.Version") {
					later = append(later, src(as))
				}
			}
		}
		return true
	})
	b.P("def newStateVersionReassigned : List String := %s", leanStrList(later))
	// SaveState argument
	var saveArgs []string
	ast.Inspect(vi.Body, func(n ast.Node) bool {
		if c, ok := n.(*ast.CallExpr); ok {
			if full, _ := calleeName(c); full == "index.SaveState" {
				for _, a := range c.Args {
					saveArgs = append(saveArgs, src(a))
				}
			}
		}
		return true
	})
	b.P("def saveStateArgs : List String := %s", leanStrList(saveArgs))

	// index.SaveState / LoadState
	st := parse("pkg/registry/index/state.go")
	ipkg := parsePkg("pkg/registry/index")
	ss := findFunc(st, "", "SaveState")
	b.P("/-- file-writing calls of `index.SaveState`. -/")
	b.P("def saveStateWrites : List (String × Bool × String × Bool) := %s",
		leanCallFacts(callOrder(ipkg, ss, []string{"WriteFile", "Create", "OpenFile", "Rename", "Marshal"})))
	summary["RegistryIndex.verifyIndexOrder"] = fmt.Sprint(order)
}

var installVocab = []string{
	"ManifestKey", "AcquireTargetLock", "Unlock", "lookupManifestEntry", "MkdirTemp", "RemoveAll",
	"CacheLookup", "Download", "CheckCorruption", "CachePopulate", "runVerificationGate", "ExtractBinary",
	"openRegularNoFollow", "validate", "os.Rename", "os.Chmod", "fireChaos", "writeManifestEntry", "AppendAuditEvent",
	"VerifyIndex", "VerifyArtifact", "readBundleTar", "Decide", "DecideStaleBundle", "AppendUnsignedInstallEvent",
	"fetchArtifactRef", "unsignedInstallGate", "os.WriteFile", "Resolve", "SelectArtifact", "fetchIndexRaw",
	"resolveBundleArtifact", "resolveProcessorBundleArtifact", "ResolveProcessor", "SelectProcessorArtifact",
}

func genRegistryInstall(b *leanFile) {
	pkg := parsePkg("pkg/registry")
	emit := func(leanName, fn string) {
		fd, ok := pkg.funcs[fn]
		if !ok {
			panic("func not found: " + fn)
		}
		b.P("/-- gate order of `%s` (callee, guarded, condition, deferred), helpers inlined to depth 3. -/", fn)
		co := callOrder(pkg, fd, installVocab)
		b.P("def %s : List (String × Bool × String × Bool) := %s", leanName, leanCallFacts(co))
		b.P("def %sCallees : List String := %s", leanName, leanCallees(co))
		b.P("")
	}
	emitTop := func(leanName, fn string) {
		fd, ok := pkg.funcs[fn]
		if !ok {
			panic("func not found: " + fn)
		}
		b.P("/-- top of `%s`: what runs before the shared install core `installArtifact`. -/", fn)
		b.P("def %s : List (String × Bool × String × Bool) := %s", leanName, leanCallFacts(callOrder(pkg, fd,
			[]string{"validate", "fetchIndexRaw", "VerifyIndex", "Resolve", "SelectArtifact", "ResolveProcessor",
				"SelectProcessorArtifact", "installArtifact"})))
		b.P("")
	}
	emitTop("installTopOrder", "Install")
	emitTop("installProcessorTopOrder", "InstallProcessor")
	emit("installArtifactOrder", "installArtifact")
	emit("installFromBundleOrder", "InstallFromBundle")
	emit("installProcessorBundleOrder", "InstallProcessorBundle")
	emit("runVerificationGateOrder", "runVerificationGate")
	emit("unsignedInstallGateOrder", "unsignedInstallGate")
	emit("verifyBundleArtifactOrder", "verifyBundleArtifact")
	emit("verifyBundleIndexOrder", "verifyBundleIndex")

	// guard conditions inside the verification gates (each rejects)
	ins := parse("pkg/registry/install.go")
	b.P("def runVerificationGateConds : List String := %s", leanStrList(ifConds(findFunc(ins, "", "runVerificationGate"))))
	b.P("def unsignedInstallGateConds : List String := %s", leanStrList(ifConds(findFunc(ins, "", "unsignedInstallGate"))))
	bun := parse("pkg/registry/bundle.go")
	b.P("def verifyBundleArtifactConds : List String := %s", leanStrList(ifConds(findFunc(bun, "", "verifyBundleArtifact"))))
	b.P("/-- every returning `if` of `verifyBundleIndex`, in source order (nested ones included). -/")
	b.P("def verifyBundleIndexConds : List String := %s", leanStrList(allIfConds(findFunc(bun, "", "verifyBundleIndex"))))
	// the relaxed verifier is a copy of the caller's verifier with only MaxStaleness changed
	var relaxed []string
	ast.Inspect(findFunc(bun, "", "verifyBundleIndex").Body, func(n ast.Node) bool {
		if as, ok := n.(*ast.AssignStmt); ok && len(as.Lhs) == 1 && strings.HasPrefix(src(as.Lhs[0]), "relaxed") {
			relaxed = append(relaxed, src(as))
		}
		return true
	})
	b.P("def verifyBundleIndexRelaxed : List String := %s", leanStrList(relaxed))
	// the success result of unsignedInstallGate
	ug := findFunc(ins, "", "unsignedInstallGate")
	last := ug.Body.List[len(ug.Body.List)-1].(*ast.ReturnStmt)
	b.P("def unsignedInstallGateResult : String := %s", leanStr(src(last.Results[0])))
	// policy.Context literal: which option feeds which field
	var ctxMap []string
	ast.Inspect(ug.Body, func(n ast.Node) bool {
		if cl, ok := n.(*ast.CompositeLit); ok && src(cl.Type) == "policy.Context" {
			for _, el := range cl.Elts {
				kv := el.(*ast.KeyValueExpr)
				ctxMap = append(ctxMap, src(kv.Key)+"="+src(kv.Value))
			}
		}
		return true
	})
	b.P("def policyContextWiring : List String := %s", leanStrList(ctxMap))
	// what the manifest entry records about verification
	fin := findFunc(ins, "", "finalizeArtifactInstall")
	var entryFields []string
	ast.Inspect(fin.Body, func(n ast.Node) bool {
		if cl, ok := n.(*ast.CompositeLit); ok && src(cl.Type) == "ManifestEntry" {
			for _, el := range cl.Elts {
				if kv, ok := el.(*ast.KeyValueExpr); ok {
					k := src(kv.Key)
					if k == "Signed" || k == "AllowUnsigned" || k == "VerifiedIdentity" || k == "Digest" {
						entryFields = append(entryFields, k+"="+src(kv.Value))
					}
				}
			}
		}
		return true
	})
	b.P("def manifestEntryVerificationFields : List String := %s", leanStrList(entryFields))

	// writeManifestEntry / SaveManifest
	emitW := func(leanName, fn string, vocab []string) {
		fd, ok := pkg.funcs[fn]
		if !ok {
			panic("func not found: " + fn)
		}
		b.P("def %s : List (String × Bool × String × Bool) := %s", leanName, leanCallFacts(callOrder(pkg, fd, vocab)))
	}
	emitW("writeManifestEntryOrder", "writeManifestEntry", []string{"AcquireManifestLock", "Unlock", "LoadManifest", "SaveManifest"})
	emitW("saveManifestWrites", "SaveManifest", []string{"WriteFile", "Create", "OpenFile", "Rename", "MarshalIndent", "Marshal"})

	// CheckCorruption compares every byte
	cor := parse("pkg/registry/corruption.go")
	b.P("def checkCorruptionConds : List String := %s", leanStrList(allIfConds(findFunc(cor, "", "CheckCorruption"))))
	// chaos points
	ch := parse("pkg/registry/chaos.go")
	var pts []string
	for _, n := range []string{"chaosPointDownloadComplete", "chaosPointExtractComplete", "chaosPointPrerenameFDOpened",
		"chaosPointPostRenamePreManifest", "chaosPointIndexStateBeforeWrite"} {
		pts = append(pts, strLit(findValue(ch, n)))
	}
	b.P("def chaosPoints : List String := %s", leanStrList(pts))
	var pairs []string
	for _, n := range []string{"chaosPointDownloadComplete", "chaosPointExtractComplete", "chaosPointPrerenameFDOpened",
		"chaosPointPostRenamePreManifest", "chaosPointIndexStateBeforeWrite"} {
		pairs = append(pairs, fmt.Sprintf("(%s, %s)", leanStr("fireChaos("+n+")"), leanStr(strLit(findValue(ch, n)))))
	}
	b.P("/-- `fireChaos(<const>)` call text ↦ point name. -/")
	b.P("def chaosCallPoint : List (String × String) := [%s]", strings.Join(pairs, ", "))
	// registered error codes: identifier ↦ reason
	var codes []string
	for _, rel := range []string{"pkg/registry/codes.go", "pkg/registry/index/codes.go", "pkg/registry/policy/codes.go",
		"pkg/registry/trust/codes.go", "pkg/foundation/cerrors/conduiterr/conduiterr.go"} {
		cf := parse(rel)
		for _, d := range cf.Decls {
			gd, ok := d.(*ast.GenDecl)
			if !ok {
				continue
			}
			for _, sp := range gd.Specs {
				vs, ok := sp.(*ast.ValueSpec)
				if !ok {
					continue
				}
				for i, n := range vs.Names {
					if i < len(vs.Values) {
						if c, ok := vs.Values[i].(*ast.CallExpr); ok && len(c.Args) >= 1 {
							if full, _ := calleeName(c); full == "conduiterr.Register" || full == "Register" {
								codes = append(codes, fmt.Sprintf("(%s, %s)", leanStr(n.Name), leanStr(strLit(c.Args[0]))))
							}
						}
					}
				}
			}
		}
	}
	b.P("/-- error code identifier ↦ registered reason. -/")
	b.P("def codeReason : List (String × String) := [\n    %s]", strings.Join(codes, ",\n    "))
}

// allIfConds lists the conditions of every `if` in the function whose body ends in return, in source order.
func allIfConds(fd *ast.FuncDecl) []string {
	var out []string
	ast.Inspect(fd.Body, func(n ast.Node) bool {
		if is, ok := n.(*ast.IfStmt); ok && endsInReturn(is.Body) {
			out = append(out, src(is.Cond))
		}
		return true
	})
	return out
}

func genRegistryExtract(b *leanFile) {
	f := parse("pkg/registry/extract.go")
	b.P("def maxExtractedBytes : Nat := %d", intLit(findValue(f, "maxExtractedBytes")))
	eb := findFunc(f, "", "ExtractBinary")
	var loop *ast.ForStmt
	for _, st := range eb.Body.List {
		if fs, ok := st.(*ast.ForStmt); ok {
			loop = fs
		}
	}
	if loop == nil {
		panic("ExtractBinary: loop not found")
	}
	var shape []string
	var sw *ast.SwitchStmt
	for _, st := range loop.Body.List {
		switch s := st.(type) {
		case *ast.AssignStmt:
			shape = append(shape, "assign:"+src(s))
		case *ast.IfStmt:
			k := "if:"
			if endsInReturn(s.Body) {
				k = "if-return:"
			}
			shape = append(shape, k+src(s.Cond))
		case *ast.SwitchStmt:
			shape = append(shape, "switch:"+src(s.Tag))
			sw = s
		default:
			shape = append(shape, "other:"+src(s))
		}
	}
	b.P("/-- statements of the entry loop of `ExtractBinary`, in order. -/")
	b.P("def extractLoopShape : List String := %s", leanStrList(shape))
	if sw == nil {
		panic("ExtractBinary: switch not found")
	}
	var regBody []ast.Stmt
	var cases []string
	for _, c := range sw.Body.List {
		cc := c.(*ast.CaseClause)
		var labels []string
		for _, l := range cc.List {
			labels = append(labels, src(l))
		}
		if cc.List == nil {
			labels = []string{"default"}
		}
		kind := "other"
		if len(cc.Body) > 0 {
			switch s := cc.Body[0].(type) {
			case *ast.BranchStmt:
				kind = s.Tok.String()
			case *ast.ReturnStmt:
				kind = "return-error"
			default:
				kind = "extract"
			}
		}
		if strings.Join(labels, ",") == "tar.TypeReg" {
			regBody = cc.Body
		}
		cases = append(cases, strings.Join(labels, ",")+" => "+kind)
	}
	b.P("/-- arms of `switch hdr.Typeflag`. -/")
	b.P("def extractSwitch : List String := %s", leanStrList(cases))
	if regBody == nil {
		panic("ExtractBinary: TypeReg arm not found")
	}
	var regShape []string
	for _, st := range regBody {
		switch s := st.(type) {
		case *ast.AssignStmt:
			regShape = append(regShape, "assign:"+src(s))
		case *ast.IfStmt:
			k := "if:"
			if endsInReturn(s.Body) {
				k = "if-return:"
			} else if len(s.Body.List) == 1 {
				if br, ok := s.Body.List[0].(*ast.BranchStmt); ok && br.Tok == token.CONTINUE {
					k = "if-continue:"
				}
			}
			init := ""
			if s.Init != nil {
				init = src(s.Init) + "; "
			}
			regShape = append(regShape, k+init+src(s.Cond))
		default:
			regShape = append(regShape, "other:"+src(s))
		}
	}
	b.P("/-- statements of the `case tar.TypeReg:` arm, in order. -/")
	b.P("def extractRegShape : List String := %s", leanStrList(regShape))
	// after the loop
	var tail []string
	seen := false
	for _, st := range eb.Body.List {
		if st == ast.Stmt(loop) {
			seen = true
			continue
		}
		if !seen {
			continue
		}
		switch s := st.(type) {
		case *ast.IfStmt:
			tail = append(tail, "if-return:"+src(s.Cond))
		case *ast.ReturnStmt:
			tail = append(tail, "return:"+src(s.Results[0]))
		}
	}
	b.P("def extractTail : List String := %s", leanStrList(tail))
	// extractAndGuard creates a fresh directory for the extraction
	ins := parse("pkg/registry/install.go")
	eg := findFunc(ins, "", "extractAndGuard")
	var egShape []string
	for _, st := range eg.Body.List {
		if as, ok := st.(*ast.AssignStmt); ok {
			egShape = append(egShape, src(as))
		}
	}
	b.P("def extractAndGuardAssigns : List String := %s", leanStrList(egShape))
}

func genAtomicfile(b *leanFile) {
	f := parse("pkg/foundation/atomicfile/atomicfile.go")
	wf := findFunc(f, "", "WriteFile")
	pkg := &pkgFuncs{funcs: map[string]*ast.FuncDecl{}}
	order := callOrder(pkg, wf, []string{"CreateTemp", "Write", "Sync", "Close", "Chmod", "Rename", "Remove",
		"WriteFile", "Create", "OpenFile", "Truncate", "WriteString", "Link", "Symlink"})
	b.P("/-- file operations of `atomicfile.WriteFile` in order: (callee, guarded, condition, deferred). -/")
	b.P("def writeFileOps : List (String × Bool × String × Bool) := %s", leanCallFacts(order))
	b.P("def writeFileOpsCallees : List String := %s", leanCallees(order))
	b.P("")
	// where the temp file lives and what is renamed onto what
	var facts []string
	ast.Inspect(wf.Body, func(n ast.Node) bool {
		switch v := n.(type) {
		case *ast.AssignStmt:
			if len(v.Lhs) >= 1 && len(v.Rhs) == 1 {
				l := src(v.Lhs[0])
				if l == "dir" || l == "tmpPath" || l == "tmp" {
					facts = append(facts, src(v))
				}
			}
		case *ast.CallExpr:
			if full, _ := calleeName(v); full == "os.Rename" || full == "os.Remove" || full == "tmp.Write" {
				facts = append(facts, src(v))
			}
		}
		return true
	})
	b.P("def writeFileWiring : List String := %s", leanStrList(facts))
	// the last statement returns nil
	last := wf.Body.List[len(wf.Body.List)-1]
	b.P("def writeFileLast : String := %s", leanStr(src(last)))
}

// lockFileUnlinks scans a package directory for os.Remove / os.RemoveAll / os.Rename calls on a lock path and for uses of
// (*flock.Flock).Path().
func lockFileUnlinks(relDir string) [][3]string {
	dir := filepath.Join(repo, relDir)
	ents, err := os.ReadDir(dir)
	if err != nil {
		panic(fmt.Sprintf("read dir %s: %v", relDir, err))
	}
	var out [][3]string
	for _, e := range ents {
		n := e.Name()
		if e.IsDir() || !strings.HasSuffix(n, ".go") || strings.HasSuffix(n, "_test.go") || strings.HasPrefix(n, "zz_verif") {
			continue
		}
		f := parse(filepath.Join(relDir, n))
		for _, d := range f.Decls {
			fd, ok := d.(*ast.FuncDecl)
			if !ok || fd.Body == nil {
				continue
			}
			ast.Inspect(fd.Body, func(nd ast.Node) bool {
				c, ok := nd.(*ast.CallExpr)
				if !ok {
					return true
				}
				full, short := calleeName(c)
				text := src(c)
				lower := strings.ToLower(text)
				switch {
				case full == "os.Remove" || full == "os.RemoveAll" || full == "os.Rename" || full == "syscall.Unlink" || full == "unix.Unlink":
					if strings.Contains(lower, "lock") {
						out = append(out, [3]string{n, fd.Name.Name, text})
					}
				case short == "Path" && len(c.Args) == 0 && strings.Contains(strings.ToLower(full), "lock"):
					out = append(out, [3]string{n, fd.Name.Name, text})
				}
				return true
			})
		}
	}
	return out
}

func leanTriples(ts [][3]string) string {
	if len(ts) == 0 {
		return "[]"
	}
	var parts []string
	for _, t := range ts {
		parts = append(parts, fmt.Sprintf("(%q, %q, %q)", t[0], t[1], t[2]))
	}
	return "[" + strings.Join(parts, ", ") + "]"
}
