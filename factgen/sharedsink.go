package main

import (
	"fmt"
	"go/ast"
	"os"
	"path/filepath"
	"sort"
	"strings"
)

// SharedSink (C01/C04/C05, arch-v2 N-source shared sink): the statement order of the
// sharedBoundary branch of Worker.doTask that Model/SharedSink.lean follows — Lock, deferred
// Unlock registered right after it IN doTask itself (so it runs when doTask returns, after the
// poison store), poison check after the lock and before the sub-pass, poison store after a failed
// sub-pass — plus who else touches sharedMu / poisoned, MarkSharedBoundary, NewSink, the fan-out
// of doNextTask (all roots entered, joined by p.Wait) and buildSharedTail (one root with shared
// processors, one root per destination branch otherwise).
//
// Labels as in workerstop.go (wsLabel): logging skipped, `if <cond> return <results>`,
// callee names for call statements.

// ssUsers lists, per function of the funnel package (non-test files), how a field is used:
// "<func>: <rendered selector call or assignment>".
func ssUsers(relDir string, field string) []string {
	dir := filepath.Join(repo, relDir)
	ents, err := os.ReadDir(dir)
	if err != nil {
		panic(fmt.Sprintf("read dir %s: %v", relDir, err))
	}
	var names []string
	for _, e := range ents {
		n := e.Name()
		if e.IsDir() || !strings.HasSuffix(n, ".go") || strings.HasSuffix(n, "_test.go") || strings.HasPrefix(n, "zz_verif") {
			continue
		}
		names = append(names, n)
	}
	sort.Strings(names)
	var out []string
	for _, n := range names {
		f := parse(filepath.Join(relDir, n))
		for _, d := range f.Decls {
			fd, ok := d.(*ast.FuncDecl)
			if !ok || fd.Body == nil {
				continue
			}
			ast.Inspect(fd.Body, func(x ast.Node) bool {
				switch v := x.(type) {
				case *ast.CallExpr:
					if se, ok := v.Fun.(*ast.SelectorExpr); ok {
						if inner, ok := se.X.(*ast.SelectorExpr); ok && inner.Sel.Name == field {
							out = append(out, fd.Name.Name+": "+field+"."+se.Sel.Name)
						}
					}
				case *ast.AssignStmt:
					for _, l := range v.Lhs {
						if se, ok := l.(*ast.SelectorExpr); ok && se.Sel.Name == field {
							out = append(out, fd.Name.Name+": "+field+" =")
						}
					}
				}
				return true
			})
		}
	}
	return out
}

func init() {
	register("SharedSink", func(b *leanFile) {
		f := parse("pkg/lifecycle-poc/funnel/worker.go")

		// ---- doTask
		dt := findFunc(f, "Worker", "doTask")
		var top []string
		for _, st := range dt.Body.List {
			if wsIsLogger(st) {
				continue
			}
			if is, ok := st.(*ast.IfStmt); ok && is.Init == nil {
				top = append(top, "if "+src(is.Cond))
				continue
			}
			top = append(top, wsLabel(st))
		}
		b.P("/-- top level of `Worker.doTask` -/")
		b.P("def doTaskTop : List String := %s", leanStrList(top))
		sb, _ := wsFindIf(dt.Body.List, "taskNode.sharedBoundary")
		var sbl []string
		for _, st := range sb.Body.List {
			if is, ok := st.(*ast.IfStmt); ok && is.Init == nil {
				r, ret := wsReturnOf(is.Body)
				if !ret {
					r = "-"
				}
				// what the refusal does before returning: only builds the coded error
				var calls []string
				calls = append(calls, callSeq(is.Body, true, "Lock", "Unlock", "Store", "doTaskAttempt", "Write", "Ack")...)
				sbl = append(sbl, "if "+src(is.Cond)+" return "+r+" calls="+strings.Join(calls, ","))
				continue
			}
			sbl = append(sbl, wsLabel(st))
		}
		b.P("/-- the `if taskNode.sharedBoundary { … }` block before the sub-pass -/")
		b.P("def sharedEntry : List String := %s", leanStrList(sbl))
		pb, _ := wsFindIf(dt.Body.List, "err != nil && taskNode.sharedBoundary")
		b.P("/-- the block after the sub-pass: `if err != nil && taskNode.sharedBoundary { … }` -/")
		b.P("def sharedFailure : List String := %s", leanStrList(wsLabels(pb.Body.List)))
		// the deferred Unlock is a plain `defer` statement of doTask (not inside a function literal)
		inLit := false
		ast.Inspect(dt.Body, func(x ast.Node) bool {
			if fl, ok := x.(*ast.FuncLit); ok {
				if len(callSeq(fl, true, "sharedMu.Unlock", "sharedMu.Lock", "poisoned.Store", "poisoned.Load")) > 0 {
					inLit = true
				}
			}
			return true
		})
		b.P("def doTaskLockCodeInFuncLit : Bool := %v", inLit)
		b.P("/-- every use of `sharedMu` / `poisoned` in package funnel (non-test) -/")
		b.P("def sharedMuUsers : List String := %s", leanStrList(ssUsers("pkg/lifecycle-poc/funnel", "sharedMu")))
		b.P("def poisonedUsers : List String := %s", leanStrList(ssUsers("pkg/lifecycle-poc/funnel", "poisoned")))
		msb := findFunc(f, "TaskNode", "MarkSharedBoundary")
		b.P("def markSharedBoundaryBody : List String := %s", leanStrList(wsLabels(msb.Body.List)))

		// ---- doNextTask: one next task = plain doTask; several = all entered concurrently, joined
		dn := findFunc(f, "Worker", "doNextTask")
		var sw *ast.SwitchStmt
		for _, st := range dn.Body.List {
			if s, ok := st.(*ast.SwitchStmt); ok {
				sw = s
			}
		}
		if sw == nil || src(sw.Tag) != "len(taskNode.Next)" {
			panic("doNextTask: switch len(taskNode.Next) not found")
		}
		var arms []string
		for _, st := range sw.Body.List {
			cc := st.(*ast.CaseClause)
			lbl := "default"
			if len(cc.List) > 0 {
				lbl = "case " + src(cc.List[0])
			}
			var calls []string
			for _, s := range cc.Body {
				calls = append(calls, callSeq(s, true, "validateRunsWholeBeforeFanOut", "newMultiAckNacker", "pool.New", "p.Go", "w.doTask", "p.Wait")...)
			}
			loop := ""
			for _, s := range cc.Body {
				if rs, ok := s.(*ast.RangeStmt); ok {
					loop = " range=" + src(rs.X)
				}
			}
			arms = append(arms, lbl+": "+strings.Join(calls, ",")+loop)
		}
		b.P("/-- `doNextTask`: arms of `switch len(taskNode.Next)` with their gate calls in source order -/")
		b.P("def doNextTaskArms : List String := %s", leanStrList(arms))

		// ---- sink.go
		sk := parse("pkg/lifecycle-poc/funnel/sink.go")
		ns := findFunc(sk, "", "NewSink")
		var nsLoop *ast.RangeStmt
		for _, st := range ns.Body.List {
			if rs, ok := st.(*ast.RangeStmt); ok && src(rs.X) == "roots" {
				nsLoop = rs
			}
		}
		if nsLoop == nil {
			panic("NewSink: range roots not found")
		}
		b.P("/-- `NewSink`: calls inside `for _, root := range roots` -/")
		b.P("def newSinkPerRoot : List String := %s", leanStrList(callSeq(nsLoop.Body, true, "root.Tasks", "MarkSharedBoundary")))

		// ---- lifecycle-poc/service.go
		sv := parse("pkg/lifecycle-poc/service.go")
		bst := findFunc(sv, "Service", "buildSharedTail")
		var rets []string
		for _, st := range bst.Body.List {
			switch v := st.(type) {
			case *ast.IfStmt:
				if v.Init == nil {
					if r, ok := wsReturnOf(v.Body); ok {
						rets = append(rets, "if "+src(v.Cond)+" return "+r)
					}
				}
			case *ast.ReturnStmt:
				var rs []string
				for _, x := range v.Results {
					rs = append(rs, src(x))
				}
				rets = append(rets, "return "+strings.Join(rs, ", "))
			}
		}
		b.P("/-- `buildSharedTail`: its top-level returns -/")
		b.P("def buildSharedTailReturns : List String := %s", leanStrList(rets))
		brp := findFunc(sv, "Service", "buildRunnablePipeline")
		b.P("def buildRunnablePipelineSink : List String := %s", leanStrList(callSeq(brp.Body, true, "buildSharedTail", "funnel.NewSink", "tail.AppendToEnd", "funnel.NewWorker")))
		rp := findFunc(sv, "Service", "runPipeline")
		b.P("/-- `runPipeline`: sink opened before any worker runs, closed after all have returned -/")
		b.P("def runPipelineSinkOrder : List String := %s", leanStrList(callSeq(rp.Body, true, "sink.Open", "w.Do", "workersWg.Wait", "sink.Close")))
		summary["SharedSink"] = map[string]any{"sharedEntry": sbl}
	})
}
