package main

import (
	"fmt"
	"go/ast"
	"go/token"
	"strings"
)

// SrcAck: structure of the source-ack / persister code the M3 model (Model/SrcAck.lean) relies on
// (C02, C03, C06): constants, the shape of flushNow (error propagation out of the storeFunc loop,
// what happens when NewTransaction fails, commit guard, callbacks after commit), the call order of
// Source.Ack and Source.Teardown, and how the delivery goroutine treats its queue.
func init() {
	register("SrcAck", func(b *leanFile) {
		src := parse("pkg/connector/source.go")
		per := parse("pkg/connector/persister.go")

		b.P("def defaultDeferredAckMaxRetries : Nat := %d", intLit(findValue(src, "DefaultDeferredAckMaxRetries")))
		b.P("def defaultPersisterBundleCountThreshold : Nat := %d", intLit(findValue(per, "DefaultPersisterBundleCountThreshold")))

		// ---- flushNow
		fn := findFunc(per, "Persister", "flushNow")
		var loop *ast.RangeStmt
		ast.Inspect(fn.Body, func(n ast.Node) bool {
			if r, ok := n.(*ast.RangeStmt); ok && loop == nil && strings.Contains(src2(r.Body), "storeFunc") {
				loop = r
			}
			return true
		})
		if loop == nil {
			panic("flushNow: storeFunc loop not found")
		}
		// does a failed storeFunc reach the function's `err` (the value the commit guard and the
		// callbacks see)?  yes iff the loop body assigns (=, not :=) to `err` and does not
		// re-declare it.
		assigns, shadows := false, false
		ast.Inspect(loop.Body, func(n ast.Node) bool {
			if as, ok := n.(*ast.AssignStmt); ok {
				for _, l := range as.Lhs {
					if id, ok := l.(*ast.Ident); ok && id.Name == "err" {
						if as.Tok == token.DEFINE {
							shadows = true
						} else if as.Tok == token.ASSIGN {
							assigns = true
						}
					}
				}
			}
			return true
		})
		// Every assignment to the function's `err` inside the loop assigns a value already tested non-nil
		// (`if x := f(); x != nil { err = x }` / `if x != nil { err = x }`): a failure is never reset by the
		// success of a connector iterated later. `if err = f(); err != nil` (assignment in the if's init)
		// or a bare `err = f()` overwrite it in every iteration.
		errAssigns, safeAssigns := 0, 0
		ast.Inspect(loop.Body, func(n ast.Node) bool {
			switch v := n.(type) {
			case *ast.AssignStmt:
				if v.Tok == token.ASSIGN {
					for _, l := range v.Lhs {
						if id, ok := l.(*ast.Ident); ok && id.Name == "err" {
							errAssigns++
						}
					}
				}
			case *ast.IfStmt:
				be, ok := v.Cond.(*ast.BinaryExpr)
				if !ok || be.Op != token.NEQ || src2(be.Y) != "nil" {
					return true
				}
				for _, st := range v.Body.List {
					if as, ok := st.(*ast.AssignStmt); ok && as.Tok == token.ASSIGN && len(as.Lhs) == 1 && len(as.Rhs) == 1 {
						if id, ok := as.Lhs[0].(*ast.Ident); ok && id.Name == "err" && src2(as.Rhs[0]) == src2(be.X) && src2(be.X) != "err" {
							safeAssigns++
						}
					}
				}
			}
			return true
		})
		b.P("/-- the loop over the batch only ever assigns a non-nil error to `err`: the failure of one connector is kept whatever the others do -/")
		b.P("def flushNowLoopKeepsFailure : Bool := %v", assigns && !shadows && errAssigns == safeAssigns && errAssigns > 0)
		b.P("/-- a failed storeFunc (store Set) reaches the `err` that guards Commit and is passed to the callbacks -/")
		b.P("def flushNowStoreErrPropagates : Bool := %v", assigns && !shadows)

		// gate order inside flushNow and what the NewTransaction error branch does
		var order []string
		txFailReturnsEarly := false
		commitGuard := ""
		for i, st := range fn.Body.List {
			s := src2(st)
			switch {
			case strings.Contains(s, "NewTransaction("):
				order = append(order, "NewTransaction")
				// the next statement is the error branch
				if i+1 < len(fn.Body.List) {
					if is, ok := fn.Body.List[i+1].(*ast.IfStmt); ok && src2(is.Cond) == "err != nil" {
						if n := len(is.Body.List); n > 0 {
							if _, ok := is.Body.List[n-1].(*ast.ReturnStmt); ok {
								txFailReturnsEarly = true
							}
						}
						if strings.Contains(src2(is.Body), "cb(") || strings.Contains(src2(is.Body), "callback") {
							txFailReturnsEarly = false
						}
					}
				}
			case st == ast.Stmt(loop):
				order = append(order, "storeFunc")
			case strings.Contains(s, "tx.Commit()"):
				order = append(order, "Commit")
				if is, ok := st.(*ast.IfStmt); ok {
					commitGuard = src2(is.Cond)
				}
			case strings.Contains(s, "cb(err)"):
				order = append(order, "callbacks")
			}
		}
		b.P("def flushNowOrder : List String := %s", leanStrList(order))
		b.P("def flushNowCommitGuard : String := %s", leanStr(commitGuard))
		b.P("/-- NewTransaction failure: callbacks are still run (false: flushNow returns before spawning them, F11) -/")
		b.P("def flushNowTxFailRunsCallbacks : Bool := %v", !txFailReturnsEarly)
		summary["SrcAck.flushNowOrder"] = order

		// ---- Source.Ack: state set -> enqueue -> Persist, no Send
		b.P("def sourceAckOrder : List String := %s", leanStrList(gateOrder(findFunc(src, "Source", "Ack"),
			[]string{"preparePluginCall", "Instance.Lock", "ackMu.Lock", "ackMu.Unlock", "Persist", "Send"},
			[]string{"s.Instance.State", "s.pendingAcks"})))

		// ---- restart path (C03): what Ack stores is the last position of the call, what open hands
		// to the plugin is the stored state's position
		ackState := ""
		ast.Inspect(findFunc(src, "Source", "Ack").Body, func(n ast.Node) bool {
			if as, ok := n.(*ast.AssignStmt); ok && len(as.Lhs) == 1 && src2(as.Lhs[0]) == "s.Instance.State" {
				ackState = src2(as.Rhs[0])
			}
			return true
		})
		b.P("def sourceAckStateExpr : String := %s", leanStr(ackState))
		openPos := ""
		ast.Inspect(findFunc(src, "Source", "open").Body, func(n ast.Node) bool {
			if cl, ok := n.(*ast.CompositeLit); ok && strings.HasSuffix(src2(cl.Type), "SourceOpenRequest") {
				openPos = src2(field(cl, "Position"))
			}
			return true
		})
		b.P("def sourceOpenPositionExpr : String := %s", leanStr(openPos))

		// ---- Source.Stop: what it returns is exactly the plugin's reply (resp.LastPosition), no rewrite
		stopFn := findFunc(src, "Source", "Stop")
		stopRet := ""
		for _, st := range stopFn.Body.List {
			if r, ok := st.(*ast.ReturnStmt); ok && len(r.Results) == 2 {
				stopRet = src2(r.Results[0])
			}
		}
		b.P("/-- first result of the final `return` of `Source.Stop` -/")
		b.P("def sourceStopReturnExpr : String := %s", leanStr(stopRet))
		b.P("/-- `Source.Stop` hands back exactly what the plugin replied -/")
		b.P("def sourceStopReturnsPluginReply : Bool := %v", stopRet == "resp.LastPosition")

		// ---- Source.Teardown
		td := gateOrder(findFunc(src, "Source", "Teardown"),
			[]string{"tearingDown.Store", "persister.Flush", "WaitPendingWritesContext", "signalDelivery", "waitDeliveryDrain",
				"stopStream", "wg.Wait", "plugin.Teardown", "ConnectorStopped"},
			[]string{"s.deferredAckClosed", "<-s.deliveryDone"})
		b.P("def sourceTeardownOrder : List String := %s", leanStrList(td))
		summary["SrcAck.teardownOrder"] = td

		// ---- onPersistFlushed: error ⇒ nothing is enqueued
		opf := findFunc(src, "Source", "onPersistFlushed")
		first := ""
		if is, ok := opf.Body.List[0].(*ast.IfStmt); ok {
			first = src2(is.Cond)
			if n := len(is.Body.List); n == 0 {
				first += " (no return)"
			} else if _, ok := is.Body.List[n-1].(*ast.ReturnStmt); !ok {
				first += " (no return)"
			}
		}
		b.P("def onPersistFlushedFirstGuard : String := %s", leanStr(first))
		drainCond := ""
		ast.Inspect(opf.Body, func(n ast.Node) bool {
			if f, ok := n.(*ast.ForStmt); ok && drainCond == "" {
				drainCond = src2(f.Cond)
			}
			return true
		})
		b.P("def onPersistFlushedDrainCond : String := %s", leanStr(drainCond))

		// ---- delivery goroutine
		dd := findFunc(src, "Source", "deliverDeferredAcks")
		reset := ""
		usesResult := false
		ast.Inspect(dd.Body, func(n ast.Node) bool {
			if as, ok := n.(*ast.AssignStmt); ok {
				if len(as.Lhs) == 1 && src2(as.Lhs[0]) == "s.deferredAckQueue" {
					reset = src2(as.Rhs[0])
				}
				for _, r := range as.Rhs {
					if strings.Contains(src2(r), "deliverOneAck(") {
						usesResult = true
					}
				}
			}
			if is, ok := n.(*ast.IfStmt); ok && strings.Contains(src2(is.Cond), "deliverOneAck(") {
				usesResult = true
			}
			return true
		})
		b.P("/-- what the delivery goroutine leaves in the shared queue after taking its snapshot -/")
		b.P("def deliveryQueueReset : String := %s", leanStr(reset))
		one := findFunc(src, "Source", "deliverOneAck")
		b.P("/-- the delivery goroutine stops sending once an ack had to be dropped (false: carries on, F12) -/")
		b.P("def deliveryStopsAfterDrop : Bool := %v", usesResult && one.Type.Results != nil)
		exhaust := ""
		ast.Inspect(one.Body, func(n ast.Node) bool {
			if is, ok := n.(*ast.IfStmt); ok && strings.Contains(src2(is.Cond), "maxDeferredAckRetries") {
				exhaust = src2(is.Cond)
			}
			return true
		})
		b.P("def deliverExhaustCond : String := %s", leanStr(exhaust))

		// ---- the durability barrier: connector.Service.WaitPersisted = the UNBOUNDED Persister.WaitPendingWrites
		svc := parse("pkg/connector/service.go")
		var wpCalls []string
		ast.Inspect(findFunc(svc, "Service", "WaitPersisted").Body, func(n ast.Node) bool {
			if c, ok := n.(*ast.CallExpr); ok {
				wpCalls = append(wpCalls, src2(c.Fun))
			}
			return true
		})
		b.P("/-- every call made by `Service.WaitPersisted`, in source order -/")
		b.P("def serviceWaitPersistedCalls : List String := %s", leanStrList(wpCalls))
		// … and WaitPendingWrites itself: two plain receives on the snapshotted generation, no select / timer
		wpw := findFunc(per, "Persister", "WaitPendingWrites")
		var recvs []string
		wpwSelect := false
		ast.Inspect(wpw.Body, func(n ast.Node) bool {
			switch v := n.(type) {
			case *ast.SelectStmt:
				wpwSelect = true
			case *ast.UnaryExpr:
				if v.Op == token.ARROW {
					recvs = append(recvs, "<-"+src2(v.X))
				}
			case *ast.CallExpr:
				if f := src2(v.Fun); strings.HasPrefix(f, "time.") || strings.Contains(f, "Context") {
					wpwSelect = true
				}
			}
			return true
		})
		b.P("def waitPendingWritesReceives : List String := %s", leanStrList(recvs))
		b.P("/-- WaitPendingWrites has no select, timer or context: it returns only when both channels are closed -/")
		b.P("def waitPendingWritesUnbounded : Bool := %v", !wpwSelect)

		// ---- Persist: bundle threshold comparison; triggerFlush serialisation
		pe := findFunc(per, "Persister", "Persist")
		thr := ""
		ast.Inspect(pe.Body, func(n ast.Node) bool {
			if is, ok := n.(*ast.IfStmt); ok && strings.Contains(src2(is.Cond), "bundleCountThreshold") {
				thr = src2(is.Cond)
			}
			return true
		})
		b.P("def persistBundleCond : String := %s", leanStr(thr))
		tf := gateOrder(findFunc(per, "Persister", "triggerFlush"), []string{"flushTimer.Stop", "flushNow"},
			[]string{"<-p.flush.writeDone", "p.batch", "p.flush"})
		b.P("def triggerFlushOrder : List String := %s", leanStrList(tf))
		// the wait for the running flush is a plain receive statement — not an arm of a select that
		// could also be left through another case (context, timer): generations never overlap
		plain, inSelect := false, false
		var walk func(n ast.Node, sel bool)
		walk = func(n ast.Node, sel bool) {
			ast.Inspect(n, func(c ast.Node) bool {
				switch v := c.(type) {
				case *ast.SelectStmt:
					if c != n {
						walk(v.Body, true)
						return false
					}
				case *ast.UnaryExpr:
					if v.Op == token.ARROW && src2(v.X) == "p.flush.writeDone" {
						if sel {
							inSelect = true
						} else {
							plain = true
						}
					}
				}
				return true
			})
		}
		walk(findFunc(per, "Persister", "triggerFlush").Body, false)
		b.P("/-- `triggerFlush` waits for the previous generation unconditionally (`<-p.flush.writeDone` as a statement) -/")
		b.P("def triggerFlushWaitsUnconditionally : Bool := %v", plain && !inSelect)
	})
}

func src2(n ast.Node) string { return src(n) }

// gateOrder lists, in source order, the occurrences of gate calls (selector paths ending in one
// of calls), of assignments whose left side is one of assigns, and of channel receives written
// like one of assigns (e.g. "<-s.deliveryDone").
func gateOrder(fd *ast.FuncDecl, calls, assigns []string) []string {
	type occ struct {
		pos  token.Pos
		name string
	}
	var occs []occ
	ast.Inspect(fd.Body, func(n ast.Node) bool {
		switch v := n.(type) {
		case *ast.FuncLit:
			return false // callbacks registered, not executed here
		case *ast.CallExpr:
			f := src2(v.Fun)
			for _, c := range calls {
				if f == c || strings.HasSuffix(f, "."+c) {
					occs = append(occs, occ{v.Pos(), c})
				}
			}
		case *ast.AssignStmt:
			for _, l := range v.Lhs {
				for _, a := range assigns {
					if src2(l) == a {
						occs = append(occs, occ{v.Pos(), a + "="})
					}
				}
			}
		case *ast.UnaryExpr:
			if v.Op == token.ARROW {
				s := "<-" + src2(v.X)
				for _, a := range assigns {
					if s == a {
						occs = append(occs, occ{v.Pos(), a})
					}
				}
			}
		}
		return true
	})
	// ast.Inspect is pre-order = source order for our purposes; keep stable
	out := make([]string, 0, len(occs))
	for _, o := range occs {
		out = append(out, o.name)
	}
	if len(out) == 0 {
		panic(fmt.Sprintf("no gates found in %s", fd.Name.Name))
	}
	return out
}
