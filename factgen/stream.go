package main

import (
	"go/ast"
	"strings"
)

// Stream: guard conditions and call orders of the default (v1) engine that the pipeline model
// (Model/StreamAck.lean, Model/StreamFlow.lean, Model/StreamCondMerge.lean) mirrors:
// source-acker handlers (ticket → fail latch → DLQ → Source.Ack), fan-out arbiter
// (remaining == 0, wg.Wait), destination acker worker (empty reply / position check), DLQ
// handler (state check, window verdict, write, broken latch), Message.Clone fields, parallel
// coordinator (job.Wait first), ProcessorNode result checks, the condition merge of
// RunnableProcessor.Process.
func init() {
	register("Stream", func(b *leanFile) {
		sa := parse("pkg/lifecycle/stream/source_acker.go")
		ackVoc := []string{"sem.Acquire", "sem.Release", "sem.Enqueue", "Source.Ack", "DLQHandlerNode.Ack",
			"DLQHandlerNode.Nack", "DLQHandlerNode.Add", "DLQHandlerNode.Done", "n.registerAckHandler",
			"n.registerNackHandler", "base.Send"}
		emit := func(name, doc string, xs []string) {
			b.P("/-- %s -/", doc)
			b.P("def %s : List String := %s", name, leanStrList(xs))
			summary["Stream."+name] = xs
		}
		emit("ackHandlerCalls", "calls of SourceAckerNode.registerAckHandler, in source order",
			streamCallsIn(findFunc(sa, "SourceAckerNode", "registerAckHandler"), ackVoc))
		emit("ackHandlerConds", "if-conditions of SourceAckerNode.registerAckHandler, in source order",
			streamAllIfConds(findFunc(sa, "SourceAckerNode", "registerAckHandler")))
		emit("nackHandlerCalls", "calls of SourceAckerNode.registerNackHandler, in source order",
			streamCallsIn(findFunc(sa, "SourceAckerNode", "registerNackHandler"), ackVoc))
		emit("nackHandlerConds", "if-conditions of SourceAckerNode.registerNackHandler, in source order",
			streamAllIfConds(findFunc(sa, "SourceAckerNode", "registerNackHandler")))
		emit("sourceAckerRunCalls", "calls of SourceAckerNode.Run, in source order",
			streamCallsIn(findFunc(sa, "SourceAckerNode", "Run"), ackVoc))

		fo := parse("pkg/lifecycle/stream/fanout.go")
		emit("fanoutRunCalls", "calls of FanoutNode.Run, in source order",
			streamCallsIn(findFunc(fo, "FanoutNode", "Run"), []string{"wg.Add", "wg.Wait", "wg.Done", "msg.Clone",
				"atomic.AddInt32", "msg.Ack", "msg.Nack", "newMsg.Nack"}))
		emit("fanoutRunConds", "if-conditions of FanoutNode.Run, in source order",
			streamAllIfConds(findFunc(fo, "FanoutNode", "Run")))

		da := parse("pkg/lifecycle/stream/destination_acker.go")
		emit("dackWorkerConds", "if-conditions of DestinationAckerNode.worker, in source order",
			streamAllIfConds(findFunc(da, "DestinationAckerNode", "worker")))
		emit("dackWorkerCalls", "calls of DestinationAckerNode.worker, in source order",
			streamCallsIn(findFunc(da, "DestinationAckerNode", "worker"), []string{"queue.PopFront", "queue.PushFront",
				"Destination.Ack", "n.handleAck", "bytes.Equal"}))
		emit("dackTeardownCalls", "calls of DestinationAckerNode.teardown, in source order",
			streamCallsIn(findFunc(da, "DestinationAckerNode", "teardown"), []string{"queue.PopFront", "msg.Nack", "Destination.Ack"}))

		dq := parse("pkg/lifecycle/stream/dlq.go")
		emit("dlqNackCalls", "calls of DLQHandlerNode.Nack, in source order",
			streamCallsIn(findFunc(dq, "DLQHandlerNode", "Nack"), []string{"state.Watch", "m.Lock", "m.Unlock", "window.Nack",
				"state.Set", "n.dlqRecord", "Handler.Write"}))
		emit("dlqNackConds", "if-conditions of DLQHandlerNode.Nack, in source order",
			streamAllIfConds(findFunc(dq, "DLQHandlerNode", "Nack")))
		emit("dlqAckCalls", "calls of DLQHandlerNode.Ack, in source order",
			streamCallsIn(findFunc(dq, "DLQHandlerNode", "Ack"), []string{"state.Watch", "m.Lock", "window.Ack"}))

		ld := parse("pkg/lifecycle/dlq.go")
		emit("dlqDestinationWriteCalls", "calls of lifecycle.DLQDestination.Write, in source order",
			streamCallsIn(findFunc(ld, "DLQDestination", "Write"), []string{"Destination.Write", "Destination.Ack", "bytes.Equal"}))
		emit("dlqDestinationWriteConds", "if-conditions of lifecycle.DLQDestination.Write, in source order",
			streamAllIfConds(findFunc(ld, "DLQDestination", "Write")))

		ms := parse("pkg/lifecycle/stream/message.go")
		var fields []string
		ast.Inspect(findFunc(ms, "Message", "Clone"), func(n ast.Node) bool {
			if cl, ok := n.(*ast.CompositeLit); ok {
				for _, el := range cl.Elts {
					if kv, ok := el.(*ast.KeyValueExpr); ok {
						if id, ok := kv.Key.(*ast.Ident); ok {
							fields = append(fields, id.Name)
						}
					}
				}
				return false
			}
			return true
		})
		emit("cloneFields", "fields Message.Clone copies", fields)
		emit("messageAckConds", "if-conditions of Message.Ack", streamAllIfConds(findFunc(ms, "Message", "Ack")))
		emit("messageNackConds", "if-conditions of Message.Nack", streamAllIfConds(findFunc(ms, "Message", "Nack")))

		pa := parse("pkg/lifecycle/stream/parallel.go")
		emit("coordinatorCalls", "calls of parallelNodeCoordinator.Run, in source order",
			streamCallsIn(findFunc(pa, "parallelNodeCoordinator", "Run"), []string{"job.Wait", "Message.StatusError",
				"Message.Status", "Message.Nack", "c.send"}))
		emit("parallelRunCalls", "calls of ParallelNode.Run that hand a job out, in source order",
			streamCallsIn(findFunc(pa, "ParallelNode", "Run"), []string{"msg.Nack", "workerWg.Wait", "coordinatorWg.Wait"}))

		pr := parse("pkg/lifecycle/stream/processor.go")
		emit("processorRunConds", "if-conditions of ProcessorNode.Run, in source order",
			streamAllIfConds(findFunc(pr, "ProcessorNode", "Run")))
		emit("handleSingleRecordConds", "if-conditions of ProcessorNode.handleSingleRecord, in source order",
			streamAllIfConds(findFunc(pr, "ProcessorNode", "handleSingleRecord")))
		var kinds []string
		ast.Inspect(findFunc(pr, "ProcessorNode", "handleProcessedRecord"), func(n ast.Node) bool {
			if cc, ok := n.(*ast.CaseClause); ok {
				if len(cc.List) == 0 {
					kinds = append(kinds, "default")
				}
				for _, e := range cc.List {
					kinds = append(kinds, src(e))
				}
			}
			return true
		})
		emit("processedRecordCases", "type switch arms of ProcessorNode.handleProcessedRecord", kinds)

		rp := parse("pkg/processor/runnable_processor.go")
		emit("condMergeConds", "if-conditions of RunnableProcessor.Process, in source order",
			streamAllIfConds(findFunc(rp, "RunnableProcessor", "Process")))

		dn := parse("pkg/lifecycle/stream/destination.go")
		emit("destinationRunConds", "if-conditions of DestinationNode.Run, in source order",
			streamAllIfConds(findFunc(dn, "DestinationNode", "Run")))
		emit("destinationRunCalls", "connector / tracker calls of DestinationNode.Run, in source order (the deferred drain first)",
			streamCallsIn(findFunc(dn, "DestinationNode", "Run"), []string{"Destination.Open", "Destination.Stop",
				"openMsgTracker.Wait", "Destination.Teardown", "Destination.Write", "openMsgTracker.Add"}))
	})
}

// callsIn lists, in source order, the calls inside node whose callee (last two selector
// components, e.g. "Source.Ack" for n.Source.Ack) is in the vocabulary.
func streamCallsIn(node ast.Node, vocabulary []string) []string {
	voc := map[string]bool{}
	for _, v := range vocabulary {
		voc[v] = true
	}
	var out []string
	ast.Inspect(node, func(n ast.Node) bool {
		ce, ok := n.(*ast.CallExpr)
		if !ok {
			return true
		}
		name := streamCalleeName(ce.Fun)
		if voc[name] {
			out = append(out, name)
		}
		return true
	})
	return out
}

func streamCalleeName(e ast.Expr) string {
	switch v := e.(type) {
	case *ast.SelectorExpr:
		switch x := v.X.(type) {
		case *ast.Ident:
			return x.Name + "." + v.Sel.Name
		case *ast.SelectorExpr:
			return x.Sel.Name + "." + v.Sel.Name
		case *ast.CallExpr:
			return streamCalleeName(x.Fun) + "()." + v.Sel.Name
		case *ast.ParenExpr:
			return "()." + v.Sel.Name
		}
		return "?." + v.Sel.Name
	case *ast.Ident:
		return v.Name
	}
	return ""
}

// allIfConds lists every if-condition inside node (nested ones too), in source order.
func streamAllIfConds(node ast.Node) []string {
	var out []string
	ast.Inspect(node, func(n ast.Node) bool {
		if is, ok := n.(*ast.IfStmt); ok {
			c := src(is.Cond)
			if is.Init != nil {
				c = src(is.Init) + "; " + c
			}
			out = append(out, strings.TrimSpace(c))
		}
		return true
	})
	return out
}
