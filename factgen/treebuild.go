package main

import (
	"go/ast"
	"strings"
)

// TreeBuild (C01/C05/C07/C08, arch-v2): the statements of pkg/lifecycle-poc that link the task
// tree of a worker — what Model/TreeBuild.lean mirrors statement by statement and what the `treeshape`
// harness cannot see from the outside (which statement produced an edge):
//
//   - funnel.(*TaskNode).AppendToEnd and (*Service).buildSharedTail: the WHOLE body, flattened;
//   - (*Service).buildRunnablePipeline: its tree-relevant statements (builder calls, emptiness
//     guards, node creation, AppendToEnd calls, NewSink / NewWorker), in order, with their loop nesting;
//   - buildSourceTasks / buildDestinationTasks: the connector-type filter and the order in which the
//     task lists are appended (source task first / destination task last).
//
// Flattening: one label per statement; a block's statements follow its header label, prefixed by
// "| " per nesting level. `if x := CALL; cond { …; return … }` is "if x := CALL; cond return";
// an `if` whose body is a single return is "if <cond> return <results>"; error constructors
// (cerrors.New / cerrors.Errorf) are written `error` (the message is not a fact). Anything else is
// rendered verbatim, so adding, removing, reordering or rewriting a statement changes the fact.

func tbIsErrCtor(e ast.Expr) bool {
	c, ok := e.(*ast.CallExpr)
	if !ok {
		return false
	}
	n := src(c.Fun)
	return n == "cerrors.New" || n == "cerrors.Errorf"
}

func tbResults(r *ast.ReturnStmt) string {
	var rs []string
	for _, x := range r.Results {
		if tbIsErrCtor(x) {
			rs = append(rs, "error")
		} else {
			rs = append(rs, src(x))
		}
	}
	if len(rs) == 0 {
		return "return"
	}
	return "return " + strings.Join(rs, ", ")
}

func tbSingleReturn(b *ast.BlockStmt) (*ast.ReturnStmt, bool) {
	if b == nil || len(b.List) != 1 {
		return nil, false
	}
	r, ok := b.List[0].(*ast.ReturnStmt)
	return r, ok
}

func tbFlatten(list []ast.Stmt, prefix string, keep func(ast.Stmt) bool) []string {
	var out []string
	for _, st := range list {
		if keep != nil && !keep(st) {
			continue
		}
		switch v := st.(type) {
		case *ast.IfStmt:
			if v.Init != nil && v.Else == nil {
				if _, ok := v.Body.List[len(v.Body.List)-1].(*ast.ReturnStmt); ok && len(v.Body.List) == 1 {
					out = append(out, prefix+"if "+src(v.Init)+"; "+src(v.Cond)+" return")
					continue
				}
			}
			if r, ok := tbSingleReturn(v.Body); ok && v.Init == nil && v.Else == nil {
				out = append(out, prefix+"if "+src(v.Cond)+" "+tbResults(r))
				continue
			}
			hd := "if "
			if v.Init != nil {
				hd += src(v.Init) + "; "
			}
			out = append(out, prefix+hd+src(v.Cond)+" {")
			out = append(out, tbFlatten(v.Body.List, prefix+"| ", nil)...)
			if v.Else != nil {
				out = append(out, prefix+"} else {")
				switch e := v.Else.(type) {
				case *ast.BlockStmt:
					out = append(out, tbFlatten(e.List, prefix+"| ", nil)...)
				default:
					out = append(out, tbFlatten([]ast.Stmt{e}, prefix+"| ", nil)...)
				}
			}
			out = append(out, prefix+"}")
		case *ast.RangeStmt:
			hd := "for "
			if v.Key != nil {
				hd += src(v.Key)
				if v.Value != nil {
					hd += ", " + src(v.Value)
				}
				hd += " " + v.Tok.String() + " "
			}
			out = append(out, prefix+hd+"range "+src(v.X)+" {")
			out = append(out, tbFlatten(v.Body.List, prefix+"| ", keep)...)
			out = append(out, prefix+"}")
		case *ast.ForStmt:
			out = append(out, prefix+"for "+src(v.Init)+"; "+src(v.Cond)+"; "+src(v.Post)+" {")
			out = append(out, tbFlatten(v.Body.List, prefix+"| ", keep)...)
			out = append(out, prefix+"}")
		case *ast.SwitchStmt:
			hd := "switch "
			if v.Init != nil {
				hd += src(v.Init) + "; "
			}
			if v.Tag != nil {
				hd += src(v.Tag) + " "
			}
			out = append(out, prefix+hd+"{")
			for _, c := range v.Body.List {
				cc := c.(*ast.CaseClause)
				if cc.List == nil {
					out = append(out, prefix+"default:")
				} else {
					var xs []string
					for _, x := range cc.List {
						xs = append(xs, src(x))
					}
					out = append(out, prefix+"case "+strings.Join(xs, ", ")+":")
				}
				out = append(out, tbFlatten(cc.Body, prefix+"| ", nil)...)
			}
			out = append(out, prefix+"}")
		case *ast.ReturnStmt:
			out = append(out, prefix+tbResults(v))
		case *ast.BlockStmt:
			out = append(out, tbFlatten(v.List, prefix, keep)...)
		default:
			out = append(out, prefix+src(st))
		}
	}
	return out
}

var tbTreeWords = []string{"TaskNode", "tail", "AppendToEnd", "sharedRoots", "buildSharedTail", "NewSink", "NewWorker",
	"buildSourceTasks", "buildDestinationTasks", "buildProcessorTasks", "srcTaskSets", "destTasks", "procTasks", "workers"}

// tbTreeRelevant keeps the statements of buildRunnablePipeline that create, link or hand over task
// nodes / task lists; an `if err != nil { return … }` directly after a kept call is kept with it
// (it is part of the call's label below), logging and the unrelated set-up are dropped.
func tbTreeRelevant(st ast.Stmt) bool {
	if is, ok := st.(*ast.IfStmt); ok && is.Init == nil && src(is.Cond) == "err != nil" {
		return false // folded: every builder call here is followed by its guard (checked by errGuarded)
	}
	if rs, ok := st.(*ast.RangeStmt); ok {
		x := src(rs.X)
		return x == "srcTaskSets" || x == "srcTaskSet.tasks[1:]"
	}
	if _, ok := st.(*ast.ReturnStmt); ok {
		return false
	}
	text := src(st)
	if strings.Contains(text, "taskTypes") || strings.Contains(text, "sharedTaskTypes") || strings.Contains(text, "sourceIDs") {
		return false
	}
	for _, w := range tbTreeWords {
		if strings.Contains(text, w) {
			return true
		}
	}
	return false
}

// tbUnguarded lists assignments `x, err := CALL` (or `err = …`) of a statement list that are NOT
// directly followed by `if err != nil { …return… }` — recursively through loops.
func tbUnguarded(list []ast.Stmt) []string {
	var out []string
	for i, st := range list {
		switch v := st.(type) {
		case *ast.AssignStmt:
			if assignsErr(v) {
				ok := false
				if i+1 < len(list) {
					if is, isIf := list[i+1].(*ast.IfStmt); isIf && isErrGuard(is) {
						ok = true
					}
				}
				if !ok {
					out = append(out, src(v))
				}
			}
		case *ast.RangeStmt:
			out = append(out, tbUnguarded(v.Body.List)...)
		case *ast.ForStmt:
			out = append(out, tbUnguarded(v.Body.List)...)
		}
	}
	return out
}

// tbAppends: the `x = append(x, …)` statements of a function in source order (through loops / ifs).
func tbAppends(fd *ast.FuncDecl) []string {
	var out []string
	ast.Inspect(fd.Body, func(n ast.Node) bool {
		if as, ok := n.(*ast.AssignStmt); ok && len(as.Rhs) == 1 {
			if c, ok := as.Rhs[0].(*ast.CallExpr); ok && src(c.Fun) == "append" {
				out = append(out, src(as))
			}
		}
		return true
	})
	return out
}

// tbContinueConds: conditions of `if … { continue }` statements of a function.
func tbContinueConds(fd *ast.FuncDecl) []string {
	var out []string
	ast.Inspect(fd.Body, func(n ast.Node) bool {
		if is, ok := n.(*ast.IfStmt); ok && len(is.Body.List) == 1 {
			if b, ok := is.Body.List[0].(*ast.BranchStmt); ok && b.Tok.String() == "continue" {
				out = append(out, src(is.Cond))
			}
		}
		return true
	})
	return out
}

func init() {
	register("TreeBuild", func(b *leanFile) {
		w := parse("pkg/lifecycle-poc/funnel/worker.go")
		s := parse("pkg/lifecycle-poc/service.go")

		ate := findFunc(w, "TaskNode", "AppendToEnd")
		b.P("/-- `func (t *TaskNode) AppendToEnd(next ...*TaskNode) error`: signature and whole body -/")
		b.P("def appendToEndSig : String := %s", leanStr(src(ate.Type)))
		b.P("def appendToEndBody : List String := %s", leanStrList(tbFlatten(ate.Body.List, "", nil)))

		bst := findFunc(s, "Service", "buildSharedTail")
		b.P("/-- `(*Service).buildSharedTail`: signature and whole body -/")
		b.P("def buildSharedTailSig : String := %s", leanStr(src(bst.Type)))
		b.P("def buildSharedTailBody : List String := %s", leanStrList(tbFlatten(bst.Body.List, "", nil)))

		brp := findFunc(s, "Service", "buildRunnablePipeline")
		b.P("/-- `(*Service).buildRunnablePipeline`: the statements that create, link or hand over task nodes /")
		b.P("task lists, in order (error guards folded; see `runnableUnguarded`) -/")
		b.P("def runnableTreeStmts : List String := %s", leanStrList(tbFlatten(brp.Body.List, "", tbTreeRelevant)))
		b.P("/-- error-returning calls of buildRunnablePipeline NOT directly followed by `if err != nil { … return … }` -/")
		b.P("def runnableUnguarded : List String := %s", leanStrList(tbUnguarded(brp.Body.List)))
		// which function calls AppendToEnd at all in the service package file
		var callers []string
		for _, d := range s.Decls {
			fd, ok := d.(*ast.FuncDecl)
			if !ok || fd.Body == nil {
				continue
			}
			var calls []string
			ast.Inspect(fd.Body, func(n ast.Node) bool {
				if c, ok := n.(*ast.CallExpr); ok {
					if _, short := calleeName(c); short == "AppendToEnd" {
						calls = append(calls, src(c))
					}
				}
				return true
			})
			if len(calls) > 0 {
				callers = append(callers, fd.Name.Name+": "+strings.Join(calls, "; "))
			}
		}
		b.P("/-- every `AppendToEnd` call of service.go, per function -/")
		b.P("def appendToEndCallers : List String := %s", leanStrList(callers))

		bsrc := findFunc(s, "Service", "buildSourceTasks")
		bdst := findFunc(s, "Service", "buildDestinationTasks")
		bproc := findFunc(s, "Service", "buildProcessorTasks")
		b.P("/-- buildSourceTasks / buildDestinationTasks / buildProcessorTasks: the `append` statements in source order and the `continue` filters -/")
		b.P("def sourceTaskAppends : List String := %s", leanStrList(tbAppends(bsrc)))
		b.P("def sourceTaskFilters : List String := %s", leanStrList(tbContinueConds(bsrc)))
		b.P("def destTaskAppends : List String := %s", leanStrList(tbAppends(bdst)))
		b.P("def destTaskFilters : List String := %s", leanStrList(tbContinueConds(bdst)))
		b.P("def procTaskAppends : List String := %s", leanStrList(tbAppends(bproc)))
	})
}
