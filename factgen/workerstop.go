package main

import (
	"fmt"
	"go/ast"
	"strings"
)

// WorkerStop (C06, arch-v2 worker): the statement order of the graceful-stop protocol that
// Model/WorkerStop.lean follows — the first-task block of Worker.doTaskAttempt (processing lock
// BEFORE the stop check, discard returns nil without touching the batch), Worker.Stop (lock, flag,
// teardown), tearDownSource (mutex, once-guard), the io.EOF branch, the Do loop, Close, the
// 1-slot lock channel, and how lifecycle-poc/service.go drives Stop / Do / Close.
//
// Statements are rendered as short labels (see wsLabels): logging statements are skipped, an
// `if` whose body ends in `return` is "if <cond> return <results>", an `if x := CALL(); x != nil`
// is "if <callee> fails return|continue", a call statement / assignment from a call is its callee
// (plus literal arguments for Store). Anything else is rendered verbatim, so an edit that adds,
// removes or reorders a statement changes the fact.

func wsIsLogger(st ast.Stmt) bool {
	es, ok := st.(*ast.ExprStmt)
	if !ok {
		return false
	}
	return strings.HasPrefix(src(es.X), "w.logger.")
}

func wsReturnOf(b *ast.BlockStmt) (string, bool) {
	if b == nil || len(b.List) == 0 {
		return "", false
	}
	r, ok := b.List[len(b.List)-1].(*ast.ReturnStmt)
	if !ok {
		return "", false
	}
	var rs []string
	for _, x := range r.Results {
		rs = append(rs, src(x))
	}
	return strings.Join(rs, ", "), true
}

// wsBodyExtra: the non-logging statements of an if-body before its final return, as a suffix
// (" {a; b}") — empty when the body only logs and returns.
func wsBodyExtra(b *ast.BlockStmt) string {
	var xs []string
	for i, st := range b.List {
		if i == len(b.List)-1 {
			if _, ok := st.(*ast.ReturnStmt); ok {
				break
			}
		}
		if wsIsLogger(st) {
			continue
		}
		xs = append(xs, wsLabel(st))
	}
	if len(xs) == 0 {
		return ""
	}
	return " {" + strings.Join(xs, "; ") + "}"
}

func wsLabel(st ast.Stmt) string {
	switch v := st.(type) {
	case *ast.IfStmt:
		if v.Init != nil {
			// if x := CALL(...); x != nil { … }
			if as, ok := v.Init.(*ast.AssignStmt); ok && len(as.Rhs) == 1 {
				if c, ok := as.Rhs[0].(*ast.CallExpr); ok {
					if _, ret := wsReturnOf(v.Body); ret {
						return "if " + selName(c.Fun) + " fails return"
					}
					return "if " + selName(c.Fun) + " fails continue"
				}
			}
			return src(st)
		}
		if r, ret := wsReturnOf(v.Body); ret && v.Else == nil {
			return "if " + src(v.Cond) + " return " + r + wsBodyExtra(v.Body)
		}
		return "if " + src(v.Cond)
	case *ast.AssignStmt:
		if len(v.Rhs) == 1 {
			if c, ok := v.Rhs[0].(*ast.CallExpr); ok {
				if _, isSel := c.Fun.(*ast.SelectorExpr); isSel && !strings.HasPrefix(selName(c.Fun), "time.") {
					return selName(c.Fun)
				}
			}
		}
		return src(st)
	case *ast.ForStmt:
		if v.Cond != nil {
			return "for " + src(v.Cond)
		}
		return "for"
	case *ast.RangeStmt:
		return "for range " + src(v.X)
	}
	return src(st)
}

func wsLabels(list []ast.Stmt) []string {
	var out []string
	for _, st := range list {
		if wsIsLogger(st) {
			continue
		}
		out = append(out, wsLabel(st))
	}
	return out
}

// wsFindIf returns the first `if` with exactly this condition among list.
func wsFindIf(list []ast.Stmt, cond string) (*ast.IfStmt, int) {
	for i, st := range list {
		if is, ok := st.(*ast.IfStmt); ok && is.Init == nil && src(is.Cond) == cond {
			return is, i
		}
	}
	panic(fmt.Sprintf("if %s not found", cond))
}

func init() {
	register("WorkerStop", func(b *leanFile) {
		f := parse("pkg/lifecycle-poc/funnel/worker.go")

		// ---- doTaskAttempt
		dta := findFunc(f, "Worker", "doTaskAttempt")
		b.P("/-- top level of `doTaskAttempt` (logging skipped) -/")
		var top []string
		for _, st := range dta.Body.List {
			if wsIsLogger(st) {
				continue
			}
			if is, ok := st.(*ast.IfStmt); ok && is.Init == nil {
				top = append(top, "if "+src(is.Cond))
				continue
			}
			top = append(top, wsLabel(st))
		}
		b.P("def doTaskAttemptTop : List String := %s", leanStrList(top))
		first, idx := wsFindIf(dta.Body.List, "taskNode.IsFirst()")
		b.P("/-- the first-task block `if taskNode.IsFirst() { … }` that follows the source Read -/")
		b.P("def firstTaskBlock : List String := %s", leanStrList(wsLabels(first.Body.List)))
		var before []string
		for _, st := range dta.Body.List[:idx] {
			if is, ok := st.(*ast.IfStmt); ok && src(is.Cond) == "err != nil" {
				continue // the error branch of the Read: no batch
			}
			before = append(before, callSeq(st, true, "Ack", "Nack", "doNextTask", "doTaskAttempt")...)
		}
		b.P("/-- ack / nack / next-task calls placed BEFORE the first-task block (outside the Read-error branch) -/")
		b.P("def passCallsBeforeFirstTaskBlock : List String := %s", leanStrList(before))
		var after []string
		for _, st := range dta.Body.List[idx+1:] {
			after = append(after, callSeq(st, true, "acker.Ack", "acker.Nack", "doNextTask", "doTaskAttempt")...)
		}
		b.P("/-- … and after it: the pass -/")
		b.P("def passCallsAfterFirstTaskBlock : List String := %s", leanStrList(after))

		errIf, _ := wsFindIf(dta.Body.List, "err != nil")
		b.P("/-- the Read-error branch `if err != nil { … }` -/")
		b.P("def readErrBranch : List String := %s", leanStrList(wsLabels(errIf.Body.List)))
		eof, _ := wsFindIf(errIf.Body.List, "taskNode.IsFirst() && cerrors.Is(err, io.EOF)")
		b.P("/-- the io.EOF branch -/")
		b.P("def eofBranch : List String := %s", leanStrList(wsLabels(eof.Body.List)))

		// ---- Stop, tearDownSource, Close, Do, the lock
		stop := findFunc(f, "Worker", "Stop")
		b.P("def stopBody : List String := %s", leanStrList(wsLabels(stop.Body.List)))
		td := findFunc(f, "Worker", "tearDownSource")
		b.P("def tearDownSourceBody : List String := %s", leanStrList(wsLabels(td.Body.List)))
		// every caller of Source.Teardown / every writer of sourceTornDown in the package file
		var tdCallers, flagWriters []string
		for _, d := range f.Decls {
			fd, ok := d.(*ast.FuncDecl)
			if !ok || fd.Body == nil {
				continue
			}
			if n := len(callSeq(fd.Body, true, "Source.Teardown")); n > 0 {
				tdCallers = append(tdCallers, fmt.Sprintf("%s:%d", fd.Name.Name, n))
			}
			ast.Inspect(fd.Body, func(x ast.Node) bool {
				if as, ok := x.(*ast.AssignStmt); ok {
					for _, l := range as.Lhs {
						if strings.HasSuffix(src(l), ".sourceTornDown") {
							flagWriters = append(flagWriters, fd.Name.Name+": "+src(as))
						}
					}
				}
				return true
			})
		}
		b.P("/-- functions of worker.go calling `Source.Teardown` (name:count) -/")
		b.P("def sourceTeardownCallers : List String := %s", leanStrList(tdCallers))
		b.P("def sourceTornDownWriters : List String := %s", leanStrList(flagWriters))
		cl := findFunc(f, "Worker", "Close")
		b.P("def closeCalls : List String := %s", leanStrList(callSeq(cl.Body, false, "tearDownSource", "task.Close", "DLQ.Close")))
		do := findFunc(f, "Worker", "Do")
		b.P("def doBody : List String := %s", leanStrList(wsLabels(do.Body.List)))
		var loop *ast.ForStmt
		for _, st := range do.Body.List {
			if fs, ok := st.(*ast.ForStmt); ok {
				loop = fs
			}
		}
		if loop == nil {
			panic("Worker.Do: loop not found")
		}
		b.P("def doLoopBody : List String := %s", leanStrList(wsLabels(loop.Body.List)))

		apl := findFunc(f, "Worker", "acquireProcessingLock")
		var cases []string
		ast.Inspect(apl.Body, func(x ast.Node) bool {
			if cc, ok := x.(*ast.CommClause); ok {
				lbl := "default"
				if cc.Comm != nil {
					lbl = src(cc.Comm)
				}
				r, _ := wsReturnOf(&ast.BlockStmt{List: cc.Body})
				cases = append(cases, lbl+" => return "+r)
			}
			return true
		})
		b.P("/-- `acquireProcessingLock`: the select cases -/")
		b.P("def acquireLockCases : List String := %s", leanStrList(cases))
		nw := findFunc(f, "", "NewWorker")
		lockInit := ""
		ast.Inspect(nw.Body, func(x ast.Node) bool {
			if kv, ok := x.(*ast.KeyValueExpr); ok {
				if id, ok := kv.Key.(*ast.Ident); ok && id.Name == "processingLock" {
					lockInit = src(kv.Value)
				}
			}
			return true
		})
		b.P("def processingLockInit : String := %s", leanStr(lockInit))
		// who takes the lock
		var lockers []string
		for _, d := range f.Decls {
			fd, ok := d.(*ast.FuncDecl)
			if !ok || fd.Body == nil {
				continue
			}
			if n := len(callSeq(fd.Body, true, "acquireProcessingLock")); n > 0 {
				lockers = append(lockers, fmt.Sprintf("%s:%d", fd.Name.Name, n))
			}
		}
		b.P("def lockAcquirers : List String := %s", leanStrList(lockers))

		// ---- lifecycle-poc/service.go: who calls Stop / Do / Close
		sv := parse("pkg/lifecycle-poc/service.go")
		srp := findFunc(sv, "Service", "stopRunnablePipeline")
		b.P("/-- `stopRunnablePipeline`: calls of `w.Stop` -/")
		b.P("def serviceStopCalls : List String := %s", leanStrList(callSeq(srp.Body, true, "w.Stop")))
		rp := findFunc(sv, "Service", "runPipeline")
		b.P("/-- `runPipeline`: `w.Do` / `w.Close` in source order -/")
		b.P("def serviceDoCloseOrder : List String := %s", leanStrList(callSeq(rp.Body, true, "w.Do", "w.Close")))
		summary["WorkerStop"] = map[string]any{"firstTaskBlock": wsLabels(first.Body.List), "stopBody": wsLabels(stop.Body.List)}
	})
}
