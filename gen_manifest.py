#!/usr/bin/env python3
"""Writes MANIFEST.json from checkcfg.PROPS + manifest_meta.py (level texts). Run after editing either."""
import json, subprocess
from checkcfg import PROPS, META
from manifest_meta import NOT_APPLICABLE_REASON, HOOK_COMMITS

ids = [json.loads(l)["id"] for l in open("properties.jsonl")]
checks, na = [], []
for pid in ids:
    if pid in PROPS and pid in META:
        m = META[pid]
        checks.append({
            "property_id": pid,
            "quick_cmd": "./check %s --tier quick" % pid,
            "thorough_cmd": "./check %s --tier thorough" % pid,
            "evidence_file": "/verif/evidence/%s.json" % pid,
            "replay_cmd_template": "./check %s --replay {path}" % pid,
            "engine": "lean4-proof+correspondence",
            "level_claimed": {"category": "proof", "text": m["text"], "design_ref": m.get("design_ref", "DESIGN.md §7 " + pid)},
            "level_note": m["note"],
            "technique": m["technique"],
        })
    else:
        na.append({"property_id": pid, "reason": NOT_APPLICABLE_REASON.get(pid, "check not built yet in this session; design in DESIGN.md §7 — not claimed until its Lean theorems and source tie exist")})
man = {
    "version": 1,
    "setup_cmd": "./setup.sh",
    "hooks": {
        "guard": "verif",
        "enable": "go build -tags verif (new files zz_verif_hooks.go with //go:build verif; no existing line changed)",
        "baseline_off_cmd": "cd /repo && GOFLAGS=-mod=mod go test -vet=off -count=1 -timeout 25m ./...",
        "source_commits": HOOK_COMMITS,
        "add_only": True,
    },
    "engines": [{"name": "lean4-proof+correspondence", "path": "/verif/check",
                 "serves_properties": [c["property_id"] for c in checks],
                 "kind_free_text": "Lean 4 theorems over hand-written executable models (lean/ConduitModel), tied to /repo by facts regenerated from source (factgen) and by differential correspondence runs of the real Go code against the compiled Lean driver (harness/)"}],
    "checks": checks,
    "not_applicable": na,
    "notes": "See DESIGN.md. Every check regenerates facts from /repo, rebuilds the Lean obligations, audits axioms, rebuilds the harness from /repo with -tags verif and compares implementation and model.",
}
json.dump(man, open("MANIFEST.json", "w"), indent=1)
print("claimed:", [c["property_id"] for c in checks])
