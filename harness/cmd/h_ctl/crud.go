package main

import (
	"context"
	"fmt"
	"strconv"
	"strings"

	"github.com/conduitio/conduit/pkg/connector"
	"github.com/conduitio/conduit/pkg/pipeline"
	"github.com/conduitio/conduit/pkg/processor"
	"verif/harness/gen"
)

// Component crud (C14): a case line is a history of management-API operations (through the
// real Orchestrator) and environment operations (lifecycle status writes, position writes,
// file-provisioned resources created through the services), `;`-separated. An API op may end
// in `!k`: the k-th store operation (NewTransaction / Set / Commit, counted within the op)
// fails. Entities are named by the index of the op that created them.
//
//	pc <name> <desc>                          Pipelines.Create
//	pu <id> <name> <desc>                     Pipelines.Update
//	pq <id> <plugin> <settings> <ws> <thr>    Pipelines.UpdateDLQ
//	pd <id>                                   Pipelines.Delete
//	cc <type> <plugin> <pl> <name> <settings> Connectors.Create
//	cu <id> <plugin> <name> <settings>        Connectors.Update
//	cd <id>                                   Connectors.Delete
//	rc <plugin> <ptype> <parent> <settings> <workers> <cond>   Processors.Create
//	ru <id> <plugin> <settings> <workers>     Processors.Update
//	rd <id>                                   Processors.Delete
//	st <id> <status>                          env: pipeline.Service.UpdateStatus (what lifecycle does)
//	sf <id> <status>                          env: UpdateStatus whose store write FAILS (a failed start / stop record)
//	ss <id> <pos>                             env: connector.Service.SetState (what the persister does)
//	Pc <name> / Cc <type> <pl> <name> <settings> / Rc <ptype> <parent> <settings>
//	                                          env: file-provisioned pipeline / connector / processor
//
// Output: per op `<class>#<memory dump>#<reload dump or =>#<raw keys or =>`, joined by ` | `,
// then ` mon=ok` (the harness's claim that the property held; the Lean monitor decides).
func init() {
	components["crud"] = component{gen: genCrud, run: runCrud, nontrivial: ntCrud}
}

func ntCrud(line, res string) bool {
	// non-trivial: some op carried a store failure that was actually hit, or a guard refused
	return strings.Contains(res, "st#") || strings.Contains(res, "run#") || strings.Contains(res, "imm#")
}

func atoi(s string) int {
	n, err := strconv.Atoi(s)
	if err != nil {
		panic("bad-int " + s)
	}
	return n
}

func runCrud(line string) string {
	w := newWorld(nil)
	ctx := context.Background()
	var outs []string
	for i, ops := range strings.Split(line, ";") {
		f := strings.Fields(ops)
		if len(f) == 0 {
			return "bad-op"
		}
		k := 0
		if last := f[len(f)-1]; strings.HasPrefix(last, "!") {
			k = atoi(last[1:])
			f = f[:len(f)-1]
		}
		cls, ok := crudOp(ctx, w, i, f, k)
		if !ok {
			return "bad-op"
		}
		outs = append(outs, cls+"#"+w.observe(i))
	}
	return strings.Join(outs, " | ") + " mon=ok"
}

func crudOp(ctx context.Context, w *world, i int, f []string, k int) (cls string, ok bool) {
	defer func() {
		w.db.failAt = 0
		if p := recover(); p != nil {
			if s, isStr := p.(string); isStr && strings.HasPrefix(s, "bad-int") {
				cls, ok = "", false
				return
			}
			cls, ok = "panic", true
		}
	}()
	need := func(n int) bool { return len(f) == n+1 }
	var err error
	switch f[0] {
	case "pc":
		if !need(2) {
			return "", false
		}
		cfg := pipeline.Config{Name: nameOf(atoi(f[1])), Description: descOf(atoi(f[2]))}
		w.db.arm(k)
		var p *pipeline.Instance
		p, err = w.orch.Pipelines.Create(ctx, cfg)
		if err == nil {
			w.bind(i, p.ID)
		}
	case "pu":
		if !need(3) {
			return "", false
		}
		cfg := pipeline.Config{Name: nameOf(atoi(f[2])), Description: descOf(atoi(f[3]))}
		id := w.id(atoi(f[1]))
		w.db.arm(k)
		_, err = w.orch.Pipelines.Update(ctx, id, cfg)
	case "pq":
		if !need(5) {
			return "", false
		}
		dlq := pipeline.DLQ{Plugin: cpluginOf(atoi(f[2])), Settings: csettingsOf(atoi(f[3])), WindowSize: atoi(f[4]), WindowNackThreshold: atoi(f[5])}
		id := w.id(atoi(f[1]))
		w.db.arm(k)
		_, err = w.orch.Pipelines.UpdateDLQ(ctx, id, dlq)
	case "pd":
		if !need(1) {
			return "", false
		}
		id := w.id(atoi(f[1]))
		w.db.arm(k)
		err = w.orch.Pipelines.Delete(ctx, id)
	case "cc":
		if !need(5) {
			return "", false
		}
		cfg := connector.Config{Name: nameOf(atoi(f[4])), Settings: csettingsOf(atoi(f[5]))}
		t, pl, plid := connector.Type(atoi(f[1])), cpluginOf(atoi(f[2])), w.id(atoi(f[3]))
		w.db.arm(k)
		var c *connector.Instance
		c, err = w.orch.Connectors.Create(ctx, t, pl, plid, cfg)
		if err == nil {
			w.bind(i, c.ID)
		}
	case "cu":
		if !need(4) {
			return "", false
		}
		cfg := connector.Config{Name: nameOf(atoi(f[3])), Settings: csettingsOf(atoi(f[4]))}
		id, pl := w.id(atoi(f[1])), cpluginOf(atoi(f[2]))
		w.db.arm(k)
		_, err = w.orch.Connectors.Update(ctx, id, pl, cfg)
	case "cd":
		if !need(1) {
			return "", false
		}
		id := w.id(atoi(f[1]))
		w.db.arm(k)
		err = w.orch.Connectors.Delete(ctx, id)
	case "rc":
		if !need(6) {
			return "", false
		}
		parent := processor.Parent{ID: w.id(atoi(f[3])), Type: processor.ParentType(atoi(f[2]))}
		cfg := processor.Config{Settings: psettingsOf(atoi(f[4])), Workers: atoi(f[5])}
		pl, cond := ppluginOf(atoi(f[1]), true), condOf(atoi(f[6]))
		w.db.arm(k)
		var p *processor.Instance
		p, err = w.orch.Processors.Create(ctx, pl, parent, cfg, cond)
		if err == nil {
			w.bind(i, p.ID)
		}
	case "ru":
		if !need(4) {
			return "", false
		}
		cfg := processor.Config{Settings: psettingsOf(atoi(f[3])), Workers: atoi(f[4])}
		id, pl := w.id(atoi(f[1])), ppluginOf(atoi(f[2]), false)
		w.db.arm(k)
		_, err = w.orch.Processors.Update(ctx, id, pl, cfg)
	case "rd":
		if !need(1) {
			return "", false
		}
		id := w.id(atoi(f[1]))
		w.db.arm(k)
		err = w.orch.Processors.Delete(ctx, id)
	// ---- environment ops (never fault-injected)
	case "st":
		if !need(2) {
			return "", false
		}
		err = w.pl.UpdateStatus(ctx, w.id(atoi(f[1])), pipeline.Status(atoi(f[2])), "")
	case "sf":
		// the lifecycle's status write whose store Set fails (the run itself is not undone by that)
		if !need(2) {
			return "", false
		}
		id, st := w.id(atoi(f[1])), pipeline.Status(atoi(f[2]))
		w.db.arm(1)
		err = w.pl.UpdateStatus(ctx, id, st, "")
	case "ss":
		if !need(2) {
			return "", false
		}
		var c *connector.Instance
		c, err = w.cn.Get(ctx, w.id(atoi(f[1])))
		if err == nil {
			_, err = w.cn.SetState(ctx, c.ID, stateOf(c.Type, atoi(f[2])))
		}
	case "Pc":
		if !need(1) {
			return "", false
		}
		id := "x" + strconv.Itoa(i)
		_, err = w.pl.Create(ctx, id, pipeline.Config{Name: nameOf(atoi(f[1]))}, pipeline.ProvisionTypeConfig)
		if err == nil {
			w.bind(i, id)
		}
	case "Cc":
		if !need(4) {
			return "", false
		}
		id := "x" + strconv.Itoa(i)
		plid := w.id(atoi(f[2]))
		if _, err = w.pl.Get(ctx, plid); err != nil {
			break
		}
		_, err = w.cn.Create(ctx, id, connector.Type(atoi(f[1])), "builtin:file", plid,
			connector.Config{Name: nameOf(atoi(f[3])), Settings: csettingsOf(atoi(f[4]))}, connector.ProvisionTypeConfig)
		if err == nil {
			w.bind(i, id)
			_, err = w.pl.AddConnector(ctx, plid, id)
		}
	case "Rc":
		if !need(3) {
			return "", false
		}
		id := "x" + strconv.Itoa(i)
		parent := processor.Parent{ID: w.id(atoi(f[2])), Type: processor.ParentType(atoi(f[1]))}
		switch parent.Type {
		case processor.ParentTypePipeline:
			_, err = w.pl.Get(ctx, parent.ID)
		case processor.ParentTypeConnector:
			_, err = w.cn.Get(ctx, parent.ID)
		default:
			err = fmt.Errorf("invalid parent type")
		}
		if err != nil {
			break
		}
		_, err = w.pr.Create(ctx, id, "builtin:field.set", parent, processor.Config{Settings: psettingsOf(atoi(f[3]))}, processor.ProvisionTypeConfig, "")
		if err == nil {
			w.bind(i, id)
			if parent.Type == processor.ParentTypePipeline {
				_, err = w.pl.AddProcessor(ctx, parent.ID, id)
			} else {
				_, err = w.cn.AddProcessor(ctx, parent.ID, id)
			}
		}
	default:
		return "", false
	}
	return errClass(err), true
}

// ---------------------------------------------------------------- generator

// genState tracks what the generator believes exists, to aim ops at live entities most of the time.
type genState struct {
	pls, cns, prs []int
	cfg           []int // file-provisioned pipelines
}

// apiPls: pipelines the generator believes are API-provisioned (mostly; sometimes any).
func (g *genState) apiPls() []int {
	var out []int
	for _, p := range g.pls {
		isCfg := false
		for _, c := range g.cfg {
			if c == p {
				isCfg = true
			}
		}
		if !isCfg {
			out = append(out, p)
		}
	}
	if len(out) == 0 {
		return g.pls
	}
	return out
}

func pick(r *gen.Rand, xs []int, i int) int {
	if len(xs) == 0 || r.Chance(1, 20) {
		return r.Intn(i + 1) // arbitrary (often dangling / wrong kind)
	}
	return xs[r.Intn(len(xs))]
}

func genCrud(r *gen.Rand, o *gen.Out, _ int) string {
	n := r.Range(2, 16)
	var g genState
	var ops []string
	nameCtr := 0
	freshName := func() int {
		switch r.Pick(1, 14, 2, 1) {
		case 0:
			return 0
		case 1:
			nameCtr++
			return nameCtr
		case 2:
			return r.Range(1, 4) // may collide
		}
		return 99
	}
	// failure placement: none, on one op chosen up front, or on several ops
	failMode := r.Pick(2, 5, 3)
	failOp := r.Intn(n)
	afterSf := 0
	for i := 0; i < n; i++ {
		var op string
		api := true
		var kind int
		switch {
		case len(g.pls) == 0 || (i < 2 && r.Chance(1, 2)):
			kind = []int{0, 0, 0, 12}[r.Intn(4)]
		case len(g.cns) == 0 && r.Chance(1, 2):
			kind = []int{4, 4, 4, 13}[r.Intn(4)]
		default:
			kind = r.Pick(3, 4, 3, 2, 7, 5, 4, 8, 5, 4, 3, 3, 1, 1, 1, 1)
		}
		if afterSf > 0 {
			// a failed "running" record is followed by mutating API calls on that pipeline's resources
			afterSf--
			kind = []int{5, 6, 4, 7, 8, 9, 1, 2}[r.Intn(8)]
		}
		switch kind {
		case 0:
			nm := freshName()
			op = fmt.Sprintf("pc %d %d", nm, r.Intn(3))
			if nm != 0 && nm != 99 {
				g.pls = append(g.pls, i)
			}
		case 1:
			op = fmt.Sprintf("pu %d %d %d", pick(r, g.pls, i), freshName(), r.Intn(3))
		case 2:
			ws, thr := r.Range(0, 4), r.Range(0, 2)
			if r.Chance(1, 6) {
				ws, thr = r.Range(-1, 3), r.Range(-1, 4)
			}
			op = fmt.Sprintf("pq %d %d %d %d %d", pick(r, g.pls, i), cplugGen(r), settingsGen(r), ws, thr)
		case 3:
			op = fmt.Sprintf("pd %d", pick(r, g.pls, i))
		case 4:
			t, pg, nm, st := []int{1, 2, 1, 2, 1, 2, 1, 2, 3}[r.Intn(9)], cplugGen(r), freshName(), settingsGen(r)
			op = fmt.Sprintf("cc %d %d %d %d %d", t, pg, pick(r, g.apiPls(), i), nm, st)
			if t != 3 && pg == 1 && nm != 0 && nm != 99 && st != 0 {
				g.cns = append(g.cns, i)
			}
		case 5:
			op = fmt.Sprintf("cu %d %d %d %d", pick(r, g.cns, i), []int{1, 1, 1, 8, 9, 0}[r.Intn(6)], freshName(), settingsGen(r))
		case 6:
			op = fmt.Sprintf("cd %d", pick(r, g.cns, i))
		case 7:
			pt := r.Pick(5, 5, 1) + 1
			parent := pick(r, g.apiPls(), i)
			if pt == 1 {
				parent = pick(r, g.cns, i)
			}
			pg, wk := pplugGen(r), []int{0, 1, 1, 2, 3, -1}[r.Intn(6)]
			op = fmt.Sprintf("rc %d %d %d %d %d %d", pg, pt, parent, r.Intn(3), wk, r.Intn(3))
			if (pg == 1 || pg == 2) && wk >= 0 && pt != 3 {
				g.prs = append(g.prs, i)
			}
		case 8:
			op = fmt.Sprintf("ru %d %d %d %d", pick(r, g.prs, i), pplugGen(r), r.Intn(3), []int{0, 1, 1, 2, 3, -1}[r.Intn(6)])
		case 9:
			op = fmt.Sprintf("rd %d", pick(r, g.prs, i))
		case 10:
			op = fmt.Sprintf("st %d %d", pick(r, g.pls, i), []int{1, 1, 3, 2, 3, 3, 4, 5}[r.Intn(8)])
			api = false
		case 11:
			op = fmt.Sprintf("ss %d %d", pick(r, g.cns, i), r.Intn(4))
			api = false
		case 15:
			op = fmt.Sprintf("sf %d %d", pick(r, g.pls, i), []int{1, 1, 1, 1, 3, 4}[r.Intn(6)])
			api = false
			afterSf = r.Range(1, 3)
		case 12:
			op = fmt.Sprintf("Pc %d", freshName())
			g.pls = append(g.pls, i)
			g.cfg = append(g.cfg, i)
			api = false
		case 13:
			op = fmt.Sprintf("Cc %d %d %d %d", r.Range(1, 2), pick(r, g.pls, i), freshName(), r.Range(1, 3))
			g.cns = append(g.cns, i)
			api = false
		default:
			pt := r.Range(1, 2)
			parent := pick(r, g.pls, i)
			if pt == 1 {
				parent = pick(r, g.cns, i)
			}
			op = fmt.Sprintf("Rc %d %d %d", pt, parent, r.Intn(3))
			g.prs = append(g.prs, i)
			api = false
		}
		o.Count("op=" + strings.Fields(op)[0])
		if api && ((failMode == 1 && i == failOp) || (failMode == 2 && r.Chance(1, 3))) {
			k := r.Range(1, 5)
			op += fmt.Sprintf(" !%d", k)
			o.Count("fail@" + strconv.Itoa(k))
		}
		ops = append(ops, op)
	}
	o.Count("len=" + strconv.Itoa(n/4*4))
	return strings.Join(ops, ";")
}

func cplugGen(r *gen.Rand) int    { return []int{1, 1, 1, 1, 1, 1, 1, 1, 1, 1, 0, 9, 8}[r.Intn(13)] }
func settingsGen(r *gen.Rand) int { return []int{1, 2, 3, 1, 2, 3, 1, 2, 0}[r.Intn(9)] }
func pplugGen(r *gen.Rand) int    { return []int{1, 2, 1, 2, 1, 2, 1, 2, 1, 2, 0, 9}[r.Intn(12)] }
