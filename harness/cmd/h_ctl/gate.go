package main

import (
	"context"
	"fmt"
	"strconv"
	"strings"
	"time"

	"github.com/conduitio/conduit/pkg/conduit"
	"github.com/conduitio/conduit/pkg/pipeline"
	"github.com/conduitio/conduit/pkg/provisioning/config"
	apiv1 "github.com/conduitio/conduit/proto/api/v1"
	"google.golang.org/grpc"
	"google.golang.org/grpc/credentials/insecure"
	"verif/harness/gen"
)

// Component apigate (C16): the authorisation gate of the live apply on the API surface, end to
// end on the REAL code: Runtime.serveGRPCAPI (through the verif hook: the construction site of
// the pipeline API and of its allow flag) serves the gRPC API of a server configured with
// API.AllowLiveRestartApply = <allow> and Dev.Enabled = <dev>; a gRPC client plans and applies a
// change (PlanPipeline, ApplyPipeline) against the REAL provisioning.Service with the scripted
// lifecycle of component live.
//
//	gate <allow> <dev> <status> <change> <stopOk> <startOk>
//	     status: pipeline status written before the apply (1 running, 3 user-stopped, 4, 5)
//	     change: 0 none, 1 processor settings (live-eligible), 2 connector settings (restart), 3 description
//	gatesearch   all four (allow, dev) configurations probed with a restart-class change on a running
//	     pipeline: "<allow><dev>:<1 iff the apply was authorised>" …, then "srcgate=none"
//
// Output of gate: <class>#<lifecycle / commit events>.
func init() {
	components["apigate"] = component{gen: genGate, run: runGate, nontrivial: ntGate}
}

func ntGate(line, res string) bool {
	return line == "gatesearch" || strings.HasPrefix(res, "unauth") || strings.Contains(res, "stop") || strings.Contains(res, "reconf")
}

const gateBase = "P1:1:0:2:100:1:0/C11:1:1:1:1(R12:1:1:1:0)/R15:1:1:2:0"

var gateDesired = map[string]string{
	"0": gateBase,
	"1": "P1:1:0:2:100:1:0/C11:1:1:1:1(R12:1:1:1:0)/R15:1:2:2:0",
	"2": "P1:1:0:2:100:1:0/C11:1:1:1:2(R12:1:1:1:0)/R15:1:1:2:0",
	"3": "P1:1:1:2:100:1:0/C11:1:1:1:1(R12:1:1:1:0)/R15:1:1:2:0",
}

func genGate(r *gen.Rand, o *gen.Out, i int) string {
	if i == 0 {
		return "gatesearch"
	}
	allow, dev := r.Pick(2, 1), r.Intn(2)
	st := []int{1, 1, 1, 1, 3, 4, 5}[r.Intn(7)]
	ch := r.Pick(1, 3, 4, 2)
	so, sa := 1, 1
	if r.Chance(1, 6) {
		so = 0
	}
	if r.Chance(1, 6) {
		sa = 0
	}
	o.Count(fmt.Sprintf("allow=%d,dev=%d", allow, dev))
	o.Count("change=" + strconv.Itoa(ch))
	return fmt.Sprintf("gate %d %d %d %d %d %d", allow, dev, st, ch, so, sa)
}

func docProcs(ps []config.Processor) []*apiv1.PipelineDocument_Processor {
	out := make([]*apiv1.PipelineDocument_Processor, len(ps))
	for i, p := range ps {
		out[i] = &apiv1.PipelineDocument_Processor{Id: p.ID, Plugin: p.Plugin, Settings: p.Settings, Workers: int32(p.Workers), Condition: p.Condition}
	}
	return out
}

// toDocument renders a (not yet enriched) pipeline config as the API's PipelineDocument.
func toDocument(c config.Pipeline) *apiv1.PipelineDocument {
	d := &apiv1.PipelineDocument{Id: c.ID, Status: c.Status, Name: c.Name, Description: c.Description, Processors: docProcs(c.Processors)}
	for _, cc := range c.Connectors {
		d.Connectors = append(d.Connectors, &apiv1.PipelineDocument_Connector{Id: cc.ID, Type: cc.Type, Plugin: cc.Plugin, Name: cc.Name,
			Settings: cc.Settings, Processors: docProcs(cc.Processors)})
	}
	dl := &apiv1.PipelineDocument_DLQ{Plugin: c.DLQ.Plugin, Settings: c.DLQ.Settings}
	if c.DLQ.WindowSize != nil {
		dl.WindowSize = uint64(*c.DLQ.WindowSize)
	}
	if c.DLQ.WindowNackThreshold != nil {
		dl.WindowNackThreshold = uint64(*c.DLQ.WindowNackThreshold)
	}
	d.Dlq = dl
	return d
}

func gateErrClass(err error) string {
	switch {
	case err == nil:
		return "ok"
	case strings.Contains(err.Error(), errFakeLifecycle.Error()):
		return "life"
	case strings.Contains(err.Error(), "is stale"):
		return "stale"
	case strings.Contains(err.Error(), "requires operator authorization"):
		return "unauth"
	}
	return "err:" + err.Error()
}

// gateApply runs one scenario and returns the class of the apply and the event log.
func gateApply(allow, dev bool, status int, change string, stopOk, startOk bool) (string, string) {
	fl := &fakeLifecycle{stopOk: stopOk, startOk: startOk}
	w := newWorld(fl)
	fl.w = w
	w.db.onCommit = func() { fl.log = append(fl.log, "commit") }
	ctx, cancel := context.WithTimeout(context.Background(), 30*time.Second)
	defer cancel()

	var cfg conduit.Config
	cfg.API.Enabled = true
	cfg.API.GRPC.Address = "127.0.0.1:0"
	cfg.API.AllowLiveRestartApply = allow
	cfg.Dev.Enabled = dev
	addr, stop, err := conduit.VerifServeGRPCAPI(context.Background(), cfg, w.orch, w.prov, logger)
	if err != nil {
		return "serve-failed:" + err.Error(), "-"
	}
	defer stop()
	cc, err := grpc.NewClient(addr.String(), grpc.WithTransportCredentials(insecure.NewCredentials()))
	if err != nil {
		return "dial-failed:" + err.Error(), "-"
	}
	defer cc.Close()
	cl := apiv1.NewPipelineServiceClient(cc)

	apply := func(cfgStr string) error {
		pc, ok := parsePipeCfg(cfgStr)
		if !ok {
			return fmt.Errorf("bad config %q", cfgStr)
		}
		doc := toDocument(pc.toConfig())
		pr, err := cl.PlanPipeline(ctx, &apiv1.PlanPipelineRequest{Config: doc})
		if err != nil {
			return fmt.Errorf("plan: %w", err)
		}
		_, err = cl.ApplyPipeline(ctx, &apiv1.ApplyPipelineRequest{Config: doc, Hash: pr.GetDiff().GetHash()})
		return err
	}
	if err := apply(gateBase); err != nil {
		return "setup-failed:" + err.Error(), "-"
	}
	if err := w.pl.UpdateStatus(ctx, xid(1), pipeline.Status(status), ""); err != nil {
		return "setup-failed:" + err.Error(), "-"
	}
	fl.log = nil
	cls := gateErrClass(apply(gateDesired[change]))
	lg := "-"
	if len(fl.log) > 0 {
		evs := make([]string, len(fl.log))
		for i, e := range fl.log {
			if strings.HasPrefix(e, "reconf?") {
				// the API path enriches ids (<pipeline>:<connector>:<processor>): keep the last segment
				id := e[strings.LastIndex(e, ":")+1:]
				e = "reconf" + strings.TrimPrefix(id, "x")
			}
			evs[i] = e
		}
		lg = strings.Join(evs, ",")
	}
	return cls, lg
}

func runGate(line string) string {
	f := strings.Fields(line)
	if len(f) == 1 && f[0] == "gatesearch" {
		var parts []string
		for _, allow := range []bool{false, true} {
			for _, dev := range []bool{false, true} {
				cls, _ := gateApply(allow, dev, 1, "2", true, true)
				v := "?" + cls
				switch cls {
				case "unauth":
					v = "0"
				case "ok":
					v = "1"
				}
				b := func(x bool) string {
					if x {
						return "1"
					}
					return "0"
				}
				parts = append(parts, b(allow)+b(dev)+":"+v)
			}
		}
		return strings.Join(parts, " ") + " srcgate=none"
	}
	if len(f) != 7 || f[0] != "gate" {
		return "bad-op"
	}
	for _, j := range []int{1, 2, 5, 6} {
		if f[j] != "0" && f[j] != "1" {
			return "bad-op"
		}
	}
	st, err := strconv.Atoi(f[3])
	if err != nil {
		return "bad-op"
	}
	if _, ok := gateDesired[f[4]]; !ok {
		return "bad-op"
	}
	cls, lg := gateApply(f[1] == "1", f[2] == "1", st, f[4], f[5] == "1", f[6] == "1")
	return cls + "#" + lg
}
