package main

import (
	"context"
	"errors"
	"fmt"
	"strconv"
	"strings"

	"github.com/conduitio/conduit/pkg/connector"
	"github.com/conduitio/conduit/pkg/pipeline"
	"github.com/conduitio/conduit/pkg/provisioning"
	"github.com/conduitio/conduit/pkg/provisioning/config"
	"verif/harness/gen"
)

// Component import (C15): chains of `Plan` + `ApplyPlan` of pipeline configurations drawn from
// a grammar (connectors with nested processors, lists 0–5, field mutations, reorder / insert /
// delete, conditions, workers, type changes, invalid plugins), with an optional failing
// store-operation index, interleaved with position writes and status writes, against the REAL
// provisioning.Service + services on the fault-injecting DB.
//
//	imp <cfg> [!k] | ss <id> <pos> | st <id> <status>
//	<cfg> = P<id>:<name>:<desc>:<dlqplugin>:<dlqsettings>:<ws>:<thr>{/C<id>:<typ>:<plugin>:<name>:<settings>(R…,R…)}{/R<id>:<plugin>:<settings>:<workers>:<cond>}
//
// Output per imp step: <class>#<changes planned before>#<Export after>#<changes planned after>#<observe>.
func init() {
	components["import"] = component{gen: genImport, run: runImport, nontrivial: ntImport}
}

func ntImport(line, res string) bool {
	// non-trivial: a chain of ≥ 2 imports of which one changed a nested list, or an import failed
	return strings.Count(line, "imp ") >= 2 || strings.Contains(res, "st#") || strings.Contains(res, "inv#")
}

type procCfg struct{ id, plugin, settings, workers, cond int }
type connCfg struct {
	id, typ, plugin, name, settings int
	procs                           []procCfg
}
type pipeCfg struct {
	id, name, desc, dplug, dset, ws, thr int
	conns                                []connCfg
	procs                                []procCfg
}

func ints(s string, n int) ([]int, bool) {
	f := strings.Split(s, ":")
	if len(f) != n {
		return nil, false
	}
	out := make([]int, n)
	for i, x := range f {
		v, err := strconv.Atoi(x)
		if err != nil {
			return nil, false
		}
		out[i] = v
	}
	return out, true
}

func parseProcCfg(s string) (procCfg, bool) {
	if !strings.HasPrefix(s, "R") {
		return procCfg{}, false
	}
	v, ok := ints(s[1:], 5)
	if !ok {
		return procCfg{}, false
	}
	return procCfg{v[0], v[1], v[2], v[3], v[4]}, true
}

func parsePipeCfg(s string) (pipeCfg, bool) {
	parts := strings.Split(s, "/")
	if !strings.HasPrefix(parts[0], "P") {
		return pipeCfg{}, false
	}
	v, ok := ints(parts[0][1:], 7)
	if !ok {
		return pipeCfg{}, false
	}
	c := pipeCfg{id: v[0], name: v[1], desc: v[2], dplug: v[3], dset: v[4], ws: v[5], thr: v[6]}
	for _, e := range parts[1:] {
		switch {
		case strings.HasPrefix(e, "C"):
			i := strings.IndexByte(e, '(')
			if i < 0 || !strings.HasSuffix(e, ")") {
				return pipeCfg{}, false
			}
			h, ok := ints(e[1:i], 5)
			if !ok {
				return pipeCfg{}, false
			}
			cc := connCfg{id: h[0], typ: h[1], plugin: h[2], name: h[3], settings: h[4]}
			inner := e[i+1 : len(e)-1]
			if inner != "" {
				for _, ps := range strings.Split(inner, ",") {
					p, ok := parseProcCfg(ps)
					if !ok {
						return pipeCfg{}, false
					}
					cc.procs = append(cc.procs, p)
				}
			}
			c.conns = append(c.conns, cc)
		case strings.HasPrefix(e, "R"):
			p, ok := parseProcCfg(e)
			if !ok {
				return pipeCfg{}, false
			}
			c.procs = append(c.procs, p)
		default:
			return pipeCfg{}, false
		}
	}
	return c, true
}

func xid(n int) string { return "x" + strconv.Itoa(n) }

func typeStr(t int) string {
	switch t {
	case 1:
		return config.TypeSource
	case 2:
		return config.TypeDestination
	}
	return "bogus" + strconv.Itoa(t)
}
func typeCode(s string) string {
	switch s {
	case config.TypeSource:
		return "1"
	case config.TypeDestination:
		return "2"
	}
	return strings.TrimPrefix(s, "bogus")
}

func toProcs(ps []procCfg) []config.Processor {
	if len(ps) == 0 {
		return nil
	}
	out := make([]config.Processor, len(ps))
	for i, p := range ps {
		out[i] = config.Processor{ID: xid(p.id), Plugin: ppluginOf(p.plugin, true), Settings: psettingsOf(p.settings),
			Workers: p.workers, Condition: condOf(p.cond)}
	}
	return out
}

func (c pipeCfg) toConfig() config.Pipeline {
	ws, thr := c.ws, c.thr
	out := config.Pipeline{ID: xid(c.id), Status: config.StatusStopped, Name: nameOf(c.name), Description: descOf(c.desc),
		DLQ: config.DLQ{Plugin: cpluginOf(c.dplug), Settings: csettingsOf(c.dset), WindowSize: &ws, WindowNackThreshold: &thr},
		Processors: toProcs(c.procs)}
	if c.dplug == 2 {
		out.DLQ.Plugin = "builtin:log"
	}
	if c.dset == 100 {
		out.DLQ.Settings = map[string]string{"level": "warn", "message": "record delivery failed"}
	}
	for _, cc := range c.conns {
		out.Connectors = append(out.Connectors, config.Connector{ID: xid(cc.id), Type: typeStr(cc.typ), Plugin: cpluginOf(cc.plugin),
			Name: nameOf(cc.name), Settings: csettingsOf(cc.settings), Processors: toProcs(cc.procs)})
	}
	return out
}

func showProcs(w *world, ps []config.Processor) []string {
	out := make([]string, len(ps))
	for i, p := range ps {
		out[i] = fmt.Sprintf("R%s:%s:%s:%d:%s", w.abs(p.ID, -1), ppluginCode(p.Plugin), psettingsCode(p.Settings), p.Workers, condCode(p.Condition))
	}
	return out
}

func showConfig(w *world, c config.Pipeline) string {
	ws, thr := "nil", "nil"
	if c.DLQ.WindowSize != nil {
		ws = strconv.Itoa(*c.DLQ.WindowSize)
	}
	if c.DLQ.WindowNackThreshold != nil {
		thr = strconv.Itoa(*c.DLQ.WindowNackThreshold)
	}
	parts := []string{fmt.Sprintf("P%s:%s:%s:%s:%s:%s:%s", w.abs(c.ID, -1), nameCode(c.Name), descCode(c.Description),
		cpluginCode(c.DLQ.Plugin), csettingsCode(c.DLQ.Settings), ws, thr)}
	for _, cc := range c.Connectors {
		parts = append(parts, fmt.Sprintf("C%s:%s:%s:%s:%s(%s)", w.abs(cc.ID, -1), typeCode(cc.Type), cpluginCode(cc.Plugin),
			nameCode(cc.Name), csettingsCode(cc.Settings), strings.Join(showProcs(w, cc.Processors), ",")))
	}
	parts = append(parts, showProcs(w, c.Processors)...)
	return strings.Join(parts, "/")
}

func planStr(w *world, ctx context.Context, c config.Pipeline) (string, provisioning.Diff) {
	d, err := w.prov.Plan(ctx, c)
	if err != nil {
		return "-", d
	}
	return strconv.Itoa(len(d.Changes)), d
}

func exportStr(w *world, ctx context.Context, id string) string {
	c, err := w.prov.Export(ctx, id)
	switch {
	case err == nil:
		return showConfig(w, c)
	case errors.Is(err, pipeline.ErrInstanceNotFound):
		return "none"
	}
	return "err"
}

func provErrClass(err error) string {
	if err != nil && strings.Contains(err.Error(), "apply refuses to mutate a live pipeline") {
		return "run"
	}
	return errClass(err)
}

func runImport(line string) string {
	w := newWorld(nil)
	ctx := context.Background()
	var outs []string
	const universe = 999
	for _, ops := range strings.Split(line, ";") {
		f := strings.Fields(ops)
		if len(f) == 0 {
			return "bad-op"
		}
		switch f[0] {
		case "imp":
			if len(f) != 2 && len(f) != 3 {
				return "bad-op"
			}
			k := 0
			if len(f) == 3 {
				if !strings.HasPrefix(f[2], "!") {
					return "bad-op"
				}
				n, err := strconv.Atoi(f[2][1:])
				if err != nil {
					return "bad-op"
				}
				k = n
			}
			pc, ok := parsePipeCfg(f[1])
			if !ok {
				return "bad-op"
			}
			cfg := pc.toConfig()
			before, diff := planStr(w, ctx, cfg)
			cls := func() (cls string) {
				defer func() {
					w.db.failAt = 0
					if p := recover(); p != nil {
						cls = "panic"
					}
				}()
				if before == "-" {
					// ApplyPlan would fail in Plan the same way
					_, err := w.prov.ApplyPlan(ctx, cfg, "")
					return provErrClass(err)
				}
				w.db.arm(k)
				_, err := w.prov.ApplyPlan(ctx, cfg, diff.Hash)
				return provErrClass(err)
			}()
			after, _ := planStr(w, ctx, cfg)
			outs = append(outs, cls+"#"+before+"#"+exportStr(w, ctx, cfg.ID)+"#"+after+"#"+w.observe(universe))
		case "ss":
			if len(f) != 3 {
				return "bad-op"
			}
			a, e1 := strconv.Atoi(f[1])
			b, e2 := strconv.Atoi(f[2])
			if e1 != nil || e2 != nil {
				return "bad-op"
			}
			var c *connector.Instance
			c, err := w.cn.Get(ctx, xid(a))
			if err == nil {
				_, err = w.cn.SetState(ctx, c.ID, stateOf(c.Type, b))
			}
			outs = append(outs, errClass(err)+"#"+w.observe(universe))
		case "st":
			if len(f) != 3 {
				return "bad-op"
			}
			a, e1 := strconv.Atoi(f[1])
			b, e2 := strconv.Atoi(f[2])
			if e1 != nil || e2 != nil {
				return "bad-op"
			}
			err := w.pl.UpdateStatus(ctx, xid(a), pipeline.Status(b), "")
			outs = append(outs, errClass(err)+"#"+w.observe(universe))
		default:
			return "bad-op"
		}
	}
	return strings.Join(outs, " | ") + " mon=ok"
}

// ---------------------------------------------------------------- generator

func (p procCfg) String() string {
	return fmt.Sprintf("R%d:%d:%d:%d:%d", p.id, p.plugin, p.settings, p.workers, p.cond)
}

func (c pipeCfg) String() string {
	parts := []string{fmt.Sprintf("P%d:%d:%d:%d:%d:%d:%d", c.id, c.name, c.desc, c.dplug, c.dset, c.ws, c.thr)}
	for _, cc := range c.conns {
		ps := make([]string, len(cc.procs))
		for i, p := range cc.procs {
			ps[i] = p.String()
		}
		parts = append(parts, fmt.Sprintf("C%d:%d:%d:%d:%d(%s)", cc.id, cc.typ, cc.plugin, cc.name, cc.settings, strings.Join(ps, ",")))
	}
	for _, p := range c.procs {
		parts = append(parts, p.String())
	}
	return strings.Join(parts, "/")
}

type impGen struct {
	r      *gen.Rand
	nextID int
}

func (g *impGen) fresh() int { g.nextID++; return g.nextID }

func (g *impGen) newProc() procCfg {
	r := g.r
	return procCfg{id: g.fresh(), plugin: r.Range(1, 2), settings: r.Intn(3), workers: []int{1, 1, 1, 2, 3}[r.Intn(5)], cond: []int{0, 0, 1, 2}[r.Intn(4)]}
}

func (g *impGen) newProcs(max int) []procCfg {
	n := g.r.Pick(3, 3, 2, 3, 2, 1)
	if n > max {
		n = max
	}
	var out []procCfg
	for i := 0; i < n; i++ {
		out = append(out, g.newProc())
	}
	return out
}

func (g *impGen) newConn() connCfg {
	r := g.r
	return connCfg{id: g.fresh(), typ: r.Range(1, 2), plugin: 1, name: r.Range(1, 9), settings: r.Range(1, 3), procs: g.newProcs(5)}
}

func (g *impGen) newPipe(id int) pipeCfg {
	r := g.r
	c := pipeCfg{id: id, name: id, desc: r.Intn(3), dplug: 2, dset: 100, ws: 1, thr: 0}
	if r.Chance(1, 3) {
		c.dplug, c.dset, c.ws, c.thr = 1, r.Range(1, 3), r.Range(2, 4), r.Range(0, 1)
	}
	n := r.Pick(1, 3, 3, 2, 1, 1)
	for i := 0; i < n; i++ {
		c.conns = append(c.conns, g.newConn())
	}
	c.procs = g.newProcs(5)
	return c
}

func mutateProcs(g *impGen, o *gen.Out, ps []procCfg) []procCfg {
	r := g.r
	out := append([]procCfg(nil), ps...)
	switch r.Pick(3, 3, 3, 2, 4) {
	case 0: // insert
		if len(out) < 5 {
			i := r.Intn(len(out) + 1)
			out = append(out[:i], append([]procCfg{g.newProc()}, out[i:]...)...)
			o.Count("mut=proc-insert")
		}
	case 1: // delete
		if len(out) > 0 {
			i := r.Intn(len(out))
			out = append(out[:i], out[i+1:]...)
			o.Count("mut=proc-delete")
		}
	case 2: // reorder
		if len(out) > 1 {
			i, j := r.Intn(len(out)), r.Intn(len(out))
			out[i], out[j] = out[j], out[i]
			o.Count("mut=proc-reorder")
		}
	case 3: // replace all
		out = g.newProcs(5)
		o.Count("mut=proc-replace")
	default: // field change
		if len(out) > 0 {
			i := r.Intn(len(out))
			switch r.Intn(4) {
			case 0:
				out[i].plugin = 3 - out[i].plugin
				o.Count("mut=proc-plugin")
			case 1:
				out[i].settings = (out[i].settings + 1) % 3
				o.Count("mut=proc-settings")
			case 2:
				out[i].workers = out[i].workers%3 + 1
				o.Count("mut=proc-workers")
			default:
				out[i].cond = (out[i].cond + 1) % 3
				o.Count("mut=proc-cond")
			}
		}
	}
	return out
}

func mutatePipe(g *impGen, o *gen.Out, c pipeCfg) pipeCfg {
	r := g.r
	n := c
	n.conns = append([]connCfg(nil), c.conns...)
	for i := range n.conns {
		n.conns[i].procs = append([]procCfg(nil), c.conns[i].procs...)
	}
	n.procs = append([]procCfg(nil), c.procs...)
	muts := r.Pick(5, 3, 1) + 1
	for m := 0; m < muts; m++ {
		switch r.Pick(2, 2, 4, 3, 2, 2, 2, 1, 5) {
		case 0:
			if r.Chance(2, 5) {
				// rename the pipeline, or rename it back (two names per pipeline: <id> and <id>+1000): a chain x -> y -> x only
				// converges if the name index releases the old name at every rename (seeded change C15_7)
				if n.name == n.id {
					n.name = n.id + 1000
				} else {
					n.name = n.id
				}
				o.Count("mut=pl-name")
			} else {
				n.desc = (n.desc + 1) % 3
				o.Count("mut=pl-desc")
			}
		case 1:
			n.dplug, n.dset, n.ws, n.thr = 1, r.Range(1, 3), r.Range(2, 4), r.Range(0, 1)
			o.Count("mut=pl-dlq")
		case 2:
			n.procs = mutateProcs(g, o, n.procs)
		case 3:
			if len(n.conns) > 0 {
				i := r.Intn(len(n.conns))
				n.conns[i].procs = mutateProcs(g, o, n.conns[i].procs)
			}
		case 4:
			if len(n.conns) < 5 {
				i := r.Intn(len(n.conns) + 1)
				n.conns = append(n.conns[:i], append([]connCfg{g.newConn()}, n.conns[i:]...)...)
				o.Count("mut=conn-insert")
			}
		case 5:
			if len(n.conns) > 0 {
				i := r.Intn(len(n.conns))
				n.conns = append(n.conns[:i], n.conns[i+1:]...)
				o.Count("mut=conn-delete")
			}
		case 6:
			if len(n.conns) > 1 {
				i, j := r.Intn(len(n.conns)), r.Intn(len(n.conns))
				n.conns[i], n.conns[j] = n.conns[j], n.conns[i]
				o.Count("mut=conn-reorder")
			}
		case 7:
			if len(n.conns) > 0 {
				i := r.Intn(len(n.conns))
				n.conns[i].typ = 3 - n.conns[i].typ
				o.Count("mut=conn-type")
			}
		default:
			if len(n.conns) > 0 {
				i := r.Intn(len(n.conns))
				switch r.Pick(2, 2, 3, 2) {
				case 0:
					n.conns[i].name = n.conns[i].name%9 + 1
					o.Count("mut=conn-name")
				case 1:
					n.conns[i].settings = n.conns[i].settings%3 + 1
					o.Count("mut=conn-settings")
				case 2:
					// plugin is a mutable connector field: same id and type, the position must survive
					n.conns[i].plugin = n.conns[i].plugin%3 + 1
					o.Count("mut=conn-plugin")
				default:
					// move a processor between connector and pipeline
					if len(n.conns[i].procs) > 0 && len(n.procs) < 5 {
						p := n.conns[i].procs[0]
						n.conns[i].procs = n.conns[i].procs[1:]
						n.procs = append(n.procs, p)
						o.Count("mut=proc-move")
					}
				}
			}
		}
	}
	return n
}

// invalidate makes the config fail in the middle of the import (unknown processor plugin on a
// processor that has to be created) or be invalid in another way.
func invalidate(g *impGen, o *gen.Out, c pipeCfg) pipeCfg {
	r := g.r
	switch r.Intn(4) {
	case 0:
		p := g.newProc()
		p.plugin = 9
		c.procs = append(append([]procCfg(nil), c.procs...), p)
		o.Count("invalid=proc-plugin")
	case 1:
		if len(c.conns) > 0 {
			cs := append([]connCfg(nil), c.conns...)
			p := g.newProc()
			p.plugin = 9
			cs[len(cs)-1].procs = append(append([]procCfg(nil), cs[len(cs)-1].procs...), p)
			c.conns = cs
			o.Count("invalid=conn-proc-plugin")
		}
	case 2:
		nc := g.newConn()
		nc.typ = 3
		c.conns = append(append([]connCfg(nil), c.conns...), nc)
		o.Count("invalid=conn-type")
	default:
		p := g.newProc()
		p.workers = -1
		c.procs = append(append([]procCfg(nil), c.procs...), p)
		o.Count("invalid=workers")
	}
	return c
}

func genImport(r *gen.Rand, o *gen.Out, _ int) string {
	g := &impGen{r: r, nextID: 10}
	npl := r.Pick(5, 1) + 1
	cur := map[int]pipeCfg{}
	have := map[int]bool{}
	var ops []string
	steps := r.Range(1, 6)
	failMode := r.Pick(4, 3, 1)
	failStep := r.Intn(steps)
	for i := 0; i < steps; i++ {
		pid := r.Intn(npl) + 1
		var c pipeCfg
		if !have[pid] {
			c = g.newPipe(pid)
		} else if r.Chance(1, 10) {
			c = cur[pid] // re-import unchanged
			o.Count("mut=none")
		} else {
			c = mutatePipe(g, o, cur[pid])
		}
		bad := r.Chance(1, 7)
		send := c
		if bad {
			send = invalidate(g, o, c)
		}
		op := "imp " + send.String()
		failing := (failMode == 1 && i == failStep) || (failMode == 2 && r.Chance(1, 2))
		if failing {
			k := r.Pick(1, 3, 3, 3, 2, 2, 1, 1, 1, 1, 1, 1) + 1
			if r.Chance(1, 4) {
				k = r.Range(1, 40)
			}
			op += fmt.Sprintf(" !%d", k)
			o.Count("fail")
		}
		ops = append(ops, op)
		if !bad && !failing {
			cur[pid], have[pid] = c, true
		}
		// positions and status writes in between
		// positions of sources and destinations written between imports (what the persister does)
		if have[pid] && len(cur[pid].conns) > 0 && r.Chance(3, 4) {
			cs := cur[pid].conns
			for j := r.Range(1, 2); j > 0; j-- {
				ops = append(ops, fmt.Sprintf("ss %d %d", cs[r.Intn(len(cs))].id, r.Range(1, 9)))
				o.Count("op=ss")
			}
		}
		if have[pid] && r.Chance(1, 12) {
			ops = append(ops, fmt.Sprintf("st %d %d", pid, []int{1, 3, 3, 2, 4}[r.Intn(5)]))
			o.Count("op=st")
		}
	}
	o.Count("steps=" + strconv.Itoa(steps))
	return strings.Join(ops, ";")
}
