package main

import (
	"context"
	"errors"
	"fmt"
	"strconv"
	"strings"

	"github.com/conduitio/conduit/pkg/connector"
	"github.com/conduitio/conduit/pkg/lifecycle"
	"github.com/conduitio/conduit/pkg/pipeline"
	"github.com/conduitio/conduit/pkg/processor"
	"github.com/conduitio/conduit/pkg/provisioning"
	"verif/harness/gen"
)

// Component live (C16): the REAL provisioning.Service.ApplyPlanLive with a scripted lifecycle
// service (StopAndWait / Start / ReconfigureProcessor outcomes are inputs; a successful stop
// leaves the pipeline user-stopped, a successful start running) on the fault-injecting DB.
//
//	live <cfg> <allow> <hash> <stopOk> <startOk> <reconf|-> [flip] [!k]   plus imp / ss / st as in `import`
//	plan <cfg>                      Plan(cfg): output = the changes (resource:id:action:effect:paths:live), the REAL hash is kept
//	xcu <id> <plugin> <name> <settings> | xru <id> <plugin> <settings> <workers> | xpu <id> <name> <desc>
//	                                out-of-band change through the connector / processor / pipeline service
//
// <hash>: 0 = hash of a plan computed just now, 1 = bogus, 2 = the hash kept by the last `plan`
// step — the real Diff.computeHash decides staleness, the model compares the plan views.
//
// `flip`: an external Start sets the pipeline Running between ApplyPlanLive's first status read
// and its re-read (the TOCTOU window the re-read closes; the authorisation gate must see it).
//
// Output per live step: <class>#<event log: stop,start,reconf<id>,commit>#<Export after>#<observe>.
func init() {
	components["live"] = component{gen: genLive, run: runLive, nontrivial: ntLive}
}

func ntLive(line, res string) bool {
	return strings.Contains(line, " flip") || strings.Contains(line, "plan ") || strings.Contains(res, "#stop") || strings.Contains(res, "reconf") || strings.Contains(res, "stale#") || strings.Contains(res, "unauth#")
}

var errFakeLifecycle = errors.New("verif: scripted lifecycle failure")

type fakeLifecycle struct {
	w       *world
	stopOk  bool
	startOk bool
	reconf  []int
	log     []string
}

// statusWrite is the lifecycle service persisting a status: not one of the apply's numbered store operations.
func (f *fakeLifecycle) statusWrite(id string, st pipeline.Status) {
	n, k := f.w.db.n, f.w.db.failAt
	f.w.db.failAt = 0
	_ = f.w.pl.UpdateStatus(context.Background(), id, st, "")
	f.w.db.n, f.w.db.failAt = n, k
}

func (f *fakeLifecycle) Start(_ context.Context, id string) error {
	f.log = append(f.log, "start")
	if !f.startOk {
		return errFakeLifecycle
	}
	f.statusWrite(id, pipeline.StatusRunning)
	return nil
}
func (f *fakeLifecycle) Stop(context.Context, string, bool) error { return nil }
func (f *fakeLifecycle) StopAndWait(_ context.Context, id string) error {
	f.log = append(f.log, "stop")
	if !f.stopOk {
		return errFakeLifecycle
	}
	f.statusWrite(id, pipeline.StatusUserStopped)
	return nil
}
func (f *fakeLifecycle) ReconfigureProcessor(_ context.Context, _, processorID string) error {
	f.log = append(f.log, "reconf"+f.w.abs(processorID, -1))
	if len(f.reconf) == 0 {
		return nil
	}
	c := f.reconf[0]
	f.reconf = f.reconf[1:]
	switch c {
	case 0:
		return nil
	case 1:
		return lifecycle.ErrProcessorNotLiveReconfigurable
	}
	return errFakeLifecycle
}

// showChanges renders a Diff's changes: resource:id:action:effect:paths:liveSwappable.
func showChanges(w *world, d provisioning.Diff) string {
	if len(d.Changes) == 0 {
		return "empty"
	}
	out := make([]string, len(d.Changes))
	for i, c := range d.Changes {
		l := 0
		if c.LiveSwappable {
			l = 1
		}
		out[i] = fmt.Sprintf("%s:%s:%s:%s:%s:%d", c.Resource, w.abs(c.ID, -1), c.Action, c.Effect, strings.Join(c.ConfigPaths, "+"), l)
	}
	return strings.Join(out, ",")
}

func liveErrClass(err error) string {
	switch {
	case err == nil:
		return "ok"
	case errors.Is(err, errFakeLifecycle):
		return "life"
	case strings.Contains(err.Error(), "is stale"):
		return "stale"
	case strings.Contains(err.Error(), "requires operator authorization"):
		return "unauth"
	}
	return provErrClass(err)
}

func runLive(line string) string {
	fl := &fakeLifecycle{}
	w := newWorld(fl)
	fl.w = w
	// commits are logged through the DB wrapper
	w.db.onCommit = func() { fl.log = append(fl.log, "commit") }
	ctx := context.Background()
	var outs []string
	keptHash := "bogus"
	const universe = 999
	for _, ops := range strings.Split(line, ";") {
		f := strings.Fields(ops)
		if len(f) == 0 {
			return "bad-op"
		}
		switch f[0] {
		case "live":
			flip := false
			if len(f) >= 8 && f[7] == "flip" {
				flip = true
				f = append(f[:7:7], f[8:]...)
			}
			if len(f) != 7 && len(f) != 8 {
				return "bad-op"
			}
			k := 0
			if len(f) == 8 {
				if !strings.HasPrefix(f[7], "!") {
					return "bad-op"
				}
				n, err := strconv.Atoi(f[7][1:])
				if err != nil {
					return "bad-op"
				}
				k = n
			}
			pc, ok := parsePipeCfg(f[1])
			if !ok {
				return "bad-op"
			}
			for j, b := range f[2:6] {
				if b != "0" && b != "1" && !(j == 1 && b == "2") {
					return "bad-op"
				}
			}
			fl.stopOk, fl.startOk, fl.reconf, fl.log = f[4] == "1", f[5] == "1", nil, nil
			if f[6] != "-" {
				for _, x := range strings.Split(f[6], ",") {
					n, err := strconv.Atoi(x)
					if err != nil {
						return "bad-op"
					}
					fl.reconf = append(fl.reconf, n)
				}
			}
			cfg := pc.toConfig()
			d, perr := w.prov.Plan(ctx, cfg)
			hash := d.Hash
			switch f[3] {
			case "1":
				hash = "bogus"
			case "2": // the REAL hash of the plan computed by the last `plan` step
				hash = keptHash
			}
			cls := func() (cls string) {
				defer func() {
					w.db.failAt = 0
					if p := recover(); p != nil {
						cls = "panic"
					}
				}()
				if perr == nil {
					w.db.arm(k)
				}
				w.plw.arm(flip)
				defer w.plw.disarm()
				_, err := w.prov.ApplyPlanLive(ctx, cfg, hash, f[2] == "1")
				return liveErrClass(err)
			}()
			lg := "-"
			if len(fl.log) > 0 {
				lg = strings.Join(fl.log, ",")
			}
			outs = append(outs, cls+"#"+lg+"#"+exportStr(w, ctx, cfg.ID)+"#"+w.observe(universe))
		case "imp":
			if len(f) != 2 && len(f) != 3 {
				return "bad-op"
			}
			k := 0
			if len(f) == 3 {
				if !strings.HasPrefix(f[2], "!") {
					return "bad-op"
				}
				n, err := strconv.Atoi(f[2][1:])
				if err != nil {
					return "bad-op"
				}
				k = n
			}
			pc, ok := parsePipeCfg(f[1])
			if !ok {
				return "bad-op"
			}
			cfg := pc.toConfig()
			before, diff := planStr(w, ctx, cfg)
			cls := func() (cls string) {
				defer func() {
					w.db.failAt = 0
					if p := recover(); p != nil {
						cls = "panic"
					}
				}()
				if before == "-" {
					_, err := w.prov.ApplyPlan(ctx, cfg, "")
					return provErrClass(err)
				}
				w.db.arm(k)
				_, err := w.prov.ApplyPlan(ctx, cfg, diff.Hash)
				return provErrClass(err)
			}()
			after, _ := planStr(w, ctx, cfg)
			outs = append(outs, cls+"#"+before+"#"+exportStr(w, ctx, cfg.ID)+"#"+after+"#"+w.observe(universe))
		case "plan":
			if len(f) != 2 {
				return "bad-op"
			}
			pc, ok := parsePipeCfg(f[1])
			if !ok {
				return "bad-op"
			}
			d, err := w.prov.Plan(ctx, pc.toConfig())
			if err != nil {
				keptHash = "bogus"
				outs = append(outs, "-")
				break
			}
			keptHash = d.Hash
			outs = append(outs, showChanges(w, d))
		case "xcu", "xru", "xpu":
			var a []int
			for _, x := range f[1:] {
				n, err := strconv.Atoi(x)
				if err != nil {
					return "bad-op"
				}
				a = append(a, n)
			}
			var err error
			switch {
			case f[0] == "xcu" && len(a) == 4:
				_, err = w.cn.Update(ctx, xid(a[0]), cpluginOf(a[1]), connector.Config{Name: nameOf(a[2]), Settings: csettingsOf(a[3])})
			case f[0] == "xru" && len(a) == 4:
				_, err = w.pr.UpdateWhileRunning(ctx, xid(a[0]), ppluginOf(a[1], false), processor.Config{Settings: psettingsOf(a[2]), Workers: a[3]})
			case f[0] == "xpu" && len(a) == 3:
				_, err = w.pl.Update(ctx, xid(a[0]), pipeline.Config{Name: nameOf(a[1]), Description: descOf(a[2])})
			default:
				return "bad-op"
			}
			outs = append(outs, errClass(err)+"#"+w.observe(universe))
		case "ss", "st":
			if len(f) != 3 {
				return "bad-op"
			}
			a, e1 := strconv.Atoi(f[1])
			b, e2 := strconv.Atoi(f[2])
			if e1 != nil || e2 != nil {
				return "bad-op"
			}
			var err error
			if f[0] == "ss" {
				var c *connector.Instance
				c, err = w.cn.Get(ctx, xid(a))
				if err == nil {
					_, err = w.cn.SetState(ctx, c.ID, stateOf(c.Type, b))
				}
			} else {
				err = w.pl.UpdateStatus(ctx, xid(a), pipeline.Status(b), "")
			}
			outs = append(outs, errClass(err)+"#"+w.observe(universe))
		default:
			return "bad-op"
		}
	}
	return strings.Join(outs, " | ") + " mon=ok"
}

// genStaleHash: Plan(desired) at T1 keeps the real hash; the live state is then changed through
// another route (or not); ApplyPlanLive(desired, kept hash) must be refused as stale iff the plan
// computed now differs from the reviewed one — in the set of changes OR only in their config paths.
func genStaleHash(r *gen.Rand, o *gen.Out) string {
	g := &impGen{r: r, nextID: 10}
	c := g.newPipe(1)
	for len(c.conns) == 0 || len(c.procs) == 0 {
		c = g.newPipe(1)
	}
	ops := []string{"imp " + c.String()}
	if r.Chance(1, 2) {
		ops = append(ops, "st 1 1")
	}
	// the reviewed change: one field of one connector (or a processor field / the description)
	n := c
	n.conns = append([]connCfg(nil), c.conns...)
	n.procs = append([]procCfg(nil), c.procs...)
	ci := r.Intn(len(c.conns))
	cc := c.conns[ci]
	planned := r.Pick(4, 3, 2, 2)
	switch planned {
	case 0:
		n.conns[ci].name = cc.name%9 + 1
	case 1:
		n.conns[ci].settings = cc.settings%3 + 1
	case 2:
		n.conns[ci].plugin = 2
	default:
		n.procs[0].settings = (c.procs[0].settings + 1) % 3
	}
	ops = append(ops, "plan "+n.String())
	// the out-of-band change
	switch r.Pick(2, 4, 3, 2, 2, 2) {
	case 0:
		o.Count("oob=none")
	case 1: // another field of the same connector: same set of changes, different config paths
		nm, st, pg := cc.name, cc.settings, cc.plugin
		switch planned {
		case 0:
			st = cc.settings%3 + 1
		case 1:
			nm = cc.name%9 + 1
		default:
			if r.Chance(1, 2) {
				nm = cc.name%9 + 1
			} else {
				st = cc.settings%3 + 1
			}
		}
		ops = append(ops, fmt.Sprintf("xcu %d %d %d %d", cc.id, pg, nm, st))
		o.Count("oob=same-connector-other-field")
	case 2: // the same field, another old value: the plan computed now has the same content
		nm, st, pg := cc.name, cc.settings, cc.plugin
		switch planned {
		case 0:
			nm = (cc.name+1)%9 + 1
		case 1:
			st = (cc.settings+1)%3 + 1
		case 2:
			pg = 3
		default:
			nm = cc.name // nothing
		}
		ops = append(ops, fmt.Sprintf("xcu %d %d %d %d", cc.id, pg, nm, st))
		o.Count("oob=same-field-other-old-value")
	case 3: // the live state already equals the desired one: the change disappears
		d := n.conns[ci]
		ops = append(ops, fmt.Sprintf("xcu %d %d %d %d", d.id, d.plugin, d.name, d.settings))
		o.Count("oob=already-applied")
	case 4: // another resource: a processor of the pipeline
		p := c.procs[len(c.procs)-1]
		w := p.workers
		if r.Chance(1, 3) {
			w = p.workers%3 + 1
		}
		ops = append(ops, fmt.Sprintf("xru %d %d %d %d", p.id, p.plugin, (p.settings+1)%3, w))
		o.Count("oob=other-processor")
	default: // the pipeline itself
		ops = append(ops, fmt.Sprintf("xpu 1 %d %d", c.name, (c.desc+1)%3))
		o.Count("oob=pipeline")
	}
	allow := 1
	if r.Chance(1, 6) {
		allow = 0
	}
	rc := "-"
	if r.Chance(1, 3) {
		rc = strconv.Itoa(r.Pick(3, 2, 1))
	}
	ops = append(ops, fmt.Sprintf("live %s %d 2 1 1 %s", n.String(), allow, rc))
	// and once more with a fresh hash: must never be stale
	if r.Chance(1, 3) {
		ops = append(ops, fmt.Sprintf("live %s 1 0 1 1 -", n.String()))
	}
	o.Count("scenario=stale-hash")
	return strings.Join(ops, ";")
}

func genLive(r *gen.Rand, o *gen.Out, _ int) string {
	if r.Chance(1, 3) {
		return genStaleHash(r, o)
	}
	g := &impGen{r: r, nextID: 10}
	c := g.newPipe(1)
	ops := []string{"imp " + c.String()}
	steps := r.Range(1, 4)
	for i := 0; i < steps; i++ {
		if r.Chance(3, 4) {
			ops = append(ops, fmt.Sprintf("st 1 %d", []int{1, 1, 1, 3, 2, 4, 5}[r.Intn(7)]))
		}
		if len(c.conns) > 0 && r.Chance(1, 3) {
			ops = append(ops, fmt.Sprintf("ss %d %d", c.conns[r.Intn(len(c.conns))].id, r.Range(1, 9)))
		}
		var n pipeCfg
		switch r.Pick(4, 3, 1) {
		case 0: // live-eligible: processor field changes (not workers), name/description
			n = c
			n.conns = append([]connCfg(nil), c.conns...)
			n.procs = append([]procCfg(nil), c.procs...)
			changed := false
			for j := range n.procs {
				if r.Chance(1, 2) {
					n.procs[j].settings = (n.procs[j].settings + 1) % 3
					changed = true
				}
			}
			if !changed || r.Chance(1, 3) {
				n.desc = (n.desc + 1) % 3
			}
			o.Count("change=live-eligible")
		case 1:
			n = mutatePipe(g, o, c)
			o.Count("change=any")
		default:
			n = c
			o.Count("change=none")
		}
		allow, stale := r.Chance(3, 4), r.Chance(1, 8)
		flip := r.Chance(1, 5)
		if flip {
			// the window matters when the pipeline is stopped at the first read: stop it first (mostly),
			// and mostly without the operator flag
			if r.Chance(4, 5) {
				ops = append(ops, fmt.Sprintf("st 1 %d", []int{3, 3, 2}[r.Intn(3)]))
			}
			allow = r.Chance(1, 4)
			stale = r.Chance(1, 12)
			o.Count("flip")
		}
		stop, start := r.Chance(4, 5), r.Chance(4, 5)
		rc := "-"
		if r.Chance(1, 2) {
			var xs []string
			for j := r.Range(1, 3); j > 0; j-- {
				xs = append(xs, strconv.Itoa(r.Pick(3, 2, 1)))
			}
			rc = strings.Join(xs, ",")
		}
		b := func(x bool) int {
			if x {
				return 1
			}
			return 0
		}
		op := fmt.Sprintf("live %s %d %d %d %d %s", n.String(), b(allow), b(stale), b(stop), b(start), rc)
		if flip {
			op += " flip"
		}
		if r.Chance(1, 5) {
			op += fmt.Sprintf(" !%d", r.Range(1, 12))
			o.Count("fail")
		}
		ops = append(ops, op)
		if !stale && stop && start && !(flip && !allow) {
			c = n
		}
	}
	o.Count("steps=" + strconv.Itoa(steps))
	return strings.Join(ops, ";")
}
