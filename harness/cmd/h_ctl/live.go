package main

import (
	"context"
	"errors"
	"fmt"
	"strconv"
	"strings"

	"github.com/conduitio/conduit/pkg/connector"
	"github.com/conduitio/conduit/pkg/lifecycle"
	"github.com/conduitio/conduit/pkg/pipeline"
	"verif/harness/gen"
)

// Component live (C16): the REAL provisioning.Service.ApplyPlanLive with a scripted lifecycle
// service (StopAndWait / Start / ReconfigureProcessor outcomes are inputs; a successful stop
// leaves the pipeline user-stopped, a successful start running) on the fault-injecting DB.
//
//	live <cfg> <allow> <stale> <stopOk> <startOk> <reconf|-> [flip] [!k]   plus imp / ss / st as in `import`
//
// `flip`: an external Start sets the pipeline Running between ApplyPlanLive's first status read
// and its re-read (the TOCTOU window the re-read closes; the authorisation gate must see it).
//
// Output per live step: <class>#<event log: stop,start,reconf<id>,commit>#<Export after>#<observe>.
func init() {
	components["live"] = component{gen: genLive, run: runLive, nontrivial: ntLive}
}

func ntLive(line, res string) bool {
	return strings.Contains(line, " flip") || strings.Contains(res, "#stop") || strings.Contains(res, "reconf") || strings.Contains(res, "stale#") || strings.Contains(res, "unauth#")
}

var errFakeLifecycle = errors.New("verif: scripted lifecycle failure")

type fakeLifecycle struct {
	w       *world
	stopOk  bool
	startOk bool
	reconf  []int
	log     []string
}

// statusWrite is the lifecycle service persisting a status: not one of the apply's numbered store operations.
func (f *fakeLifecycle) statusWrite(id string, st pipeline.Status) {
	n, k := f.w.db.n, f.w.db.failAt
	f.w.db.failAt = 0
	_ = f.w.pl.UpdateStatus(context.Background(), id, st, "")
	f.w.db.n, f.w.db.failAt = n, k
}

func (f *fakeLifecycle) Start(_ context.Context, id string) error {
	f.log = append(f.log, "start")
	if !f.startOk {
		return errFakeLifecycle
	}
	f.statusWrite(id, pipeline.StatusRunning)
	return nil
}
func (f *fakeLifecycle) Stop(context.Context, string, bool) error { return nil }
func (f *fakeLifecycle) StopAndWait(_ context.Context, id string) error {
	f.log = append(f.log, "stop")
	if !f.stopOk {
		return errFakeLifecycle
	}
	f.statusWrite(id, pipeline.StatusUserStopped)
	return nil
}
func (f *fakeLifecycle) ReconfigureProcessor(_ context.Context, _, processorID string) error {
	f.log = append(f.log, "reconf"+f.w.abs(processorID, -1))
	if len(f.reconf) == 0 {
		return nil
	}
	c := f.reconf[0]
	f.reconf = f.reconf[1:]
	switch c {
	case 0:
		return nil
	case 1:
		return lifecycle.ErrProcessorNotLiveReconfigurable
	}
	return errFakeLifecycle
}

func liveErrClass(err error) string {
	switch {
	case err == nil:
		return "ok"
	case errors.Is(err, errFakeLifecycle):
		return "life"
	case strings.Contains(err.Error(), "is stale"):
		return "stale"
	case strings.Contains(err.Error(), "requires operator authorization"):
		return "unauth"
	}
	return provErrClass(err)
}

func runLive(line string) string {
	fl := &fakeLifecycle{}
	w := newWorld(fl)
	fl.w = w
	// commits are logged through the DB wrapper
	w.db.onCommit = func() { fl.log = append(fl.log, "commit") }
	ctx := context.Background()
	var outs []string
	const universe = 999
	for _, ops := range strings.Split(line, ";") {
		f := strings.Fields(ops)
		if len(f) == 0 {
			return "bad-op"
		}
		switch f[0] {
		case "live":
			flip := false
			if len(f) >= 8 && f[7] == "flip" {
				flip = true
				f = append(f[:7:7], f[8:]...)
			}
			if len(f) != 7 && len(f) != 8 {
				return "bad-op"
			}
			k := 0
			if len(f) == 8 {
				if !strings.HasPrefix(f[7], "!") {
					return "bad-op"
				}
				n, err := strconv.Atoi(f[7][1:])
				if err != nil {
					return "bad-op"
				}
				k = n
			}
			pc, ok := parsePipeCfg(f[1])
			if !ok {
				return "bad-op"
			}
			for _, b := range f[2:6] {
				if b != "0" && b != "1" {
					return "bad-op"
				}
			}
			fl.stopOk, fl.startOk, fl.reconf, fl.log = f[4] == "1", f[5] == "1", nil, nil
			if f[6] != "-" {
				for _, x := range strings.Split(f[6], ",") {
					n, err := strconv.Atoi(x)
					if err != nil {
						return "bad-op"
					}
					fl.reconf = append(fl.reconf, n)
				}
			}
			cfg := pc.toConfig()
			d, perr := w.prov.Plan(ctx, cfg)
			hash := d.Hash
			if f[3] == "1" {
				hash = "bogus"
			}
			cls := func() (cls string) {
				defer func() {
					w.db.failAt = 0
					if p := recover(); p != nil {
						cls = "panic"
					}
				}()
				if perr == nil {
					w.db.arm(k)
				}
				w.plw.arm(flip)
				defer w.plw.disarm()
				_, err := w.prov.ApplyPlanLive(ctx, cfg, hash, f[2] == "1")
				return liveErrClass(err)
			}()
			lg := "-"
			if len(fl.log) > 0 {
				lg = strings.Join(fl.log, ",")
			}
			outs = append(outs, cls+"#"+lg+"#"+exportStr(w, ctx, cfg.ID)+"#"+w.observe(universe))
		case "imp":
			if len(f) != 2 && len(f) != 3 {
				return "bad-op"
			}
			k := 0
			if len(f) == 3 {
				if !strings.HasPrefix(f[2], "!") {
					return "bad-op"
				}
				n, err := strconv.Atoi(f[2][1:])
				if err != nil {
					return "bad-op"
				}
				k = n
			}
			pc, ok := parsePipeCfg(f[1])
			if !ok {
				return "bad-op"
			}
			cfg := pc.toConfig()
			before, diff := planStr(w, ctx, cfg)
			cls := func() (cls string) {
				defer func() {
					w.db.failAt = 0
					if p := recover(); p != nil {
						cls = "panic"
					}
				}()
				if before == "-" {
					_, err := w.prov.ApplyPlan(ctx, cfg, "")
					return provErrClass(err)
				}
				w.db.arm(k)
				_, err := w.prov.ApplyPlan(ctx, cfg, diff.Hash)
				return provErrClass(err)
			}()
			after, _ := planStr(w, ctx, cfg)
			outs = append(outs, cls+"#"+before+"#"+exportStr(w, ctx, cfg.ID)+"#"+after+"#"+w.observe(universe))
		case "ss", "st":
			if len(f) != 3 {
				return "bad-op"
			}
			a, e1 := strconv.Atoi(f[1])
			b, e2 := strconv.Atoi(f[2])
			if e1 != nil || e2 != nil {
				return "bad-op"
			}
			var err error
			if f[0] == "ss" {
				var c *connector.Instance
				c, err = w.cn.Get(ctx, xid(a))
				if err == nil {
					_, err = w.cn.SetState(ctx, c.ID, stateOf(c.Type, b))
				}
			} else {
				err = w.pl.UpdateStatus(ctx, xid(a), pipeline.Status(b), "")
			}
			outs = append(outs, errClass(err)+"#"+w.observe(universe))
		default:
			return "bad-op"
		}
	}
	return strings.Join(outs, " | ") + " mon=ok"
}

func genLive(r *gen.Rand, o *gen.Out, _ int) string {
	g := &impGen{r: r, nextID: 10}
	c := g.newPipe(1)
	ops := []string{"imp " + c.String()}
	steps := r.Range(1, 4)
	for i := 0; i < steps; i++ {
		if r.Chance(3, 4) {
			ops = append(ops, fmt.Sprintf("st 1 %d", []int{1, 1, 1, 3, 2, 4, 5}[r.Intn(7)]))
		}
		if len(c.conns) > 0 && r.Chance(1, 3) {
			ops = append(ops, fmt.Sprintf("ss %d %d", c.conns[r.Intn(len(c.conns))].id, r.Range(1, 9)))
		}
		var n pipeCfg
		switch r.Pick(4, 3, 1) {
		case 0: // live-eligible: processor field changes (not workers), name/description
			n = c
			n.conns = append([]connCfg(nil), c.conns...)
			n.procs = append([]procCfg(nil), c.procs...)
			changed := false
			for j := range n.procs {
				if r.Chance(1, 2) {
					n.procs[j].settings = (n.procs[j].settings + 1) % 3
					changed = true
				}
			}
			if !changed || r.Chance(1, 3) {
				n.desc = (n.desc + 1) % 3
			}
			o.Count("change=live-eligible")
		case 1:
			n = mutatePipe(g, o, c)
			o.Count("change=any")
		default:
			n = c
			o.Count("change=none")
		}
		allow, stale := r.Chance(3, 4), r.Chance(1, 8)
		flip := r.Chance(1, 5)
		if flip {
			// the window matters when the pipeline is stopped at the first read: stop it first (mostly),
			// and mostly without the operator flag
			if r.Chance(4, 5) {
				ops = append(ops, fmt.Sprintf("st 1 %d", []int{3, 3, 2}[r.Intn(3)]))
			}
			allow = r.Chance(1, 4)
			stale = r.Chance(1, 12)
			o.Count("flip")
		}
		stop, start := r.Chance(4, 5), r.Chance(4, 5)
		rc := "-"
		if r.Chance(1, 2) {
			var xs []string
			for j := r.Range(1, 3); j > 0; j-- {
				xs = append(xs, strconv.Itoa(r.Pick(3, 2, 1)))
			}
			rc = strings.Join(xs, ",")
		}
		b := func(x bool) int {
			if x {
				return 1
			}
			return 0
		}
		op := fmt.Sprintf("live %s %d %d %d %d %s", n.String(), b(allow), b(stale), b(stop), b(start), rc)
		if flip {
			op += " flip"
		}
		if r.Chance(1, 5) {
			op += fmt.Sprintf(" !%d", r.Range(1, 12))
			o.Count("fail")
		}
		ops = append(ops, op)
		if !stale && stop && start && !(flip && !allow) {
			c = n
		}
	}
	o.Count("steps=" + strconv.Itoa(steps))
	return strings.Join(ops, ";")
}
