package main

import (
	"fmt"
	"runtime"
	"strconv"
	"strings"
	"sync"
	"sync/atomic"

	"github.com/conduitio/conduit/pkg/provisioning"
	"verif/harness/gen"
)

// Component locks (C16): the REAL per-pipeline lock table (provisioning.pipelineLocks, through
// the verif hook) under first-use contention.
//
//	locks <seed> <goroutines> <ids> <rounds>
//
// Every round takes <ids> pipeline ids that were never locked before in this table and releases
// <goroutines> goroutines at once (spinning start barrier); each calls Lock(id) for one of the
// round's ids, and inside the section increments / decrements the id's occupancy counter. An
// occupancy above one is an overlap: two callers inside the per-id section at the same time.
// The interleaving is the Go scheduler's, so a line is not bit-for-bit replayable; the result
// carries what was observed (round, id, the two goroutines), the case line the parameters.
//
// Output: overlaps=0 | overlaps=<n> first=round<r>:<id>:g<a>+g<b>
func init() {
	components["locks"] = component{gen: genLocks, run: runLocks, nontrivial: func(line, res string) bool { return true }}
}

func genLocks(r *gen.Rand, o *gen.Out, i int) string {
	g := []int{2, 2, 3, 4, 6, 8}[r.Intn(6)]
	ids := []int{1, 1, 1, 2, 3}[r.Intn(5)]
	rounds := r.Range(300, 1200)
	o.Count("goroutines=" + strconv.Itoa(g))
	o.Count("ids=" + strconv.Itoa(ids))
	return fmt.Sprintf("locks %d %d %d %d", r.Intn(1<<30), g, ids, rounds)
}

type lockOverlap struct {
	round int
	id    string
	a, b  int32
}

func runLocks(line string) string {
	f := strings.Fields(line)
	if len(f) != 5 || f[0] != "locks" {
		return "bad-op"
	}
	var p [4]int
	for i := range p {
		n, err := strconv.Atoi(f[i+1])
		if err != nil || n < 0 {
			return "bad-op"
		}
		p[i] = n
	}
	seed, g, nids, rounds := p[0], p[1], p[2], p[3]
	if g < 2 || g > 64 || nids < 1 || nids > 8 || rounds < 1 || rounds > 100000 {
		return "bad-op"
	}
	if runtime.GOMAXPROCS(0) < 4 {
		runtime.GOMAXPROCS(4)
	}
	table := provisioning.VerifNewPipelineLocks()
	var overlaps int64
	var first atomic.Pointer[lockOverlap]
	type slot struct {
		occ    atomic.Int32
		holder atomic.Int32
		_      [48]byte
	}
	for r := 0; r < rounds; r++ {
		ids := make([]string, nids)
		slots := make([]slot, nids)
		for k := range ids {
			ids[k] = fmt.Sprintf("s%d-r%d-p%d", seed, r, k)
		}
		var ready, done sync.WaitGroup
		var start atomic.Bool
		ready.Add(g)
		done.Add(g)
		for w := 0; w < g; w++ {
			go func(w int) {
				defer done.Done()
				k := w % nids
				ready.Done()
				for n := 0; !start.Load(); n++ {
					if n&1023 == 1023 {
						runtime.Gosched() // never starve the releasing goroutine of a P
					}
				}
				unlock := table.Lock(ids[k])
				if n := slots[k].occ.Add(1); n > 1 {
					atomic.AddInt64(&overlaps, 1)
					first.CompareAndSwap(nil, &lockOverlap{round: r, id: ids[k], a: slots[k].holder.Load(), b: int32(w)})
				}
				slots[k].holder.Store(int32(w))
				// stay inside for a moment: a second caller that got its own mutex is then seen
				for i := 0; i < 1500; i++ {
					if slots[k].occ.Load() > 1 {
						break
					}
				}
				slots[k].occ.Add(-1)
				unlock()
			}(w)
		}
		ready.Wait()
		start.Store(true)
		done.Wait()
		if overlaps > 0 {
			break
		}
	}
	if overlaps == 0 {
		return "overlaps=0"
	}
	o := first.Load()
	return fmt.Sprintf("overlaps=%d first=round%d:%s:g%d+g%d", overlaps, o.round, o.id, o.a, o.b)
}
