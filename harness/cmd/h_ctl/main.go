// h_ctl drives the REAL control plane (orchestrator + pipeline/connector/processor services +
// provisioning service) on a fault-injecting wrapper around the in-memory DB and writes, per
// component, the case lines for the Lean driver and the implementation's canonical results.
//
//	h_ctl -comp crud|import|live -seed 1 -n 2000 -out DIR [-replay FILE]
package main

import (
	"bufio"
	"flag"
	"fmt"
	"os"
	"strings"

	"verif/harness/gen"
)

type component struct {
	gen        func(r *gen.Rand, o *gen.Out, i int) string
	run        func(line string) string
	nontrivial func(line, res string) bool
}

var components = map[string]component{}

func main() {
	comp := flag.String("comp", "", "component")
	seed := flag.Uint64("seed", 1, "seed")
	n := flag.Int("n", 1000, "number of generated cases")
	out := flag.String("out", "", "output directory")
	replay := flag.String("replay", "", "file of case lines to run instead of generating (corpus / replay)")
	flag.Parse()
	c, ok := components[*comp]
	if !ok {
		fmt.Fprintln(os.Stderr, "unknown component", *comp)
		os.Exit(2)
	}
	initPlugins()
	o := gen.NewOut(*out, *comp)
	defer o.Close()
	if *replay != "" {
		f, err := os.Open(*replay)
		if err != nil {
			panic(err)
		}
		sc := bufio.NewScanner(f)
		sc.Buffer(make([]byte, 1<<20), 1<<26)
		for sc.Scan() {
			l := strings.TrimSpace(sc.Text())
			if l == "" || strings.HasPrefix(l, "#") {
				continue
			}
			res := safeRun(c, l)
			o.Case(l, res, c.nontrivial(l, res))
		}
		return
	}
	r := gen.New(*seed)
	for i := 0; i < *n; i++ {
		l := c.gen(r, o, i)
		res := safeRun(c, l)
		o.Case(l, res, c.nontrivial(l, res))
	}
}

func safeRun(c component, l string) (res string) {
	defer func() {
		if p := recover(); p != nil {
			res = fmt.Sprintf("harness-panic:%v", p)
		}
	}()
	return c.run(l)
}
