package main

import (
	"context"
	"errors"
	"fmt"
	"os"
	"sort"
	"strconv"
	"strings"
	"time"

	"github.com/conduitio/conduit-commons/database"
	"github.com/conduitio/conduit-commons/database/inmemory"
	"github.com/conduitio/conduit-commons/opencdc"
	"github.com/conduitio/conduit-connector-protocol/pconnector/server"
	schemaregistry "github.com/conduitio/conduit-schema-registry"
	"github.com/conduitio/conduit/pkg/connector"
	"github.com/conduitio/conduit/pkg/foundation/log"
	"github.com/conduitio/conduit/pkg/orchestrator"
	"github.com/conduitio/conduit/pkg/pipeline"
	conn_plugin "github.com/conduitio/conduit/pkg/plugin/connector"
	"github.com/conduitio/conduit/pkg/plugin/connector/builtin"
	"github.com/conduitio/conduit/pkg/plugin/connector/connutils"
	"github.com/conduitio/conduit/pkg/plugin/connector/standalone"
	proc_plugin "github.com/conduitio/conduit/pkg/plugin/processor"
	proc_builtin "github.com/conduitio/conduit/pkg/plugin/processor/builtin"
	"github.com/conduitio/conduit/pkg/processor"
	"github.com/conduitio/conduit/pkg/provisioning"
)

// ---------------------------------------------------------------- fault-injecting DB

var errInjected = errors.New("verif: injected store failure")

// faultDB wraps the in-memory DB. NewTransaction, Set and Commit are the numbered "store
// operations"; the failAt-th one (1-based, counted since the last arm()) fails without
// touching the store. Reads never fail.
type faultDB struct {
	inner  *inmemory.DB
	n      int
	failAt int
	// onCommit, if set, is called after every successful Commit (event log of component live)
	onCommit func()
}

func (d *faultDB) arm(k int) { d.n, d.failAt = 0, k }

func (d *faultDB) tick() error {
	d.n++
	if d.failAt > 0 && d.n == d.failAt {
		return errInjected
	}
	return nil
}

func (d *faultDB) NewTransaction(ctx context.Context, update bool) (database.Transaction, context.Context, error) {
	if err := d.tick(); err != nil {
		return nil, ctx, err
	}
	t, c, err := d.inner.NewTransaction(ctx, update)
	if err != nil {
		return nil, ctx, err
	}
	return &faultTxn{d: d, inner: t}, c, nil
}
func (d *faultDB) Close() error                   { return nil }
func (d *faultDB) Ping(ctx context.Context) error { return nil }
func (d *faultDB) Set(ctx context.Context, key string, value []byte) error {
	if err := d.tick(); err != nil {
		return err
	}
	return d.inner.Set(ctx, key, value)
}
func (d *faultDB) Get(ctx context.Context, key string) ([]byte, error) { return d.inner.Get(ctx, key) }
func (d *faultDB) GetKeys(ctx context.Context, prefix string) ([]string, error) {
	return d.inner.GetKeys(ctx, prefix)
}

type faultTxn struct {
	d     *faultDB
	inner database.Transaction
}

func (t *faultTxn) Commit() error {
	if err := t.d.tick(); err != nil {
		t.inner.Discard()
		return err
	}
	err := t.inner.Commit()
	if err == nil && t.d.onCommit != nil {
		t.d.onCommit()
	}
	return err
}
func (t *faultTxn) Discard() { t.inner.Discard() }

// ---------------------------------------------------------------- plugin services (shared)

var (
	logger         = log.Nop()
	connPluginSvc  *conn_plugin.PluginService
	procPluginSvc  *proc_plugin.PluginService
	scratchDir     string
	pluginInitDone bool
)

func initPlugins() {
	if pluginInitDone {
		return
	}
	pluginInitDone = true
	ctx := context.Background()
	sdb := &inmemory.DB{}
	tokenService := connutils.NewAuthManager()
	schemaRegistry, err := schemaregistry.NewSchemaRegistry(sdb)
	if err != nil {
		panic(err)
	}
	connSchemaService := connutils.NewSchemaService(logger, schemaRegistry, tokenService)
	connPluginSvc = conn_plugin.NewPluginService(
		logger,
		builtin.NewRegistry(logger, builtin.DefaultBuiltinConnectors, connSchemaService),
		standalone.NewRegistry(logger, ""),
		tokenService,
	)
	connPluginSvc.Init(ctx, "conn-utils-token:12345", server.DefaultMaxReceiveRecordSize)
	procPluginSvc = proc_plugin.NewPluginService(
		logger,
		proc_builtin.NewRegistry(logger, proc_builtin.DefaultBuiltinProcessors, schemaRegistry),
		nil,
	)
	scratchDir, err = os.MkdirTemp("", "verif-ctl-")
	if err != nil {
		panic(err)
	}
	// file source wants an existing file
	for k := 1; k <= 9; k++ {
		_ = os.WriteFile(fmt.Sprintf("%s/f%d", scratchDir, k), nil, 0o644)
	}
}

// ---------------------------------------------------------------- world

type world struct {
	db   *faultDB
	plw  *plWrap
	pl   *pipeline.Service
	cn   *connector.Service
	pr   *processor.Service
	orch *orchestrator.Orchestrator
	prov *provisioning.Service
	// ids: op index -> real id (uuid for API-created, "x<i>" otherwise); rev: real id -> index
	ids map[int]string
	rev map[string]int
}

// plWrap is the pipeline service as the provisioning service sees it. When armed with flip it
// plays an external Start (outside provisioning, not covered by the per-pipeline lock) that
// lands between ApplyPlanLive's first read of the running status and its re-read: the pipeline
// Gets of one ApplyPlanLive call are #1 Plan/Export, #2 isRunning, #3 the re-read (only when #2
// said "not running"); the status is set to Running on entry of #3.
type plWrap struct {
	*pipeline.Service
	w            *world
	armed, flip  bool
	n            int
	firstRunning bool
}

func (p *plWrap) arm(flip bool) { p.armed, p.flip, p.n, p.firstRunning = true, flip, 0, false }
func (p *plWrap) disarm()       { p.armed = false }

func runningClass(st pipeline.Status) bool {
	return st == pipeline.StatusRunning || st == pipeline.StatusRecovering || st == pipeline.StatusDegraded
}

func (p *plWrap) Get(ctx context.Context, id string) (*pipeline.Instance, error) {
	if p.armed {
		p.n++
		switch p.n {
		case 2:
			inst, err := p.Service.Get(ctx, id)
			p.firstRunning = err == nil && runningClass(inst.GetStatus())
			return inst, err
		case 3:
			if p.flip && !p.firstRunning {
				// the external Start persists the status: not one of the apply's numbered store operations
				n, k := p.w.db.n, p.w.db.failAt
				p.w.db.failAt = 0
				_ = p.Service.UpdateStatus(ctx, id, pipeline.StatusRunning, "")
				p.w.db.n, p.w.db.failAt = n, k
			}
		}
	}
	return p.Service.Get(ctx, id)
}

type nopLifecycle struct{}

func (nopLifecycle) Start(context.Context, string) error      { return nil }
func (nopLifecycle) Stop(context.Context, string, bool) error { return nil }

func newWorld(lc provisioning.LifecycleService) *world {
	w := &world{db: &faultDB{inner: &inmemory.DB{}}, ids: map[int]string{}, rev: map[string]int{}}
	w.pl = pipeline.NewService(logger, w.db)
	w.cn = connector.NewService(logger, w.db, connector.NewPersister(logger, w.db, time.Hour, 1000000))
	w.pr = processor.NewService(logger, w.db, procPluginSvc)
	w.orch = orchestrator.NewOrchestrator(w.db, logger, w.pl, w.cn, w.pr, connPluginSvc, procPluginSvc, nopLifecycle{})
	w.plw = &plWrap{Service: w.pl, w: w}
	w.prov = provisioning.NewService(w.db, logger, w.plw, w.cn, w.pr, connPluginSvc, lc, scratchDir+"/nopipelines")
	return w
}

// id returns the real identifier the harness uses for abstract id i.
func (w *world) id(i int) string {
	if s, ok := w.ids[i]; ok {
		return s
	}
	return "x" + strconv.Itoa(i)
}

func (w *world) bind(i int, real string) {
	w.ids[i] = real
	w.rev[real] = i
}

// abs renders a real id as its abstract number; unknown ids (an id the API allocated but never
// returned, left behind by a failed call) are bound to the current op index cur.
func (w *world) abs(real string, cur int) string {
	if i, ok := w.rev[real]; ok {
		return strconv.Itoa(i)
	}
	if strings.HasPrefix(real, "x") {
		if n, err := strconv.Atoi(real[1:]); err == nil {
			return strconv.Itoa(n)
		}
	}
	if cur >= 0 && len(real) == 36 {
		w.bind(cur, real)
		return strconv.Itoa(cur)
	}
	return "?" + real
}

// ---------------------------------------------------------------- abstract codes <-> values

func nameOf(c int) string {
	switch {
	case c == 0:
		return ""
	case c == 99:
		return strings.Repeat("x", 300)
	}
	return "n" + strconv.Itoa(c)
}
func nameCode(s string) string {
	if s == "" {
		return "0"
	}
	if len(s) == 300 {
		return "99"
	}
	return strings.TrimPrefix(s, "n")
}
func descOf(c int) string {
	if c == 0 {
		return ""
	}
	return "d" + strconv.Itoa(c)
}
func descCode(s string) string {
	if s == "" {
		return "0"
	}
	return strings.TrimPrefix(s, "d")
}

// connector plugins: 1 = builtin:file (valid), 9 = unknown builtin, 0 = empty
func cpluginOf(c int) string {
	switch c {
	case 0:
		return ""
	case 1:
		return "builtin:file"
	}
	return "builtin:nope" + strconv.Itoa(c)
}
func cpluginCode(s string) string {
	switch s {
	case "":
		return "0"
	case "builtin:file":
		return "1"
	case "builtin:log":
		return "2"
	}
	return strings.TrimPrefix(s, "builtin:nope")
}

// connector settings: 0 = {} (file connector rejects: path missing); k = {path: scratch/f<k>}
func csettingsOf(c int) map[string]string {
	if c == 0 {
		return map[string]string{}
	}
	p := scratchDir + "/f" + strconv.Itoa(c)
	if c > 9 {
		_ = os.WriteFile(p, nil, 0o644)
	}
	return map[string]string{"path": p}
}
func csettingsCode(m map[string]string) string {
	if m == nil {
		return "nil"
	}
	if len(m) == 0 {
		return "0"
	}
	if p, ok := m["path"]; ok && len(m) == 1 {
		return strings.TrimPrefix(p, scratchDir+"/f")
	}
	if l, ok := m["level"]; ok && l == "warn" && len(m) == 2 {
		return "100"
	}
	return "?" + fmt.Sprint(m)
}

// processor plugins: 1 = builtin:field.set, 2 = builtin:field.rename, 0 = "" (update only), else unknown
func ppluginOf(c int, forCreate bool) string {
	switch c {
	case 0:
		if forCreate {
			return "builtin:"
		}
		return ""
	case 1:
		return "builtin:field.set"
	case 2:
		return "builtin:field.rename"
	}
	return "builtin:nope" + strconv.Itoa(c)
}
func ppluginCode(s string) string {
	switch s {
	case "", "builtin:":
		return "0"
	case "builtin:field.set":
		return "1"
	case "builtin:field.rename":
		return "2"
	}
	return strings.TrimPrefix(s, "builtin:nope")
}
func psettingsOf(c int) map[string]string {
	if c == 0 {
		return map[string]string{}
	}
	return map[string]string{"field": ".Metadata.k", "value": "v" + strconv.Itoa(c)}
}
func psettingsCode(m map[string]string) string {
	if m == nil {
		return "nil"
	}
	if len(m) == 0 {
		return "0"
	}
	if v, ok := m["value"]; ok && len(m) == 2 {
		return strings.TrimPrefix(v, "v")
	}
	return "?" + fmt.Sprint(m)
}
func condOf(c int) string {
	if c == 0 {
		return ""
	}
	return `{{ eq .Metadata.k "` + strconv.Itoa(c) + `" }}`
}
func condCode(s string) string {
	if s == "" {
		return "0"
	}
	s = strings.TrimPrefix(s, `{{ eq .Metadata.k "`)
	return strings.TrimSuffix(s, `" }}`)
}

func stateOf(t connector.Type, c int) any {
	if c == 0 {
		return nil
	}
	p := opencdc.Position("p" + strconv.Itoa(c))
	if t == connector.TypeDestination {
		return connector.DestinationState{Positions: map[string]opencdc.Position{"s": p}}
	}
	return connector.SourceState{Position: p}
}
func stateCode(s any) string {
	switch v := s.(type) {
	case nil:
		return "0"
	case connector.SourceState:
		return strings.TrimPrefix(string(v.Position), "p")
	case connector.DestinationState:
		return strings.TrimPrefix(string(v.Positions["s"]), "p")
	}
	return "?" + fmt.Sprint(s)
}

// ---------------------------------------------------------------- canonical dumps

func absList(w *world, ids []string, cur int) string {
	out := make([]string, len(ids))
	for i, s := range ids {
		out[i] = w.abs(s, cur)
	}
	return "[" + strings.Join(out, ",") + "]"
}

type svcs struct {
	pl *pipeline.Service
	cn *connector.Service
	pr *processor.Service
}

// dump renders List() of the three services plus the name set; initStatus maps Running to
// SystemStopped (what Init does), used to compare memory with a reloaded server.
func dump(w *world, s svcs, cur int, initStatus bool) string {
	ctx := context.Background()
	var parts []string
	pls := s.pl.List(ctx)
	keys := make([]string, 0, len(pls))
	for k := range pls {
		keys = append(keys, k)
	}
	sortAbs(w, keys, cur)
	for _, k := range keys {
		p := pls[k]
		st := int(p.GetStatus())
		if initStatus && p.GetStatus() == pipeline.StatusRunning {
			st = int(pipeline.StatusSystemStopped)
		}
		id := w.abs(p.ID, cur)
		if p.ID != k {
			id = w.abs(k, cur) + "!" + id
		}
		parts = append(parts, fmt.Sprintf("P%s:%s,%s,%d,%d,%s,%s,%d,%d,%s,%s", id,
			nameCode(p.Config.Name), descCode(p.Config.Description), st, int(p.ProvisionedBy),
			cpluginCode(p.DLQ.Plugin), csettingsCode(p.DLQ.Settings), p.DLQ.WindowSize, p.DLQ.WindowNackThreshold,
			absList(w, p.ConnectorIDs, cur), absList(w, p.ProcessorIDs, cur)))
	}
	cns := s.cn.List(ctx)
	keys = keys[:0]
	for k := range cns {
		keys = append(keys, k)
	}
	sortAbs(w, keys, cur)
	for _, k := range keys {
		c := cns[k]
		parts = append(parts, fmt.Sprintf("C%s:%d,%s,%s,%s,%s,%d,%s,%s", w.abs(c.ID, cur),
			int(c.Type), cpluginCode(c.Plugin), nameCode(c.Config.Name), csettingsCode(c.Config.Settings),
			w.abs(c.PipelineID, cur), int(c.ProvisionedBy), stateCode(c.State), absList(w, c.ProcessorIDs, cur)))
	}
	prs := s.pr.List(ctx)
	keys = keys[:0]
	for k := range prs {
		keys = append(keys, k)
	}
	sortAbs(w, keys, cur)
	for _, k := range keys {
		p := prs[k]
		parts = append(parts, fmt.Sprintf("R%s:%s,%s,%d,%s,%d,%s,%d", w.abs(p.ID, cur),
			ppluginCode(p.Plugin), psettingsCode(p.Config.Settings), p.Config.Workers, condCode(p.Condition),
			int(p.Parent.Type), w.abs(p.Parent.ID, cur), int(p.ProvisionedBy)))
	}
	names := s.pl.VerifInstanceNames()
	nc := make([]int, 0, len(names))
	for _, n := range names {
		c, _ := strconv.Atoi(nameCode(n))
		nc = append(nc, c)
	}
	sort.Ints(nc)
	ns := make([]string, len(nc))
	for i, c := range nc {
		ns[i] = strconv.Itoa(c)
	}
	parts = append(parts, "N["+strings.Join(ns, ",")+"]")
	return strings.Join(parts, ";")
}

func sortAbs(w *world, keys []string, cur int) {
	sort.Slice(keys, func(i, j int) bool {
		a, _ := strconv.Atoi(w.abs(keys[i], cur))
		b, _ := strconv.Atoi(w.abs(keys[j], cur))
		if a != b {
			return a < b
		}
		return keys[i] < keys[j]
	})
}

// reload builds FRESH services on the same DB and initialises them (what a restarted server loads).
func (w *world) reload() (svcs, error) {
	ctx := context.Background()
	save := w.db.failAt
	w.db.failAt = 0
	defer func() { w.db.failAt = save }()
	s := svcs{
		pl: pipeline.NewService(logger, w.db),
		cn: connector.NewService(logger, w.db, connector.NewPersister(logger, w.db, time.Hour, 1000000)),
		pr: processor.NewService(logger, w.db, procPluginSvc),
	}
	if err := s.pr.Init(ctx); err != nil {
		return s, err
	}
	if err := s.cn.Init(ctx); err != nil {
		return s, err
	}
	if err := s.pl.Init(ctx); err != nil {
		return s, err
	}
	return s, nil
}

// rawKeys lists the raw store keys in abstract form, sorted.
func (w *world) rawKeys(cur int) string {
	keys, _ := w.db.inner.GetKeys(context.Background(), "")
	var out []string
	for _, k := range keys {
		switch {
		case strings.HasPrefix(k, "pipeline:instance:"):
			out = append(out, "P"+w.abs(strings.TrimPrefix(k, "pipeline:instance:"), cur))
		case strings.HasPrefix(k, "connector:instance:"):
			out = append(out, "C"+w.abs(strings.TrimPrefix(k, "connector:instance:"), cur))
		case strings.HasPrefix(k, "processor:instance:"):
			out = append(out, "R"+w.abs(strings.TrimPrefix(k, "processor:instance:"), cur))
		default:
			out = append(out, "?"+k)
		}
	}
	sort.Slice(out, func(i, j int) bool {
		if out[i][0] != out[j][0] {
			return kindRank(out[i][0]) < kindRank(out[j][0])
		}
		a, _ := strconv.Atoi(out[i][1:])
		b, _ := strconv.Atoi(out[j][1:])
		return a < b
	})
	return strings.Join(out, ",")
}

func kindRank(b byte) int {
	switch b {
	case 'P':
		return 0
	case 'C':
		return 1
	case 'R':
		return 2
	}
	return 3
}

// expectedKeys derives the key list a store consistent with the memory dump would hold.
func expectedKeys(memDump string) string {
	var out []string
	for _, e := range strings.Split(memDump, ";") {
		if e == "" || e[0] == 'N' {
			continue
		}
		i := strings.IndexByte(e, ':')
		out = append(out, e[:i])
	}
	return strings.Join(out, ",")
}

// observe = memory dump # reload ("=" when equal to Init(memory)) # raw keys ("=" when they are
// exactly the keys of the memory entities).
func (w *world) observe(cur int) string {
	mem := dump(w, svcs{w.pl, w.cn, w.pr}, cur, false)
	memInit := dump(w, svcs{w.pl, w.cn, w.pr}, cur, true)
	rs, err := w.reload()
	rel := ""
	if err != nil {
		rel = "reload-error"
	} else {
		rel = dump(w, rs, cur, false)
	}
	if rel == memInit {
		rel = "="
	}
	keys := w.rawKeys(cur)
	if keys == expectedKeys(mem) {
		keys = "="
	}
	return mem + "#" + rel + "#" + keys
}

// ---------------------------------------------------------------- error classes

func errClass(err error) string {
	switch {
	case err == nil:
		return "ok"
	case errors.Is(err, errInjected):
		return "st"
	case errors.Is(err, pipeline.ErrInstanceNotFound), errors.Is(err, connector.ErrInstanceNotFound), errors.Is(err, processor.ErrInstanceNotFound):
		return "nf"
	case errors.Is(err, pipeline.ErrPipelineRunning):
		return "run"
	case errors.Is(err, orchestrator.ErrImmutableProvisionedByConfig):
		return "imm"
	case errors.Is(err, orchestrator.ErrPipelineHasConnectorsAttached), errors.Is(err, orchestrator.ErrPipelineHasProcessorsAttached),
		errors.Is(err, orchestrator.ErrConnectorHasProcessorsAttached):
		return "att"
	}
	return "inv"
}
