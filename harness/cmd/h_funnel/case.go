package main

import (
	"fmt"
	"strconv"
	"strings"

	"verif/harness/gen"
)

// ---- case description (same grammar as Driver/Funnel.lean) ----

type pos struct {
	kind byte // 'n' nil, 'e' empty, 'k' bytes
	k    int
}

func (p pos) String() string {
	switch p.kind {
	case 'n':
		return "n"
	case 'e':
		return "e"
	}
	return strconv.Itoa(p.k)
}

func (p pos) bytes() []byte {
	switch p.kind {
	case 'n':
		return nil
	case 'e':
		return []byte{}
	}
	return []byte("p" + strconv.Itoa(p.k))
}

func posOf(b []byte) pos {
	if b == nil {
		return pos{kind: 'n'}
	}
	if len(b) == 0 {
		return pos{kind: 'e'}
	}
	if len(b) > 1 && b[0] == 'p' {
		if k, err := strconv.Atoi(string(b[1:])); err == nil {
			return pos{kind: 'k', k: k}
		}
	}
	return pos{kind: 'k', k: 999999}
}

type rec struct {
	tag int
	pos pos
}

func (r rec) String() string { return strconv.Itoa(r.tag) + ":" + r.pos.String() }

type pr struct {
	kind  byte // 's','f','x','m','z'
	rec   rec
	err   int // -1 = nil error
	multi []rec
}

func (p pr) String() string {
	switch p.kind {
	case 's':
		return "s" + p.rec.String()
	case 'f':
		return "f"
	case 'z':
		return "z"
	case 'x':
		if p.err < 0 {
			return "x-"
		}
		return "x" + strconv.Itoa(p.err)
	}
	parts := make([]string, len(p.multi))
	for i, r := range p.multi {
		parts[i] = r.String()
	}
	return "m[" + strings.Join(parts, "+") + "]"
}

type ack struct {
	pos pos
	err int // -1 none
}

type ackResp struct {
	err  int // >=0: error response
	acks []ack
}

type reply struct {
	isDest   bool
	out      []pr
	writeErr int // -1 none
	resps    []ackResp
}

func (r reply) String() string {
	if !r.isDest {
		if len(r.out) == 0 {
			return "-"
		}
		parts := make([]string, len(r.out))
		for i, p := range r.out {
			parts[i] = p.String()
		}
		return strings.Join(parts, ",")
	}
	hd := "ok"
	if r.writeErr >= 0 {
		hd = "w" + strconv.Itoa(r.writeErr)
	}
	parts := []string{hd}
	for _, a := range r.resps {
		if a.err >= 0 {
			parts = append(parts, "E"+strconv.Itoa(a.err))
			continue
		}
		if len(a.acks) == 0 {
			parts = append(parts, "-")
			continue
		}
		as := make([]string, len(a.acks))
		for i, k := range a.acks {
			as[i] = k.pos.String()
			if k.err >= 0 {
				as[i] += "!" + strconv.Itoa(k.err)
			}
		}
		parts = append(parts, strings.Join(as, ","))
	}
	return strings.Join(parts, "/")
}

type node struct {
	kind byte // 'S','P','D'
	id   int
	next []*node
}

func (n *node) String() string {
	s := string(n.kind) + strconv.Itoa(n.id)
	if len(n.next) > 0 {
		parts := make([]string, len(n.next))
		for i, k := range n.next {
			parts[i] = k.String()
		}
		s += "(" + strings.Join(parts, ",") + ")"
	}
	return s
}

type fcase struct {
	size, thr int
	tree      *node
	orders    [][]int
	scripts   map[int][]reply
	batches   [][]rec
	stopAt    int // harness-only (component funnelstop): graceful Stop after this many log events
}

func (c *fcase) line() string {
	var b strings.Builder
	fmt.Fprintf(&b, "win %d %d | tree %s", c.size, c.thr, c.tree)
	if len(c.orders) > 0 {
		var all []string
		for _, ord := range c.orders {
			os := make([]string, len(ord))
			for i, k := range ord {
				os[i] = strconv.Itoa(k)
			}
			all = append(all, strings.Join(os, ","))
		}
		b.WriteString(" | order " + strings.Join(all, ";"))
	}
	ids := []int{}
	for id := range c.scripts {
		ids = append(ids, id)
	}
	sortInts(ids)
	if len(ids) > 0 {
		b.WriteString(" | script")
		for _, id := range ids {
			rs := make([]string, len(c.scripts[id]))
			for i, r := range c.scripts[id] {
				rs[i] = r.String()
			}
			fmt.Fprintf(&b, " T%d=%s", id, strings.Join(rs, ";"))
		}
	}
	for _, bt := range c.batches {
		if len(bt) == 0 {
			b.WriteString(" | batch -")
			continue
		}
		rs := make([]string, len(bt))
		for i, r := range bt {
			rs[i] = r.String()
		}
		b.WriteString(" | batch " + strings.Join(rs, ","))
	}
	return b.String()
}

func sortInts(a []int) {
	for i := 1; i < len(a); i++ {
		for j := i; j > 0 && a[j] < a[j-1]; j-- {
			a[j], a[j-1] = a[j-1], a[j]
		}
	}
}

// ---- parser ----

func parsePos(s string) (pos, error) {
	switch s {
	case "n":
		return pos{kind: 'n'}, nil
	case "e":
		return pos{kind: 'e'}, nil
	}
	k, err := strconv.Atoi(s)
	if err != nil || k < 0 {
		return pos{}, fmt.Errorf("bad pos %q", s)
	}
	if k == 0 {
		return pos{kind: 'e'}, nil
	}
	return pos{kind: 'k', k: k}, nil
}

func parseRec(s string) (rec, error) {
	f := strings.Split(s, ":")
	if len(f) != 2 {
		return rec{}, fmt.Errorf("bad rec %q", s)
	}
	t, err := strconv.Atoi(f[0])
	if err != nil {
		return rec{}, err
	}
	p, err := parsePos(f[1])
	return rec{tag: t, pos: p}, err
}

func parseRecs(s, sep string) ([]rec, error) {
	if s == "-" || s == "" {
		return nil, nil
	}
	var out []rec
	for _, t := range strings.Split(s, sep) {
		r, err := parseRec(t)
		if err != nil {
			return nil, err
		}
		out = append(out, r)
	}
	return out, nil
}

func parsePR(s string) (pr, error) {
	if s == "" {
		return pr{}, fmt.Errorf("empty pr")
	}
	switch s[0] {
	case 's':
		r, err := parseRec(s[1:])
		return pr{kind: 's', rec: r}, err
	case 'f':
		return pr{kind: 'f'}, nil
	case 'z':
		return pr{kind: 'z'}, nil
	case 'x':
		if s == "x-" {
			return pr{kind: 'x', err: -1}, nil
		}
		e, err := strconv.Atoi(s[1:])
		return pr{kind: 'x', err: e}, err
	case 'm':
		if len(s) < 3 || s[1] != '[' || s[len(s)-1] != ']' {
			return pr{}, fmt.Errorf("bad multi %q", s)
		}
		rs, err := parseRecs(s[2:len(s)-1], "+")
		return pr{kind: 'm', multi: rs}, err
	}
	return pr{}, fmt.Errorf("bad pr %q", s)
}

func parseReply(s string) (reply, error) {
	parts := strings.Split(s, "/")
	hd := parts[0]
	if hd == "ok" || (len(hd) > 1 && hd[0] == 'w') {
		r := reply{isDest: true, writeErr: -1}
		if hd != "ok" {
			e, err := strconv.Atoi(hd[1:])
			if err != nil {
				return r, err
			}
			r.writeErr = e
		}
		for _, p := range parts[1:] {
			if len(p) > 0 && p[0] == 'E' {
				e, err := strconv.Atoi(p[1:])
				if err != nil {
					return r, err
				}
				r.resps = append(r.resps, ackResp{err: e})
				continue
			}
			ar := ackResp{err: -1}
			if p != "-" {
				for _, a := range strings.Split(p, ",") {
					f := strings.Split(a, "!")
					ps, err := parsePos(f[0])
					if err != nil {
						return r, err
					}
					k := ack{pos: ps, err: -1}
					if len(f) == 2 {
						e, err := strconv.Atoi(f[1])
						if err != nil {
							return r, err
						}
						k.err = e
					}
					ar.acks = append(ar.acks, k)
				}
			}
			r.resps = append(r.resps, ar)
		}
		return r, nil
	}
	if len(parts) != 1 {
		return reply{}, fmt.Errorf("bad reply %q", s)
	}
	r := reply{}
	if hd == "-" {
		return r, nil
	}
	for _, t := range strings.Split(hd, ",") {
		p, err := parsePR(t)
		if err != nil {
			return r, err
		}
		r.out = append(r.out, p)
	}
	return r, nil
}

func parseNode(s string) (*node, string, error) {
	if len(s) == 0 || !strings.ContainsRune("SPD", rune(s[0])) {
		return nil, s, fmt.Errorf("bad node %q", s)
	}
	n := &node{kind: s[0]}
	i := 1
	for i < len(s) && s[i] >= '0' && s[i] <= '9' {
		i++
	}
	id, err := strconv.Atoi(s[1:i])
	if err != nil {
		return nil, s, err
	}
	n.id = id
	s = s[i:]
	if len(s) > 0 && s[0] == '(' {
		s = s[1:]
		for {
			k, rest, err := parseNode(s)
			if err != nil {
				return nil, s, err
			}
			n.next = append(n.next, k)
			s = rest
			if len(s) == 0 {
				return nil, s, fmt.Errorf("unterminated")
			}
			if s[0] == ',' {
				s = s[1:]
				continue
			}
			if s[0] == ')' {
				s = s[1:]
				break
			}
			return nil, s, fmt.Errorf("bad tree")
		}
	}
	return n, s, nil
}

func parseCase(line string) (*fcase, error) {
	c := &fcase{scripts: map[int][]reply{}}
	for _, sec := range strings.Split(line, "|") {
		f := strings.Fields(sec)
		if len(f) == 0 {
			continue
		}
		switch f[0] {
		case "win":
			if len(f) != 3 {
				return nil, fmt.Errorf("bad win")
			}
			c.size, _ = strconv.Atoi(f[1])
			c.thr, _ = strconv.Atoi(f[2])
		case "tree":
			n, rest, err := parseNode(f[1])
			if err != nil || rest != "" {
				return nil, fmt.Errorf("bad tree")
			}
			c.tree = n
		case "order":
			for _, os := range strings.Split(f[1], ";") {
				var ord []int
				for _, t := range strings.Split(os, ",") {
					k, err := strconv.Atoi(t)
					if err != nil {
						return nil, err
					}
					ord = append(ord, k)
				}
				c.orders = append(c.orders, ord)
			}
		case "script":
			for _, s := range f[1:] {
				eq := strings.SplitN(s, "=", 2)
				if len(eq) != 2 || len(eq[0]) < 2 || eq[0][0] != 'T' {
					return nil, fmt.Errorf("bad script")
				}
				id, err := strconv.Atoi(eq[0][1:])
				if err != nil {
					return nil, err
				}
				c.scripts[id] = []reply{}
				if eq[1] == "" {
					continue
				}
				for _, rs := range strings.Split(eq[1], ";") {
					r, err := parseReply(rs)
					if err != nil {
						return nil, err
					}
					c.scripts[id] = append(c.scripts[id], r)
				}
			}
		case "batch":
			rs, err := parseRecs(f[1], ",")
			if err != nil {
				return nil, err
			}
			c.batches = append(c.batches, rs)
		default:
			return nil, fmt.Errorf("bad section %q", f[0])
		}
	}
	if c.tree == nil {
		return nil, fmt.Errorf("no tree")
	}
	return c, nil
}

// ---- generator ----

func genCase(r *gen.Rand, o *gen.Out, fanOnly bool) *fcase {
	c := &fcase{scripts: map[int][]reply{}}
	switch r.Pick(3, 3, 3, 1) {
	case 0:
		c.size, c.thr = 0, 0
	case 1:
		c.size = r.Range(1, 6)
		c.thr = r.Range(0, c.size)
	case 2:
		c.size, c.thr = 20, 19
	default:
		c.size, c.thr = 1, 0
	}
	id := 1
	root := &node{kind: 'S', id: 0}
	cur := root
	np := r.Pick(3, 4, 2, 1)
	for i := 0; i < np; i++ {
		p := &node{kind: 'P', id: id}
		id++
		cur.next = []*node{p}
		cur = p
	}
	nb := []int{1, 1, 1, 2, 2, 3}[r.Intn(6)]
	if fanOnly {
		nb = r.Range(2, 4)
	}
	o.Count(fmt.Sprintf("procs=%d", np))
	o.Count(fmt.Sprintf("branches=%d", nb))
	for b := 0; b < nb; b++ {
		br := cur
		var first *node
		if nb > 1 && r.Chance(1, 3) {
			p := &node{kind: 'P', id: id}
			id++
			first = p
			br = p
		}
		d := &node{kind: 'D', id: 10 + b}
		if first != nil {
			br.next = []*node{d}
			cur.next = append(cur.next, first)
		} else {
			cur.next = append(cur.next, d)
		}
	}
	c.tree = root
	nbatch := r.Range(1, 3)
	next := 1
	// a tenth of the cases come from the "bad source position" family: many empty / nil source positions, so that they
	// meet nacks, partial DLQ acknowledgments and window refusals in the same batch (Worker.Nack's validateAckPositions)
	badPos := r.Chance(1, 10)
	if badPos {
		o.Count("family=bad-source-positions")
	}
	for i := 0; i < nbatch; i++ {
		n := r.Range(1, 6)
		if r.Chance(1, 10) {
			n = r.Range(7, 12)
		}
		var bt []rec
		for j := 0; j < n; j++ {
			p := pos{kind: 'k', k: next}
			if r.Chance(1, 60) || (badPos && r.Chance(1, 4)) {
				p = pos{kind: 'e'}
				o.Count("src-pos=empty")
			} else if r.Chance(1, 80) || (badPos && r.Chance(1, 8)) {
				p = pos{kind: 'n'}
				o.Count("src-pos=nil")
			} else if r.Chance(1, 80) && next > 1 {
				p = pos{kind: 'k', k: next - 1}
				o.Count("src-pos=dup")
			}
			bt = append(bt, rec{tag: next, pos: p})
			next++
		}
		c.batches = append(c.batches, bt)
	}
	return c
}
