// h_funnel drives the REAL arch-v2 engine (funnel.Worker with real SourceTask, ProcessorTask,
// DestinationTask, DLQ, Batch, runAckNacker, multiAckNacker) with in-process fake plugins.
//
//	h_funnel -comp funnel -seed S -n N -out DIR [-replay FILE]
//
// In generate mode the fakes invent their replies from a per-task PRNG *reactively* (so that
// scripts are mostly valid for the inputs they actually receive) and the replies are recorded;
// the case line written for the Lean driver contains the recorded scripts and the observed
// fan-out branch order, so the model replays exactly the same plugin behaviour. In replay mode
// the fakes pop their replies from the case line.
package main

import (
	"flag"
	"fmt"
	"os"
	"runtime"
	"runtime/debug"
	"syscall"
	"strconv"
	"strings"

	"verif/harness/gen"
)

func main() {
	comp := flag.String("comp", "funnel", "component")
	seed := flag.Uint64("seed", 1, "seed")
	n := flag.Int("n", 1000, "cases")
	out := flag.String("out", "", "output dir")
	replay := flag.String("replay", "", "replay file")
	flag.Parse()
	conc := *comp == "funnelconc" || *comp == "funnelshared" || *comp == "funnelstop"
	// Deterministic fan-out: one P, no asynchronous preemption, no GC cycles (see fanState).
	if !conc && !strings.Contains(os.Getenv("GODEBUG"), "asyncpreemptoff=1") {
		env := append(os.Environ(), "GODEBUG=asyncpreemptoff=1")
		if err := syscall.Exec("/proc/self/exe", os.Args, env); err != nil {
			panic(err)
		}
	}
	if !conc {
		runtime.GOMAXPROCS(1)
		debug.SetGCPercent(-1)
	}
	o := gen.NewOut(*out, *comp)
	defer o.Close()
	if *comp != "funnel" && !conc {
		fmt.Fprintln(os.Stderr, "unknown component")
		os.Exit(2)
	}
	if *replay != "" {
		b, err := os.ReadFile(*replay)
		if err != nil {
			panic(err)
		}
		for _, l := range strings.Split(string(b), "\n") {
			l = strings.TrimSpace(l)
			if l == "" || strings.HasPrefix(l, "#") {
				continue
			}
			c, err := parseCase(l)
			if err != nil {
				o.Case(l, "bad-op", false)
				continue
			}
			if conc {
				// corpus lines for the concurrent component are plain cases: rerun and monitor
				line, res, nt := runCase(c, nil, o, true)
				o.Case(line+" ## "+res, "ok", nt)
				continue
			}
			line, res, nt := runCase(c, nil, o, false)
			for try := 0; try < 8 && res == "skipped"; try++ {
				line, res, nt = runCase(c, nil, o, false)
			}
			if res == "skipped" {
				l = line
			}
			o.Case(l, res, nt)
		}
		return
	}
	r := gen.New(*seed)
	if *comp == "funnelshared" {
		for i := 0; i < *n; i++ {
			lines, nt := runShared(gen.New(r.U64()), o)
			for _, l := range lines {
				o.Case(l, "ok", nt)
			}
		}
		return
	}
	for i := 0; i < *n; i++ {
		c := genCase(r, o, conc && *comp != "funnelstop")
		if *comp == "funnelstop" {
			// more batches, a stop somewhere in the run
			for len(c.batches) < 4 {
				n := len(c.batches)*20 + 1
				c.batches = append(c.batches, []rec{{tag: n, pos: pos{kind: 'k', k: n}}, {tag: n + 1, pos: pos{kind: 'k', k: n + 1}}})
			}
			c.stopAt = r.Range(1, 14)
			o.Count("stop-at=" + strconv.Itoa(c.stopAt))
		}
		cs := r.U64()
		line, res, nt := runCase(c, gen.New(cs), o, conc)
		for try := 0; try < 8 && res == "skipped"; try++ {
			// not a serial run (scheduler preemption under load): same case, same seeds, again
			line, res, nt = runCase(c, gen.New(cs), o, conc)
		}
		if res == "skipped" {
			o.Count("skipped-nonserial")
		}
		if conc {
			// real goroutine interleavings: no model equality, the Lean monitors decide the trace
			o.Case(line+" ## "+res, "ok", nt)
			continue
		}
		o.Case(line, res, nt)
	}
}
