package main

import (
	"context"
	"errors"
	"fmt"
	"io"
	"regexp"
	"runtime"
	"strconv"
	"strings"
	"sync"
	"time"

	"github.com/conduitio/conduit-commons/opencdc"
	sdk "github.com/conduitio/conduit-processor-sdk"
	"github.com/conduitio/conduit/pkg/connector"
	"github.com/conduitio/conduit/pkg/foundation/cerrors"
	"github.com/conduitio/conduit/pkg/foundation/cerrors/conduiterr"
	"github.com/conduitio/conduit/pkg/foundation/log"
	"github.com/conduitio/conduit/pkg/foundation/metrics/noop"
	"github.com/conduitio/conduit/pkg/lifecycle-poc/funnel"
	"github.com/conduitio/conduit/pkg/plugin"
	"verif/harness/gen"
)

type scriptErr struct{ id int }

func (e *scriptErr) Error() string { return "script-error-" + strconv.Itoa(e.id) }

var scriptErrRe = regexp.MustCompile(`script-error-(\d+)`)

func mkRecord(r rec) opencdc.Record {
	return opencdc.Record{
		Position:  opencdc.Position(r.pos.bytes()),
		Operation: opencdc.OperationCreate,
		Metadata:  opencdc.Metadata{},
		Key:       opencdc.RawData("t" + strconv.Itoa(r.tag)),
		Payload:   opencdc.Change{After: opencdc.RawData("x")},
	}
}

func recOf(r opencdc.Record) rec {
	tag := -1
	if k, ok := r.Key.(opencdc.RawData); ok && len(k) > 1 && k[0] == 't' {
		if t, err := strconv.Atoi(string(k[1:])); err == nil {
			tag = t
		}
	}
	return rec{tag: tag, pos: posOf(r.Position)}
}

func recsStr(rs []opencdc.Record) string {
	parts := make([]string, len(rs))
	for i, r := range rs {
		parts[i] = recOf(r).String()
	}
	return strings.Join(parts, ",")
}

// env is the shared state of one case run.
type env struct {
	mu       sync.Mutex
	log      []string
	owner    []int // branch index of each log entry (-1: not a branch event)
	c        *fcase
	gen      bool
	seed     uint64
	branchOf map[int]int // task id -> fan-out branch index
	pass     int
	o        *gen.Out

	nb         int // number of fan-out branches (0/1: no fan-out)
	fan        *fanState
	orderRng   *gen.Rand
	yieldRng   *gen.Rand
	nextOrder  int
	ordersSeen [][]int
	tagSeq     int
	current    int  // branch that last passed its gate (serial mode)
	nonserial  bool // a branch event arrived while another branch was the running one
	conc       bool // real concurrency: no gating, random yields
	// component funnelstop: a graceful Stop arrives at stopAt; the log also carries the control
	// tokens of the stop protocol, replayed by the Lean driver component `workerstop`
	// (Model/WorkerStop.lean) and ignored by `funnelmon`: R<k> / RE (Source.Read returned batch k /
	// io.EOF), T (Source.Teardown called), SR / SD (Worker.Stop called / returned nil), Z (Worker.Do
	// returned; Close follows), X[late-ack], X[stop-error], result suffix "stop-hang"
	stopMode   bool
	stopAt     int  // number of log events after which Worker.Stop is called
	stopFn     func()
	stopOnce   sync.Once
	stopFired  bool
}

func (e *env) emit(task int, s string) {
	e.mu.Lock()
	defer e.mu.Unlock()
	b := -1
	if bi, ok := e.branchOf[task]; ok {
		b = bi
		if !e.conc && e.nb > 1 && e.current != b {
			// the Go scheduler preempted a running branch (sysmon's cooperative preemption can
			// still fire on a loaded machine): this run is not a serial execution
			e.nonserial = true
		}
	}
	e.log = append(e.log, s)
	e.owner = append(e.owner, b)
	if e.stopMode && e.stopFn != nil && len(e.log) >= e.stopAt {
		fn := e.stopFn
		e.stopOnce.Do(func() { e.stopFired = true; go fn() })
	}
}

// fanState serialises the branches of ONE fan-out invocation in a chosen order. The process runs
// with GOMAXPROCS=1, no async preemption and fakes that never block, so a branch that has passed
// its gate runs to completion before any other goroutine is scheduled; a waiting branch therefore
// knows the turn holder has finished as soon as it sees it has started.
type fanState struct {
	order   []int
	turn    int
	started map[int]bool
	gids    map[uint64]bool
}

func curGID() uint64 {
	var buf [64]byte
	n := runtime.Stack(buf[:], false)
	f := strings.Fields(string(buf[:n]))
	if len(f) < 2 {
		return 0
	}
	id, _ := strconv.ParseUint(f[1], 10, 64)
	return id
}

func (e *env) gate(task int) {
	b, ok := e.branchOf[task]
	if !ok {
		return
	}
	if e.conc {
		// schedule diversity: yield a random number of times
		e.mu.Lock()
		k := int(e.yieldRng.U64() % 4)
		e.mu.Unlock()
		for i := k; i > 0; i-- {
			runtime.Gosched()
		}
		return
	}
	gid := curGID()
	e.mu.Lock()
	fs := e.fan
	if fs != nil && fs.gids[gid] {
		e.mu.Unlock()
		return
	}
	if fs == nil || len(fs.started) >= e.nb {
		// a new fan-out invocation: choose (or pop) its branch order
		var order []int
		if e.gen {
			order = make([]int, e.nb)
			for i := range order {
				order[i] = i
			}
			for i := len(order) - 1; i > 0; i-- {
				j := e.orderRng.Intn(i + 1)
				order[i], order[j] = order[j], order[i]
			}
		} else {
			if e.nextOrder < len(e.c.orders) && validOrder(e.c.orders[e.nextOrder], e.nb) {
				order = e.c.orders[e.nextOrder]
			} else {
				order = make([]int, e.nb)
				for i := range order {
					order[i] = i
				}
			}
			e.nextOrder++
		}
		e.ordersSeen = append(e.ordersSeen, order)
		fs = &fanState{order: order, started: map[int]bool{}, gids: map[uint64]bool{}}
		e.fan = fs
	}
	fs.gids[gid] = true
	for spins := 0; ; spins++ {
		if fs.turn < len(fs.order) && fs.order[fs.turn] == b {
			fs.started[b] = true
			e.current = b
			break
		}
		if fs.turn < len(fs.order) && fs.started[fs.order[fs.turn]] && !branchInFlight() {
			// the turn holder has started and no branch goroutine is inside doTask any more
			// (a merely preempted one would still be): it has finished
			fs.turn++
			continue
		}
		if spins > 1000000 {
			break // never hang the harness; the mismatch will be reported
		}
		e.mu.Unlock()
		runtime.Gosched()
		e.mu.Lock()
	}
	e.mu.Unlock()
}

// branchInFlight reports whether some fan-out branch goroutine (a conc pool worker) is currently
// inside Worker.doTask and not merely waiting at a gate. The Go scheduler can preempt a running
// branch cooperatively (sysmon, after 10ms of wall time — frequent on a loaded machine), so
// "has started" alone does not mean "has finished".
func branchInFlight() bool {
	buf := make([]byte, 1<<20)
	n := runtime.Stack(buf, true)
	for _, g := range strings.Split(string(buf[:n]), "\n\n") {
		if strings.Contains(g, "pool.(*Pool).worker") && strings.Contains(g, "funnel.(*Worker).doTask") &&
			!strings.Contains(g, "main.(*env).gate") {
			return true
		}
	}
	return false
}

func validOrder(o []int, n int) bool {
	if len(o) != n {
		return false
	}
	seen := map[int]bool{}
	for _, k := range o {
		if k < 0 || k >= n || seen[k] {
			return false
		}
		seen[k] = true
	}
	return true
}

func (e *env) rng(task, call int) *gen.Rand {
	return gen.New(e.seed ^ uint64(task)*0x9E3779B97F4A7C15 ^ uint64(call)*0xC2B2AE3D27D4EB4F)
}

func (e *env) record(task int, r reply) {
	e.mu.Lock()
	e.c.scripts[task] = append(e.c.scripts[task], r)
	e.mu.Unlock()
}

// pop returns the next scripted reply in replay mode.
func (e *env) pop(task int, calls *int) (reply, bool) {
	e.mu.Lock()
	defer e.mu.Unlock()
	s := e.c.scripts[task]
	if *calls >= len(s) {
		return reply{}, false
	}
	r := s[*calls]
	*calls++
	return r, true
}

// ---------------- fake source ----------------

type fakeSource struct {
	e       *env
	next    int
	id      int     // task id (0 for the single-source component)
	batches [][]rec // nil: use the case's batches
	acks    []int   // log indices of this source's A events
	inAck   int     // Source.Ack calls in flight
	tornDown bool
}

func (s *fakeSource) ID() string                 { return "t" + strconv.Itoa(s.id) }
func (s *fakeSource) Open(context.Context) error { return nil }
func (s *fakeSource) Errors() <-chan error       { return nil }
func (s *fakeSource) Teardown(context.Context) error {
	if s.e.stopMode {
		s.e.mu.Lock()
		s.tornDown = true
		s.e.log = append(s.e.log, "T")
		s.e.owner = append(s.e.owner, -1)
		s.e.mu.Unlock()
	}
	return nil
}

func (s *fakeSource) Read(context.Context) ([]opencdc.Record, error) {
	bs := s.batches
	if bs == nil {
		bs = s.e.c.batches
	}
	if s.next >= len(bs) {
		if s.e.stopMode {
			s.e.emit(-1, "RE") // Read returns io.EOF
		}
		return nil, io.EOF
	}
	b := bs[s.next]
	s.next++
	s.e.mu.Lock()
	s.e.pass = s.next
	k := 0
	if s.e.stopMode {
		k = int(s.e.yieldRng.U64() % 4)
	}
	s.e.mu.Unlock()
	out := make([]opencdc.Record, len(b))
	for i, r := range b {
		out[i] = mkRecord(r)
	}
	if s.e.stopMode {
		// Read returns batch number s.next (1-based); a stop scheduled "after this many events" may
		// fire right here, i.e. between the return of Read and the worker's acquireProcessingLock
		s.e.emit(-1, "R"+strconv.Itoa(s.next))
		for i := 0; i < k; i++ {
			runtime.Gosched()
		}
	}
	return out, nil
}

func (s *fakeSource) Ack(_ context.Context, ps []opencdc.Position) error {
	if len(ps) == 0 {
		// the real connector.Source.Ack evaluates p[len(p)-1]: an empty call panics the process. The model never
		// emits an empty `sack` (hypothesis NoEmptyAckCall of Props/EndToEnd.lean); the token below has no model
		// counterpart, so an engine that makes such a call fails the event-log equality.
		s.e.mu.Lock()
		s.e.log = append(s.e.log, "X[empty-ack-call]")
		s.e.owner = append(s.e.owner, -1)
		s.e.mu.Unlock()
		return fmt.Errorf("Source.Ack called with no positions")
	}
	parts := make([]string, len(ps))
	for i, p := range ps {
		parts[i] = posOf(p).String()
	}
	s.e.mu.Lock()
	if s.tornDown {
		// the plugin is gone: the ack is lost (the real connector.Source returns plugin.ErrPluginNotRunning)
		s.e.log = append(s.e.log, "X[late-ack]")
		s.e.owner = append(s.e.owner, -1)
		s.e.mu.Unlock()
		return plugin.ErrPluginNotRunning
	}
	overlap := s.inAck > 0
	s.inAck++
	k := 0
	if s.e.conc {
		k = int(s.e.yieldRng.U64() % 6)
	}
	s.e.mu.Unlock()
	// a slow source plugin: the ack takes effect (is logged) when the call completes
	for i := 0; i < k; i++ {
		runtime.Gosched()
	}
	if s.e.conc && k == 5 {
		time.Sleep(50 * time.Microsecond)
	}
	s.e.mu.Lock()
	s.inAck--
	s.acks = append(s.acks, len(s.e.log))
	ev := "A[" + strings.Join(parts, ",") + "]"
	if overlap {
		ev = "X[overlap]"
	}
	s.e.log = append(s.e.log, ev)
	s.e.owner = append(s.e.owner, -1)
	s.e.mu.Unlock()
	return nil
}

// ---------------- fake processor ----------------

type fakeProc struct {
	e     *env
	id    int
	calls int
	root  *sharedRef // component funnelshared: the shared root this processor belongs to
}

// sharedRef: the shared-boundary root a fake of the shared sink sits in (component funnelshared).
// The fakes record the control tokens of the shared-sink protocol, replayed by the Lean driver
// component `sharedsink` (Model/SharedSink.lean) and ignored by `funnelmon` (every token starting
// with 'S'):
//
//	SN[R:W]                 R shared roots, W source workers (first token)
//	SP[r:src:l:p]           shared processor call inside root r on a batch of source src
//	SW<d>[r:src:q:ok:l:p]   Destination.Write on d (root r) of records of source src; the
//	                        destination queued q acks on its stream; ok=0: Write returned an error
//	SK<d>[r:src:n:l:p]      one Destination.Ack() call on d by the goroutine that wrote for source
//	                        src: a response with n acks was consumed (0: error / empty stream)
//	SZ[src:ok|err|psn]      Worker.Do of source src returned (psn: CodeSharedDestinationPoisoned)
//
// l / p: the root's sharedMu was held / its poison latch was set at that instant
// (TaskNode.VerifSharedState, build tag verif).
type sharedRef struct {
	node *funnel.TaskNode
	idx  int
}

func (r *sharedRef) probe() string {
	_, l, p := r.node.VerifSharedState()
	b := func(x bool) string {
		if x {
			return "1"
		}
		return "0"
	}
	return b(l) + ":" + b(p)
}

// srcOfRecs: index of the source the records belong to (component funnelshared: tag = 100*src + n,
// split pieces 1000*i + tag); -1 when unknown.
func srcOfRecs(rs []opencdc.Record) int {
	if len(rs) == 0 {
		return -1
	}
	t := recOf(rs[0]).tag
	if t < 0 {
		return -1
	}
	return (t % 1000) / 100
}

func (p *fakeProc) Open(context.Context) error     { return nil }
func (p *fakeProc) Teardown(context.Context) error { return nil }

func (p *fakeProc) Process(_ context.Context, in []opencdc.Record) []sdk.ProcessedRecord {
	p.e.gate(p.id)
	if p.root != nil {
		p.e.emit(-1, fmt.Sprintf("SP[%d:%d:%s]", p.root.idx, srcOfRecs(in), p.root.probe()))
	}
	p.e.emit(p.id, fmt.Sprintf("P%d[%s]", p.id, recsStr(in)))
	var rp reply
	if p.e.gen {
		rp = genProcReply(p.e, p.e.rng(p.id, p.calls), in, p.e.o)
		p.calls++
		p.e.record(p.id, rp)
	} else {
		var ok bool
		rp, ok = p.e.pop(p.id, &p.calls)
		if !ok || rp.isDest {
			return nil
		}
	}
	out := make([]sdk.ProcessedRecord, len(rp.out))
	for i, x := range rp.out {
		switch x.kind {
		case 's':
			out[i] = sdk.SingleRecord(mkRecord(x.rec))
		case 'f':
			out[i] = sdk.FilterRecord{}
		case 'x':
			if x.err < 0 {
				out[i] = sdk.ErrorRecord{Error: nil}
			} else {
				out[i] = sdk.ErrorRecord{Error: &scriptErr{x.err}}
			}
		case 'm':
			m := make(sdk.MultiRecord, len(x.multi))
			for j, r := range x.multi {
				m[j] = mkRecord(r)
			}
			out[i] = m
		case 'z':
			out[i] = nil
		}
	}
	return out
}

// fresh derives a tag that is unique within the case and keeps the lineage root (tag % 1000).
func (e *env) fresh(tag int) int {
	e.mu.Lock()
	defer e.mu.Unlock()
	e.tagSeq++
	return tag%1000 + 1000*e.tagSeq
}

func genProcReply(e *env, r *gen.Rand, in []opencdc.Record, o *gen.Out) reply {
	rp := reply{}
	calm := r.Chance(1, 3) // a third of the calls pass everything through
	for _, rc := range in {
		cur := recOf(rc)
		k := r.Pick(55, 8, 10, 8, 2, 3, 8, 5, 1)
		if calm {
			k = 0
		}
		switch k {
		case 0:
			rp.out = append(rp.out, pr{kind: 's', rec: cur})
		case 1: // modified record, sometimes a rewritten position
			nr := rec{tag: e.fresh(cur.tag), pos: cur.pos}
			if r.Chance(1, 3) {
				nr.pos = []pos{{kind: 'n'}, {kind: 'e'}, {kind: 'k', k: 7000 + r.Intn(5)}}[r.Intn(3)]
			}
			rp.out = append(rp.out, pr{kind: 's', rec: nr})
		case 2:
			rp.out = append(rp.out, pr{kind: 'f'})
		case 3:
			rp.out = append(rp.out, pr{kind: 'x', err: 100 + r.Intn(50)})
		case 4:
			rp.out = append(rp.out, pr{kind: 'm'})
		case 5:
			rp.out = append(rp.out, pr{kind: 'm', multi: []rec{{tag: e.fresh(cur.tag), pos: cur.pos}}})
		case 6:
			n := r.Range(2, 3)
			var ms []rec
			for j := 0; j < n; j++ {
				p := cur.pos
				if j > 0 || r.Chance(1, 4) {
					p = []pos{cur.pos, {kind: 'n'}, {kind: 'k', k: 8000 + r.Intn(9)}}[r.Intn(3)]
				}
				ms = append(ms, rec{tag: e.fresh(cur.tag), pos: p})
			}
			rp.out = append(rp.out, pr{kind: 'm', multi: ms})
		case 7:
			rp.out = append(rp.out, pr{kind: 'z'})
		case 8:
			rp.out = append(rp.out, pr{kind: 'x', err: -1})
			o.Count("proc-reply=nil-error")
		}
	}
	switch r.Pick(90, 5, 3, 2) {
	case 1: // fewer
		if len(rp.out) > 0 {
			rp.out = rp.out[:r.Intn(len(rp.out))+0]
			if len(rp.out) == 0 && r.Chance(1, 2) && len(in) > 0 {
				rp.out = []pr{{kind: 's', rec: recOf(in[0])}}
			}
		}
		o.Count("proc-reply=fewer")
	case 2: // more
		rp.out = append(rp.out, []pr{{kind: 's', rec: rec{tag: 9999, pos: pos{kind: 'k', k: 9999}}}, {kind: 'f'}, {kind: 'z'}, {kind: 'x', err: 77}}[r.Intn(4)])
		o.Count("proc-reply=more")
	case 3: // none
		rp.out = nil
		o.Count("proc-reply=none")
	default:
		o.Count("proc-reply=same-length")
	}
	return rp
}

// ---------------- fake destination ----------------

type fakeDest struct {
	e       *env
	id      int
	dlq     bool
	stream  bool // ack responses form ONE stream: what a failed pass left unread is still there for the next reader
	calls   int
	pending []ackResp
	root    *sharedRef     // component funnelshared: the shared root this destination belongs to
	writer  map[uint64]int // goroutine -> source whose records it wrote last (attribution of Ack calls)
}

func (d *fakeDest) ID() string                     { return "t" + strconv.Itoa(d.id) }
func (d *fakeDest) Open(context.Context) error     { return nil }
func (d *fakeDest) Teardown(context.Context) error { return nil }
func (d *fakeDest) Errors() <-chan error           { return nil }

func (d *fakeDest) Write(_ context.Context, rs []opencdc.Record) error {
	d.e.gate(d.id)
	if d.dlq {
		parts := make([]string, len(rs))
		for i, r := range rs {
			parts[i] = dlqStr(r)
		}
		d.e.emit(d.id, fmt.Sprintf("Q%d[%s]", d.id, strings.Join(parts, ",")))
	} else {
		d.e.emit(d.id, fmt.Sprintf("W%d[%s]", d.id, recsStr(rs)))
	}
	var rp reply
	if d.e.gen {
		rp = genDestReply(d.e.rng(d.id, d.calls), rs, d.dlq, d.e.o, d.stream)
		d.calls++
		d.e.record(d.id, rp)
	} else {
		var ok bool
		rp, ok = d.e.pop(d.id, &d.calls)
		if !ok || !rp.isDest {
			d.pending = nil
			return &scriptErr{999}
		}
	}
	if d.stream {
		d.pending = append(d.pending, rp.resps...)
	} else {
		d.pending = rp.resps
	}
	if d.root != nil {
		q := 0
		for _, rr := range rp.resps {
			q += len(rr.acks)
		}
		ok := 1
		if rp.writeErr >= 0 {
			ok = 0
		}
		src := srcOfRecs(rs)
		d.e.mu.Lock()
		if d.writer == nil {
			d.writer = map[uint64]int{}
		}
		d.writer[curGID()] = src
		d.e.mu.Unlock()
		d.e.emit(-1, fmt.Sprintf("SW%d[%d:%d:%d:%d:%s]", d.id, d.root.idx, src, q, ok, d.root.probe()))
	}
	if rp.writeErr >= 0 {
		return &scriptErr{rp.writeErr}
	}
	return nil
}

func (d *fakeDest) Ack(context.Context) ([]connector.DestinationAck, error) {
	sk := func(n int) {
		if d.root == nil {
			return
		}
		d.e.mu.Lock()
		src, ok := d.writer[curGID()]
		d.e.mu.Unlock()
		if !ok {
			src = -1
		}
		d.e.emit(-1, fmt.Sprintf("SK%d[%d:%d:%d:%s]", d.id, d.root.idx, src, n, d.root.probe()))
	}
	if len(d.pending) == 0 {
		sk(0)
		return nil, &scriptErr{999}
	}
	a := d.pending[0]
	d.pending = d.pending[1:]
	if a.err >= 0 {
		sk(0)
		return nil, &scriptErr{a.err}
	}
	sk(len(a.acks))
	out := make([]connector.DestinationAck, len(a.acks))
	for i, k := range a.acks {
		out[i] = connector.DestinationAck{Position: opencdc.Position(k.pos.bytes())}
		if k.err >= 0 {
			out[i].Error = &scriptErr{k.err}
		}
	}
	return out, nil
}

func dlqStr(r opencdc.Record) string {
	tag, p := -1, pos{kind: 'n'}
	if sd, ok := r.Payload.After.(opencdc.StructuredData); ok {
		switch k := sd["key"].(type) {
		case []byte:
			if len(k) > 1 {
				tag, _ = strconv.Atoi(string(k[1:]))
			}
		case string:
			if len(k) > 1 {
				tag, _ = strconv.Atoi(k[1:])
			}
		case opencdc.RawData:
			if len(k) > 1 {
				tag, _ = strconv.Atoi(string(k[1:]))
			}
		}
		switch b := sd["position"].(type) {
		case []byte:
			p = posOf(b)
		case opencdc.Position:
			p = posOf(b)
		}
	}
	es := "?"
	if msg, err := r.Metadata.GetConduitDLQNackError(); err == nil {
		if m := scriptErrRe.FindStringSubmatch(msg); m != nil {
			es = m[1]
		}
	}
	task := "?"
	if n, err := r.Metadata.GetConduitDLQNackNodeID(); err == nil {
		task = strings.TrimPrefix(n, "t")
	}
	// the DLQ record's own position must be the failed record's position
	if posOf(r.Position) != p {
		es += "(pos-mismatch)"
	}
	return fmt.Sprintf("%d:%s!%s@%s", tag, p, es, task)
}

func genDestReply(r *gen.Rand, rs []opencdc.Record, dlq bool, o *gen.Out, stream bool) reply {
	rp := reply{isDest: true, writeErr: -1}
	if r.Chance(1, 40) {
		rp.writeErr = 200 + r.Intn(20)
		o.Count("dest-reply=write-error")
		return rp
	}
	errPct := 12
	if dlq {
		errPct = 4
	}
	calm := r.Chance(1, 3)
	var all []ack
	for _, rc := range rs {
		a := ack{pos: posOf(rc.Position), err: -1}
		if !calm && r.Intn(100) < errPct {
			a.err = 300 + r.Intn(50)
		}
		all = append(all, a)
	}
	// malformed stream
	mal := r.Pick(93, 1, 1, 1, 1, 1, 1, 1)
	if stream && mal == 0 && r.Chance(1, 10) {
		mal = 6 // a failing ack read in the middle of a write: the rest of the reply stays in the stream
	}
	if stream && (mal == 2 || mal == 5 || mal == 7) {
		// on a shared ack stream a surplus / empty response would be left unread by a CORRECT engine
		// and desynchronise the fake itself; keep to shapes that poison the destination or are consumed
		mal = 6
	}
	switch mal {
	case 1:
		if len(all) > 0 {
			all[r.Intn(len(all))].pos = pos{kind: 'k', k: 5555}
		}
		o.Count("dest-reply=wrong-position")
	case 2:
		all = append(all, ack{pos: pos{kind: 'k', k: 6666}, err: -1})
		o.Count("dest-reply=extra-ack")
	case 3:
		if len(all) > 1 {
			all[0], all[1] = all[1], all[0]
		}
		o.Count("dest-reply=out-of-order")
	case 4:
		if len(all) > 0 {
			all = all[:len(all)-1]
		}
		o.Count("dest-reply=short")
	}
	// partition into Ack() responses
	for len(all) > 0 {
		n := len(all)
		if r.Chance(1, 2) {
			n = r.Range(1, len(all))
		}
		rp.resps = append(rp.resps, ackResp{err: -1, acks: all[:n]})
		all = all[n:]
	}
	switch mal {
	case 5:
		i := 0
		if len(rp.resps) > 0 {
			i = r.Intn(len(rp.resps) + 1)
		}
		rp.resps = append(rp.resps[:i:i], append([]ackResp{{err: -1}}, rp.resps[i:]...)...)
		o.Count("dest-reply=empty-response")
	case 6:
		i := 0
		if len(rp.resps) > 0 {
			i = r.Intn(len(rp.resps))
		}
		rp.resps = append(rp.resps[:i:i], append([]ackResp{{err: 400 + r.Intn(9)}}, rp.resps[i:]...)...)
		o.Count("dest-reply=ack-error")
	case 7:
		rp.resps = nil
		for range rs {
			rp.resps = append(rp.resps, ackResp{err: -1})
		}
		o.Count("dest-reply=all-empty")
	}
	if mal == 0 {
		o.Count("dest-reply=well-formed")
	}
	return rp
}

// ---------------- running a case ----------------

func build(e *env, n *node, branch int, isFanChild bool) *funnel.TaskNode {
	logger := log.Nop()
	var t funnel.Task
	switch n.kind {
	case 'P':
		t = funnel.NewProcessorTask("t"+strconv.Itoa(n.id), &fakeProc{e: e, id: n.id}, logger, funnel.NoOpProcessorMetrics{})
	case 'D':
		t = funnel.NewDestinationTask("t"+strconv.Itoa(n.id), &fakeDest{e: e, id: n.id}, logger, funnel.NoOpConnectorMetrics{})
	}
	if branch >= 0 {
		e.branchOf[n.id] = branch
	}
	tn := &funnel.TaskNode{Task: t}
	for i, k := range n.next {
		b := branch
		if len(n.next) > 1 && branch < 0 {
			b = i
		}
		tn.Next = append(tn.Next, build(e, k, b, len(n.next) > 1))
	}
	return tn
}

func classify(err error) string {
	if err == nil {
		return "ok"
	}
	f := 0
	if cerrors.IsFatalError(err) {
		f = 1
	}
	code := "-"
	if ce, ok := conduiterr.Get(err); ok && ce != nil {
		code = ce.Code.Reason()
	}
	sc := "-"
	var se *scriptErr
	if errors.As(err, &se) {
		sc = strconv.Itoa(se.id)
	}
	return fmt.Sprintf("err fatal=%d code=%s script=%s", f, code, sc)
}

func runCase(c *fcase, r *gen.Rand, o *gen.Out, conc bool) (line, res string, nontrivial bool) {
	e := &env{c: c, gen: r != nil, branchOf: map[int]int{}, o: o, conc: conc, stopMode: c.stopAt > 0, stopAt: c.stopAt}
	if r != nil {
		e.seed = r.U64()
		e.orderRng = gen.New(r.U64())
		c.scripts = map[int][]reply{}
		c.orders = nil
	}
	e.yieldRng = gen.New(e.seed + 77)
	if false {
	}
	src := &fakeSource{e: e}
	first := &funnel.TaskNode{Task: funnel.NewSourceTask("t0", src, log.Nop(), funnel.NoOpConnectorMetrics{})}
	for i, k := range c.tree.next {
		b := -1
		if len(c.tree.next) > 1 {
			b = i
		}
		first.Next = append(first.Next, build(e, k, b, len(c.tree.next) > 1))
	}
	dlqDest := &fakeDest{e: e, id: 99, dlq: true}
	dlq := funnel.NewDLQ("t99", dlqDest, log.Nop(), funnel.NoOpConnectorMetrics{}, c.size, c.thr)
	for _, b := range e.branchOf {
		if b+1 > e.nb {
			e.nb = b + 1
		}
	}
	w, err := funnel.NewWorker(first, dlq, log.Nop(), noop.Timer{})
	if err != nil {
		return c.line(), "new-worker-error", false
	}
	result := ""
	stopped := make(chan struct{})
	if e.stopMode {
		e.stopFn = func() {
			defer close(stopped)
			// a graceful stop as lifecycle-poc issues it: Worker.Stop takes the processing lock,
			// sets the stop flag and tears the source down
			e.emit(-1, "SR") // Stop requested
			if err := w.Stop(context.Background()); err != nil {
				e.emit(-1, "X[stop-error]")
			} else {
				e.emit(-1, "SD") // Stop returned nil
			}
		}
	}
	func() {
		defer func() {
			if p := recover(); p != nil {
				result = "panic"
			}
		}()
		result = classify(w.Do(context.Background()))
	}()
	if e.stopMode {
		e.emit(-1, "Z") // Do returned (result after "=>"); Close follows once Stop is back
		e.mu.Lock()
		fired := e.stopFired
		e.mu.Unlock()
		if fired {
			select {
			case <-stopped:
			case <-time.After(5 * time.Second):
				result += " stop-hang"
			}
		}
		_ = w.Close(context.Background())
	}
	nb := e.nb
	if r != nil && !conc {
		c.orders = e.ordersSeen
	}
	if e.nonserial && !conc {
		return "skip nonserial", "skipped", false
	}
	res = strings.Join(e.log, " ; ") + " => " + result
	nontrivial = strings.Contains(res, "Q99") || strings.Contains(res, "err ") || nb > 1 || strings.Contains(c.line(), "m[") || strings.Contains(c.line(), ",z") || strings.Contains(c.line(), ",f")
	o.Count("result=" + strings.SplitN(result, " ", 2)[0])
	return c.line(), res, nontrivial
}

// ---------------- several sources sharing one sink (component funnelshared) ----------------

// runShared builds N workers (one per source, each with its own DLQ and an optional source-level
// processor) attached to ONE shared tail (optional shared processor + 1-2 destinations) exactly
// as lifecycle-poc buildRunnablePipeline does (funnel.NewSink marks the shared boundary), runs
// the workers concurrently and returns one monitor line per source: the case as seen by that
// source plus the global event log without the other sources' acks.
func runShared(r *gen.Rand, o *gen.Out) (lines []string, nontrivial bool) {
	c := &fcase{scripts: map[int][]reply{}}
	switch r.Pick(3, 3, 2) {
	case 0:
		c.size, c.thr = 0, 0
	case 1:
		c.size = r.Range(1, 5)
		c.thr = r.Range(0, c.size)
	default:
		c.size, c.thr = 20, 19
	}
	e := &env{c: c, gen: true, branchOf: map[int]int{}, o: o, conc: true}
	e.seed = r.U64()
	e.yieldRng = gen.New(e.seed + 77)
	logger := log.Nop()
	nsrc := r.Range(2, 3)
	ndst := r.Range(1, 2)
	sharedProc := r.Chance(1, 2)
	samePos := r.Chance(2, 3)
	o.Count(fmt.Sprintf("shared: sources=%d dests=%d sharedProc=%v samePos=%v", nsrc, ndst, sharedProc, samePos))
	// shared tail
	var destNodes []*funnel.TaskNode
	var sharedDests []*fakeDest
	tailStr := ""
	for d := 0; d < ndst; d++ {
		id := 10 + d
		e.branchOf[id] = d
		fd := &fakeDest{e: e, id: id, stream: true}
		sharedDests = append(sharedDests, fd)
		destNodes = append(destNodes, &funnel.TaskNode{Task: funnel.NewDestinationTask("t"+strconv.Itoa(id), fd, logger, funnel.NoOpConnectorMetrics{})})
		if d > 0 {
			tailStr += ","
		}
		tailStr += "D" + strconv.Itoa(id)
	}
	roots := destNodes
	if sharedProc {
		sp := &fakeProc{e: e, id: 1}
		pn := &funnel.TaskNode{Task: funnel.NewProcessorTask("t1", sp, logger, funnel.NoOpProcessorMetrics{})}
		pn.Next = destNodes
		roots = []*funnel.TaskNode{pn}
		tailStr = "P1(" + tailStr + ")"
		sp.root = &sharedRef{node: pn, idx: 0}
		for _, fd := range sharedDests {
			fd.root = sp.root
		}
	} else {
		for i, fd := range sharedDests {
			fd.root = &sharedRef{node: destNodes[i], idx: i}
		}
	}
	if _, err := funnel.NewSink(roots...); err != nil {
		return nil, false
	}
	type srcState struct {
		src     *fakeSource
		w       *funnel.Worker
		tree    string
		batches [][]rec
		result  string
	}
	var srcs []*srcState
	for sidx := 0; sidx < nsrc; sidx++ {
		st := &srcState{}
		next := 1
		for i, nb := 0, r.Range(1, 3); i < nb; i++ {
			var bt []rec
			for j, n := 0, r.Range(1, 5); j < n; j++ {
				root := sidx*100 + next
				pk := root
				if samePos {
					pk = next // sources of the same kind produce the same position values (offsets)
				}
				bt = append(bt, rec{tag: root, pos: pos{kind: 'k', k: pk}})
				next++
			}
			st.batches = append(st.batches, bt)
		}
		st.src = &fakeSource{e: e, id: 200 + sidx, batches: st.batches}
		first := &funnel.TaskNode{Task: funnel.NewSourceTask("t"+strconv.Itoa(200+sidx), st.src, logger, funnel.NoOpConnectorMetrics{})}
		tail := first
		inner := tailStr
		if r.Chance(1, 2) {
			pid := 210 + sidx
			pn := &funnel.TaskNode{Task: funnel.NewProcessorTask("t"+strconv.Itoa(pid), &fakeProc{e: e, id: pid}, logger, funnel.NoOpProcessorMetrics{})}
			tail.Next = []*funnel.TaskNode{pn}
			tail = pn
			inner = "P" + strconv.Itoa(pid) + "(" + tailStr + ")"
		}
		if err := tail.AppendToEnd(roots...); err != nil {
			return nil, false
		}
		st.tree = "S" + strconv.Itoa(200+sidx) + "(" + inner + ")"
		dlqID := 99 - sidx
		dlq := funnel.NewDLQ("t"+strconv.Itoa(dlqID), &fakeDest{e: e, id: dlqID, dlq: true}, logger, funnel.NoOpConnectorMetrics{}, c.size, c.thr)
		w, err := funnel.NewWorker(first, dlq, logger, noop.Timer{})
		if err != nil {
			return nil, false
		}
		st.w = w
		srcs = append(srcs, st)
	}
	e.emit(-1, fmt.Sprintf("SN[%d:%d]", len(roots), len(srcs)))
	var wg sync.WaitGroup
	for sidx, st := range srcs {
		wg.Add(1)
		go func(sidx int, st *srcState) {
			defer wg.Done()
			defer func() {
				if p := recover(); p != nil {
					st.result = "panic"
					e.emit(-1, fmt.Sprintf("SZ[%d:err]", sidx))
				}
			}()
			st.result = classify(st.w.Do(context.Background()))
			cls := "err"
			if st.result == "ok" {
				cls = "ok"
			} else if strings.Contains(st.result, "shared_destination_poisoned") || strings.Contains(st.result, "SharedDestinationPoisoned") {
				cls = "psn"
			}
			e.emit(-1, fmt.Sprintf("SZ[%d:%s]", sidx, cls))
		}(sidx, st)
	}
	wg.Wait()
	for _, st := range srcs {
		other := map[int]bool{}
		for _, o2 := range srcs {
			if o2 != st {
				for _, i := range o2.src.acks {
					other[i] = true
				}
			}
		}
		var evs []string
		for i, ev := range e.log {
			if !other[i] {
				evs = append(evs, ev)
			}
		}
		cc := &fcase{size: c.size, thr: c.thr, scripts: c.scripts, batches: st.batches}
		n, _, _ := parseNode(st.tree)
		cc.tree = n
		lines = append(lines, cc.line()+" ## "+strings.Join(evs, " ; ")+" => "+st.result)
		o.Count("shared-result=" + strings.SplitN(st.result, " ", 2)[0])
	}
	return lines, true
}
