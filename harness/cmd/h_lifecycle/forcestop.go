package main

// Component `forcestop` (C12): the real stream.forceStopper driven by a sequence of start (s) /
// stop (t) calls; the result is, per start call in order, whether its connector context is
// cancelled after the whole sequence. Compared for equality with the Lean latch model.

import (
	"strings"

	"github.com/conduitio/conduit/pkg/lifecycle/stream"

	"verif/harness/gen"
)

func runLatch(seq string) string {
	var f stream.VerifForceStopper
	var probes []func() bool
	for _, c := range seq {
		switch c {
		case 's':
			probes = append(probes, f.Start())
		case 't':
			f.Stop()
		default:
			return "bad-op"
		}
	}
	var b strings.Builder
	for _, p := range probes {
		if p() {
			b.WriteByte('1')
		} else {
			b.WriteByte('0')
		}
	}
	if b.Len() == 0 {
		return "-"
	}
	return b.String()
}

func runForceStop(o *gen.Out, seed uint64, n int, replay string) {
	emit := func(seq string) {
		res := func() (r string) {
			defer func() {
				if p := recover(); p != nil {
					r = "panic"
				}
			}()
			return runLatch(seq)
		}()
		o.Case(seq, res, strings.Contains(seq, "s") && strings.Contains(seq, "t"))
	}
	if replay != "" {
		for _, l := range readLines(replay) {
			emit(l)
		}
		return
	}
	r := gen.New(seed)
	for i := 0; i < n; i++ {
		var b strings.Builder
		// mostly the node's real usage (exactly one start), plus arbitrary sequences
		if r.Chance(3, 4) {
			pre, post := r.Intn(3), r.Intn(3)
			b.WriteString(strings.Repeat("t", pre) + "s" + strings.Repeat("t", post))
			o.Count("shape:one-start")
		} else {
			k := r.Range(0, 8)
			for j := 0; j < k; j++ {
				if r.Chance(1, 2) {
					b.WriteByte('s')
				} else {
					b.WriteByte('t')
				}
			}
			o.Count("shape:arbitrary")
		}
		if b.Len() == 0 {
			b.WriteString("t")
		}
		emit(b.String())
	}
}
