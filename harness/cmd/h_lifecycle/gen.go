package main

// Seeded structured generator of lifecycle histories.
//
// Op grammar (comma separated):
//   start | stop:g | stop:f | saw | stopall:g | stopall:f(v2) | wait:<k> | join:<k>
//   inj:T | inj:F            the open source plugin fails with a transient / fatal error
//   openfail                 the next source Open fails
//   dtf:T | dtf:F            the next destination Teardown fails (v2: shared sink close error)
//   storefail                the next pipeline-store write fails (an UpdateStatus returns an error)
//   await:<status> | settle | sleep:<ms>        scheduling only (no trace event)
//   gate:<p> | reach:<p> | open:<p>             pause the service goroutine that logs point p
//                                               (stopped | starting | started | backoff | recovering)

import (
	"fmt"

	"verif/harness/gen"
)

func genCase(r *gen.Rand, o *gen.Out, eng, focus string) (caseCfg, []string) {
	cfg := caseCfg{eng: eng, minDelay: 25, maxDelay: 60, window: 250, nrec: r.Intn(3)}
	cfg.maxRetries = []int{0, 1, 2, 3, -1}[r.Pick(2, 3, 3, 2, 2)]
	past := fmt.Sprintf("sleep:%d", cfg.maxDelay+25) // past any back-off
	var ops []string
	add := func(x ...string) { ops = append(ops, x...) }
	// family weights per property focus (families: 0 random walk, 1 stop during back-off, 2 repeated
	// graceful stop while draining, 3 Start inside a terminating run's tail, 4 Start overlapping the
	// nested Start of a recovery, 5 overlapping waits, 6 shutdown, 7 retries to exhaustion, 8 store
	// failures, 9 v1 tomb bookkeeping race)
	w := []int{40, 8, 8, 8, 8, 7, 7, 6, 8, 5, 8, 5, 5, 6}
	switch focus {
	case "c10":
		w = []int{36, 12, 10, 0, 0, 2, 12, 12, 6, 10, 14, 3, 3, 3}
	case "c11":
		w = []int{36, 3, 0, 14, 12, 14, 4, 3, 10, 4, 3, 12, 12, 12}
	case "c12":
		w = []int{50, 10, 0, 12, 0, 10, 4, 4, 4, 6, 16, 2, 3, 3}
	}
	fam := r.Pick(w...)
	forceBias := focus == "c12"
	o.Count(fmt.Sprintf("family:%d", fam))
	o.Count(fmt.Sprintf("maxRetries:%d", cfg.maxRetries))
	kind := func() string {
		if r.Chance(1, 3) {
			return "F"
		}
		return "T"
	}
	gf := func() string {
		if r.Chance(1, 3) || (forceBias && r.Chance(1, 2)) {
			return "f"
		}
		return "g"
	}
	switch fam {
	case 0: // random walk, mostly valid
		mode := "stopped"
		steps := r.Range(3, 9)
		wk := 0
		openWaits := []int{}
		for i := 0; i < steps; i++ {
			settle := r.Chance(9, 10)
			switch mode {
			case "stopped":
				switch r.Pick(10, 1, 1, 1) {
				case 0:
					if r.Chance(1, 12) {
						add("openfail")
					}
					add("start")
					mode = "running"
				case 1:
					add("stop:" + gf())
				case 2:
					add("saw")
				case 3:
					wk++
					add(fmt.Sprintf("wait:%d", wk), fmt.Sprintf("join:%d", wk))
				}
			case "running":
				switch r.Pick(4, 3, 5, 1, 2, 2, 1) {
				case 0:
					add("stop:g")
					mode = "stopped"
				case 1:
					add("stop:f")
					mode = "stopped"
				case 2:
					k := kind()
					add("inj:" + k)
					if k == "F" {
						add("await:deg")
						mode = "stopped"
					} else {
						add("await:rec")
						if r.Chance(2, 3) {
							add(past)
							mode = "running" // or degraded when retries are exhausted; the walk is only mostly valid
						} else {
							mode = "recovering"
						}
					}
				case 3:
					add("start")
				case 4:
					add("saw")
					mode = "stopped"
				case 5:
					wk++
					add(fmt.Sprintf("wait:%d", wk))
					openWaits = append(openWaits, wk)
				case 6:
					if eng == "v2" && r.Chance(1, 3) {
						add("stopall:f")
					} else {
						add("stopall:g")
					}
					mode = "stopped"
				}
			case "recovering":
				switch r.Pick(3, 2, 2, 1, 2) {
				case 0:
					add("stop:" + gf())
				case 1:
					add("start")
					mode = "running"
				case 2:
					add(past)
					mode = "running"
				case 3:
					add("stopall:g")
				case 4:
					add("saw")
				}
			}
			if settle {
				add("settle")
			}
		}
		add(past, "settle")
		if len(openWaits) > 0 {
			add("stop:f", "settle", past, "settle", "stop:f", "settle")
		}
		for _, k := range openWaits {
			add(fmt.Sprintf("join:%d", k))
		}
	case 1: // stop / stopall during the recovery back-off (F9 shape)
		add("start", "settle", "inj:T", "await:rec")
		switch r.Pick(3, 2, 2, 1) {
		case 0:
			add("stop:g")
		case 1:
			add("stop:f")
		case 2:
			add("stopall:g")
		case 3:
			add("saw")
		}
		add(past, "settle")
		if r.Chance(1, 2) {
			add("stop:g", "settle")
		}
	case 2: // repeated graceful stop while the run drains (second stop lands inside the teardown)
		add("start", "settle", "gate:dt")
		if r.Chance(2, 3) {
			add("dtf:T")
		}
		if eng == "v2" {
			// v2 Stop returns after the source teardown; the shared sink is closed by the cleanup goroutine
			add("stop:g", "reach:dt")
			if r.Chance(2, 3) {
				add("stop:g")
			}
		} else {
			add("stop:g")
			if r.Chance(1, 2) {
				add("stop:g")
			}
		}
		add("open:dt", past, "settle")
	case 3: // a user Start lands between a terminating run's status write and its map delete
		add("start", "settle", "gate:stopped")
		switch r.Pick(2, 2, 1) {
		case 0:
			add("stop:g")
		case 1:
			add("inj:F")
		case 2:
			add("stop:f")
		}
		add("reach:stopped", "start", "open:stopped", "settle")
		switch r.Pick(2, 1, 1) {
		case 0:
			add("stop:g")
		case 1:
			add("saw")
		case 2:
			add("wait:1", "stop:f", "join:1")
		}
		add("settle")
	case 4: // a user Start overlaps the nested Start of a recovery
		add("start", "settle", "gate:starting", "inj:T", "reach:starting", "start", "open:starting", past, "settle")
		if r.Chance(1, 2) {
			add("stop:g", "settle")
		}
	case 5: // overlapping waits across failure / stop / restart
		add("start", "settle", "wait:1")
		switch r.Pick(2, 2, 2, 1) {
		case 0:
			add("inj:T", "await:rec", "wait:2", past)
		case 1:
			add("inj:F", "await:deg", "wait:2")
		case 2:
			add("stop:f", "wait:2")
		case 3:
			add("stop:g", "wait:2")
		}
		add("settle", "wait:3", "settle")
		if r.Chance(1, 2) {
			add("stop:g", "settle")
		}
		add("stop:f", "settle", past, "settle", "stop:f", "settle", "join:1", "join:2", "join:3")
	case 6: // shutdown: StopAll while running / recovering, transient failure during shutdown
		add("start", "settle")
		switch r.Pick(2, 2, 2) {
		case 0:
			add("stopall:g", "settle")
		case 1:
			add("inj:T", "await:rec", "stopall:g", past, "settle")
		case 2:
			add("dtf:T", "stopall:g", past, "settle")
		}
		if r.Chance(1, 3) {
			add("start", "settle", "stop:g", "settle")
		}
	case 7: // retries until exhaustion; half of the cases space the failures beyond MaxRetriesWindow
		// (the attempt counter must have been decremented again by then)
		add("start", "settle")
		k := r.Range(1, 4)
		spaced := r.Chance(1, 2)
		for i := 0; i < k; i++ {
			add("inj:T", "await:rec", past, "settle")
			if spaced {
				add(fmt.Sprintf("sleep:%d", cfg.window+cfg.maxDelay+220), "settle")
			}
		}
		if r.Chance(1, 2) {
			add("start", "settle", "stop:"+gf(), "settle")
		}
	case 9: // v1: a node's error is returned but not yet recorded on the tomb when the cleanup wakes
		add("start", "settle", "gate:nodestopped", "inj:"+kind(), "reach:nodestopped", "settle", "open:nodestopped", past, "settle")
	case 10: // a stop / shutdown whose drain cannot finish (destination withholds its acks), then a force
		// stop; and a FATAL error surfacing while a graceful stop / shutdown is in progress
		switch r.Pick(4, 2, 3, 2) {
		case 0: // StopAll(graceful), drain blocked, force Stop
			if cfg.nrec == 0 {
				cfg.nrec = 1
			}
			add("hold", "start", "settle", "astopall:g:1", "sleep:15", "stop:f", "settle", "release", "join:1", past, "settle")
		case 1: // user graceful Stop, drain blocked, force Stop (v1 Stop returns at once; v2 Stop waits for the batch)
			if cfg.nrec == 0 {
				cfg.nrec = 1
			}
			if eng == "v1" {
				add("hold", "start", "settle", "stop:g", "sleep:15", "stop:f", "settle", "release", past, "settle")
			} else {
				add("hold", "start", "settle", "astopall:f:1", "join:1", "settle", "release", past, "settle")
			}
		case 2: // fatal teardown error during the shutdown drain
			add("start", "settle", "dtf:F", "stopall:g", past, "settle")
		case 3: // … during a user's graceful stop
			if r.Chance(1, 2) {
				add("start", "settle", "dtf:F", "stop:g", past, "settle")
			} else {
				add("start", "settle", "dtf:F", "saw", past, "settle")
			}
		}
		if r.Chance(1, 3) {
			add("start", "settle", "stop:g", "settle")
		}
	case 11: // the run ends while its own StatusRunning write is still in flight (slow status store, source
		// that fails on its first Read): the terminal status must not be overwritten by the late Running
		k := kind()
		add("holdrun", "failfirst:"+k, "astart:1", "reachrun", fmt.Sprintf("sleep:%d", r.Range(20, 50)), "releaserun", "join:1", "settle")
		if k == "T" {
			add(past, "settle")
		}
		if r.Chance(1, 2) {
			add("stop:"+gf(), "settle")
		}
	case 12: // 2–3 sources; the stop call of one additional source's plugin fails once; the graceful stop is
		// retried (Stop or StopAndWait): every plugin honours the retry, so the run has to end UserStopped
		add(fmt.Sprintf("sources:%d", r.Range(2, 3)), "start", "settle")
		waiting := r.Chance(1, 3)
		if waiting {
			add("wait:1")
		}
		if r.Chance(4, 5) {
			add("stopfail")
		}
		add("stop:g", "settle")
		if r.Chance(1, 2) {
			add("stop:g", "settle")
		} else {
			add("saw", "settle")
		}
		if waiting {
			add("join:1")
		}
		if r.Chance(1, 3) {
			add("start", "settle", "stop:"+gf(), "settle")
		}
	case 13: // 2–3 sources; the Open of a NON-FIRST source (or of a DLQ / the destination) fails once, so the
		// Start's open phase must roll back every plugin it opened; then Start again with the fault gone
		n := r.Range(2, 3)
		add(fmt.Sprintf("sources:%d", n))
		switch r.Pick(6, 2, 2) {
		case 0:
			add(fmt.Sprintf("openfail:%d", r.Range(2, n)))
			if r.Chance(1, 4) {
				add(fmt.Sprintf("openfail:%d", r.Range(2, n)))
			}
		case 1:
			add("dlqopenfail")
		case 2:
			add("dstopenfail")
		}
		// v2: the first Start returns the error; v1: it returns nil, a node fails to open, the run recovers
		add("start", "settle", past, "settle", "start", "settle")
		if r.Chance(1, 2) {
			add("start", "settle")
		}
		add("stop:"+gf(), "settle", past, "settle")
	case 8: // store failures
		switch r.Pick(2, 2, 2) {
		case 0:
			add("storefail", "start", "settle", "stop:g", "settle", "start", "settle", "stop:f", "settle")
		case 1:
			add("start", "settle", "storefail", "stop:g", "settle", "start", "settle")
		case 2:
			add("start", "settle", "storefail", "inj:T", "settle", past, "settle")
		}
	}
	return cfg, ops
}
