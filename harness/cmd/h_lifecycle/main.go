// h_lifecycle drives the real lifecycle services (v1 pkg/lifecycle, v2 pkg/lifecycle-poc) through
// scripted histories of Start/Stop/StopAndWait/StopAll/WaitPipeline calls, injected plugin and store
// failures and gate-forced interleavings, and records the trace of events at the process boundary.
//
//	h_lifecycle -comp lifev1|lifev2|forcestop -seed 1 -n 200 -out DIR [-replay FILE]
//
// A case line is `<cfg> | <op>,<op>,… => <trace>`; the Lean driver (component `lifecycle`) accepts
// the trace against model M5 and evaluates the C10/C11/C12 monitors. The implementation line is
// always `ok` (equality comparison applies). On -replay only the part before `=>` is used.
package main

import (
	"bufio"
	"flag"
	"fmt"
	"os"
	"strconv"
	"strings"
	"sync"

	"verif/harness/gen"
)

func main() {
	comp := flag.String("comp", "", "component")
	seed := flag.Uint64("seed", 1, "seed")
	n := flag.Int("n", 100, "number of generated cases")
	out := flag.String("out", "", "output directory")
	replay := flag.String("replay", "", "file of case lines to re-run")
	par := flag.Int("par", 8, "cases run concurrently")
	focus := flag.String("focus", "", "bias the generator to the histories of one property: c10 | c11 | c12")
	flag.Parse()
	o := gen.NewOut(*out, *comp)
	defer o.Close()

	if *comp == "forcestop" {
		runForceStop(o, *seed, *n, *replay)
		return
	}
	eng := ""
	switch *comp {
	case "lifev1":
		eng = "v1"
	case "lifev2":
		eng = "v2"
	default:
		fmt.Fprintln(os.Stderr, "unknown component", *comp)
		os.Exit(2)
	}

	type job struct {
		cfg caseCfg
		ops []string
	}
	var jobs []job
	if *replay != "" {
		for _, l := range readLines(*replay) {
			head, _, _ := strings.Cut(l, "=>")
			cfgs, opss, ok := strings.Cut(head, "|")
			cfg, ok2 := parseCfg(strings.Fields(cfgs))
			if !ok || !ok2 || cfg.eng != eng {
				continue
			}
			jobs = append(jobs, job{cfg, splitOps(opss)})
		}
	} else {
		r := gen.New(*seed)
		for i := 0; i < *n; i++ {
			cfg, ops := genCase(r, o, eng, *focus)
			jobs = append(jobs, job{cfg, ops})
		}
	}
	lines := make([]string, len(jobs))
	sem := make(chan struct{}, *par)
	var wg sync.WaitGroup
	for i, j := range jobs {
		wg.Add(1)
		sem <- struct{}{}
		go func(i int, j job) {
			defer wg.Done()
			defer func() { <-sem }()
			defer func() {
				if p := recover(); p != nil {
					lines[i] = fmt.Sprintf("%s | %s => PANIC", j.cfg, strings.Join(j.ops, ","))
				}
			}()
			tr := runScript(j.cfg, j.ops)
			// a trace with a timing anomaly (a call that hit the harness' own time-out, a back-off
			// far beyond MaxDelay) is re-run: a defect of the code reproduces, a scheduling hiccup
			// of a loaded machine does not
			for retry := 0; retry < 2 && timingSuspicious(tr, j.cfg); retry++ {
				tr = runScript(j.cfg, j.ops)
			}
			lines[i] = fmt.Sprintf("%s | %s => %s", j.cfg, strings.Join(j.ops, ","), tr)
		}(i, j)
	}
	wg.Wait()
	for _, l := range lines {
		impl := "ok"
		if strings.HasSuffix(l, "=> PANIC") {
			impl = "panic"
		}
		o.Case(l, impl, nontrivial(l))
	}
}

func timingSuspicious(tr string, cfg caseCfg) bool {
	if strings.Contains(tr, ":hang@") {
		return true
	}
	last := -1 // time of the last "restarting with backoff" log line not yet followed by a Start
	for _, t := range strings.Fields(tr) {
		name, ms, ok := strings.Cut(t, "@")
		if !ok {
			continue
		}
		at, err := strconv.Atoi(ms)
		if err != nil {
			continue
		}
		switch name {
		case "L:backoff":
			last = at
		case "L:starting":
			if last >= 0 && at-last > cfg.maxDelay+150 {
				return true
			}
			last = -1
		}
	}
	return false
}

func nontrivial(l string) bool {
	_, tr, _ := strings.Cut(l, "=>")
	return strings.Contains(tr, "S:rec") || strings.Contains(tr, "S:deg") || strings.Contains(tr, "c:stop:f") ||
		strings.Contains(tr, "G:") || strings.Contains(tr, "c:wait")
}

func splitOps(s string) []string {
	var ops []string
	for _, t := range strings.Split(s, ",") {
		t = strings.TrimSpace(t)
		if t != "" {
			ops = append(ops, t)
		}
	}
	return ops
}

func readLines(path string) []string {
	f, err := os.Open(path)
	if err != nil {
		panic(err)
	}
	defer f.Close()
	var ls []string
	sc := bufio.NewScanner(f)
	sc.Buffer(make([]byte, 1<<20), 1<<26)
	for sc.Scan() {
		l := strings.TrimSpace(sc.Text())
		if l == "" || strings.HasPrefix(l, "#") {
			continue
		}
		ls = append(ls, l)
	}
	return ls
}
