package main

// Executes one scripted history against the REAL lifecycle service (v1: pkg/lifecycle, v2:
// pkg/lifecycle-poc) wired to the real pipeline / connector / processor services on an in-memory
// database, with fake plugins. Returns the recorded trace.

import (
	"context"
	"fmt"
	"strconv"
	"strings"
	"sync"
	"time"

	"github.com/conduitio/conduit-commons/database/inmemory"
	"github.com/conduitio/conduit/pkg/connector"
	"github.com/conduitio/conduit/pkg/foundation/cerrors"
	"github.com/conduitio/conduit/pkg/lifecycle"
	lifecyclepoc "github.com/conduitio/conduit/pkg/lifecycle-poc"
	"github.com/conduitio/conduit/pkg/pipeline"
	"github.com/conduitio/conduit/pkg/processor"
	"github.com/rs/zerolog"
)

func zerologNew(w gateWriter) zerolog.Logger {
	return zerolog.New(w).Level(zerolog.TraceLevel)
}

const plID = "pl"

type engine interface {
	Start(ctx context.Context, id string) error
	Stop(ctx context.Context, id string, force bool) error
	StopAndWait(ctx context.Context, id string) error
	WaitPipeline(id string) error
}

type caseCfg struct {
	eng        string // v1 | v2
	maxRetries int    // -1 infinite
	minDelay   int    // ms
	maxDelay   int
	window     int
	nrec       int
}

func (c caseCfg) String() string {
	return fmt.Sprintf("%s mr=%d min=%d max=%d win=%d nrec=%d", c.eng, c.maxRetries, c.minDelay, c.maxDelay, c.window, c.nrec)
}

func parseCfg(toks []string) (caseCfg, bool) {
	c := caseCfg{}
	if len(toks) != 6 {
		return c, false
	}
	c.eng = toks[0]
	if c.eng != "v1" && c.eng != "v2" {
		return c, false
	}
	for _, t := range toks[1:] {
		kv := strings.SplitN(t, "=", 2)
		if len(kv) != 2 {
			return c, false
		}
		v, err := strconv.Atoi(kv[1])
		if err != nil {
			return c, false
		}
		switch kv[0] {
		case "mr":
			c.maxRetries = v
		case "min":
			c.minDelay = v
		case "max":
			c.maxDelay = v
		case "win":
			c.window = v
		case "nrec":
			c.nrec = v
		default:
			return c, false
		}
	}
	return c, true
}

type runner struct {
	w         *world
	cfg       caseCfg
	eng       engine
	stopAll   func(force bool)
	pls       *pipeline.Service
	waits     map[string]chan struct{}
	holdRunCh chan struct{}
	stopAsked bool // a stop request returned ok since the last Start call (the end state should be a stopped one)
	wg        sync.WaitGroup
}

func newRunner(cfg caseCfg, ops []string) *runner {
	w := newWorld()
	w.nrec = cfg.nrec
	w.v2 = cfg.eng == "v2"
	extra := 0 // additional (quiet) sources: op `sources:<n>` anywhere in the script
	for _, op := range ops {
		if n, ok := strings.CutPrefix(op, "sources:"); ok {
			if v, err := strconv.Atoi(n); err == nil && v >= 1 && v <= 4 {
				extra = v - 1
			}
		}
	}
	logger := newLogger(w)
	ctx := context.Background()
	db := faultDB{DB: &inmemory.DB{}, w: w}
	pls := pipeline.NewService(logger, db)
	persister := connector.NewPersister(logger, db, time.Millisecond, 1)
	conns := connector.NewService(logger, db, persister)
	procs := processor.NewService(logger, db, nil)

	must(pls.Create(ctx, plID, pipeline.Config{Name: "verif-pipeline"}, pipeline.ProvisionTypeAPI))
	must(conns.Create(ctx, "src", connector.TypeSource, "builtin:verif", plID, connector.Config{Name: "src", Settings: map[string]string{}}, connector.ProvisionTypeAPI))
	must(conns.Create(ctx, "dst", connector.TypeDestination, "builtin:verif", plID, connector.Config{Name: "dst", Settings: map[string]string{}}, connector.ProvisionTypeAPI))
	must(pls.AddConnector(ctx, plID, "src"))
	for i := 0; i < extra; i++ {
		id := fmt.Sprintf("src%d", i+2)
		must(conns.Create(ctx, id, connector.TypeSource, "builtin:verif", plID, connector.Config{Name: id, Settings: map[string]string{}}, connector.ProvisionTypeAPI))
		must(pls.AddConnector(ctx, plID, id))
	}
	must(pls.AddConnector(ctx, plID, "dst"))

	rec := &lifecycle.ErrRecoveryCfg{
		MinDelay:         time.Duration(cfg.minDelay) * time.Millisecond,
		MaxDelay:         time.Duration(cfg.maxDelay) * time.Millisecond,
		BackoffFactor:    2,
		MaxRetries:       int64(cfg.maxRetries),
		MaxRetriesWindow: time.Duration(cfg.window) * time.Millisecond,
	}
	r := &runner{w: w, cfg: cfg, pls: pls, waits: map[string]chan struct{}{}}
	rp := recPipelines{w: w, inner: pls}
	handler := func(id string, err error) { w.ev("H:" + classOf(err)) }
	switch cfg.eng {
	case "v1":
		svc := lifecycle.NewService(logger, rec, conns, procs, pluginService{w}, rp)
		svc.OnFailure(func(e lifecycle.FailureEvent) { handler(e.ID, e.Error) })
		r.eng = svc
		r.stopAll = func(bool) { svc.StopAll(ctx, pipeline.ErrGracefulShutdown) }
	case "v2":
		svc := lifecyclepoc.NewService(logger, rec, conns, procs, pluginService{w}, rp, true)
		svc.OnFailure(func(e lifecyclepoc.FailureEvent) { handler(e.ID, e.Error) })
		r.eng = svc
		r.stopAll = func(force bool) { _ = svc.StopAll(ctx, force) }
	}
	return r
}

func must[T any](v T, err error) T {
	if err != nil {
		panic(err)
	}
	return v
}

func (r *runner) status() string {
	p, err := r.pls.Get(context.Background(), plID)
	if err != nil {
		return "?"
	}
	return statusName(p.GetStatus())
}

func startClass(err error) string {
	switch {
	case err == nil:
		return "ok"
	case cerrors.Is(err, pipeline.ErrPipelineRunning):
		return "running"
	default:
		return "err"
	}
}

func stopClass(err error) string {
	switch {
	case err == nil:
		return "ok"
	case cerrors.Is(err, pipeline.ErrPipelineNotRunning):
		return "notrunning"
	default:
		return "err"
	}
}

func sawClass(err error) string {
	switch {
	case err == nil:
		return "ok"
	case cerrors.Is(err, pipeline.ErrPipelineNotRunning):
		return "notrunning"
	case strings.Contains(err.Error(), "could not stop pipeline"):
		return "stoperr"
	case strings.Contains(err.Error(), "did not stop gracefully"):
		return "wait:" + classOf(err)
	default:
		return "other"
	}
}

// withTimeout runs f; "hang" if it does not return in time (the goroutine is abandoned).
func withTimeout(d time.Duration, f func() string) string {
	ch := make(chan string, 1)
	go func() { ch <- f() }()
	select {
	case s := <-ch:
		return s
	case <-time.After(d):
		return "hang"
	}
}

const opTimeout = 4 * time.Second

// exec runs one op. Ops (see gen.go for the grammar).
func (r *runner) exec(op string) {
	ctx := context.Background()
	w := r.w
	name, arg, _ := strings.Cut(op, ":")
	switch name {
	case "start":
		w.ev("c:start")
		res := withTimeout(opTimeout, func() string { return startClass(r.eng.Start(ctx, plID)) })
		if res == "ok" {
			r.stopAsked = false
		}
		w.ev("r:start:" + res)
	case "stop":
		w.ev("c:stop:" + arg)
		res := withTimeout(opTimeout, func() string { return stopClass(r.eng.Stop(ctx, plID, arg == "f")) })
		if res == "ok" {
			r.stopAsked = true
		}
		w.ev("r:stop:" + arg + ":" + res)
	case "stopall":
		w.ev("c:stopall:" + arg)
		withTimeout(opTimeout, func() string { r.stopAll(arg == "f"); return "" })
		r.stopAsked = true
		w.ev("r:stopall:" + arg)
	case "astopall": // astopall:<g|f>:<k> — StopAll in its own goroutine (v2 StopAll waits for the in-flight batch); join:<k>
		fg, k, _ := strings.Cut(arg, ":")
		done := make(chan struct{})
		r.waits[k] = done
		w.ev("c:stopall:" + fg)
		r.stopAsked = true
		r.wg.Add(1)
		go func() {
			defer r.wg.Done()
			defer close(done)
			if withTimeout(2*opTimeout, func() string { r.stopAll(fg == "f"); return "" }) == "hang" {
				w.ev("r:stopall:" + fg + ":hang")
				return
			}
			w.ev("r:stopall:" + fg)
		}()
		time.Sleep(3 * time.Millisecond)
	case "astart": // astart:<k> — Start in its own goroutine (its StatusRunning write may be held); join:<k>
		done := make(chan struct{})
		r.waits[arg] = done
		w.ev("c:start")
		r.wg.Add(1)
		go func() {
			defer r.wg.Done()
			defer close(done)
			res := withTimeout(3*opTimeout, func() string { return startClass(r.eng.Start(ctx, plID)) })
			w.ev("r:start:" + res)
		}()
	case "holdrun", "holdst": // the next UpdateStatus(Running) — holdst:<status>: of that status — is held inside the status store (slow write)
		w.mu.Lock()
		w.holdWhich = arg
		w.holdRun = make(chan struct{})
		r.holdRunCh = w.holdRun
		w.mu.Unlock()
	case "reachrun": // wait until that write is parked
		deadline := time.Now().Add(1500 * time.Millisecond)
		for time.Now().Before(deadline) {
			w.mu.Lock()
			p := w.runParked
			w.mu.Unlock()
			if p {
				break
			}
			time.Sleep(200 * time.Microsecond)
		}
	case "releaserun":
		if r.holdRunCh != nil {
			close(r.holdRunCh)
			r.holdRunCh = nil
		}
	case "failfirst": // failfirst:<T|F> — the next source that opens fails on its first Read
		w.mu.Lock()
		w.failFirst = arg
		w.mu.Unlock()
	case "stopfail": // the next stop call of an additional source's plugin fails (one-shot)
		w.mu.Lock()
		w.stopFail++
		w.mu.Unlock()
	case "hold": // the destination withholds its acks from now on
		w.mu.Lock()
		w.hold, w.holdCh, w.holdErr = true, make(chan struct{}), false
		w.mu.Unlock()
	case "release", "releaseerr": // the withheld acks are sent (releaseerr: with an error ⇒ nack ⇒ DLQ threshold ⇒ fatal)
		w.mu.Lock()
		if w.hold {
			w.hold = false
			w.holdErr = name == "releaseerr"
			close(w.holdCh)
		}
		w.mu.Unlock()
	case "saw":
		w.ev("c:saw")
		res := withTimeout(opTimeout, func() string { return sawClass(r.eng.StopAndWait(ctx, plID)) })
		if res == "ok" {
			r.stopAsked = true
		}
		w.ev("r:saw:" + res)
	case "wait": // wait:<k> — WaitPipeline in its own goroutine
		done := make(chan struct{})
		r.waits[arg] = done
		w.ev("c:wait:" + arg)
		r.wg.Add(1)
		go func() {
			defer r.wg.Done()
			defer close(done)
			err := r.eng.WaitPipeline(plID)
			w.ev("r:wait:" + arg + ":" + classOf(err))
		}()
		time.Sleep(300 * time.Microsecond) // let the lookup happen
	case "join": // join:<k>
		if ch := r.waits[arg]; ch != nil {
			select {
			case <-ch:
			case <-time.After(time.Second):
				// a WaitPipeline on a pipeline that is (still, or again) running blocks legitimately:
				// end the run with an explicit, recorded force stop before concluding anything
				w.mu.Lock()
				live := w.srcOpen > 0
				w.mu.Unlock()
				if live {
					r.exec("stop:f")
				}
				select {
				case <-ch:
				case <-time.After(opTimeout + time.Second):
					w.ev("r:wait:" + arg + ":hang")
				}
			}
			delete(r.waits, arg)
		}
	case "astop": // astop:<g|f>:<k> — Stop in its own goroutine (for calls expected to block); join with join:<k>
		fg, k, _ := strings.Cut(arg, ":")
		done := make(chan struct{})
		r.waits[k] = done
		w.ev("c:stop:" + fg)
		r.wg.Add(1)
		go func() {
			defer r.wg.Done()
			res := withTimeout(opTimeout, func() string { return stopClass(r.eng.Stop(ctx, plID, fg == "f")) })
			w.ev("r:stop:" + fg + ":" + res)
			close(done)
		}()
		time.Sleep(2 * time.Millisecond)
	case "inj": // inj:T | inj:F — the open source fails its stream with a transient / fatal error
		w.mu.Lock()
		cur := w.cur
		w.mu.Unlock()
		if cur != nil {
			// inject only once everything the source emitted has been acknowledged (keeps the case about
			// the control plane; failures with acks in flight belong to the data-path harnesses)
			deadline := time.Now().Add(time.Second)
			for time.Now().Before(deadline) && (cur.emitted.Load() < int64(w.nrec) || cur.acked.Load() < cur.emitted.Load()) {
				time.Sleep(200 * time.Microsecond)
			}
		}
		w.mu.Lock()
		cur = w.cur
		if cur != nil {
			w.evLocked("I:" + arg)
		}
		w.mu.Unlock()
		if cur != nil {
			select {
			case cur.fail <- arg:
			default:
			}
		}
	case "openfail": // openfail — the next Open of the primary source fails; openfail:<k> — of source k (2, 3, …)
		w.mu.Lock()
		if k, err := strconv.Atoi(arg); err == nil && k >= 2 {
			w.openFailAt[k]++
		} else {
			w.openFail++
		}
		w.mu.Unlock()
	case "dlqopenfail": // the next Open of a DLQ destination plugin fails
		w.mu.Lock()
		w.dlqOpenFail++
		w.mu.Unlock()
	case "dstopenfail": // the next Open of the destination plugin fails
		w.mu.Lock()
		w.dstOpenFail++
		w.mu.Unlock()
	case "dtf": // dtf:T|F — the next destination Teardown fails
		w.mu.Lock()
		w.dstTdFail = arg
		w.mu.Unlock()
	case "storefail":
		w.mu.Lock()
		w.storeFail++
		w.mu.Unlock()
	case "await": // await:<status>
		deadline := time.Now().Add(3 * time.Second)
		for time.Now().Before(deadline) && r.status() != arg {
			time.Sleep(300 * time.Microsecond)
		}
	case "settle":
		w.settle(4*time.Millisecond, 2*time.Second)
	case "sleep":
		ms, _ := strconv.Atoi(arg)
		time.Sleep(time.Duration(ms) * time.Millisecond)
	case "gate": // gate:<point> arms a one-shot gate
		w.arm(arg)
	case "reach": // reach:<point> waits until a goroutine is parked at the gate
		if !w.reached(arg, 1500*time.Millisecond) {
			w.ev("noreach:" + arg)
			w.disarm(arg)
		}
	case "open": // open:<point>
		w.open(arg)
	}
}

// runScript executes the ops and returns the trace line.
func runScript(cfg caseCfg, ops []string) string {
	r := newRunner(cfg, ops)
	for _, op := range ops {
		r.exec(op)
	}
	r.exec("release")
	r.exec("releaserun")
	r.w.openAll()
	// outstanding waits must return once everything has stopped; first let the system settle
	// wait for a stable end state: under load a goroutine of the service may simply not have been
	// scheduled yet, so an inconsistent picture (status running without an open source, or the
	// reverse, or a back-off still pending) is re-examined for up to 2.5 s before it is recorded
	r.w.settle(6*time.Millisecond, 3*time.Second)
	open := 0
	deadline := time.Now().Add(2500 * time.Millisecond)
	for {
		r.w.mu.Lock()
		open = r.w.srcOpen
		writing := r.w.writesInFlight > 0
		r.w.mu.Unlock()
		st := r.status()
		if writing && time.Now().Before(deadline) {
			time.Sleep(time.Millisecond)
			continue
		}
		consistent := (st == "run" && open == 1 && !r.stopAsked) || (st != "run" && st != "rec" && open == 0)
		if consistent || time.Now().After(deadline) {
			break
		}
		time.Sleep(5 * time.Millisecond)
		r.w.settle(10*time.Millisecond, time.Second)
	}
	close(r.w.hbStop)
	r.w.mu.Lock()
	stall := r.w.stall
	r.w.mu.Unlock()
	r.w.ev(fmt.Sprintf("STALL:%d", stall.Milliseconds()))
	r.w.ev(fmt.Sprintf("E:%s:%d", r.status(), open))
	r.w.mu.Lock()
	trace := strings.Join(r.w.trace, " ")
	r.w.mu.Unlock()
	// tear the case down (not part of the trace)
	r.teardown()
	return trace
}

func (r *runner) teardown() {
	ctx := context.Background()
	r.w.openAll()
	for i := 0; i < 50; i++ {
		r.w.mu.Lock()
		open := r.w.srcOpen
		r.w.mu.Unlock()
		st := r.status()
		if open == 0 && st != "run" && st != "rec" {
			break
		}
		withTimeout(2*time.Second, func() string { _ = r.eng.Stop(ctx, plID, true); return "" })
		time.Sleep(5 * time.Millisecond)
	}
	done := make(chan struct{})
	go func() { r.wg.Wait(); close(done) }()
	select {
	case <-done:
	case <-time.After(2 * time.Second):
	}
}
