package main

// The "world" of one h_lifecycle case: a trace log, in-process fake connector plugins that fail
// on script, a gating log writer (model-step boundaries of the real service are visible as log
// lines; a gate pauses the goroutine that emits one), a recording PipelineService wrapper and a
// fault-injecting database.

import (
	"bytes"
	"context"
	"errors"
	"fmt"
	"strconv"
	"strings"
	"sync"
	"sync/atomic"
	"time"

	"github.com/conduitio/conduit-commons/database"
	"github.com/conduitio/conduit-commons/opencdc"
	"github.com/conduitio/conduit-connector-protocol/pconnector"
	"github.com/conduitio/conduit/pkg/foundation/cerrors"
	"github.com/conduitio/conduit/pkg/foundation/log"
	"github.com/conduitio/conduit/pkg/pipeline"
	connectorPlugin "github.com/conduitio/conduit/pkg/plugin/connector"
	"github.com/conduitio/conduit/pkg/plugin/connector/builtin"
)

type world struct {
	mu    sync.Mutex
	t0    time.Time
	trace []string
	last  time.Time // time of the last trace/log activity (for settle)

	// gates: log point -> armed; a goroutine logging an armed point parks until opened
	gates   map[string]*gate
	srcOpen int // number of currently open fake sources (0/1)
	cur     *fakeSource

	// scripted faults
	openFail       int           // next n source Opens fail
	dstTdFail      string        // "", "T", "F": next destination Teardown returns this error kind
	holdWhich      string        // which status write holdRun delays ("" = run)
	holdRun        chan struct{} // non-nil: the next UpdateStatus(Running) is delayed (slow status store) until closed
	runParked      bool          // … and a call is parked there
	writesInFlight int           // UpdateStatus calls entered and not yet returned
	failFirst      string        // "", "T", "F": the next source that opens fails on its first Read
	openFailAt     map[int]int   // additional source idx -> number of Opens that still fail
	dlqOpenFail    int           // the next n Opens of a DLQ destination plugin fail
	dstOpenFail    int           // the next n Opens of the destination plugin fail
	stopFail       int           // the next n stop calls (v1: Stop RPC, v2: Teardown) of an additional source fail
	v2             bool          // engine under test
	hold           bool          // the destination withholds its acks (the drain cannot finish)
	holdCh         chan struct{} // closed by release / releaseerr
	holdErr        bool          // the withheld acks carry an error (the records are nacked)
	storeFail      int           // next n pipeline-store Sets fail

	nrec int // records a source emits per run

	stall  time.Duration
	hbStop chan struct{}
}

type gate struct {
	armed   bool
	parked  int
	release chan struct{}
}

func newWorld() *world {
	now := time.Now()
	w := &world{t0: now, last: now, gates: map[string]*gate{}, openFailAt: map[int]int{}, hbStop: make(chan struct{})}
	go w.heartbeat()
	return w
}

// heartbeat measures how late this process' goroutines get scheduled (machine load): the largest
// lateness of a 2 ms sleep during the case is reported as `STALL:<ms>` and widens the timing
// tolerances of the monitors (never the logical checks).
func (w *world) heartbeat() {
	for {
		select {
		case <-w.hbStop:
			return
		default:
		}
		t := time.Now()
		time.Sleep(2 * time.Millisecond)
		late := time.Since(t) - 2*time.Millisecond
		w.mu.Lock()
		if late > w.stall {
			w.stall = late
		}
		w.mu.Unlock()
	}
}

func (w *world) ev(tok string) {
	w.mu.Lock()
	defer w.mu.Unlock()
	w.evLocked(tok)
}

func (w *world) evLocked(tok string) {
	now := time.Now()
	w.last = now
	w.trace = append(w.trace, fmt.Sprintf("%s@%d", tok, now.Sub(w.t0).Milliseconds()))
}

func (w *world) touch() {
	w.mu.Lock()
	w.last = time.Now()
	w.mu.Unlock()
}

// settle waits until nothing was logged or traced for `quiet`.
func (w *world) settle(quiet, max time.Duration) {
	deadline := time.Now().Add(max)
	for time.Now().Before(deadline) {
		w.mu.Lock()
		idle := time.Since(w.last)
		w.mu.Unlock()
		if idle >= quiet {
			return
		}
		time.Sleep(quiet / 4)
	}
}

// ---------------------------------------------------------------- gating log writer

var logPoints = map[string]string{
	`"message":"pipeline stopped"`:        "stopped",  // after the terminal UpdateStatus, before terminalErrors.Set
	`"message":"starting pipeline"`:       "starting", // Start: status check passed, build next
	`"message":"pipeline started"`:        "started",  // Start: runPipeline returned nil
	`"message":"restarting with backoff"`: "backoff",  // StartWithBackoff: attempt counted, sleep next
	`"message":"recovering pipeline"`:     "recovering",
	`"message":"node stopped"`:            "nodestopped", // v1: a node goroutine's deferred log; fires after nodesWg.Done(), before tomb.v2 records the returned error
}

type gateWriter struct{ w *world }

func (g gateWriter) Write(p []byte) (int, error) {
	g.w.touch()
	for pat, name := range logPoints {
		if bytes.Contains(p, []byte(pat)) {
			g.w.hit(name)
			break
		}
	}
	return len(p), nil
}

func (w *world) hit(name string) {
	w.mu.Lock()
	if name != "nodestopped" && name != "st" && name != "dt" {
		w.evLocked("L:" + name)
	}
	g := w.gates[name]
	if g == nil || !g.armed {
		w.mu.Unlock()
		return
	}
	g.armed = false // one-shot
	g.parked++
	ch := g.release
	w.mu.Unlock()
	select {
	case <-ch:
	case <-time.After(10 * time.Second):
	}
	w.mu.Lock()
	g.parked--
	w.evLocked("G:" + name)
	w.mu.Unlock()
}

func (w *world) arm(name string) {
	w.mu.Lock()
	w.gates[name] = &gate{armed: true, release: make(chan struct{})}
	w.mu.Unlock()
}

func (w *world) disarm(name string) {
	w.mu.Lock()
	if g := w.gates[name]; g != nil {
		g.armed = false
	}
	w.mu.Unlock()
}

func (w *world) reached(name string, max time.Duration) bool {
	deadline := time.Now().Add(max)
	for time.Now().Before(deadline) {
		w.mu.Lock()
		g := w.gates[name]
		ok := g != nil && g.parked > 0
		w.mu.Unlock()
		if ok {
			return true
		}
		time.Sleep(200 * time.Microsecond)
	}
	return false
}

func (w *world) open(name string) {
	w.mu.Lock()
	g := w.gates[name]
	if g != nil {
		select {
		case <-g.release:
		default:
			close(g.release)
		}
		g.armed = false
	}
	w.mu.Unlock()
}

func (w *world) openAll() {
	w.mu.Lock()
	names := make([]string, 0, len(w.gates))
	for n := range w.gates {
		names = append(names, n)
	}
	w.mu.Unlock()
	for _, n := range names {
		w.open(n)
	}
}

func newLogger(w *world) log.CtxLogger {
	return log.New(zerologNew(gateWriter{w}))
}

// ---------------------------------------------------------------- error kinds

var errInjected = errors.New("verif: injected failure")

func mkErr(kind string) error {
	if kind == "F" {
		return cerrors.FatalError(errInjected)
	}
	return errInjected
}

func classOf(err error) string {
	switch {
	case err == nil:
		return "nil"
	case cerrors.Is(err, pipeline.ErrForceStop):
		return "K"
	case cerrors.Is(err, pipeline.ErrPipelineCannotRecover):
		return "X"
	case cerrors.IsFatalError(err):
		return "F"
	default:
		return "T"
	}
}

// ---------------------------------------------------------------- fake plugins

type pluginService struct{ w *world }

func (p pluginService) NewDispenser(_ log.CtxLogger, _ string, connectorID string) (connectorPlugin.Dispenser, error) {
	return &dispenser{w: p.w, id: connectorID}, nil
}

type dispenser struct {
	w  *world
	id string
}

func (d *dispenser) DispenseSpecifier() (connectorPlugin.SpecifierPlugin, error) {
	return nil, errors.New("verif: no specifier")
}
func (d *dispenser) DispenseSource() (connectorPlugin.SourcePlugin, error) {
	if d.id != "src" {
		idx, _ := strconv.Atoi(strings.TrimPrefix(d.id, "src"))
		return &quietSource{w: d.w, idx: idx}, nil
	}
	return &fakeSource{w: d.w, fail: make(chan string, 1)}, nil
}

// quietSource is the plugin of the additional sources of a multi-source pipeline: it emits no
// records and no trace tokens; its stop path (v1: the Stop RPC, v2: Teardown, which is what
// funnel.Worker.Stop calls) fails on script, one call at a time (`SF` token).
type quietSource struct {
	w      *world
	idx    int  // 2 for connector "src2", … (the primary source "src" is index 1)
	opened bool // O<idx> logged and not yet T<idx>
}

func (q *quietSource) LifecycleOnCreated(context.Context, pconnector.SourceLifecycleOnCreatedRequest) (pconnector.SourceLifecycleOnCreatedResponse, error) {
	return pconnector.SourceLifecycleOnCreatedResponse{}, nil
}
func (q *quietSource) LifecycleOnUpdated(context.Context, pconnector.SourceLifecycleOnUpdatedRequest) (pconnector.SourceLifecycleOnUpdatedResponse, error) {
	return pconnector.SourceLifecycleOnUpdatedResponse{}, nil
}
func (q *quietSource) LifecycleOnDeleted(context.Context, pconnector.SourceLifecycleOnDeletedRequest) (pconnector.SourceLifecycleOnDeletedResponse, error) {
	return pconnector.SourceLifecycleOnDeletedResponse{}, nil
}
func (q *quietSource) Configure(context.Context, pconnector.SourceConfigureRequest) (pconnector.SourceConfigureResponse, error) {
	return pconnector.SourceConfigureResponse{}, nil
}
func (q *quietSource) Open(context.Context, pconnector.SourceOpenRequest) (pconnector.SourceOpenResponse, error) {
	q.w.mu.Lock()
	defer q.w.mu.Unlock()
	if q.w.openFailAt[q.idx] > 0 {
		q.w.openFailAt[q.idx]--
		q.w.evLocked(fmt.Sprintf("OF%d", q.idx))
		return pconnector.SourceOpenResponse{}, errInjected
	}
	q.opened = true
	q.w.evLocked(fmt.Sprintf("O%d", q.idx))
	return pconnector.SourceOpenResponse{}, nil
}
func (q *quietSource) NewStream() pconnector.SourceRunStream {
	return &builtin.InMemorySourceRunStream{}
}
func (q *quietSource) Run(ctx context.Context, stream pconnector.SourceRunStream) error {
	st, ok := stream.(*builtin.InMemorySourceRunStream)
	if !ok {
		return errors.New("verif: unexpected stream type")
	}
	st.Init(ctx)
	return nil
}
func (q *quietSource) failOnce(v2 bool) bool {
	q.w.mu.Lock()
	defer q.w.mu.Unlock()
	if q.w.stopFail > 0 && q.w.v2 == v2 {
		q.w.stopFail--
		q.w.evLocked("SF")
		return true
	}
	return false
}
func (q *quietSource) Stop(context.Context, pconnector.SourceStopRequest) (pconnector.SourceStopResponse, error) {
	if q.failOnce(false) {
		return pconnector.SourceStopResponse{}, errors.New("verif: plugin stop temporarily unavailable")
	}
	return pconnector.SourceStopResponse{}, nil
}
func (q *quietSource) Teardown(context.Context, pconnector.SourceTeardownRequest) (pconnector.SourceTeardownResponse, error) {
	// T<idx>: the plugin's Teardown was called (a call that fails on script still is the teardown the
	// engine gave this plugin: connector.Source does not call it again)
	q.w.mu.Lock()
	if q.opened {
		q.opened = false
		q.w.evLocked(fmt.Sprintf("T%d", q.idx))
	}
	q.w.mu.Unlock()
	if q.failOnce(true) {
		return pconnector.SourceTeardownResponse{}, errors.New("verif: plugin teardown temporarily unavailable")
	}
	return pconnector.SourceTeardownResponse{}, nil
}
func (d *dispenser) DispenseDestination() (connectorPlugin.DestinationPlugin, error) {
	return &fakeDest{w: d.w, id: d.id}, nil
}

type fakeSource struct {
	w              *world
	emitted, acked atomic.Int64
	opened         bool
	next           int
	lastMu         sync.Mutex
	last           opencdc.Position
	noMore         bool // Stop was called: LastPosition has been handed out, nothing may be emitted after it
	fail           chan string
}

func (s *fakeSource) Configure(context.Context, pconnector.SourceConfigureRequest) (pconnector.SourceConfigureResponse, error) {
	return pconnector.SourceConfigureResponse{}, nil
}

func (s *fakeSource) Open(_ context.Context, r pconnector.SourceOpenRequest) (pconnector.SourceOpenResponse, error) {
	s.w.mu.Lock()
	defer s.w.mu.Unlock()
	if s.w.openFail > 0 {
		s.w.openFail--
		s.w.evLocked("OF")
		return pconnector.SourceOpenResponse{}, errInjected
	}
	pos := 0
	if len(r.Position) > 0 {
		pos, _ = strconv.Atoi(string(r.Position))
	}
	s.next = pos + 1
	s.last = nil // LastPosition (Stop) is the last position produced in THIS run; nothing produced yet
	s.opened = true
	s.w.srcOpen++
	s.w.cur = s
	s.w.evLocked("O:" + strconv.Itoa(pos))
	if k := s.w.failFirst; k != "" {
		s.w.failFirst = ""
		s.w.evLocked("I:" + k)
		s.fail <- k
	}
	return pconnector.SourceOpenResponse{}, nil
}

func (s *fakeSource) NewStream() pconnector.SourceRunStream {
	return &builtin.InMemorySourceRunStream{}
}

func (s *fakeSource) Run(ctx context.Context, stream pconnector.SourceRunStream) error {
	st, ok := stream.(*builtin.InMemorySourceRunStream)
	if !ok {
		return errors.New("verif: unexpected stream type")
	}
	st.Init(ctx)
	srv := st.Server()
	go func() { // acks from the engine
		for {
			req, err := srv.Recv()
			if err != nil {
				return
			}
			for _, p := range req.AckPositions {
				s.w.ev("A:" + string(p))
				s.acked.Add(1)
			}
		}
	}()
	go func() {
		n := s.w.nrec
		for i := 0; i < n; i++ {
			pos := opencdc.Position(strconv.Itoa(s.next))
			rec := opencdc.Record{Position: pos, Operation: opencdc.OperationCreate,
				Metadata: opencdc.Metadata{}, Key: opencdc.RawData(pos), Payload: opencdc.Change{After: opencdc.RawData("x")}}
			select {
			case kind := <-s.fail:
				st.Close(mkErr(kind))
				return
			case <-ctx.Done():
				return
			default:
			}
			s.lastMu.Lock()
			if s.noMore {
				s.lastMu.Unlock()
				break
			}
			s.last = pos
			s.lastMu.Unlock()
			s.w.ev("RD:" + string(pos))
			s.emitted.Add(1)
			s.next++
			if err := srv.Send(pconnector.SourceRunResponse{Records: []opencdc.Record{rec}}); err != nil {
				return
			}
		}
		select {
		case kind := <-s.fail:
			st.Close(mkErr(kind))
		case <-ctx.Done():
		}
	}()
	return nil
}

func (s *fakeSource) Stop(context.Context, pconnector.SourceStopRequest) (pconnector.SourceStopResponse, error) {
	s.lastMu.Lock()
	defer s.lastMu.Unlock()
	s.noMore = true
	return pconnector.SourceStopResponse{LastPosition: s.last}, nil
}

func (s *fakeSource) Teardown(context.Context, pconnector.SourceTeardownRequest) (pconnector.SourceTeardownResponse, error) {
	s.w.hit("st") // gate point: the source plugin's Teardown is in progress
	s.w.mu.Lock()
	defer s.w.mu.Unlock()
	if s.opened {
		s.opened = false
		s.w.srcOpen--
		if s.w.cur == s {
			s.w.cur = nil
		}
		s.w.evLocked("T")
	}
	return pconnector.SourceTeardownResponse{}, nil
}

func (s *fakeSource) LifecycleOnCreated(context.Context, pconnector.SourceLifecycleOnCreatedRequest) (pconnector.SourceLifecycleOnCreatedResponse, error) {
	return pconnector.SourceLifecycleOnCreatedResponse{}, nil
}
func (s *fakeSource) LifecycleOnUpdated(context.Context, pconnector.SourceLifecycleOnUpdatedRequest) (pconnector.SourceLifecycleOnUpdatedResponse, error) {
	return pconnector.SourceLifecycleOnUpdatedResponse{}, nil
}
func (s *fakeSource) LifecycleOnDeleted(context.Context, pconnector.SourceLifecycleOnDeletedRequest) (pconnector.SourceLifecycleOnDeletedResponse, error) {
	return pconnector.SourceLifecycleOnDeletedResponse{}, nil
}

type fakeDest struct {
	w  *world
	id string
}

func (d *fakeDest) Configure(context.Context, pconnector.DestinationConfigureRequest) (pconnector.DestinationConfigureResponse, error) {
	return pconnector.DestinationConfigureResponse{}, nil
}
func (d *fakeDest) Open(context.Context, pconnector.DestinationOpenRequest) (pconnector.DestinationOpenResponse, error) {
	d.w.mu.Lock()
	defer d.w.mu.Unlock()
	if strings.HasSuffix(d.id, "-dlq") || strings.Contains(d.id, "-dlq-") { // v1: <pl>-dlq, v2: <pl>-dlq-<hash>
		if d.w.dlqOpenFail > 0 {
			d.w.dlqOpenFail--
			d.w.evLocked("DOF:q")
			return pconnector.DestinationOpenResponse{}, errInjected
		}
	} else if d.w.dstOpenFail > 0 {
		d.w.dstOpenFail--
		d.w.evLocked("DOF:d")
		return pconnector.DestinationOpenResponse{}, errInjected
	}
	return pconnector.DestinationOpenResponse{}, nil
}
func (d *fakeDest) NewStream() pconnector.DestinationRunStream {
	return &builtin.InMemoryDestinationRunStream{}
}
func (d *fakeDest) Run(ctx context.Context, stream pconnector.DestinationRunStream) error {
	st, ok := stream.(*builtin.InMemoryDestinationRunStream)
	if !ok {
		return errors.New("verif: unexpected stream type")
	}
	st.Init(ctx)
	srv := st.Server()
	go func() {
		for {
			req, err := srv.Recv()
			if err != nil {
				return
			}
			acks := make([]pconnector.DestinationRunResponseAck, len(req.Records))
			for i, r := range req.Records {
				if !strings.HasSuffix(d.id, "-dlq") {
					d.w.ev("W:" + string(r.Position))
				}
				acks[i] = pconnector.DestinationRunResponseAck{Position: r.Position}
			}
			if !strings.HasSuffix(d.id, "-dlq") {
				d.w.mu.Lock()
				hold, ch := d.w.hold, d.w.holdCh
				d.w.mu.Unlock()
				if hold {
					select {
					case <-ch:
					case <-ctx.Done():
						return
					}
					d.w.mu.Lock()
					bad := d.w.holdErr
					d.w.mu.Unlock()
					if bad {
						for i := range acks {
							acks[i].Error = "verif: injected write failure"
						}
					}
				}
			}
			if err := srv.Send(pconnector.DestinationRunResponse{Acks: acks}); err != nil {
				return
			}
		}
	}()
	return nil
}
func (d *fakeDest) Stop(context.Context, pconnector.DestinationStopRequest) (pconnector.DestinationStopResponse, error) {
	return pconnector.DestinationStopResponse{}, nil
}
func (d *fakeDest) Teardown(context.Context, pconnector.DestinationTeardownRequest) (pconnector.DestinationTeardownResponse, error) {
	if strings.HasSuffix(d.id, "-dlq") {
		return pconnector.DestinationTeardownResponse{}, nil
	}
	d.w.hit("dt") // gate point: the destination plugin's Teardown is in progress
	d.w.mu.Lock()
	kind := d.w.dstTdFail
	d.w.dstTdFail = ""
	if kind != "" {
		d.w.evLocked("DTF:" + kind)
	}
	d.w.mu.Unlock()
	if kind != "" {
		return pconnector.DestinationTeardownResponse{}, mkErr(kind)
	}
	return pconnector.DestinationTeardownResponse{}, nil
}
func (d *fakeDest) LifecycleOnCreated(context.Context, pconnector.DestinationLifecycleOnCreatedRequest) (pconnector.DestinationLifecycleOnCreatedResponse, error) {
	return pconnector.DestinationLifecycleOnCreatedResponse{}, nil
}
func (d *fakeDest) LifecycleOnUpdated(context.Context, pconnector.DestinationLifecycleOnUpdatedRequest) (pconnector.DestinationLifecycleOnUpdatedResponse, error) {
	return pconnector.DestinationLifecycleOnUpdatedResponse{}, nil
}
func (d *fakeDest) LifecycleOnDeleted(context.Context, pconnector.DestinationLifecycleOnDeletedRequest) (pconnector.DestinationLifecycleOnDeletedResponse, error) {
	return pconnector.DestinationLifecycleOnDeletedResponse{}, nil
}

// ---------------------------------------------------------------- recording pipeline service

type plSvc interface {
	Get(ctx context.Context, pipelineID string) (*pipeline.Instance, error)
	List(ctx context.Context) map[string]*pipeline.Instance
	UpdateStatus(ctx context.Context, pipelineID string, status pipeline.Status, errMsg string) error
}

type recPipelines struct {
	w     *world
	inner plSvc
}

func statusName(s pipeline.Status) string {
	switch s {
	case pipeline.StatusRunning:
		return "run"
	case pipeline.StatusSystemStopped:
		return "sys"
	case pipeline.StatusUserStopped:
		return "user"
	case pipeline.StatusDegraded:
		return "deg"
	case pipeline.StatusRecovering:
		return "rec"
	}
	return "?"
}

func (r recPipelines) Get(ctx context.Context, id string) (*pipeline.Instance, error) {
	return r.inner.Get(ctx, id)
}
func (r recPipelines) List(ctx context.Context) map[string]*pipeline.Instance {
	return r.inner.List(ctx)
}
func (r recPipelines) UpdateStatus(ctx context.Context, id string, st pipeline.Status, msg string) error {
	// the in-memory status changes somewhere inside the call: bracket it
	r.w.mu.Lock()
	r.w.writesInFlight++
	r.w.evLocked("Sb:" + statusName(st))
	r.w.mu.Unlock()
	defer func() {
		r.w.mu.Lock()
		r.w.writesInFlight--
		r.w.mu.Unlock()
	}()
	r.w.mu.Lock()
	heldKind := r.w.holdWhich
	r.w.mu.Unlock()
	if heldKind == "" {
		heldKind = "run"
	}
	if statusName(st) == heldKind {
		r.w.mu.Lock()
		ch := r.w.holdRun
		r.w.holdRun = nil // one-shot
		if ch != nil {
			r.w.runParked = true
		}
		r.w.mu.Unlock()
		if ch != nil {
			select {
			case <-ch:
			case <-time.After(10 * time.Second):
			}
			r.w.mu.Lock()
			r.w.runParked = false
			r.w.evLocked("G:holdrun")
			r.w.mu.Unlock()
		}
	}
	err := r.inner.UpdateStatus(ctx, id, st, msg)
	res := "ok"
	if err != nil {
		res = "fail"
	}
	r.w.ev("S:" + statusName(st) + ":" + res)
	return err
}

// ---------------------------------------------------------------- fault-injecting DB

type faultDB struct {
	database.DB
	w *world
}

func (f faultDB) Set(ctx context.Context, key string, value []byte) error {
	if strings.Contains(key, "pipeline") {
		f.w.mu.Lock()
		fail := f.w.storeFail > 0
		if fail {
			f.w.storeFail--
		}
		f.w.mu.Unlock()
		if fail {
			return errors.New("verif: injected store failure")
		}
	}
	return f.DB.Set(ctx, key, value)
}
