// h_procnode drives the real stream.ProcessorNode (Run loop + live Reconfigure) with scripted fake
// processors and records, per case, the trace of observable events for the Lean driver component
// `procnode` (trace acceptance, see lean/ConduitModel/ConduitModel/Driver/ProcNode.lean).
//
//	h_procnode -comp procnode -seed 1 -n 2000 -out DIR [-replay FILE]
//
// A case line is `<script> | <trace>`: the script is the seeded list of harness operations, the trace
// is what the run produced. In replay mode only the script part of each line is used (a corpus line may
// be just a script); it is executed again and the line written to <comp>.in carries the new trace.
// The implementation result is `ok` for every recorded trace, or `hang` / `panic` / `odd:<what>`.
package main

import (
	"bufio"
	"flag"
	"fmt"
	"os"
	"strings"

	"verif/harness/gen"
)

type component struct {
	gen        func(r *gen.Rand, o *gen.Out, i int) string // produces a script
	run        func(script string) (line, res string)      // executes it: full case line + impl result
	nontrivial func(line, res string) bool
}

var components = map[string]component{}

func main() {
	comp := flag.String("comp", "", "component")
	seed := flag.Uint64("seed", 1, "seed")
	n := flag.Int("n", 1000, "number of generated cases")
	out := flag.String("out", "", "output directory")
	replay := flag.String("replay", "", "file of case lines (scripts) to run instead of generating")
	flag.Parse()
	c, ok := components[*comp]
	if !ok {
		fmt.Fprintln(os.Stderr, "unknown component", *comp)
		os.Exit(2)
	}
	o := gen.NewOut(*out, *comp)
	defer o.Close()
	if *replay != "" {
		f, err := os.Open(*replay)
		if err != nil {
			panic(err)
		}
		sc := bufio.NewScanner(f)
		sc.Buffer(make([]byte, 1<<20), 1<<26)
		for sc.Scan() {
			l := strings.TrimSpace(sc.Text())
			if l == "" || strings.HasPrefix(l, "#") {
				continue
			}
			script := strings.TrimSpace(strings.SplitN(l, "|", 2)[0])
			line, res := c.run(script)
			o.Case(line, res, c.nontrivial(line, res))
		}
		return
	}
	r := gen.New(*seed)
	hangs := 0
	for i := 0; i < *n; i++ {
		script := c.gen(r, o, i)
		line, res := c.run(script)
		o.Case(line, res, c.nontrivial(line, res))
		if res == "hang" {
			// every hang costs the full per-case deadline; a handful is enough evidence
			if hangs++; hangs >= 6 {
				fmt.Fprintln(os.Stderr, "h_procnode: stopping after", hangs, "hung cases")
				break
			}
		}
	}
}
