package main

import (
	"context"
	"errors"
	"fmt"
	"runtime"
	"strconv"
	"strings"
	"sync"
	"time"

	"github.com/conduitio/conduit-commons/opencdc"
	sdk "github.com/conduitio/conduit-processor-sdk"
	"github.com/conduitio/conduit/pkg/foundation/log"
	"github.com/conduitio/conduit/pkg/foundation/metrics/noop"
	"github.com/conduitio/conduit/pkg/lifecycle"
	"github.com/conduitio/conduit/pkg/lifecycle/stream"

	"verif/harness/gen"
)

// Component procnode: the real stream.ProcessorNode, wired with plain channels, fake processors that
// stamp their generation into the record and log Open/Process/Teardown calls, and Reconfigure calls
// issued from their own goroutines at instants fixed by gates and handshakes (never by sleeping).
//
// Script operations (space separated):
//
//	B B-        start Run (initial processor 0 opens / fails to open)
//	f<i><k>     feed record i, Process returns kind k at once, then drain (forwarded) or wait for the nack
//	            k: s single, c position changed, f filter, e error (nack ok), E error (nack handler fails),
//	               m multi, u unknown type, w wrong count, x message arrives already filtered (no Process)
//	g<i>        feed record i and wait until the current processor's Process(i) is entered (it blocks there)
//	r<k> R<k>   release the blocked Process with kind k and drain / R: do not read downstream (after K)
//	c<r>+ c<r>- call Reconfigure for request r on a new goroutine; its processor r opens / fails to open
//	c<r>+g      … and its Open blocks until U<r>
//	W<r> U<r>   wait until Open(r) is entered / release it
//	S1 S0       wait until n.pending != nil / == nil (read under swapMu through the verif hook)
//	P           read n.pending once, now (logs S1 or S0)
//	X<r> A<r>   cancel request r's context / wait for Reconfigure r to return
//	K Z E       cancel Run's context / close in / wait for Run to return
//
// The trace vocabulary is documented in Driver/ProcNode.lean.
//
// Non-trivial rule: the trace holds an Open of a reconfigure processor (o<g>+ or o<g>- with g >= 1)
// with at least one Process call before it and one after it (a swap applied or failed mid-stream).
func init() {
	components["procnode"] = component{gen: genScript, run: runScript, nontrivial: nontrivial}
}

var (
	errOpen = errors.New("verif: scripted open failure")
	errProc = errors.New("verif: scripted record error")
	errNack = errors.New("verif: scripted nack handler failure")
)

const (
	caseDeadline  = 1500 * time.Millisecond
	retryDeadline = 6 * time.Second
)

type plan struct {
	kind  byte
	gated bool
	pre   bool
}

type reqState struct {
	cancel context.CancelFunc
	ret    chan string
	fk     *fake
}

type caseRun struct {
	mu    sync.Mutex
	trace []string
	odd   string
	hung  bool

	svc       *lifecycle.Service // non-nil in component procsvc: Reconfigure goes through ReconfigureProcessor
	node      *stream.ProcessorNode
	in        chan *stream.Message
	inClosed  bool
	out       <-chan *stream.Message
	cancelRun context.CancelFunc
	runDone   chan string
	started   bool

	plans       map[int]plan
	procEntered chan int
	procRelease chan byte
	nacked      chan int
	reqs        map[int]*reqState
	proc0       *fake
	deadline    <-chan time.Time
	abort       chan struct{} // closed at the end of the case: releases every gate
}

func (c *caseRun) log(format string, a ...any) {
	s := fmt.Sprintf(format, a...)
	c.mu.Lock()
	c.trace = append(c.trace, s)
	c.mu.Unlock()
}

func (c *caseRun) setOdd(s string) {
	c.mu.Lock()
	if c.odd == "" {
		c.odd = s
	}
	c.mu.Unlock()
}

// ---------------------------------------------------------------- fake processor

type fake struct {
	c           *caseRun
	g           int
	openOK      bool
	gateOpen    bool
	openEntered chan struct{}
	openRelease chan struct{}
	once        sync.Once
}

func (p *fake) Open(context.Context) error {
	if p.openOK {
		p.c.log("o%d+", p.g)
	} else {
		p.c.log("o%d-", p.g)
	}
	if p.gateOpen {
		p.once.Do(func() { close(p.openEntered) })
		select {
		case <-p.openRelease:
		case <-p.c.abort:
		}
	}
	if !p.openOK {
		return errOpen
	}
	return nil
}

func (p *fake) Process(_ context.Context, recs []opencdc.Record) []sdk.ProcessedRecord {
	c := p.c
	if len(recs) != 1 {
		c.setOdd("process-batch")
		return nil
	}
	i, err := strconv.Atoi(string(recs[0].Key.Bytes()))
	if err != nil {
		c.setOdd("process-key")
		return nil
	}
	c.log("p%d.%d", p.g, i)
	c.mu.Lock()
	pl := c.plans[i]
	c.mu.Unlock()
	k := pl.kind
	if pl.gated {
		select {
		case c.procEntered <- i:
		case <-c.abort:
			return []sdk.ProcessedRecord{sdk.FilterRecord{}}
		}
		select {
		case k = <-c.procRelease:
		case <-c.abort:
			return []sdk.ProcessedRecord{sdk.FilterRecord{}}
		}
		c.mu.Lock()
		c.plans[i] = plan{kind: k}
		c.mu.Unlock()
	}
	lk := k
	if lk == 'E' {
		lk = 'e'
	}
	c.log("q%d%c", i, lk)
	rec := recs[0].Clone()
	if rec.Metadata == nil {
		rec.Metadata = opencdc.Metadata{}
	}
	rec.Metadata["gen"] = strconv.Itoa(p.g)
	switch k {
	case 's':
		return []sdk.ProcessedRecord{sdk.SingleRecord(rec)}
	case 'c':
		rec.Position = opencdc.Position("moved")
		return []sdk.ProcessedRecord{sdk.SingleRecord(rec)}
	case 'f':
		return []sdk.ProcessedRecord{sdk.FilterRecord{}}
	case 'e', 'E':
		return []sdk.ProcessedRecord{sdk.ErrorRecord{Error: errProc}}
	case 'm':
		return []sdk.ProcessedRecord{sdk.MultiRecord{rec, rec}}
	case 'u':
		return []sdk.ProcessedRecord{nil}
	default: // 'w'
		return []sdk.ProcessedRecord{}
	}
}

func (p *fake) Teardown(context.Context) error {
	p.c.log("t%dp", p.g)
	return nil
}

func (p *fake) TeardownForReconfigure(context.Context) error {
	p.c.log("t%dr", p.g)
	return nil
}

// ---------------------------------------------------------------- executor

func newCase() *caseRun {
	c := &caseRun{
		in:          make(chan *stream.Message),
		runDone:     make(chan string, 1),
		plans:       map[int]plan{},
		procEntered: make(chan int),
		procRelease: make(chan byte),
		nacked:      make(chan int, 16),
		reqs:        map[int]*reqState{},
		abort:       make(chan struct{}),
	}
	c.proc0 = &fake{c: c, g: 0, openOK: true}
	c.node = &stream.ProcessorNode{Name: "proc", Processor: c.proc0, ProcessorTimer: noop.Timer{}}
	c.node.SetLogger(log.Nop())
	c.node.Sub(c.in)
	c.out = c.node.Pub()
	return c
}

func classifyRun(err error) string {
	switch {
	case err == nil:
		return "n"
	case errors.Is(err, context.Canceled):
		return "c"
	default:
		return "e"
	}
}

func classifyReconf(err error) string {
	switch {
	case err == nil:
		return "o"
	case errors.Is(err, context.Canceled):
		return "c"
	case errors.Is(err, errOpen):
		return "e"
	case strings.Contains(err.Error(), "already in progress"):
		return "j"
	default:
		return "?"
	}
}

func (c *caseRun) start(openOK bool) {
	c.proc0.openOK = openOK
	ctx, cancel := context.WithCancel(context.Background())
	c.cancelRun = cancel
	c.started = true
	c.log("B")
	go func() {
		defer func() {
			if p := recover(); p != nil {
				c.setOdd("panic")
				c.runDone <- "panic"
			}
		}()
		c.runDone <- classifyRun(c.node.Run(ctx))
	}()
}

func (c *caseRun) feed(i int, k byte, gated bool) bool {
	pre := k == 'x'
	c.mu.Lock()
	c.plans[i] = plan{kind: k, gated: gated, pre: pre}
	c.mu.Unlock()
	msg := &stream.Message{
		Ctx: context.Background(),
		Record: opencdc.Record{
			Position:  opencdc.Position("p" + strconv.Itoa(i)),
			Operation: opencdc.OperationCreate,
			Key:       opencdc.RawData(strconv.Itoa(i)),
			Payload:   opencdc.Change{After: opencdc.RawData("v" + strconv.Itoa(i))},
			Metadata:  opencdc.Metadata{},
		},
	}
	msg.RegisterAckHandler(func(*stream.Message) error {
		c.log("a%d", i)
		return nil
	})
	msg.RegisterNackHandler(func(*stream.Message, stream.NackMetadata) error {
		c.mu.Lock()
		fail := c.plans[i].kind == 'E'
		c.mu.Unlock()
		var err error
		if fail {
			c.log("n%d-", i)
			err = errNack
		} else {
			c.log("n%d+", i)
		}
		select {
		case c.nacked <- i:
		default:
		}
		return err
	})
	if pre {
		stream.VerifSetFiltered(msg)
		c.log("Fx%d", i)
	} else {
		c.log("F%d", i)
	}
	select {
	case c.in <- msg:
	case <-c.deadline:
		c.hung = true
		return false
	}
	c.log("f%d", i)
	return true
}

// afterProcess does what the harness does once record i's Process result kind k is fixed: read the
// forwarded message downstream and ack it, or wait for the node's nack.
func (c *caseRun) afterProcess(i int, k byte, drain bool) bool {
	switch k {
	case 's', 'f', 'x':
		if !drain {
			return c.waitNack(i)
		}
		c.log("D")
		select {
		case m, ok := <-c.out:
			if !ok {
				c.log("d-")
				return true
			}
			c.observe(m)
		case <-c.deadline:
			c.hung = true
			return false
		}
		return true
	default:
		return c.waitNack(i)
	}
}

func (c *caseRun) waitNack(i int) bool {
	select {
	case j := <-c.nacked:
		if j != i {
			c.setOdd("nack-of-other-record")
		}
		return true
	case <-c.deadline:
		c.hung = true
		return false
	}
}

func (c *caseRun) observe(m *stream.Message) {
	pos := string(m.Record.Position)
	i, err := strconv.Atoi(strings.TrimPrefix(pos, "p"))
	if err != nil || !strings.HasPrefix(pos, "p") {
		c.log("d?pos")
		return
	}
	if string(m.Record.Key.Bytes()) != strconv.Itoa(i) {
		c.log("d?key")
		return
	}
	if m.Record.Payload.After == nil || string(m.Record.Payload.After.Bytes()) != "v"+strconv.Itoa(i) {
		c.log("d?payload")
		return
	}
	g := "-"
	if v, ok := m.Record.Metadata["gen"]; ok {
		g = v
	}
	k := "s"
	if stream.VerifFiltered(m) {
		c.mu.Lock()
		pre := c.plans[i].pre
		c.mu.Unlock()
		if pre {
			k = "x"
		} else {
			k = "f"
		}
	}
	c.log("d%d.%s.%s", i, g, k)
	if err := m.Ack(); err != nil {
		c.setOdd("ack-error")
	}
}

func (c *caseRun) reconfigure(r int, openOK, gated bool) {
	ctx, cancel := context.WithCancel(context.Background())
	fk := &fake{c: c, g: r, openOK: openOK, gateOpen: gated, openEntered: make(chan struct{}), openRelease: make(chan struct{})}
	rs := &reqState{cancel: cancel, ret: make(chan string, 1), fk: fk}
	c.reqs[r] = rs
	c.log("C%d", r)
	go func() {
		defer func() {
			if p := recover(); p != nil {
				c.setOdd("panic")
				rs.ret <- "?"
			}
		}()
		if c.svc != nil {
			rs.ret <- classifyReconf(c.svc.ReconfigureProcessor(context.WithValue(ctx, reqKey{}, fk), svcPipelineID, svcProcessorID))
			return
		}
		rs.ret <- classifyReconf(c.node.Reconfigure(ctx, fk))
	}()
}

func (c *caseRun) waitPending(want bool) bool {
	for spins := 0; ; spins++ {
		done := false
		c.node.VerifPending(func(staged bool) {
			if staged == want {
				if want {
					c.log("S1")
				} else {
					c.log("S0")
				}
				done = true
			}
		})
		if done {
			return true
		}
		select {
		case <-c.deadline:
			c.hung = true
			return false
		default:
		}
		if spins < 200 {
			runtime.Gosched()
		} else {
			time.Sleep(20 * time.Microsecond)
		}
	}
}

func atoiTail(s string) (int, bool) {
	n, err := strconv.Atoi(s)
	return n, err == nil
}

// exec runs one script operation; false stops the script (hang or malformed op).
func (c *caseRun) exec(op string) bool {
	switch {
	case op == "B":
		c.start(true)
	case op == "B-":
		c.start(false)
	case op == "K":
		c.log("K")
		c.cancelRun()
	case op == "Z":
		c.log("Z")
		if !c.inClosed {
			c.inClosed = true
			close(c.in)
		}
	case op == "E":
		select {
		case cl := <-c.runDone:
			if cl == "panic" {
				return false
			}
			c.log("e=%s", cl)
		case <-c.deadline:
			c.hung = true
			return false
		}
	case op == "P":
		c.node.VerifPending(func(staged bool) {
			if staged {
				c.log("S1")
			} else {
				c.log("S0")
			}
		})
	case op == "S1":
		return c.waitPending(true)
	case op == "S0":
		return c.waitPending(false)
	case op[0] == 'f' && len(op) >= 3:
		i, ok := atoiTail(op[1 : len(op)-1])
		if !ok {
			return c.bad(op)
		}
		k := op[len(op)-1]
		if !c.feed(i, k, false) {
			return false
		}
		return c.afterProcess(i, k, true)
	case op[0] == 'g':
		i, ok := atoiTail(op[1:])
		if !ok {
			return c.bad(op)
		}
		if !c.feed(i, 's', true) {
			return false
		}
		select {
		case j := <-c.procEntered:
			if j != i {
				c.setOdd("entered-other-record")
			}
		case <-c.deadline:
			c.hung = true
			return false
		}
	case (op[0] == 'r' || op[0] == 'R') && len(op) == 2:
		k := op[1]
		var i int
		c.mu.Lock()
		i = -1
		for j, pl := range c.plans {
			if pl.gated {
				i = j
			}
		}
		c.mu.Unlock()
		if i < 0 {
			return c.bad(op)
		}
		select {
		case c.procRelease <- k:
		case <-c.deadline:
			c.hung = true
			return false
		}
		return c.afterProcess(i, k, op[0] == 'r')
	case op[0] == 'c':
		body := op[1:]
		gated := strings.HasSuffix(body, "g")
		body = strings.TrimSuffix(body, "g")
		if len(body) < 2 {
			return c.bad(op)
		}
		r, ok := atoiTail(body[:len(body)-1])
		if !ok || r < 1 || c.reqs[r] != nil {
			return c.bad(op)
		}
		c.reconfigure(r, body[len(body)-1] == '+', gated)
	case op[0] == 'W' || op[0] == 'U' || op[0] == 'X' || op[0] == 'A':
		r, ok := atoiTail(op[1:])
		rs := c.reqs[r]
		if !ok || rs == nil {
			return c.bad(op)
		}
		switch op[0] {
		case 'W':
			select {
			case <-rs.fk.openEntered:
			case <-c.deadline:
				c.hung = true
				return false
			}
		case 'U':
			select {
			case rs.fk.openRelease <- struct{}{}:
			case <-c.deadline:
				c.hung = true
				return false
			}
		case 'X':
			c.log("X%d", r)
			rs.cancel()
		case 'A':
			select {
			case cl := <-rs.ret:
				c.log("r%d=%s", r, cl)
			case <-c.deadline:
				c.hung = true
				return false
			}
		}
	default:
		return c.bad(op)
	}
	return true
}

func (c *caseRun) bad(op string) bool {
	c.setOdd("bad-script-op:" + op)
	return false
}

// runScript executes a script; a case that hit the per-case deadline is executed once more with a long
// deadline before it is reported as `hang`, so that a starved scheduler on a loaded machine cannot
// produce a false alarm (a real hang just costs the second deadline).
func runScript(script string) (line, res string) {
	line, res = runScriptOnce(script, caseDeadline)
	if res == "hang" {
		line, res = runScriptOnce(script, retryDeadline)
	}
	return line, res
}

func runScriptOnce(script string, deadline time.Duration) (line, res string) {
	return runScriptOnceWith(newCase, script, deadline)
}

func runScriptOnceWith(mk func() *caseRun, script string, deadline time.Duration) (line, res string) {
	c := mk()
	tm := time.NewTimer(deadline)
	defer tm.Stop()
	c.deadline = tm.C
	func() {
		defer func() {
			if p := recover(); p != nil {
				c.setOdd("panic")
			}
		}()
		for _, op := range strings.Fields(script) {
			if !c.exec(op) {
				break
			}
		}
	}()
	// the trace ends here: what the clean-up below provokes is not part of the case
	c.mu.Lock()
	tr := strings.Join(c.trace, " ")
	c.mu.Unlock()
	// release everything still blocked so that goroutines of this case end
	close(c.abort)
	if c.cancelRun != nil {
		c.cancelRun()
	}
	for _, rs := range c.reqs {
		rs.cancel()
	}
	if c.hung {
		// give released goroutines a moment so their late log lines do not interleave with the next case
		time.Sleep(2 * time.Millisecond)
	}
	c.mu.Lock()
	odd := c.odd
	c.mu.Unlock()
	res = "ok"
	switch {
	case odd == "panic":
		res = "panic"
	case odd != "":
		res = "odd:" + odd
	case c.hung:
		res = "hang"
	}
	return script + " | " + tr, res
}

func nontrivial(line, _ string) bool {
	parts := strings.SplitN(line, "|", 2)
	if len(parts) != 2 {
		return false
	}
	toks := strings.Fields(parts[1])
	for k, t := range toks {
		if len(t) >= 3 && t[0] == 'o' && t[1] != '0' {
			before, after := false, false
			for _, u := range toks[:k] {
				if u[0] == 'p' {
					before = true
				}
			}
			for _, u := range toks[k+1:] {
				if u[0] == 'p' {
					after = true
				}
			}
			if before && after {
				return true
			}
		}
	}
	return false
}

// ---------------------------------------------------------------- generator

const (
	lNotStarted = iota
	lIdle
	lInProc
	lInOpen
	lExiting
	lExited
)

const (
	kUnknown = iota
	kStaged
	kClaimed
	kRejected
)

type greq struct {
	id        int
	gated     bool
	cancelled bool
	awaited   bool
	known     int
	epoch     int
	// solo: no other request was outstanding when this one was issued and none has been issued since
	// while its fate was unknown (so it was certainly accepted by the busy guard).
	solo bool
}

type gstate struct {
	r       *gen.Rand
	o       *gen.Out
	ops     []string
	loop    int
	stop    bool // K, Z or a fatal record: no more feeds, loop will exit once free
	kIssued bool
	openReq *greq
	nextRec int
	nextReq int
	reqs    []*greq
	epoch   int // changes whenever the loop is released from / enters a gate
}

func (g *gstate) emit(format string, a ...any) { g.ops = append(g.ops, fmt.Sprintf(format, a...)) }

func (g *gstate) unreturned() []*greq {
	var out []*greq
	for _, q := range g.reqs {
		if !q.awaited {
			out = append(out, q)
		}
	}
	return out
}

// exclusive: every earlier request has returned, except the one the loop holds in its Open gate.
func (g *gstate) exclusive() bool {
	for _, q := range g.unreturned() {
		if q != g.openReq {
			return false
		}
	}
	return true
}

func (g *gstate) loopHeld() bool {
	return g.loop == lNotStarted || g.loop == lInProc || g.loop == lInOpen || g.loop == lExited
}

// stagedKnown returns the request known to sit in n.pending during the current gate period.
func (g *gstate) stagedKnown() *greq {
	for _, q := range g.unreturned() {
		if q.known == kStaged && q.epoch == g.epoch && !q.cancelled {
			return q
		}
	}
	return nil
}

func (g *gstate) newEpoch() {
	g.epoch++
}

func (g *gstate) newReq(gated bool) *greq {
	g.nextReq++
	q := &greq{id: g.nextReq, gated: gated, epoch: g.epoch, solo: g.exclusive()}
	for _, o := range g.unreturned() {
		if o.known == kUnknown {
			o.solo = false
		}
	}
	g.reqs = append(g.reqs, q)
	ok := "+"
	if g.r.Chance(1, 3) {
		ok = "-"
	}
	gs := ""
	if gated {
		gs = "g"
	}
	g.emit("c%d%s%s", q.id, ok, gs)
	g.o.Count("reconf:open" + ok + gs)
	return q
}

var fwdKinds = []byte{'s', 's', 's', 's', 'f', 'x', 'e'}
var fatalKinds = []byte{'c', 'E', 'm', 'u', 'w'}

func (g *gstate) pickKind(allowPre bool) (byte, bool) {
	if g.r.Chance(1, 40) {
		return fatalKinds[g.r.Intn(len(fatalKinds))], true
	}
	for {
		k := fwdKinds[g.r.Intn(len(fwdKinds))]
		if k == 'x' && !allowPre {
			continue
		}
		return k, false
	}
}

// release emits the release of the record blocked in Process and what follows from it.
func (g *gstate) release() {
	k, fatal := g.pickKind(false)
	op := "r"
	if g.kIssued && (k == 's' || k == 'f') && g.r.Chance(1, 2) {
		op = "R" // nobody reads downstream: Send ends through ctx.Done, the node nacks
	}
	g.emit("%s%c", op, k)
	g.o.Count("kind:" + string(k))
	g.newEpoch()
	staged := (*greq)(nil)
	for _, q := range g.unreturned() {
		if q.gated && q.known == kStaged && !q.cancelled {
			staged = q
		}
		if q.known == kStaged {
			q.known = kUnknown
		}
	}
	if fatal || g.kIssued {
		g.stop = true
		g.loop = lExiting
		return
	}
	if staged != nil {
		// the loop claims it at the next boundary and blocks in its Open
		g.emit("W%d", staged.id)
		staged.known = kClaimed
		g.openReq = staged
		g.loop = lInOpen
		g.newEpoch()
		return
	}
	if g.stop {
		g.loop = lExiting
	} else {
		g.loop = lIdle
	}
}

func (g *gstate) unblockOpen() {
	g.emit("U%d", g.openReq.id)
	g.openReq.gated = false
	g.openReq = nil
	g.newEpoch()
	for _, q := range g.unreturned() {
		if q.known == kStaged {
			q.known = kUnknown
		}
	}
	if g.stop {
		g.loop = lExiting
	} else {
		g.loop = lIdle
	}
}

func (g *gstate) step() {
	r := g.r
	type choice struct {
		w  int
		fn func()
	}
	var cs []choice
	add := func(w int, fn func()) { cs = append(cs, choice{w, fn}) }
	unret := g.unreturned()

	// reconfigure calls
	if len(unret) < 3 {
		add(6, func() {
			gated := false
			if g.exclusive() && (g.loop == lIdle || g.loop == lInProc) && !g.stop && r.Chance(1, 3) {
				gated = true
			}
			q := g.newReq(gated)
			if g.stagedKnown() != nil && g.loopHeld() {
				q.known = kRejected
				g.o.Count("instant:second-while-staged")
			}
			rejected := q.known == kRejected
			switch g.loop {
			case lIdle:
				g.o.Count("instant:idle")
			case lInProc:
				g.o.Count("instant:mid-record")
			case lInOpen:
				g.o.Count("instant:during-swap")
			case lExiting:
				g.o.Count("instant:during-stop")
			case lExited:
				g.o.Count("instant:after-exit")
			case lNotStarted:
				g.o.Count("instant:before-run")
			}
			if gated {
				if g.loop == lIdle {
					g.emit("W%d", q.id)
					q.known = kClaimed
					g.openReq = q
					g.loop = lInOpen
					g.newEpoch()
				} else {
					g.emit("S1")
					q.known = kStaged
				}
			}
			if rejected {
				// collect it at once: it is certainly rejected only while the staged request stays staged
				g.emit("A%d", q.id)
				q.awaited = true
			}
		})
	}
	// S1: the only outstanding request, issued while the loop is held, is certainly staged
	if g.loopHeld() && g.stagedKnown() == nil {
		var cand *greq
		n := 0
		for _, q := range unret {
			if q == g.openReq {
				continue
			}
			n++
			if q.known == kUnknown && q.epoch == g.epoch && !q.cancelled {
				cand = q
			}
		}
		if n == 1 && cand != nil && cand.solo {
			add(8, func() {
				g.emit("S1")
				cand.known = kStaged
			})
		}
	}
	// cancel / await
	for _, q := range unret {
		q := q
		if !q.cancelled {
			add(2, func() {
				g.emit("X%d", q.id)
				q.cancelled = true
				switch q.known {
				case kStaged:
					g.o.Count("cancel:staged")
				case kClaimed:
					g.o.Count("cancel:claimed")
				default:
					g.o.Count("cancel:unknown")
				}
				if q.gated {
					// a gated request must not be claimed after its cancellation raced with the loop:
					// collect it now (withdrawn for certain while staged and the loop is held; claimed: U follows)
					g.emit("A%d", q.id)
					q.awaited = true
				}
			})
		}
		canAwait := q.cancelled || q.known == kRejected || (g.loop == lIdle && !g.stop && !q.gated)
		if q == g.openReq && !q.cancelled {
			canAwait = false
		}
		if canAwait {
			add(4, func() {
				g.emit("A%d", q.id)
				q.awaited = true
			})
		}
	}
	add(3, func() { g.emit("P") })
	if len(unret) == 0 && g.loop != lNotStarted && r.Chance(1, 4) {
		add(1, func() { g.emit("S0") })
	}
	switch g.loop {
	case lNotStarted:
		add(10, func() {
			if r.Chance(1, 25) {
				g.emit("B-")
				g.stop = true
				g.loop = lExiting
			} else {
				g.emit("B")
				g.loop = lIdle
			}
			g.newEpoch()
			for _, q := range g.unreturned() {
				if q.known == kStaged {
					q.known = kUnknown
				}
			}
		})
	case lIdle:
		if !g.stop {
			add(10, func() {
				k, fatal := g.pickKind(true)
				g.emit("f%d%c", g.nextRec, k)
				g.o.Count("kind:" + string(k))
				g.nextRec++
				if fatal {
					g.stop = true
					g.loop = lExiting
				}
			})
			add(8, func() {
				g.emit("g%d", g.nextRec)
				g.nextRec++
				g.loop = lInProc
				g.newEpoch()
			})
			add(1, func() {
				if r.Chance(1, 2) {
					g.emit("K")
					g.kIssued = true
				} else {
					g.emit("Z")
				}
				g.stop = true
				g.loop = lExiting
			})
		}
	case lInProc:
		add(6, func() { g.release() })
		gatedStaged := false
		for _, q := range unret {
			if q.gated && !q.cancelled {
				gatedStaged = true
			}
		}
		if !g.stop {
			add(1, func() {
				if r.Chance(1, 2) && !gatedStaged {
					g.emit("K")
					g.kIssued = true
				} else {
					g.emit("Z")
				}
				g.stop = true
			})
		}
	case lInOpen:
		add(5, func() { g.unblockOpen() })
		if !g.stop {
			add(1, func() {
				if r.Chance(1, 2) {
					g.emit("K")
					g.kIssued = true
				} else {
					g.emit("Z")
				}
				g.stop = true
			})
		}
	case lExiting:
		add(6, func() {
			g.emit("E")
			g.loop = lExited
			g.newEpoch()
			// re-establish exclusivity: every request still out is cancelled and collected
			for _, q := range g.unreturned() {
				if !q.cancelled {
					g.emit("X%d", q.id)
					q.cancelled = true
				}
				g.emit("A%d", q.id)
				q.awaited = true
			}
		})
	case lExited:
	}
	ws := make([]int, len(cs))
	for i, c := range cs {
		ws[i] = c.w
	}
	if len(cs) == 0 {
		return
	}
	cs[r.Pick(ws...)].fn()
}

func (g *gstate) finish() {
	for guard := 0; guard < 50; guard++ {
		switch g.loop {
		case lNotStarted:
			g.emit("B")
			g.loop = lIdle
			g.newEpoch()
			for _, q := range g.unreturned() {
				if q.known == kStaged {
					q.known = kUnknown
				}
			}
		case lInProc:
			g.release()
		case lInOpen:
			g.unblockOpen()
		case lIdle:
			for _, q := range g.unreturned() {
				if g.r.Chance(1, 4) && !q.cancelled {
					g.emit("X%d", q.id)
					q.cancelled = true
				}
				g.emit("A%d", q.id)
				q.awaited = true
			}
			if g.r.Chance(1, 2) {
				g.emit("K")
				g.kIssued = true
			} else {
				g.emit("Z")
			}
			g.stop = true
			g.loop = lExiting
		case lExiting:
			g.emit("E")
			g.loop = lExited
			for _, q := range g.unreturned() {
				if !q.cancelled {
					g.emit("X%d", q.id)
					q.cancelled = true
				}
				g.emit("A%d", q.id)
				q.awaited = true
			}
		case lExited:
			for _, q := range g.unreturned() {
				if !q.cancelled {
					g.emit("X%d", q.id)
					q.cancelled = true
				}
				g.emit("A%d", q.id)
				q.awaited = true
			}
			return
		}
	}
}

func genScript(r *gen.Rand, o *gen.Out, _ int) string {
	g := &gstate{r: r, o: o}
	if !r.Chance(1, 12) {
		g.emit("B")
		g.loop = lIdle
	}
	n := r.Range(4, 28)
	for i := 0; i < n; i++ {
		g.step()
	}
	g.finish()
	o.Count(fmt.Sprintf("len:%02d", (len(g.ops)/10)*10))
	return strings.Join(g.ops, " ")
}
