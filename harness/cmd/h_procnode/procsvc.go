package main

import (
	"context"
	"runtime"
	"strings"

	"github.com/conduitio/conduit-commons/config"
	"github.com/conduitio/conduit-commons/opencdc"
	sdk "github.com/conduitio/conduit-processor-sdk"
	"github.com/conduitio/conduit/pkg/foundation/cerrors"
	"github.com/conduitio/conduit/pkg/foundation/log"
	"github.com/conduitio/conduit/pkg/foundation/metrics/noop"
	"github.com/conduitio/conduit/pkg/lifecycle"
	"github.com/conduitio/conduit/pkg/lifecycle/stream"
	"github.com/conduitio/conduit/pkg/pipeline"
	"github.com/conduitio/conduit/pkg/processor"

	"verif/harness/gen"
)

// Component procsvc: the same scripts as `procnode`, but every Reconfigure request goes through the real
// lifecycle.Service.ReconfigureProcessor (pipeline published through the verif hook VerifPublishNodes,
// processors are real processor.RunnableProcessor values around fake plugins). The fake plugin's
// Teardown tells from its call stack who tore it down:
//
//	T<g>   inside lifecycle.(*Service).ReconfigureProcessor (the API goroutine)
//	t<g>r  through TeardownForReconfigure (the node's applyPendingSwap)
//	t<g>p  the plain Teardown (the node's deferred teardown)
//
// and a Process call on a plugin that has been torn down is logged as a nack-able error record, as a real
// plugin would answer. Half of the generated cases are cancel-after-claim templates (the request's
// context is cancelled while the run loop is inside the new processor's Open, or right after the swap).
func init() {
	components["procsvc"] = component{gen: genScriptSvc, run: runScriptSvc, nontrivial: nontrivial}
}

const (
	svcPipelineID  = "pl"
	svcProcessorID = "proc"
)

type reqKey struct{}

// sdkFake adapts a fake to sdk.Processor (what a RunnableProcessor wraps).
type sdkFake struct {
	sdk.UnimplementedProcessor
	f *fake
}

func (p *sdkFake) Configure(context.Context, config.Config) error { return nil }
func (p *sdkFake) Open(ctx context.Context) error                 { return p.f.Open(ctx) }
func (p *sdkFake) Process(ctx context.Context, recs []opencdc.Record) []sdk.ProcessedRecord {
	return p.f.Process(ctx, recs)
}

func (p *sdkFake) Teardown(context.Context) error {
	pcs := make([]uintptr, 32)
	n := runtime.Callers(2, pcs)
	frames := runtime.CallersFrames(pcs[:n])
	viaSvc, viaRc := false, false
	for {
		fr, more := frames.Next()
		if strings.HasSuffix(fr.Function, "lifecycle.(*Service).ReconfigureProcessor") {
			viaSvc = true
		}
		if strings.HasSuffix(fr.Function, ".TeardownForReconfigure") || strings.HasSuffix(fr.Function, ".teardownForReconfigure") {
			viaRc = true
		}
		if !more {
			break
		}
	}
	switch {
	case viaSvc:
		p.f.c.log("T%d", p.f.g)
	case viaRc:
		p.f.c.log("t%dr", p.f.g)
	default:
		p.f.c.log("t%dp", p.f.g)
	}
	return nil
}

// svcProcessors is the lifecycle.ProcessorService of the case: the runnable of request r wraps fake r
// (the request id travels in the context of the ReconfigureProcessor call).
type svcProcessors struct{ c *caseRun }

func (s svcProcessors) Get(context.Context, string) (*processor.Instance, error) {
	return &processor.Instance{ID: svcProcessorID, Plugin: "verif"}, nil
}

func (s svcProcessors) MakeRunnableProcessor(context.Context, *processor.Instance) (*processor.RunnableProcessor, error) {
	return nil, cerrors.New("verif: not used")
}

func (s svcProcessors) MakeRunnableProcessorForReconfigure(ctx context.Context, _ *processor.Instance) (*processor.RunnableProcessor, error) {
	fk, ok := ctx.Value(reqKey{}).(*fake)
	if !ok {
		return nil, cerrors.New("verif: request without a fake")
	}
	return processor.VerifNewRunnableProcessor(&sdkFake{f: fk}, "")
}

func newCaseSvc() *caseRun {
	c := newCase()
	rp, err := processor.VerifNewRunnableProcessor(&sdkFake{f: c.proc0}, "")
	if err != nil {
		panic(err)
	}
	c.node = &stream.ProcessorNode{Name: svcProcessorID, Processor: rp, ProcessorTimer: noop.Timer{}}
	c.node.SetLogger(log.Nop())
	c.node.Sub(c.in)
	c.out = c.node.Pub()
	c.svc = lifecycle.NewService(log.Nop(), &lifecycle.ErrRecoveryCfg{}, nil, svcProcessors{c}, nil, nil)
	c.svc.VerifPublishNodes(&pipeline.Instance{ID: svcPipelineID, Config: pipeline.Config{Name: "verif"}}, []stream.Node{c.node})
	return c
}

func runScriptSvc(script string) (line, res string) {
	line, res = runScriptOnceWith(newCaseSvc, script, caseDeadline)
	if res == "hang" {
		line, res = runScriptOnceWith(newCaseSvc, script, retryDeadline)
	}
	return line, res
}

// cancel-after-claim templates (request r: Open gated, cancelled while the loop is inside it or after the swap)
var svcTemplates = []string{
	"B f0s c1+g W1 X1 A1 U1 f1s f2s Z E",        // cancelled inside Open; swap completes; records flow on
	"B f0s c1+g W1 X1 A1 U1 f1s c2+ A2 f2s Z E", // … and a later reconfigure still works
	"B g0 c1+g rs W1 X1 A1 U1 f1s f2e f3s K E",  // mid-stream
	"B c1+g W1 X1 A1 U1 f0s f1f Z E",            // idle node
	"B f0s c1-g W1 X1 A1 U1 f1s Z E",            // cancelled inside an Open that then fails
	"B f0s c1+g W1 U1 A1 f1s Z E",               // control: not cancelled
	"B f0s c1- A1 f1s Z E",                      // control: open failure reported
	"B f0s c1+g W1 X1 A1 K U1 E",                // cancelled inside Open, then the node is stopped
}

func genScriptSvc(r *gen.Rand, o *gen.Out, i int) string {
	if r.Chance(1, 2) {
		o.Count("svc:template")
		return svcTemplates[r.Intn(len(svcTemplates))]
	}
	return genScript(r, o, i)
}
