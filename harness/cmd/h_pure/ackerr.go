package main

import (
	"context"
	"fmt"
	"strconv"
	"strings"
	"sync"
	"time"

	"github.com/conduitio/conduit-commons/opencdc"
	"github.com/conduitio/conduit/pkg/connector"
	"github.com/conduitio/conduit/pkg/foundation/log"
	"github.com/conduitio/conduit/pkg/foundation/metrics"
	"github.com/conduitio/conduit/pkg/foundation/metrics/noop"
	"github.com/conduitio/conduit/pkg/lifecycle"
	"github.com/conduitio/conduit/pkg/lifecycle/stream"
	"verif/harness/gen"
)

// Component ackerr (C20): the REAL v1 ack / nack route. A real SourceAckerNode, DestinationAckerNode
// and DLQHandlerNode (with the real lifecycle.DLQDestination as its handler) run as they do in a
// pipeline; scripted fake connectors give, per message, the destination's answer (ack, or nack
// with a generated error), the DLQ destination's behaviour and what Source.Ack returns. The result
// is the classification of the error DestinationAckerNode.Run returns (what lifecycle.Service
// wraps once more and hands to cerrors.IsFatalError). Syntax in Driver/AckErr.lean:
//
//	ak <size> <thr> | <a | n NACKEXPR> / <ok | w EXPR | k EXPR | n EXPR> / <ok | EXPR> | …
func init() {
	components["ackerr"] = component{gen: genAckErr, run: runAckErr,
		nontrivial: func(l, res string) bool { return res != "nil" && res != "bad-op" && !strings.HasPrefix(res, "harness") }}
}

type akMsg struct {
	nack    error // destination's ack.Error (nil = ack)
	dlqKind string
	dlqErr  error
	srcAck  error
}

// akSource: Ack returns the scripted error of the message with that position.
type akSource struct {
	msgs []akMsg
}

func (s *akSource) ID() string                 { return "src" }
func (s *akSource) Open(context.Context) error { return nil }
func (s *akSource) Read(ctx context.Context) ([]opencdc.Record, error) {
	<-ctx.Done()
	return nil, ctx.Err()
}
func (s *akSource) Ack(_ context.Context, ps []opencdc.Position) error {
	for _, p := range ps {
		if i, err := strconv.Atoi(strings.TrimPrefix(string(p), "p")); err == nil && i < len(s.msgs) && s.msgs[i].srcAck != nil {
			return s.msgs[i].srcAck
		}
	}
	return nil
}
func (s *akSource) Stop(context.Context) (opencdc.Position, error) { return nil, nil }
func (s *akSource) Teardown(context.Context) error                 { return nil }
func (s *akSource) Errors() <-chan error                           { return nil }

// akDest: the destination whose acks the DestinationAckerNode fetches: one ack per call, in the
// order the messages were sent.
type akDest struct {
	mu   sync.Mutex
	msgs []akMsg
	next int
}

func (d *akDest) ID() string                                          { return "dst" }
func (d *akDest) Open(context.Context) error                          { return nil }
func (d *akDest) Write(context.Context, []opencdc.Record) error       { return nil }
func (d *akDest) Stop(context.Context, opencdc.Position) error        { return nil }
func (d *akDest) Teardown(context.Context) error                      { return nil }
func (d *akDest) Errors() <-chan error                                { return nil }
func (d *akDest) Ack(ctx context.Context) ([]connector.DestinationAck, error) {
	d.mu.Lock()
	defer d.mu.Unlock()
	if d.next >= len(d.msgs) {
		return nil, context.Canceled // only reached by the teardown drain goroutine
	}
	i := d.next
	d.next++
	return []connector.DestinationAck{{Position: opencdc.Position("p" + strconv.Itoa(i)), Error: d.msgs[i].nack}}, nil
}

// akDLQ: the DLQ destination behind lifecycle.DLQDestination.
type akDLQ struct {
	msgs []akMsg
	last opencdc.Record
	cur  int
}

func (d *akDLQ) ID() string                                   { return "dlq-dst" }
func (d *akDLQ) Open(context.Context) error                   { return nil }
func (d *akDLQ) Stop(context.Context, opencdc.Position) error { return nil }
func (d *akDLQ) Teardown(context.Context) error               { return nil }
func (d *akDLQ) Errors() <-chan error                         { return nil }
func (d *akDLQ) idx(r opencdc.Record) int {
	// DLQ record position = message ID = "<sourceID>/<position>"
	s := string(r.Position)
	if k := strings.LastIndex(s, "/p"); k >= 0 {
		if i, err := strconv.Atoi(s[k+2:]); err == nil {
			return i
		}
	}
	return -1
}
func (d *akDLQ) Write(_ context.Context, rs []opencdc.Record) error {
	d.last = rs[0]
	d.cur = d.idx(rs[0])
	if d.cur >= 0 && d.cur < len(d.msgs) && d.msgs[d.cur].dlqKind == "w" {
		return d.msgs[d.cur].dlqErr
	}
	return nil
}
func (d *akDLQ) Ack(context.Context) ([]connector.DestinationAck, error) {
	if d.cur >= 0 && d.cur < len(d.msgs) {
		switch d.msgs[d.cur].dlqKind {
		case "k":
			return nil, d.msgs[d.cur].dlqErr
		case "n":
			return []connector.DestinationAck{{Position: d.last.Position, Error: d.msgs[d.cur].dlqErr}}, nil
		}
	}
	return []connector.DestinationAck{{Position: d.last.Position}}, nil
}

func akTagged(s string) (string, error, bool) {
	s = strings.TrimSpace(s)
	if len(s) < 2 {
		return "", nil, false
	}
	e, ok := exprErr(s[1:])
	if !ok || e == nil {
		return "", nil, false
	}
	return s[:1], e, true
}

func parseAckErr(line string) (size, thr int, msgs []akMsg, ok bool) {
	fs := strings.Split(line, " | ")
	hd := strings.Fields(fs[0])
	if len(hd) != 3 || hd[0] != "ak" {
		return
	}
	var e1, e2 error
	size, e1 = strconv.Atoi(hd[1])
	thr, e2 = strconv.Atoi(hd[2])
	if e1 != nil || e2 != nil || size < 0 || thr < 0 {
		return
	}
	for _, f := range fs[1:] {
		p := strings.Split(strings.TrimSpace(f), " / ")
		if len(p) != 3 {
			return
		}
		var m akMsg
		k, d, a := strings.TrimSpace(p[0]), strings.TrimSpace(p[1]), strings.TrimSpace(p[2])
		if k != "a" {
			tag, e, good := akTagged(k)
			if !good || tag != "n" {
				return
			}
			m.nack = e
		}
		if d != "ok" {
			tag, e, good := akTagged(d)
			if !good || (tag != "w" && tag != "k" && tag != "n") {
				return
			}
			m.dlqKind, m.dlqErr = tag, e
		}
		if a != "ok" {
			e, good := exprErr(a)
			if !good || e == nil {
				return
			}
			m.srcAck = e
		}
		msgs = append(msgs, m)
	}
	return size, thr, msgs, true
}

func runAckErr(line string) (res string) {
	defer func() {
		if p := recover(); p != nil {
			if _, ok := p.(badExpr); ok {
				res = "bad-op"
				return
			}
			panic(p)
		}
	}()
	size, thr, msgs, ok := parseAckErr(line)
	if !ok {
		return "bad-op"
	}

	logger := log.Nop()
	dlqNode := &stream.DLQHandlerNode{
		Name:                "dlq",
		Handler:             &lifecycle.DLQDestination{Destination: &akDLQ{msgs: msgs, cur: -1}, Logger: logger},
		WindowSize:          size,
		WindowNackThreshold: thr,
		Timer:               noop.Timer{},
		Histogram:           metrics.NewRecordBytesHistogram(noop.Histogram{}),
	}
	dlqNode.Add(1) // as lifecycle.Service.buildNodes does for each source acker
	srcAcker := &stream.SourceAckerNode{Name: "src-acker", Source: &akSource{msgs: msgs}, DLQHandlerNode: dlqNode}
	dstAcker := &stream.DestinationAckerNode{Name: "dst-acker", Destination: &akDest{msgs: msgs}}
	in := make(chan *stream.Message)
	srcAcker.Sub(in)
	dstAcker.Sub(srcAcker.Pub())
	for _, n := range []stream.Node{dlqNode, srcAcker, dstAcker} {
		stream.SetLogger(n, logger)
	}

	ctx, cancel := context.WithCancel(context.Background())
	defer cancel()
	var wg sync.WaitGroup
	dstErr := make(chan error, 1)
	wg.Add(3)
	go func() { defer wg.Done(); _ = dlqNode.Run(ctx) }()
	go func() { defer wg.Done(); _ = srcAcker.Run(ctx) }()
	go func() { defer wg.Done(); dstErr <- dstAcker.Run(ctx) }()

	// feed the messages in order; stop feeding as soon as the destination acker stopped
	var out error
	stopped := false
	feed := func() {
		defer close(in)
		for i := range msgs {
			m := &stream.Message{Ctx: ctx, SourceID: "src", Record: opencdc.Record{
				Position: opencdc.Position("p" + strconv.Itoa(i)), Operation: opencdc.OperationCreate, Metadata: opencdc.Metadata{},
			}}
			select {
			case in <- m:
			case out = <-dstErr:
				stopped = true
				return
			case <-time.After(20 * time.Second):
				out, stopped = fmt.Errorf("harness: feeding message %d timed out", i), true
				return
			}
		}
	}
	feed()
	if !stopped {
		select {
		case out = <-dstErr:
		case <-time.After(20 * time.Second):
			return "harness-timeout"
		}
	}
	cancel()
	done := make(chan struct{})
	go func() { wg.Wait(); close(done) }()
	select {
	case <-done:
	case <-time.After(20 * time.Second):
		return "harness-timeout-stopping"
	}
	return classifyErr(out)
}

// ---------------------------------------------------------------- generator

func genAckErr(r *gen.Rand, o *gen.Out, i int) string {
	var size, thr int
	switch r.Pick(2, 6, 2) {
	case 0:
		size, thr = 0, r.Intn(3)
		o.Count("window:off")
	case 1:
		size = r.Range(1, 5)
		thr = r.Range(0, size)
		o.Count("window:small")
	default:
		size = r.Range(4, 20)
		thr = r.Range(1, 4)
		o.Count("window:large")
	}
	errExpr := func() string {
		for {
			s := genExpr(r, o, r.Range(0, 3))
			if s != "nil" && !strings.HasPrefix(s, "(j") && !strings.HasPrefix(s, "(f nil") && !strings.HasPrefix(s, "(f (g 0") &&
				!strings.HasPrefix(s, "(vs") && !strings.HasPrefix(s, "(sw") && !strings.HasPrefix(s, "(g 0") {
				return s
			}
		}
	}
	n := r.Range(1, 7)
	var sb strings.Builder
	fmt.Fprintf(&sb, "ak %d %d", size, thr)
	for k := 0; k < n; k++ {
		first := "a"
		if r.Chance(3, 5) {
			first = "n " + errExpr()
			o.Count("dest:nack")
		} else {
			o.Count("dest:ack")
		}
		dlq := "ok"
		if first != "a" && r.Chance(1, 7) {
			kind := []string{"w", "k", "n"}[r.Intn(3)]
			dlq = kind + " " + errExpr()
			o.Count("dlq:" + kind)
		}
		src := "ok"
		switch r.Pick(12, 1, 1) {
		case 1:
			src = errExpr()
			o.Count("src:error")
		case 2:
			src = "(ef 73747265616d20636c6f7365643a202577 (s io.EOF))"
			o.Count("src:eof")
		}
		fmt.Fprintf(&sb, " | %s / %s / %s", first, dlq, src)
	}
	return sb.String()
}
