package main

import (
	"fmt"
	"strconv"
	"strings"

	"github.com/conduitio/conduit/pkg/lifecycle-poc/funnel"
	"verif/harness/gen"
)

// Component arbiter: the real multiAckNacker and runAckNacker/splitRun (through verif accessors)
// against the pure arbiter functions of Spec/Arbiter.lean.
//
//	ma <M> <n> | a<branch>:<i,j,…> n<branch>:<i,j,…> …   -> parent calls in order + released cursor
//	run <total> | a2 n1 g2 a3 …                            -> per vote: - | ACK | NACK | ERR
func init() {
	components["arbiter"] = component{gen: genArb, run: runArb, nontrivial: func(l, r string) bool {
		return strings.Contains(r, "N") || strings.Contains(r, "ERR") || strings.Count(r, "A") > 1
	}}
}

func genArb(r *gen.Rand, o *gen.Out, i int) string {
	if i%3 == 2 {
		total := r.Range(2, 6)
		o.Count("kind=run")
		var ops []string
		voted, released := 0, false
		for steps := r.Range(1, 6); steps > 0; steps-- {
			if !released && voted < total && r.Chance(1, 5) {
				d := r.Range(1, 3)
				total += d
				ops = append(ops, "g"+strconv.Itoa(d))
				continue
			}
			k := r.Range(1, 3)
			if k > total {
				k = total
			}
			c := "a"
			if r.Chance(1, 4) {
				c = "n"
			}
			ops = append(ops, c+strconv.Itoa(k))
			voted += k
			if voted >= total {
				released = true
			}
		}
		return fmt.Sprintf("run %d | %s", startTotal(ops, total), strings.Join(ops, " "))
	}
	o.Count("kind=ma")
	m := r.Range(1, 4)
	n := r.Range(1, 7)
	// each branch votes each position at most once, in chunks; branches interleave at random
	type chunk struct {
		b    int
		idxs []int
		ack  bool
	}
	var per [][]chunk
	for b := 0; b < m; b++ {
		var cs []chunk
		i := 0
		upto := n
		if r.Chance(1, 4) {
			upto = r.Intn(n + 1) // a branch that stopped early
		}
		for i < upto {
			k := r.Range(1, 3)
			if i+k > upto {
				k = upto - i
			}
			idxs := make([]int, k)
			for j := range idxs {
				idxs[j] = i + j
			}
			cs = append(cs, chunk{b, idxs, !r.Chance(1, 6)})
			i += k
		}
		per = append(per, cs)
	}
	var votes []string
	for {
		var live []int
		for b := range per {
			if len(per[b]) > 0 {
				live = append(live, b)
			}
		}
		if len(live) == 0 {
			break
		}
		b := live[r.Intn(len(live))]
		c := per[b][0]
		per[b] = per[b][1:]
		k := "n"
		if c.ack {
			k = "a"
		}
		parts := make([]string, len(c.idxs))
		for j, x := range c.idxs {
			parts[j] = strconv.Itoa(x)
		}
		votes = append(votes, fmt.Sprintf("%s%d:%s", k, c.b, strings.Join(parts, ",")))
		if r.Chance(1, 25) { // malformed: the same vote again
			votes = append(votes, votes[len(votes)-1])
			o.Count("ma=duplicate-vote")
		}
	}
	return fmt.Sprintf("ma %d %d | %s", m, n, strings.Join(votes, " "))
}

// startTotal recovers the initial total from the final total and the grow ops.
func startTotal(ops []string, final int) int {
	for _, op := range ops {
		if op[0] == 'g' {
			d, _ := strconv.Atoi(op[1:])
			final -= d
		}
	}
	return final
}

func runArb(line string) string {
	secs := strings.SplitN(line, "|", 2)
	if len(secs) != 2 {
		return "bad-op"
	}
	hd := strings.Fields(secs[0])
	ops := strings.Fields(secs[1])
	switch {
	case len(hd) == 3 && hd[0] == "ma":
		m, _ := strconv.Atoi(hd[1])
		n, _ := strconv.Atoi(hd[2])
		v, err := funnel.VerifNewMultiAck(m, n)
		if err != nil {
			return "bad-op"
		}
		for _, op := range ops {
			kv := strings.SplitN(op[1:], ":", 2)
			if len(kv) != 2 {
				return "bad-op"
			}
			var idxs []int
			for _, t := range strings.Split(kv[1], ",") {
				x, err := strconv.Atoi(t)
				if err != nil || x >= n {
					return "bad-op"
				}
				idxs = append(idxs, x)
			}
			if err := v.Vote(op[0] == 'a', idxs); err != nil {
				return "error"
			}
		}
		evs, rel := v.Events()
		s := strings.Join(evs, " ")
		if s == "" {
			s = "-"
		}
		return fmt.Sprintf("%s | released=%d", s, rel)
	case len(hd) == 2 && hd[0] == "run":
		total, _ := strconv.Atoi(hd[1])
		if total < 2 {
			return "bad-op"
		}
		v := funnel.VerifNewRun(total)
		var out []string
		for _, op := range ops {
			k, err := strconv.Atoi(op[1:])
			if err != nil {
				return "bad-op"
			}
			switch op[0] {
			case 'g':
				if !v.Grow(k) {
					return "bad-op"
				}
			case 'a':
				out = append(out, v.Vote(true, k))
			case 'n':
				out = append(out, v.Vote(false, k))
			}
		}
		if len(out) == 0 {
			return "-"
		}
		return strings.Join(out, " ")
	}
	return "bad-op"
}
