package main

// C17 (codec) — shared text forms and generators of the components b64, jsonstr, storedoc,
// golden, pre041, resume. The text forms are documented in lean/…/Driver/Codec.lean.

import (
	"encoding/hex"
	stdjson "encoding/json"
	"fmt"
	"math"
	"sort"
	"strconv"
	"strings"
	"time"
	"unicode/utf8"

	"github.com/conduitio/conduit-commons/opencdc"
	"github.com/conduitio/conduit/pkg/connector"
	"github.com/conduitio/conduit/pkg/pipeline"
	"github.com/conduitio/conduit/pkg/processor"
	"verif/harness/gen"
)

// ---------------------------------------------------------------- dump (canonical text)

func dStr(s string) string { return "s" + hex.EncodeToString([]byte(s)) }

func dBytes(b []byte) string {
	if b == nil {
		return "nil"
	}
	return "b" + hex.EncodeToString(b)
}

func dList(l []string) string {
	if l == nil {
		return "nil"
	}
	p := make([]string, len(l))
	for i, s := range l {
		p[i] = dStr(s)
	}
	return "[" + strings.Join(p, ",") + "]"
}

func sortedKeys[V any](m map[string]V) []string {
	ks := make([]string, 0, len(m))
	for k := range m {
		ks = append(ks, k)
	}
	sort.Strings(ks) // raw byte order
	return ks
}

func dMap(m map[string]string) string {
	if m == nil {
		return "nil"
	}
	var p []string
	for _, k := range sortedKeys(m) {
		p = append(p, dStr(k)+":"+dStr(m[k]))
	}
	return "{" + strings.Join(p, ",") + "}"
}

func dBMap(m map[string]opencdc.Position) string {
	if m == nil {
		return "nil"
	}
	var p []string
	for _, k := range sortedKeys(m) {
		p = append(p, dStr(k)+":"+dBytes(m[k]))
	}
	return "{" + strings.Join(p, ",") + "}"
}

func dTime(t time.Time) string {
	_, off := t.Zone()
	o := strconv.Itoa(off / 60)
	if off%60 != 0 {
		o = fmt.Sprintf("%ds", off) // never generated: whole-minute offsets only
	}
	return fmt.Sprintf("%d/%d/%d/%d/%d/%d/%d/%s", t.Year(), int(t.Month()), t.Day(), t.Hour(), t.Minute(), t.Second(), t.Nanosecond(), o)
}

func dState(s any) string {
	switch v := s.(type) {
	case nil:
		return "none"
	case connector.SourceState:
		return "src:" + dBytes(v.Position)
	case connector.DestinationState:
		return "dst:" + dBMap(v.Positions)
	}
	return fmt.Sprintf("other:%T", s)
}

func dConn(x *connector.Instance) string {
	return strings.Join([]string{"conn", dStr(x.ID), strconv.Itoa(int(x.Type)), dStr(x.Config.Name), dMap(x.Config.Settings),
		dStr(x.PipelineID), dStr(x.Plugin), dList(x.ProcessorIDs), dState(x.State), strconv.Itoa(int(x.ProvisionedBy)),
		dTime(x.CreatedAt), dTime(x.UpdatedAt), dStr(x.LastActiveConfig.Name), dMap(x.LastActiveConfig.Settings)}, " ")
}

func dPipe(x *pipeline.Instance) string {
	return strings.Join([]string{"pipe", dStr(x.ID), dStr(x.Config.Name), dStr(x.Config.Description), dStr(x.Error),
		dTime(x.CreatedAt), dTime(x.UpdatedAt), strconv.Itoa(int(x.ProvisionedBy)), dStr(x.DLQ.Plugin), dMap(x.DLQ.Settings),
		strconv.Itoa(x.DLQ.WindowSize), strconv.Itoa(x.DLQ.WindowNackThreshold), dList(x.ConnectorIDs), dList(x.ProcessorIDs),
		strconv.Itoa(int(x.GetStatus()))}, " ")
}

func dProc(x *processor.Instance) string {
	return strings.Join([]string{"proc", dStr(x.ID), dTime(x.CreatedAt), dTime(x.UpdatedAt), strconv.Itoa(int(x.ProvisionedBy)),
		dStr(x.Plugin), dStr(x.Condition), dStr(x.Parent.ID), strconv.Itoa(int(x.Parent.Type)), dMap(x.Config.Settings),
		strconv.Itoa(x.Config.Workers)}, " ")
}

// dTree prints a JSON value decoded by encoding/json (with UseNumber) canonically.
func dTree(v any) string {
	switch x := v.(type) {
	case nil:
		return "null"
	case bool:
		if x {
			return "T"
		}
		return "F"
	case stdjson.Number:
		return "n" + x.String()
	case string:
		return dStr(x)
	case []any:
		p := make([]string, len(x))
		for i, e := range x {
			p[i] = dTree(e)
		}
		return "[" + strings.Join(p, ",") + "]"
	case map[string]any:
		var p []string
		for _, k := range sortedKeys(x) {
			p = append(p, dStr(k)+":"+dTree(x[k]))
		}
		return "{" + strings.Join(p, ",") + "}"
	}
	return fmt.Sprintf("?%T", v)
}

// ---------------------------------------------------------------- parse (canonical text)

type perr struct{ what string }

func bad(what string) { panic(perr{what}) }

func uStr(t string) string {
	if !strings.HasPrefix(t, "s") {
		bad("str")
	}
	b, err := hex.DecodeString(t[1:])
	if err != nil || !utf8.Valid(b) {
		bad("str")
	}
	return string(b)
}

func uBytes(t string) []byte {
	if t == "nil" {
		return nil
	}
	if !strings.HasPrefix(t, "b") {
		bad("bytes")
	}
	b, err := hex.DecodeString(t[1:])
	if err != nil {
		bad("bytes")
	}
	if b == nil {
		b = []byte{}
	}
	return b
}

func uList(t string) []string {
	if t == "nil" {
		return nil
	}
	if len(t) < 2 || t[0] != '[' || t[len(t)-1] != ']' {
		bad("list")
	}
	l := []string{}
	if t == "[]" {
		return l
	}
	for _, e := range strings.Split(t[1:len(t)-1], ",") {
		l = append(l, uStr(e))
	}
	return l
}

func uMapWith[V any](t string, f func(string) V) map[string]V {
	if t == "nil" {
		return nil
	}
	if len(t) < 2 || t[0] != '{' || t[len(t)-1] != '}' {
		bad("map")
	}
	m := map[string]V{}
	if t == "{}" {
		return m
	}
	for _, e := range strings.Split(t[1:len(t)-1], ",") {
		kv := strings.Split(e, ":")
		if len(kv) != 2 {
			bad("map")
		}
		m[uStr(kv[0])] = f(kv[1])
	}
	return m
}

func uMap(t string) map[string]string { return uMapWith(t, uStr) }

func uBMap(t string) map[string]opencdc.Position {
	return uMapWith(t, func(s string) opencdc.Position { return opencdc.Position(uBytes(s)) })
}

func uInt(t string) int {
	n, err := strconv.ParseInt(t, 10, 64)
	if err != nil {
		bad("int")
	}
	return int(n)
}

func uTime(t string) time.Time {
	f := strings.Split(t, "/")
	if len(f) != 8 {
		bad("time")
	}
	off := uInt(f[7])
	loc := time.UTC
	if off != 0 {
		loc = time.FixedZone("", off*60)
	}
	return time.Date(uInt(f[0]), time.Month(uInt(f[1])), uInt(f[2]), uInt(f[3]), uInt(f[4]), uInt(f[5]), uInt(f[6]), loc)
}

func uState(t string) any {
	switch {
	case t == "none":
		return nil
	case strings.HasPrefix(t, "src:"):
		return connector.SourceState{Position: uBytes(t[4:])}
	case strings.HasPrefix(t, "dst:"):
		return connector.DestinationState{Positions: uBMap(t[4:])}
	}
	bad("state")
	return nil
}

func uConn(f []string) *connector.Instance {
	if len(f) != 14 || f[0] != "conn" {
		bad("conn")
	}
	return &connector.Instance{
		ID: uStr(f[1]), Type: connector.Type(uInt(f[2])),
		Config:     connector.Config{Name: uStr(f[3]), Settings: uMap(f[4])},
		PipelineID: uStr(f[5]), Plugin: uStr(f[6]), ProcessorIDs: uList(f[7]), State: uState(f[8]),
		ProvisionedBy: connector.ProvisionType(uInt(f[9])), CreatedAt: uTime(f[10]), UpdatedAt: uTime(f[11]),
		LastActiveConfig: connector.Config{Name: uStr(f[12]), Settings: uMap(f[13])},
	}
}

func uPipe(f []string) *pipeline.Instance {
	if len(f) != 15 || f[0] != "pipe" {
		bad("pipe")
	}
	p := &pipeline.Instance{
		ID: uStr(f[1]), Config: pipeline.Config{Name: uStr(f[2]), Description: uStr(f[3])}, Error: uStr(f[4]),
		CreatedAt: uTime(f[5]), UpdatedAt: uTime(f[6]), ProvisionedBy: pipeline.ProvisionType(uInt(f[7])),
		DLQ:          pipeline.DLQ{Plugin: uStr(f[8]), Settings: uMap(f[9]), WindowSize: uInt(f[10]), WindowNackThreshold: uInt(f[11])},
		ConnectorIDs: uList(f[12]), ProcessorIDs: uList(f[13]),
	}
	p.SetStatus(pipeline.Status(uInt(f[14])))
	return p
}

func uProc(f []string) *processor.Instance {
	if len(f) != 11 || f[0] != "proc" {
		bad("proc")
	}
	return &processor.Instance{
		ID: uStr(f[1]), CreatedAt: uTime(f[2]), UpdatedAt: uTime(f[3]), ProvisionedBy: processor.ProvisionType(uInt(f[4])),
		Plugin: uStr(f[5]), Condition: uStr(f[6]), Parent: processor.Parent{ID: uStr(f[7]), Type: processor.ParentType(uInt(f[8]))},
		Config: processor.Config{Settings: uMap(f[9]), Workers: uInt(f[10])},
	}
}

// guard turns a parse failure of the case line into "bad-op" (anything else keeps panicking and
// is reported as `panic` by safeRun).
func guard(f func() string) (res string) {
	defer func() {
		if p := recover(); p != nil {
			if _, ok := p.(perr); ok {
				res = "bad-op"
				return
			}
			panic(p)
		}
	}()
	return f()
}

// ---------------------------------------------------------------- generators of field values

var strClasses = []string{"empty", "ascii", "control", "quote", "html", "linesep", "bmp", "astral", "combining", "mixed", "long", "keyorder"}

func randRune(r *gen.Rand, class int) rune {
	switch class {
	case 1: // printable ASCII without the JSON/HTML specials
		for {
			c := rune(r.Range(0x20, 0x7e))
			if c != '"' && c != '\\' && c != '<' && c != '>' && c != '&' {
				return c
			}
		}
	case 2: // controls and DEL
		if r.Chance(1, 6) {
			return 0x7f
		}
		return rune(r.Range(0, 0x1f))
	case 3:
		return []rune{'"', '\\', '/', '\''}[r.Intn(4)]
	case 4:
		return []rune{'<', '>', '&'}[r.Intn(3)]
	case 5:
		return []rune{0x2028, 0x2029, 0x2027, 0x202a, 0x85, 0xa0}[r.Intn(6)]
	case 6: // BMP, no surrogates
		for {
			c := rune(r.Range(0x80, 0xffff))
			if c < 0xd800 || c > 0xdfff {
				return c
			}
		}
	case 7:
		if r.Chance(1, 4) {
			return []rune{0x10000, 0x10ffff, 0x1f600, 0xfffd, 0xffff, 0xfffe}[r.Intn(6)]
		}
		return rune(r.Range(0x10000, 0x10ffff))
	case 8:
		return []rune{0x301, 0x308, 0x200d, 0xfe0f, 0x65, 0x1f468, 0x0e33}[r.Intn(7)]
	}
	return 'x'
}

// genStr returns a valid-UTF-8 string of one of the Unicode classes.
func genStr(r *gen.Rand, o *gen.Out, what string) string {
	c := r.Pick(2, 6, 2, 2, 2, 1, 2, 2, 1, 3, 1, 1)
	if o != nil {
		o.Count(what + "=" + strClasses[c])
	}
	n := r.Range(1, 10)
	var b strings.Builder
	switch c {
	case 0:
		return ""
	case 9:
		for i := 0; i < n; i++ {
			b.WriteRune(randRune(r, r.Range(1, 8)))
		}
	case 10:
		n = r.Range(200, 3000)
		for i := 0; i < n; i++ {
			b.WriteRune(randRune(r, []int{1, 1, 1, 2, 3, 4, 6, 7}[r.Intn(8)]))
		}
	case 11: // strings whose order changes once escaped / quoted
		return []string{"a", "a!", "a ", "a\"", "a#", "!", "A", "<", "[", "]", "\\", "^", "\n", "\x1f", "\x7f", "u", "t", " ", "é"}[r.Intn(19)]
	default:
		for i := 0; i < n; i++ {
			b.WriteRune(randRune(r, c))
		}
	}
	return b.String()
}

func genID(r *gen.Rand, o *gen.Out, what string) string {
	s := genStr(r, o, what)
	if s == "" {
		s = "id"
	}
	return s
}

func genBytes(r *gen.Rand, o *gen.Out, what string) []byte {
	c := r.Pick(2, 2, 6, 1, 1, 1)
	o.Count(what + "=" + []string{"nil", "empty", "small", "all256", "large", "texty"}[c])
	switch c {
	case 0:
		return nil
	case 1:
		return []byte{}
	case 2:
		b := make([]byte, r.Range(1, 12))
		for i := range b {
			b[i] = byte(r.Intn(256))
		}
		return b
	case 3:
		b := make([]byte, 256)
		for i := range b {
			b[i] = byte(i)
		}
		return b
	case 4:
		b := make([]byte, r.Range(1000, 6000))
		for i := range b {
			b[i] = byte(r.Intn(256))
		}
		return b
	}
	return []byte(genStr(r, nil, ""))
}

func genMap(r *gen.Rand, o *gen.Out, what string) map[string]string {
	c := r.Pick(2, 2, 6, 1)
	o.Count(what + "=" + []string{"nil", "empty", "small", "many"}[c])
	switch c {
	case 0:
		return nil
	case 1:
		return map[string]string{}
	}
	n := r.Range(1, 4)
	if c == 3 {
		n = r.Range(8, 30)
	}
	m := map[string]string{}
	for i := 0; i < n; i++ {
		m[genStr(r, o, what+".key")] = genStr(r, o, what+".val")
	}
	return m
}

func genBMap(r *gen.Rand, o *gen.Out, what string) map[string]opencdc.Position {
	c := r.Pick(2, 2, 6)
	o.Count(what + "=" + []string{"nil", "empty", "some"}[c])
	switch c {
	case 0:
		return nil
	case 1:
		return map[string]opencdc.Position{}
	}
	m := map[string]opencdc.Position{}
	for i, n := 0, r.Range(1, 5); i < n; i++ {
		m[genStr(r, o, what+".key")] = genBytes(r, o, what+".val")
	}
	return m
}

func genList(r *gen.Rand, o *gen.Out, what string) []string {
	c := r.Pick(2, 2, 6, 1)
	o.Count(what + "=" + []string{"nil", "empty", "some", "many"}[c])
	switch c {
	case 0:
		return nil
	case 1:
		return []string{}
	}
	n := r.Range(1, 4)
	if c == 3 {
		n = r.Range(10, 40)
	}
	l := make([]string, n)
	for i := range l {
		l[i] = genStr(r, o, what+".elem") // duplicates and order matter: kept as generated
	}
	return l
}

func genInt(r *gen.Rand, o *gen.Out, what string) int {
	c := r.Pick(3, 4, 2, 1, 1, 2)
	o.Count(what + "=" + []string{"zero", "small", "negative", "maxint64", "minint64", "any64"}[c])
	switch c {
	case 0:
		return 0
	case 1:
		return r.Range(1, 1000)
	case 2:
		return -r.Range(1, 1000)
	case 3:
		return math.MaxInt64
	case 4:
		return math.MinInt64
	}
	return int(r.U64())
}

func daysIn(y, m int) int {
	switch m {
	case 2:
		if y%4 == 0 && (y%100 != 0 || y%400 == 0) {
			return 29
		}
		return 28
	case 4, 6, 9, 11:
		return 30
	}
	return 31
}

// genTime: real calendar times, years 0..9999, whole-minute zone offsets, nanosecond patterns
// with and without trailing zeros.
func genTime(r *gen.Rand, o *gen.Out, what string) time.Time {
	c := r.Pick(2, 5, 2, 1, 1)
	o.Count(what + "=" + []string{"zero", "recent", "anyyear", "year0", "year9999"}[c])
	if c == 0 {
		return time.Time{}
	}
	y := r.Range(2015, 2030)
	switch c {
	case 2:
		y = r.Range(0, 9999)
	case 3:
		y = 0
	case 4:
		y = 9999
	}
	mo := r.Range(1, 12)
	d := r.Range(1, daysIn(y, mo))
	if r.Chance(1, 5) {
		d = daysIn(y, mo)
	}
	ns := 0
	switch r.Pick(2, 2, 2, 2, 1) {
	case 1:
		ns = r.Range(0, 999) * 1000000
	case 2:
		ns = r.Range(0, 999999) * 1000
	case 3:
		ns = r.Range(0, 999999999)
	case 4:
		ns = []int{1, 999999999, 100000000, 10, 5000}[r.Intn(5)]
	}
	off := 0
	switch r.Pick(4, 3, 1, 1) {
	case 1:
		off = r.Range(-12, 14) * 60
	case 2:
		off = []int{330, 345, -210, 765, 1, -1}[r.Intn(6)]
	case 3:
		off = r.Range(-1439, 1439)
	}
	o.Count(what + ".zone=" + map[bool]string{true: "utc", false: "offset"}[off == 0])
	loc := time.UTC
	if off != 0 {
		loc = time.FixedZone("", off*60)
	}
	return time.Date(y, time.Month(mo), d, r.Range(0, 23), r.Range(0, 59), r.Range(0, 59), ns, loc)
}

func genConnConfig(r *gen.Rand, o *gen.Out, what string) connector.Config {
	return connector.Config{Name: genStr(r, o, what+".Name"), Settings: genMap(r, o, what+".Settings")}
}

func genConn(r *gen.Rand, o *gen.Out) *connector.Instance {
	x := &connector.Instance{
		ID: genID(r, o, "conn.ID"), Config: genConnConfig(r, o, "conn.Config"), PipelineID: genStr(r, o, "conn.PipelineID"),
		Plugin: genStr(r, o, "conn.Plugin"), ProcessorIDs: genList(r, o, "conn.ProcessorIDs"),
		ProvisionedBy: connector.ProvisionType(genInt(r, o, "conn.ProvisionedBy")), CreatedAt: genTime(r, o, "conn.CreatedAt"),
		UpdatedAt: genTime(r, o, "conn.UpdatedAt"), LastActiveConfig: genConnConfig(r, o, "conn.LastActiveConfig"),
	}
	src := connector.SourceState{Position: genBytes(r, o, "conn.State.Position")}
	dst := connector.DestinationState{Positions: genBMap(r, o, "conn.State.Positions")}
	switch r.Pick(10, 10, 3, 3, 1, 1, 1) {
	case 0:
		x.Type, x.State = connector.TypeSource, src
		o.Count("conn.kind=source")
	case 1:
		x.Type, x.State = connector.TypeDestination, dst
		o.Count("conn.kind=destination")
	case 2:
		x.Type = connector.TypeSource
		o.Count("conn.kind=source-nostate")
	case 3:
		x.Type = connector.TypeDestination
		o.Count("conn.kind=destination-nostate")
	case 4: // outside the running system's invariant: model and code must still agree
		x.Type, x.State = connector.TypeSource, dst
		o.Count("conn.kind=source-with-destination-state")
	case 5:
		x.Type, x.State = connector.Type(genInt(r, o, "conn.Type")), src
		o.Count("conn.kind=anytype-with-state")
	default:
		x.Type = connector.Type(genInt(r, o, "conn.Type"))
		o.Count("conn.kind=anytype-nostate")
	}
	return x
}

func genStatus(r *gen.Rand, o *gen.Out) pipeline.Status {
	s := []int{1, 1, 1, 2, 3, 4, 5, 0, 6}[r.Intn(9)]
	if r.Chance(1, 40) {
		s = genInt(r, o, "pipe.Status.any")
	}
	o.Count("pipe.Status=" + pipeline.Status(s).String())
	return pipeline.Status(s)
}

func genPipe(r *gen.Rand, o *gen.Out) *pipeline.Instance {
	x := &pipeline.Instance{
		ID: genID(r, o, "pipe.ID"), Config: pipeline.Config{Name: genStr(r, o, "pipe.Name"), Description: genStr(r, o, "pipe.Description")},
		Error: genStr(r, o, "pipe.Error"), CreatedAt: genTime(r, o, "pipe.CreatedAt"), UpdatedAt: genTime(r, o, "pipe.UpdatedAt"),
		ProvisionedBy: pipeline.ProvisionType(genInt(r, o, "pipe.ProvisionedBy")),
		DLQ: pipeline.DLQ{Plugin: genStr(r, o, "pipe.DLQ.Plugin"), Settings: genMap(r, o, "pipe.DLQ.Settings"),
			WindowSize: genInt(r, o, "pipe.DLQ.WindowSize"), WindowNackThreshold: genInt(r, o, "pipe.DLQ.WindowNackThreshold")},
		ConnectorIDs: genList(r, o, "pipe.ConnectorIDs"), ProcessorIDs: genList(r, o, "pipe.ProcessorIDs"),
	}
	x.SetStatus(genStatus(r, o))
	return x
}

func genProc(r *gen.Rand, o *gen.Out) *processor.Instance {
	return &processor.Instance{
		ID: genID(r, o, "proc.ID"), CreatedAt: genTime(r, o, "proc.CreatedAt"), UpdatedAt: genTime(r, o, "proc.UpdatedAt"),
		ProvisionedBy: processor.ProvisionType(genInt(r, o, "proc.ProvisionedBy")), Plugin: genStr(r, o, "proc.Plugin"),
		Condition: genStr(r, o, "proc.Condition"),
		Parent:    processor.Parent{ID: genStr(r, o, "proc.Parent.ID"), Type: processor.ParentType(genInt(r, o, "proc.Parent.Type"))},
		Config:    processor.Config{Settings: genMap(r, o, "proc.Settings"), Workers: genInt(r, o, "proc.Workers")},
	}
}
