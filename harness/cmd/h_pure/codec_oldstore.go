package main

// C17 — component oldstore: a whole store as a pre-v0.4.1 server left it (1–4 old-format
// connectors of *different* plugins / setting key sets, some lacking optional members), mixed with
// current-format connector records, opened by the real connector.NewStore (which migrates), then
// every record of the database dumped (sorted by key) and Store.GetAll (sorted by ID).
//
//	oldstore <e> <e> …      e = o:<hex key suffix>:<hex document>   record under "connector:connector:"
//	                               c:<hex id>:<hex document>           record under "connector:instance:"
//	-> key=<s..> doc=<tree> | key=… doc=… inst=id=<s..> conn … | id=… conn …      (inst=err if GetAll fails)
//
// The model (Lean `migrateStore`) migrates every old record on its own; json.Unmarshal into a decode
// target that survives from one record to the next would leak setting keys / absent members of one
// connector into the next, which shows here as a differing document.
//
// Non-trivial: at least two old-format records were migrated, or one next to a current record.

import (
	"encoding/hex"
	"fmt"
	"sort"
	"strings"
	"unicode/utf8"

	"github.com/conduitio/conduit-commons/database/inmemory"
	"github.com/conduitio/conduit/pkg/connector"
	"github.com/conduitio/conduit/pkg/foundation/log"
	"verif/harness/gen"
)

func init() {
	components["oldstore"] = component{gen: genOldStore, run: runOldStore, nontrivial: func(l, res string) bool {
		return !strings.HasSuffix(res, "inst=err") && strings.Count(l, " o:") >= 1 && strings.Count(l, " o:")+strings.Count(l, " c:") >= 2 &&
			strings.Count(res, "key=s"+hex.EncodeToString([]byte("connector:instance:"))) >= 2
	}}
}

// plugin families with their own setting key sets (what different connectors of a real
// installation look like)
var pre041Plugins = []struct {
	plugin string
	keys   []string
}{
	{"builtin:file", []string{"path"}},
	{"builtin:postgres", []string{"url", "table", "cdcMode"}},
	{"builtin:kafka", []string{"servers", "topic"}},
	{"builtin:generator", []string{"recordCount", "readTime", "format.type", "format.options"}},
	{"builtin:s3", []string{"aws.bucket", "aws.region", "prefix"}},
	{"standalone:x", []string{}},
}

func genOldStore(r *gen.Rand, o *gen.Out, i int) string {
	nOld := r.Pick(2, 5, 4, 2) + 1
	nCur := r.Pick(5, 3, 2)
	o.Count(fmt.Sprintf("oldstore.old=%d", nOld))
	o.Count(fmt.Sprintf("oldstore.current=%d", nCur))
	var ents []string
	for j := 0; j < nOld; j++ {
		x := genConn(r, o)
		x.ID = fmt.Sprintf("%s#o%d", x.ID, j) // distinct new keys (equal IDs would overwrite each other in GetKeys order)
		typ := "Source"
		switch {
		case x.Type == connector.TypeDestination:
			typ = "Destination"
		case x.Type != connector.TypeSource:
			x.Type, x.State = connector.TypeSource, nil
			if r.Chance(1, 6) {
				typ = []string{"", "source", "Sink"}[r.Intn(3)] // skipped by the migration
			}
		}
		// settings: mostly a plugin family's own key set, so that neighbours differ
		if r.Chance(4, 5) {
			p := pre041Plugins[r.Intn(len(pre041Plugins))]
			x.Plugin = p.plugin
			m := map[string]string{}
			for _, k := range p.keys {
				if r.Chance(5, 6) {
					m[k] = genStr(r, o, "oldstore.setting")
				}
			}
			x.Config.Settings = m
			o.Count("oldstore.plugin=" + p.plugin)
		} else {
			o.Count("oldstore.plugin=generated")
		}
		cfg := jobj{{"Name", x.Config.Name}, {"Settings", jMap(x.Config.Settings)}, {"Plugin", x.Plugin},
			{"PipelineID", x.PipelineID}, {"ProcessorIDs", jList(x.ProcessorIDs)}}
		data := jobj{{"XID", x.ID}, {"XConfig", cfg}, {"XState", jState(x.State)}, {"XProvisionedBy", int(x.ProvisionedBy)},
			{"XCreatedAt", jTime(x.CreatedAt)}, {"XUpdatedAt", jTime(x.UpdatedAt)}}
		// optional members absent (older writers / never-run connectors): each independently
		drop := func(obj jobj, name, what string, num, den int) jobj {
			if !r.Chance(num, den) {
				return obj
			}
			for k := range obj {
				if obj[k].k == name {
					o.Count("oldstore.absent=" + what)
					return append(obj[:k:k], obj[k+1:]...)
				}
			}
			return obj
		}
		cfg = drop(cfg, "Settings", "Settings", 1, 8)
		cfg = drop(cfg, "ProcessorIDs", "ProcessorIDs", 1, 4)
		cfg = drop(cfg, "PipelineID", "PipelineID", 1, 10)
		cfg = drop(cfg, "Plugin", "Plugin", 1, 12)
		cfg = drop(cfg, "Name", "Name", 1, 12)
		data[1].v = cfg
		if x.State == nil {
			switch r.Intn(3) {
			case 0:
				if typ == "Destination" {
					data[2].v = jobj{{"Positions", nil}}
				} else {
					data[2].v = jobj{{"Position", nil}}
				}
			case 1:
				data = drop(data, "XState", "XState", 1, 1)
			}
		}
		data = drop(data, "XProvisionedBy", "XProvisionedBy", 1, 10)
		data = drop(data, "XCreatedAt", "XCreatedAt", 1, 12)
		data = drop(data, "XUpdatedAt", "XUpdatedAt", 1, 12)
		doc := jobj{{"Type", typ}, {"Data", data}}
		if r.Chance(1, 8) {
			doc = perturb(r, o, doc, "oldstore.shape")
			// a perturbed document may have lost / changed its XID: keep new keys distinct anyway
		}
		var b strings.Builder
		printForeign(r, &b, doc, r.Pick(3, 1, 1))
		sfx := x.ID
		if r.Chance(1, 4) {
			sfx = fmt.Sprintf("key-%d", j) // the old key need not be the ID
		}
		ents = append(ents, "o:"+hex.EncodeToString([]byte(sfx))+":"+hex.EncodeToString([]byte(b.String())))
	}
	for j := 0; j < nCur; j++ {
		x := genConn(r, o)
		x.ID = fmt.Sprintf("%s#c%d", x.ID, j)
		if x.State != nil && x.Type != connector.TypeSource && x.Type != connector.TypeDestination {
			x.State = nil
		}
		var b strings.Builder
		printForeign(r, &b, jConn(x), 0)
		ents = append(ents, "c:"+hex.EncodeToString([]byte(x.ID))+":"+hex.EncodeToString([]byte(b.String())))
	}
	// database order is irrelevant (a map); shuffle the case line all the same
	for k := len(ents) - 1; k > 0; k-- {
		j := r.Intn(k + 1)
		ents[k], ents[j] = ents[j], ents[k]
	}
	return "oldstore " + strings.Join(ents, " ")
}

func runOldStore(line string) string {
	f := strings.Fields(line)
	if len(f) < 1 || f[0] != "oldstore" {
		return "bad-op"
	}
	db := &inmemory.DB{}
	for _, e := range f[1:] {
		p := strings.Split(e, ":")
		if len(p) != 3 || (p[0] != "o" && p[0] != "c") {
			return "bad-op"
		}
		a, err1 := hex.DecodeString(p[1])
		d, err2 := hex.DecodeString(p[2])
		if err1 != nil || err2 != nil || !utf8.Valid(a) || !utf8.Valid(d) || strings.ToLower(p[1]+p[2]) != p[1]+p[2] {
			return "bad-op"
		}
		key := "connector:instance:" + string(a)
		if p[0] == "o" {
			key = "connector:connector:" + string(a)
		}
		if db.Set(ctx, key, d) != nil {
			return "bad-op"
		}
	}
	s := connector.NewStore(db, log.Nop()) // migrates
	keys, err := db.GetKeys(ctx, "")
	if err != nil {
		panic(err)
	}
	sort.Strings(keys)
	var docs []string
	for _, k := range keys {
		raw, _ := db.Get(ctx, k)
		docs = append(docs, "key="+dStr(k)+" doc="+stdTree(raw))
	}
	inst := "err"
	if all, err := s.GetAll(ctx); err == nil {
		var ids []string
		for id := range all {
			ids = append(ids, id)
		}
		sort.Strings(ids)
		var parts []string
		for _, id := range ids {
			parts = append(parts, "id="+dStr(id)+" "+dConn(all[id]))
		}
		inst = strings.Join(parts, " | ")
	}
	return strings.Join(docs, " | ") + " inst=" + inst
}
