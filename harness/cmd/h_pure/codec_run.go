package main

// C17 (codec) — the components. Every one drives the real code:
//   b64      encoding/base64 (what goccy uses for []byte) and goccy's own []byte codec
//   jsonstr  goccy Marshal / Unmarshal of a Go string
//   storedoc the real connector / pipeline / processor Store on an in-memory DB: Set, then a NEW
//            store on the same DB ("restart") Get
//   golden   foreign documents (golden files of the repo; older / hand-written shapes) read by the
//            real store and written again
//   pre041   old-format connector documents under the old key prefix, migrated by NewStore
//   resume   stored pipelines, new pipeline.Service.Init, then the real lifecycle Service.Init
//            (v1 and v2) with a recording PipelineService

import (
	"bytes"
	"context"
	"encoding/base64"
	"encoding/hex"
	stdjson "encoding/json"
	"fmt"
	"sort"
	"strings"
	"unicode/utf8"

	"github.com/conduitio/conduit-commons/database/inmemory"
	"github.com/conduitio/conduit/pkg/connector"
	"github.com/conduitio/conduit/pkg/foundation/log"
	"github.com/conduitio/conduit/pkg/lifecycle"
	lifecyclev2 "github.com/conduitio/conduit/pkg/lifecycle-poc"
	"github.com/conduitio/conduit/pkg/pipeline"
	"github.com/conduitio/conduit/pkg/processor"
	"github.com/goccy/go-json"
	"verif/harness/gen"
)

func init() {
	components["b64"] = component{gen: genB64, run: runB64, nontrivial: func(l, res string) bool {
		return len(l) > 8 && res != "err" && !strings.HasPrefix(res, "MISMATCH")
	}}
	components["jsonstr"] = component{gen: genJSONStr, run: runJSONStr, nontrivial: ntJSONStr}
	components["storedoc"] = component{gen: genStoreDoc, run: runStoreDoc, nontrivial: func(l, res string) bool {
		return strings.HasSuffix(res, "rt=1") && len(l) > 120
	}}
	components["golden"] = component{gen: genGolden, run: runGolden, nontrivial: func(l, res string) bool { return res != "err" }}
	components["pre041"] = component{gen: genPre041, run: runPre041, nontrivial: func(l, res string) bool {
		return strings.HasPrefix(res, "key=") && !strings.HasSuffix(res, "inst=err")
	}}
	components["resume"] = component{gen: genResume, run: runResume, nontrivial: func(l, res string) bool {
		return !strings.HasSuffix(res, "started=") && strings.Contains(res, "same=1")
	}}
}

var ctx = context.Background()

// ---------------------------------------------------------------- b64

const b64alpha = "ABCDEFGHIJKLMNOPQRSTUVWXYZabcdefghijklmnopqrstuvwxyz0123456789+/"

func genB64(r *gen.Rand, o *gen.Out, i int) string {
	if i%3 != 2 {
		b := genBytes(r, o, "enc")
		o.Count(fmt.Sprintf("enc.len%%3=%d", len(b)%3))
		return strings.TrimSpace("enc " + hex.EncodeToString(b))
	}
	// decoder input: mostly canonical text, then perturbed (padding, trailing bits, newlines, junk)
	b := make([]byte, r.Range(0, 9))
	for j := range b {
		b[j] = byte(r.Intn(256))
	}
	s := []byte(base64.StdEncoding.EncodeToString(b))
	k := r.Pick(4, 2, 2, 2, 2, 1)
	o.Count("dec=" + []string{"canonical", "newlines", "trailing-bits", "padding-edit", "junk", "random"}[k])
	switch k {
	case 1:
		for j, n := 0, r.Range(1, 3); j < n; j++ {
			p := r.Intn(len(s) + 1)
			s = append(s[:p], append([]byte{"\n\r"[r.Intn(2)]}, s[p:]...)...)
		}
	case 2:
		if n := len(s); n >= 4 && s[n-1] == '=' {
			p := n - 2
			if s[p] == '=' {
				p = n - 3
			}
			s[p] = b64alpha[r.Intn(64)]
		}
	case 3:
		switch r.Intn(4) {
		case 0:
			s = bytes.TrimRight(s, "=")
		case 1:
			s = append(s, '=')
		case 2:
			if len(s) > 0 {
				s[r.Intn(len(s))] = '='
			}
		default:
			s = append(s, "===="[:r.Range(1, 4)]...)
		}
	case 4:
		if len(s) > 0 {
			s[r.Intn(len(s))] = " -_.*\t\x00~"[r.Intn(8)]
		}
	case 5:
		s = make([]byte, r.Range(0, 10))
		for j := range s {
			s[j] = (b64alpha + "==\n\r -")[r.Intn(len(b64alpha)+6)]
		}
	}
	return strings.TrimSpace("dec " + hex.EncodeToString(s))
}

func runB64(line string) string {
	f := strings.Fields(line)
	if len(f) < 1 || len(f) > 2 {
		return "bad-op"
	}
	var arg []byte
	if len(f) == 2 {
		var err error
		if arg, err = hex.DecodeString(f[1]); err != nil {
			return "bad-op"
		}
	}
	switch f[0] {
	case "enc":
		s := base64.StdEncoding.EncodeToString(arg)
		if arg == nil {
			arg = []byte{}
		}
		g, err := json.Marshal(arg)
		if err != nil || string(g) != `"`+s+`"` {
			return "MISMATCH-goccy:" + string(g)
		}
		return s
	case "dec":
		if !utf8.Valid(arg) {
			return "bad-op"
		}
		b, err := base64.StdEncoding.DecodeString(string(arg))
		// goccy reads a []byte member through the same routine
		lit, _ := stdjson.Marshal(string(arg))
		var gb []byte
		gerr := json.Unmarshal(lit, &gb)
		if (err == nil) != (gerr == nil) || (err == nil && !bytes.Equal(b, gb)) {
			return fmt.Sprintf("MISMATCH-goccy:%x/%v", gb, gerr)
		}
		if err != nil {
			return "err"
		}
		return "ok:" + hex.EncodeToString(b)
	}
	return "bad-op"
}

// ---------------------------------------------------------------- jsonstr

func ntJSONStr(l, res string) bool {
	if strings.HasPrefix(l, "enc") {
		// the literal differs from the plain quoted text: something was escaped
		f := strings.Fields(l)
		return len(f) == 2 && strings.HasSuffix(res, "rt=1") && len(res) > len(f[1])+4+5
	}
	return strings.HasPrefix(res, "ok:")
}

func genJSONStr(r *gen.Rand, o *gen.Out, i int) string {
	if i%3 != 2 {
		return strings.TrimSpace("enc " + hex.EncodeToString([]byte(genStr(r, o, "enc"))))
	}
	// decoder input: a literal assembled from raw runs, escapes, \u forms, surrogates
	var b strings.Builder
	b.WriteByte('"')
	for j, n := 0, r.Range(0, 8); j < n; j++ {
		k := r.Pick(5, 3, 3, 2, 2, 1, 1)
		o.Count("dec.piece=" + []string{"raw", "simple-escape", "u-bmp", "u-pair", "u-lone-surrogate", "raw-control", "u-upper"}[k])
		switch k {
		case 0:
			b.WriteRune(randRune(r, []int{1, 6, 7, 8}[r.Intn(4)]))
		case 1:
			b.WriteString([]string{`\"`, `\\`, `\/`, `\b`, `\f`, `\n`, `\r`, `\t`}[r.Intn(8)])
		case 2:
			c := randRune(r, []int{1, 2, 4, 5, 6}[r.Intn(5)])
			fmt.Fprintf(&b, `\u%04x`, c)
		case 3:
			c := rune(r.Range(0x10000, 0x10ffff)) - 0x10000
			fmt.Fprintf(&b, `\u%04x\u%04x`, 0xd800+(c>>10), 0xdc00+(c&0x3ff))
		case 4:
			fmt.Fprintf(&b, `\u%04x`, r.Range(0xd800, 0xdfff))
		case 5:
			b.WriteRune(rune(r.Range(1, 0x1f)))
		case 6:
			fmt.Fprintf(&b, `\u%04X`, randRune(r, 6))
		}
	}
	b.WriteByte('"')
	s := b.String()
	if r.Chance(1, 10) { // malformed stream
		k := r.Intn(5)
		o.Count("dec.malformed=" + []string{"no-close", "bad-escape", "short-u", "bad-hex", "trailing"}[k])
		switch k {
		case 0:
			s = s[:len(s)-1]
		case 1:
			s = s[:len(s)-1] + `\x"`
		case 2:
			s = s[:len(s)-1] + `\u12"`
		case 3:
			s = s[:len(s)-1] + `\u12g4"`
		case 4:
			s += `x`
		}
	}
	return "dec " + hex.EncodeToString([]byte(s))
}

func runJSONStr(line string) string {
	f := strings.Fields(line)
	if len(f) < 1 || len(f) > 2 {
		return "bad-op"
	}
	var arg []byte
	if len(f) == 2 {
		var err error
		if arg, err = hex.DecodeString(f[1]); err != nil {
			return "bad-op"
		}
	}
	if !utf8.Valid(arg) {
		return "bad-op"
	}
	switch f[0] {
	case "enc":
		g, err := json.Marshal(string(arg))
		if err != nil {
			return "err"
		}
		var back string
		rt := "0"
		if err := json.Unmarshal(g, &back); err == nil && back == string(arg) {
			rt = "1"
		}
		return hex.EncodeToString(g) + " rt=" + rt
	case "dec":
		var s string
		if err := json.Unmarshal(arg, &s); err != nil {
			return "err"
		}
		return "ok:" + hex.EncodeToString([]byte(s))
	}
	return "bad-op"
}

// ---------------------------------------------------------------- storedoc

func genStoreDoc(r *gen.Rand, o *gen.Out, i int) string {
	switch i % 4 {
	case 0, 1:
		return dConn(genConn(r, o))
	case 2:
		return dPipe(genPipe(r, o))
	}
	return dProc(genProc(r, o))
}

// theDoc returns the single document of the DB and its key.
func theDoc(db *inmemory.DB, prefix string) (string, []byte) {
	keys, err := db.GetKeys(ctx, prefix)
	if err != nil || len(keys) != 1 {
		panic(fmt.Sprintf("expected one key, got %v %v", keys, err))
	}
	raw, err := db.Get(ctx, keys[0])
	if err != nil {
		panic(err)
	}
	return keys[0], raw
}

func docResult(key string, raw []byte, orig, back string) string {
	rt := "0"
	if back == orig {
		rt = "1"
	}
	return "key=" + dStr(key) + " doc=" + hex.EncodeToString(raw) + " back=" + back + " rt=" + rt
}

func runStoreDoc(line string) string {
	return guard(func() string {
		f := strings.Fields(line)
		if len(f) == 0 {
			return "bad-op"
		}
		db := &inmemory.DB{}
		switch f[0] {
		case "conn":
			x := uConn(f)
			orig := dConn(x)
			if err := connector.NewStore(db, log.Nop()).Set(ctx, x.ID, x); err != nil {
				return "set-err"
			}
			key, raw := theDoc(db, "")
			back := "err"
			if y, err := connector.NewStore(db, log.Nop()).Get(ctx, x.ID); err == nil { // a new store: the restart
				back = dConn(y)
			}
			return docResult(key, raw, orig, back)
		case "pipe":
			x := uPipe(f)
			orig := dPipe(x)
			if err := pipeline.NewStore(db).Set(ctx, x.ID, x); err != nil {
				return "set-err"
			}
			key, raw := theDoc(db, "")
			back := "err"
			if y, err := pipeline.NewStore(db).Get(ctx, x.ID); err == nil {
				back = dPipe(y)
			}
			return docResult(key, raw, orig, back)
		case "proc":
			x := uProc(f)
			orig := dProc(x)
			if err := processor.NewStore(db).Set(ctx, x.ID, x); err != nil {
				return "set-err"
			}
			key, raw := theDoc(db, "")
			back := "err"
			if y, err := processor.NewStore(db).Get(ctx, x.ID); err == nil {
				back = dProc(y)
			}
			return docResult(key, raw, orig, back)
		}
		return "bad-op"
	})
}

// ---------------------------------------------------------------- foreign documents

// jv is a JSON value to be printed by printForeign: nil, bool, int, string, []jv, jobj.
type jm struct {
	k string
	v any
}
type jobj []jm

// printForeign writes JSON text the way other writers might: optional white space, either hex
// case and optional escapes in strings. Always valid JSON.
func printForeign(r *gen.Rand, b *strings.Builder, v any, style int) {
	ws := func() {
		if style == 0 {
			return
		}
		for r.Chance(1, 3) {
			b.WriteByte(" \n\t\r"[r.Intn(4)])
		}
	}
	switch x := v.(type) {
	case nil:
		b.WriteString("null")
	case bool:
		fmt.Fprintf(b, "%v", x)
	case int:
		fmt.Fprintf(b, "%d", x)
	case string:
		b.WriteByte('"')
		for _, c := range x {
			switch {
			case c == '"' || c == '\\':
				b.WriteByte('\\')
				b.WriteRune(c)
			case c == '\n' && style != 2:
				b.WriteString(`\n`)
			case c == '\t' && style != 2:
				b.WriteString(`\t`)
			case c == '\b' && style == 1:
				b.WriteString(`\b`)
			case c == '\f' && style == 1:
				b.WriteString(`\f`)
			case c == '/' && style == 1 && r.Chance(1, 2):
				b.WriteString(`\/`)
			case c < 0x20:
				fmt.Fprintf(b, `\u%04X`, c)
			case c > 0xffff && style == 2:
				c -= 0x10000
				fmt.Fprintf(b, `\u%04x\u%04X`, 0xd800+(c>>10), 0xdc00+(c&0x3ff))
			case c > 0x7e && c <= 0xffff && style == 2:
				fmt.Fprintf(b, `\u%04x`, c)
			default:
				b.WriteRune(c)
			}
		}
		b.WriteByte('"')
	case []any:
		b.WriteByte('[')
		ws()
		for i, e := range x {
			if i > 0 {
				b.WriteByte(',')
				ws()
			}
			printForeign(r, b, e, style)
			ws()
		}
		b.WriteByte(']')
	case jobj:
		b.WriteByte('{')
		ws()
		for i, m := range x {
			if i > 0 {
				b.WriteByte(',')
				ws()
			}
			printForeign(r, b, m.k, style)
			ws()
			b.WriteByte(':')
			ws()
			printForeign(r, b, m.v, style)
			ws()
		}
		b.WriteByte('}')
	default:
		panic(fmt.Sprintf("printForeign: %T", v))
	}
}

func jList(l []string) any {
	if l == nil {
		return nil
	}
	a := []any{}
	for _, s := range l {
		a = append(a, s)
	}
	return a
}

func jMap(m map[string]string) any {
	if m == nil {
		return nil
	}
	o := jobj{}
	for _, k := range sortedKeys(m) {
		o = append(o, jm{k, m[k]})
	}
	return o
}

func jBytes(b []byte) any {
	if b == nil {
		return nil
	}
	return base64.StdEncoding.EncodeToString(b)
}

func jState(s any) any {
	switch v := s.(type) {
	case connector.SourceState:
		return jobj{{"Position", jBytes(v.Position)}}
	case connector.DestinationState:
		if v.Positions == nil {
			return jobj{{"Positions", nil}}
		}
		o := jobj{}
		for _, k := range sortedKeys(v.Positions) {
			o = append(o, jm{k, jBytes(v.Positions[k])})
		}
		return jobj{{"Positions", o}}
	}
	return nil
}

func jTime(t interface{ MarshalJSON() ([]byte, error) }) any {
	b, err := t.MarshalJSON()
	if err != nil {
		panic(err)
	}
	return string(b[1 : len(b)-1])
}

func jConnConfig(c connector.Config) any { return jobj{{"Name", c.Name}, {"Settings", jMap(c.Settings)}} }

func jConn(x *connector.Instance) jobj {
	return jobj{{"ID", x.ID}, {"Type", int(x.Type)}, {"Config", jConnConfig(x.Config)}, {"PipelineID", x.PipelineID},
		{"Plugin", x.Plugin}, {"ProcessorIDs", jList(x.ProcessorIDs)}, {"State", jState(x.State)},
		{"ProvisionedBy", int(x.ProvisionedBy)}, {"CreatedAt", jTime(x.CreatedAt)}, {"UpdatedAt", jTime(x.UpdatedAt)},
		{"LastActiveConfig", jConnConfig(x.LastActiveConfig)}}
}

func jPipe(x *pipeline.Instance) jobj {
	return jobj{{"ID", x.ID}, {"Config", jobj{{"Name", x.Config.Name}, {"Description", x.Config.Description}}}, {"Error", x.Error},
		{"CreatedAt", jTime(x.CreatedAt)}, {"UpdatedAt", jTime(x.UpdatedAt)}, {"ProvisionedBy", int(x.ProvisionedBy)},
		{"DLQ", jobj{{"Plugin", x.DLQ.Plugin}, {"Settings", jMap(x.DLQ.Settings)}, {"WindowSize", x.DLQ.WindowSize},
			{"WindowNackThreshold", x.DLQ.WindowNackThreshold}}},
		{"ConnectorIDs", jList(x.ConnectorIDs)}, {"ProcessorIDs", jList(x.ProcessorIDs)}, {"Status", int(x.GetStatus())}}
}

func jProc(x *processor.Instance) jobj {
	return jobj{{"ID", x.ID}, {"CreatedAt", jTime(x.CreatedAt)}, {"UpdatedAt", jTime(x.UpdatedAt)},
		{"ProvisionedBy", int(x.ProvisionedBy)}, {"Plugin", x.Plugin}, {"Condition", x.Condition},
		{"Parent", jobj{{"ID", x.Parent.ID}, {"Type", int(x.Parent.Type)}}},
		{"Config", jobj{{"Settings", jMap(x.Config.Settings)}, {"Workers", x.Config.Workers}}}}
}

// perturb makes an "older / other writer" shape of a document: members reordered, some missing
// (older versions lacked them), some null, unknown members added; rarely a member of a wrong type.
func perturb(r *gen.Rand, o *gen.Out, doc jobj, what string) jobj {
	out := append(jobj{}, doc...)
	for i := range out {
		if sub, ok := out[i].v.(jobj); ok && r.Chance(1, 3) {
			out[i].v = perturb(r, o, sub, what+".sub")
		}
	}
	if r.Chance(1, 2) {
		o.Count(what + "=reordered")
		for i := len(out) - 1; i > 0; i-- {
			j := r.Intn(i + 1)
			out[i], out[j] = out[j], out[i]
		}
	}
	if len(out) > 0 && r.Chance(1, 3) {
		o.Count(what + "=member-missing")
		i := r.Intn(len(out))
		out = append(out[:i:i], out[i+1:]...)
	}
	if len(out) > 0 && r.Chance(1, 5) {
		o.Count(what + "=member-null")
		out[r.Intn(len(out))].v = nil
	}
	if r.Chance(1, 4) {
		o.Count(what + "=unknown-member")
		i := r.Intn(len(out) + 1)
		// unknown member names are kept plain: goccy's *stream* decoder (pipeline / processor store)
		// mis-scans an unknown member name holding an escaped quote or backslash when it straddles a
		// read-buffer boundary ("expected colon after object key"); the stores never write such names.
		extra := jm{"Zz" + fmt.Sprint(r.Intn(1000)), []any{[]any{1, "x", nil, true, jobj{{"a", jobj{}}}}, "y"}[r.Intn(2)]}
		out = append(out[:i:i], append(jobj{extra}, out[i:]...)...)
	}
	if len(out) > 0 && r.Chance(1, 25) {
		o.Count(what + "=wrong-type")
		i := r.Intn(len(out))
		switch out[i].v.(type) {
		case string:
			out[i].v = 7
		case int:
			out[i].v = "7"
		default:
			out[i].v = true
		}
	}
	return out
}

func genGolden(r *gen.Rand, o *gen.Out, i int) string {
	var kind string
	var doc jobj
	switch i % 3 {
	case 0:
		x := genConn(r, o)
		if x.State != nil && (x.Type != connector.TypeSource && x.Type != connector.TypeDestination) {
			x.State = nil
		}
		kind, doc = "conn", jConn(x)
	case 1:
		kind, doc = "pipe", jPipe(genPipe(r, o))
	default:
		kind, doc = "proc", jProc(genProc(r, o))
	}
	if r.Chance(3, 4) {
		doc = perturb(r, o, doc, "golden.shape")
	} else {
		o.Count("golden.shape=as-written")
	}
	style := r.Pick(2, 3, 1)
	o.Count("golden.style=" + []string{"compact", "spaced+short-escapes", "ascii-only"}[style])
	var b strings.Builder
	printForeign(r, &b, doc, style)
	return "golden " + kind + " " + hex.EncodeToString([]byte(b.String()))
}

func stdTree(raw []byte) string {
	d := stdjson.NewDecoder(bytes.NewReader(raw))
	d.UseNumber()
	var v any
	if err := d.Decode(&v); err != nil {
		return "unparsable"
	}
	return dTree(v)
}

func runGolden(line string) string {
	f := strings.Fields(line)
	if len(f) != 3 {
		return "bad-op"
	}
	doc, err := hex.DecodeString(f[2])
	if err != nil || !utf8.Valid(doc) {
		return "bad-op"
	}
	db := &inmemory.DB{}
	switch f[1] {
	case "conn":
		if db.Set(ctx, "connector:instance:g", doc) != nil {
			return "bad-op"
		}
		x, err := connector.NewStore(db, log.Nop()).Get(ctx, "g")
		if err != nil {
			return "err"
		}
		if err := connector.NewStore(db, log.Nop()).Set(ctx, "h", x); err != nil {
			return "set-err"
		}
		raw, _ := db.Get(ctx, "connector:instance:h")
		return "inst=" + dConn(x) + " re=" + stdTree(raw)
	case "pipe":
		if db.Set(ctx, "pipeline:instance:g", doc) != nil {
			return "bad-op"
		}
		x, err := pipeline.NewStore(db).Get(ctx, "g")
		if err != nil {
			return "err"
		}
		if err := pipeline.NewStore(db).Set(ctx, "h", x); err != nil {
			return "set-err"
		}
		raw, _ := db.Get(ctx, "pipeline:instance:h")
		return "inst=" + dPipe(x) + " re=" + stdTree(raw)
	case "proc":
		if db.Set(ctx, "processor:instance:g", doc) != nil {
			return "bad-op"
		}
		x, err := processor.NewStore(db).Get(ctx, "g")
		if err != nil {
			return "err"
		}
		if err := processor.NewStore(db).Set(ctx, "h", x); err != nil {
			return "set-err"
		}
		raw, _ := db.Get(ctx, "processor:instance:h")
		return "inst=" + dProc(x) + " re=" + stdTree(raw)
	}
	return "bad-op"
}

// ---------------------------------------------------------------- pre041

func genPre041(r *gen.Rand, o *gen.Out, i int) string {
	x := genConn(r, o)
	typ := "Source"
	switch {
	case x.Type == connector.TypeDestination:
		typ = "Destination"
	case x.Type != connector.TypeSource:
		typ = []string{"", "source", "Sink", "SourceX"}[r.Intn(4)]
		x.State = nil
	}
	o.Count("pre041.Type=" + typ)
	if r.Chance(1, 30) {
		x.ID = ""
		o.Count("pre041.XID=empty")
	}
	data := jobj{{"XID", x.ID},
		{"XConfig", jobj{{"Name", x.Config.Name}, {"Settings", jMap(x.Config.Settings)}, {"Plugin", x.Plugin},
			{"PipelineID", x.PipelineID}, {"ProcessorIDs", jList(x.ProcessorIDs)}}},
		{"XState", jState(x.State)}, {"XProvisionedBy", int(x.ProvisionedBy)},
		{"XCreatedAt", jTime(x.CreatedAt)}, {"XUpdatedAt", jTime(x.UpdatedAt)}}
	if x.State == nil {
		switch r.Intn(3) {
		case 0: // what v0.4.0 wrote for a connector that never ran
			if typ == "Destination" {
				data[2].v = jobj{{"Positions", nil}}
			} else {
				data[2].v = jobj{{"Position", nil}}
			}
			o.Count("pre041.XState=null-position")
		case 1:
			data = append(data[:2:2], data[3:]...)
			o.Count("pre041.XState=absent")
		default:
			o.Count("pre041.XState=null")
		}
	} else {
		o.Count("pre041.XState=present")
	}
	doc := jobj{{"Type", typ}, {"Data", data}}
	if r.Chance(1, 3) {
		doc = perturb(r, o, doc, "pre041.shape")
	} else {
		o.Count("pre041.shape=as-written")
	}
	var b strings.Builder
	printForeign(r, &b, doc, r.Pick(3, 1, 1))
	return "pre041 " + hex.EncodeToString([]byte(b.String()))
}

func runPre041(line string) string {
	f := strings.Fields(line)
	if len(f) != 2 {
		return "bad-op"
	}
	doc, err := hex.DecodeString(f[1])
	if err != nil || !utf8.Valid(doc) {
		return "bad-op"
	}
	db := &inmemory.DB{}
	const oldKey = "connector:connector:old-key"
	if db.Set(ctx, oldKey, doc) != nil {
		return "bad-op"
	}
	s := connector.NewStore(db, log.Nop()) // migrates
	keys, err := db.GetKeys(ctx, "")
	if err != nil {
		panic(err)
	}
	var newKeys []string
	oldThere := false
	for _, k := range keys {
		if k == oldKey {
			oldThere = true
		} else {
			newKeys = append(newKeys, k)
		}
	}
	if len(newKeys) == 0 {
		if !oldThere {
			return "lost"
		}
		return "skipped"
	}
	if len(newKeys) != 1 || oldThere {
		return fmt.Sprintf("unexpected-keys:%q", keys)
	}
	raw, _ := db.Get(ctx, newKeys[0])
	inst := "err"
	if all, err := s.GetAll(ctx); err == nil {
		if len(all) != 1 {
			return "unexpected-getall"
		}
		for id, x := range all {
			inst = "id=" + dStr(id) + " " + dConn(x)
		}
	}
	return "key=" + dStr(newKeys[0]) + " doc=" + stdTree(raw) + " inst=" + inst
}

// ---------------------------------------------------------------- resume

func genResume(r *gen.Rand, o *gen.Out, i int) string {
	n := r.Pick(1, 3, 3, 2, 1, 1)
	o.Count(fmt.Sprintf("resume.pipelines=%d", n))
	parts := []string{"resume"}
	for j := 0; j < n; j++ {
		p := genPipe(r, o)
		p.ID = fmt.Sprintf("%s#%d", p.ID, j) // distinct store keys
		if j > 0 {
			parts = append(parts, ";")
		}
		parts = append(parts, dPipe(p))
	}
	return strings.Join(parts, " ")
}

// recorder is the PipelineService handed to the real lifecycle services: List comes from the real
// pipeline.Service; Get (the first thing Start does) records the ID and refuses, so Init's
// selection is observed without building plugins.
type recorder struct {
	*pipeline.Service
	started []string
}

func (rc *recorder) Get(_ context.Context, id string) (*pipeline.Instance, error) {
	rc.started = append(rc.started, id)
	return nil, pipeline.ErrInstanceNotFound
}

func runResume(line string) string {
	return guard(func() string {
		f := strings.Fields(line)
		if len(f) == 0 || f[0] != "resume" {
			return "bad-op"
		}
		var ps []*pipeline.Instance
		var cur []string
		flush := func() {
			if len(cur) > 0 {
				ps = append(ps, uPipe(cur))
				cur = nil
			}
		}
		for _, t := range f[1:] {
			if t == ";" {
				flush()
			} else {
				cur = append(cur, t)
			}
		}
		flush()
		db := &inmemory.DB{}
		before := map[string]string{}
		st := pipeline.NewStore(db)
		for _, p := range ps {
			c := uPipe(strings.Fields(dPipe(p)))
			c.SetStatus(0)
			before[p.ID] = dPipe(c)
			if err := st.Set(ctx, p.ID, p); err != nil {
				return "set-err"
			}
		}
		// restart: a new service on the same DB
		svc := pipeline.NewService(log.Nop(), db)
		if err := svc.Init(ctx); err != nil {
			return "err"
		}
		started := func(init func(rc *recorder) error) string {
			rc := &recorder{Service: svc}
			_ = init(rc)
			sort.Strings(rc.started)
			for i := range rc.started {
				rc.started[i] = dStr(rc.started[i])
			}
			return strings.Join(rc.started, ",")
		}
		v1 := started(func(rc *recorder) error {
			return lifecycle.NewService(log.Nop(), nil, nil, nil, nil, rc).Init(ctx)
		})
		v2 := started(func(rc *recorder) error {
			return lifecyclev2.NewService(log.Nop(), nil, nil, nil, nil, rc, true).Init(ctx)
		})
		list := svc.List(ctx)
		ids := sortedKeys(list)
		var after []string
		same := "1"
		for _, id := range ids {
			p := list[id]
			after = append(after, dStr(p.ID)+":"+fmt.Sprint(int(p.GetStatus())))
			c := uPipe(strings.Fields(dPipe(p)))
			c.SetStatus(0)
			if before[id] != dPipe(c) {
				same = "0"
			}
		}
		if len(list) != len(ps) {
			same = "0"
		}
		st12 := v1
		if v1 != v2 {
			st12 = "V1:" + v1 + "|V2:" + v2
		}
		return "after=" + strings.Join(after, ",") + " same=" + same + " started=" + st12
	})
}
