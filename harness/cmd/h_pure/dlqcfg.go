package main

// Component `dlqcfg` (C07): the nack window each engine's lifecycle service actually constructs for a
// pipeline with a given DLQ configuration, driven with an outcome sequence and compared with the Lean
// window model `dlqwindow` instantiated with the CONFIGURED parameters.
//
//	v1 <size> <thr> <bits>      the real lifecycle.Service.buildDLQHandlerNode(pl) (verif hook); the window is
//	                            built from the returned node's fields exactly as DLQHandlerNode.Run does
//	v2 <size> <thr> <batches>   the real lifecyclepoc.Service.buildDLQ(pl, …) (verif hook); the DLQ's own window
//
// Case lines and results have the format of `dlqwindow` (the Lean driver component is the same).

import (
	"context"
	"errors"
	"strconv"
	"strings"
	"sync"
	"time"

	"github.com/conduitio/conduit-commons/database/inmemory"
	"github.com/conduitio/conduit/pkg/connector"
	"github.com/conduitio/conduit/pkg/foundation/log"
	"github.com/conduitio/conduit/pkg/lifecycle"
	lifecyclepoc "github.com/conduitio/conduit/pkg/lifecycle-poc"
	"github.com/conduitio/conduit/pkg/lifecycle/stream"
	"github.com/conduitio/conduit/pkg/pipeline"
	connectorPlugin "github.com/conduitio/conduit/pkg/plugin/connector"

	"verif/harness/gen"
)

func init() {
	components["dlqcfg"] = component{gen: genDlqCfg, run: runDlqCfg, nontrivial: ntDlqCfg}
}

// dlqNoPlugins: the builders only fetch a dispenser for the DLQ destination, they never dispense.
type dlqNoPlugins struct{}

type dlqNoDispenser struct{}

func (dlqNoPlugins) NewDispenser(log.CtxLogger, string, string) (connectorPlugin.Dispenser, error) {
	return dlqNoDispenser{}, nil
}
func (dlqNoDispenser) DispenseSpecifier() (connectorPlugin.SpecifierPlugin, error) {
	return nil, errors.New("verif: not dispensed")
}
func (dlqNoDispenser) DispenseSource() (connectorPlugin.SourcePlugin, error) {
	return nil, errors.New("verif: not dispensed")
}
func (dlqNoDispenser) DispenseDestination() (connectorPlugin.DestinationPlugin, error) {
	return nil, errors.New("verif: not dispensed")
}

type dlqBuilder struct {
	v1 *lifecycle.Service
	v2 *lifecyclepoc.Service
}

var (
	dlqBuilderOnce sync.Once
	dlqB           *dlqBuilder
)

func theDlqBuilder() *dlqBuilder {
	dlqBuilderOnce.Do(func() {
		logger := log.Nop()
		db := &inmemory.DB{}
		conns := connector.NewService(logger, db, connector.NewPersister(logger, db, time.Millisecond, 1))
		rec := &lifecycle.ErrRecoveryCfg{}
		dlqB = &dlqBuilder{
			v1: lifecycle.NewService(logger, rec, conns, nil, dlqNoPlugins{}, nil),
			v2: lifecyclepoc.NewService(logger, rec, conns, nil, dlqNoPlugins{}, nil, true),
		}
	})
	return dlqB
}

func runDlqCfg(line string) string {
	b := theDlqBuilder()
	f := strings.Fields(line)
	if len(f) != 4 {
		return "bad-op"
	}
	size, err1 := strconv.Atoi(f[1])
	thr, err2 := strconv.Atoi(f[2])
	if err1 != nil || err2 != nil {
		return "bad-op"
	}
	ctx := context.Background()
	pl := &pipeline.Instance{
		ID:     "pl",
		Config: pipeline.Config{Name: "verif-pipeline"},
		DLQ: pipeline.DLQ{Plugin: "builtin:verif", Settings: map[string]string{},
			WindowSize: size, WindowNackThreshold: thr},
	}
	switch f[0] {
	case "v1":
		node, err := b.v1.VerifBuildDLQHandlerNode(ctx, pl)
		if err != nil {
			return "build-error"
		}
		// DLQHandlerNode.Run: n.window = newDLQWindow(n.WindowSize, n.WindowNackThreshold) (regenerated fact)
		w := stream.VerifNewDLQWindow(node.WindowSize, node.WindowNackThreshold)
		var sb strings.Builder
		if f[3] != "-" {
			for _, c := range f[3] {
				switch c {
				case '1':
					if w.Nack() {
						sb.WriteByte('1')
					} else {
						sb.WriteByte('0')
					}
				case '0':
					w.Ack()
					sb.WriteByte('1')
				default:
					return "bad-op"
				}
			}
		}
		return sb.String()
	case "v2":
		dlq, err := b.v2.VerifBuildDLQ(ctx, pl, "src", log.Nop())
		if err != nil {
			return "build-error"
		}
		w := dlq.VerifWindow()
		var out []string
		if f[3] != "-" {
			for _, p := range strings.Split(f[3], ",") {
				if len(p) < 2 {
					return "bad-op"
				}
				n, err := strconv.Atoi(p[1:])
				if err != nil {
					return "bad-op"
				}
				switch p[0] {
				case 'a':
					w.Ack(n)
					out = append(out, strconv.Itoa(n))
				case 'n':
					out = append(out, strconv.Itoa(w.Nack(n)))
				default:
					return "bad-op"
				}
			}
		}
		return strings.Join(out, ",")
	}
	return "bad-op"
}

func genDlqCfg(r *gen.Rand, o *gen.Out, i int) string {
	// configurations: the corner cases 0/0, 0/k, 1/0 often, plus n/k around the boundary
	var size, thr int
	switch r.Pick(3, 2, 3, 6, 2) {
	case 0:
		size, thr = 0, 0
	case 1:
		size, thr = 0, r.Range(1, 5)
	case 2:
		size, thr = 1, 0
	case 3:
		size = r.Range(1, 8)
		thr = r.Range(0, size+1)
	default:
		size = r.Range(9, 40)
		thr = r.Range(0, 2*size)
	}
	o.Count("cfg=" + bucket(size) + "/" + thrClass(thr, size))
	nackPct := []int{10, 30, 50, 80, 100}[r.Intn(5)]
	if i%2 == 0 {
		n := r.Range(1, 3*size+12)
		var sb strings.Builder
		for j := 0; j < n; j++ {
			if r.Intn(100) < nackPct {
				sb.WriteByte('1')
			} else {
				sb.WriteByte('0')
			}
		}
		return "v1 " + strconv.Itoa(size) + " " + strconv.Itoa(thr) + " " + sb.String()
	}
	nb := r.Range(1, 16)
	parts := make([]string, 0, nb)
	for j := 0; j < nb; j++ {
		k := "a"
		if r.Intn(100) < nackPct {
			k = "n"
		}
		parts = append(parts, k+strconv.Itoa(r.Range(0, 5)))
	}
	return "v2 " + strconv.Itoa(size) + " " + strconv.Itoa(thr) + " " + strings.Join(parts, ",")
}

// non-trivial: the sequence holds a nack (the configured window decides something)
func ntDlqCfg(line, _ string) bool {
	f := strings.Fields(line)
	if len(f) != 4 {
		return false
	}
	if f[0] == "v1" {
		return strings.Contains(f[3], "1")
	}
	return strings.Contains(f[3], "n")
}
