package main

import (
	"strconv"
	"strings"

	"github.com/conduitio/conduit/pkg/lifecycle-poc/funnel"
	"github.com/conduitio/conduit/pkg/lifecycle/stream"
	"verif/harness/gen"
)

// Component dlqwindow: the real dlqWindow of both engines (through the verif accessors).
//
//	v1 <size> <thr> <bits>        -> one verdict bit per outcome (acks print 1)
//	v2 <size> <thr> <batches>     -> accepted count per batch (acks print their count)
func init() {
	components["dlqwindow"] = component{gen: genDlq, run: runDlq, nontrivial: ntDlq}
}

// non-trivial: at least one nack was refused (the window verdict mattered) and, for v1, at least
// one nack was tolerated before it.
func ntDlq(line, res string) bool {
	f := strings.Fields(line)
	if len(f) != 4 {
		return false
	}
	if f[0] == "v1" {
		return strings.Contains(res, "0") && strings.Contains(f[3], "1")
	}
	in := strings.Split(f[3], ",")
	out := strings.Split(res, ",")
	if len(in) != len(out) {
		return false
	}
	for i := range in {
		if in[i] != "" && in[i][0] == 'n' && in[i][1:] != out[i] {
			return true
		}
	}
	return false
}

func genDlq(r *gen.Rand, o *gen.Out, i int) string {
	// sizes: mostly small (where wrap-around happens often), some large; thresholds around size
	var size int
	switch r.Pick(2, 6, 2, 1) {
	case 0:
		size = 0
	case 1:
		size = r.Range(1, 8)
	case 2:
		size = r.Range(9, 64)
	default:
		size = r.Range(65, 300)
	}
	var thr int
	switch r.Pick(2, 5, 2) {
	case 0:
		thr = 0
	case 1:
		thr = r.Range(0, size+1)
	default:
		thr = r.Range(0, 2*size+3)
	}
	nackPct := []int{2, 10, 30, 50, 80}[r.Intn(5)]
	o.Count("size=" + bucket(size))
	o.Count("thr=" + thrClass(thr, size))
	if i%2 == 0 {
		n := r.Range(0, 3*size+20)
		var b strings.Builder
		for j := 0; j < n; j++ {
			if r.Intn(100) < nackPct {
				b.WriteByte('1')
			} else {
				b.WriteByte('0')
			}
		}
		bits := b.String()
		if bits == "" {
			bits = "-"
		}
		o.Count("kind=v1")
		return "v1 " + strconv.Itoa(size) + " " + strconv.Itoa(thr) + " " + bits
	}
	nb := r.Range(0, 24)
	parts := make([]string, 0, nb)
	for j := 0; j < nb; j++ {
		k := "a"
		if r.Intn(100) < nackPct+10 {
			k = "n"
		}
		cnt := r.Range(0, 6)
		if r.Chance(1, 8) {
			cnt = r.Range(0, 2*size+4)
		}
		parts = append(parts, k+strconv.Itoa(cnt))
	}
	bs := strings.Join(parts, ",")
	if bs == "" {
		bs = "-"
	}
	o.Count("kind=v2")
	return "v2 " + strconv.Itoa(size) + " " + strconv.Itoa(thr) + " " + bs
}

func bucket(n int) string {
	switch {
	case n == 0:
		return "0"
	case n == 1:
		return "1"
	case n <= 8:
		return "2-8"
	case n <= 64:
		return "9-64"
	}
	return ">64"
}

func thrClass(thr, size int) string {
	switch {
	case thr == 0:
		return "0"
	case thr < size:
		return "<size"
	case thr == size:
		return "=size"
	}
	return ">size"
}

func runDlq(line string) string {
	f := strings.Fields(line)
	if len(f) != 4 {
		return "bad-op"
	}
	size, err1 := strconv.Atoi(f[1])
	thr, err2 := strconv.Atoi(f[2])
	if err1 != nil || err2 != nil {
		return "bad-op"
	}
	switch f[0] {
	case "v1":
		w := stream.VerifNewDLQWindow(size, thr)
		var b strings.Builder
		if f[3] != "-" {
			for _, c := range f[3] {
				if c == '1' {
					if w.Nack() {
						b.WriteByte('1')
					} else {
						b.WriteByte('0')
					}
				} else {
					w.Ack()
					b.WriteByte('1')
				}
			}
		}
		return b.String()
	case "v2":
		w := funnel.VerifNewDLQWindow(size, thr)
		var out []string
		if f[3] != "-" {
			for _, t := range strings.Split(f[3], ",") {
				n, err := strconv.Atoi(t[1:])
				if err != nil {
					return "bad-op"
				}
				if t[0] == 'n' {
					out = append(out, strconv.Itoa(w.Nack(n)))
				} else {
					w.Ack(n)
					out = append(out, strconv.Itoa(n))
				}
			}
		}
		return strings.Join(out, ",")
	}
	return "bad-op"
}
