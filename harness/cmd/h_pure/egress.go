package main

import (
	"context"
	"encoding/hex"
	"errors"
	"fmt"
	"net"
	"net/http"
	"os"
	"sort"
	"strconv"
	"strings"
	"sync"
	"syscall"
	"time"

	"github.com/conduitio/conduit-processor-sdk/pprocutils"
	"github.com/conduitio/conduit/pkg/foundation/cerrors"
	"github.com/conduitio/conduit/pkg/foundation/log"
	"github.com/conduitio/conduit/pkg/plugin/processor/egress"
	"verif/harness/gen"
)

// Component egress (C18): the real Refuse, ResolvePolicy and dial path.
//
//	refuse <ipspec>                       real egress.Refuse on the byte slice (the model side also evaluates the
//	                                      floor monitor: a floor address that is not refused prints prop=floor-address-not-refused)
//	resolve <policy> <policy>             real egress.ResolvePolicy(perProcessor, ceiling)
//	dial <policy> <port> <mode> <cands>   real Service.dialContext with a fake resolver; the base
//	                                      dialer's Control hook records the address, runs the REAL
//	                                      Service.dialControl and then aborts before connect(2)
//	                                      (no packet leaves the host) — except for candidates marked
//	                                      '+', which must be 127.0.0.1 on the harness' own listener.
//
// Syntax in Driver/Egress.lean. Port "L" stands for the port of the harness' loopback listener.
func init() {
	components["egress"] = component{gen: genEgress, run: runEgress, nontrivial: ntEgress}
}

func ntEgress(line, res string) bool {
	switch {
	case strings.HasPrefix(line, "refuse"):
		return strings.HasPrefix(res, "refused=1")
	case strings.HasPrefix(line, "resolve"):
		return strings.HasPrefix(res, "E=1")
	case strings.HasPrefix(line, "do"):
		return !strings.HasSuffix(res, "attempts=-")
	default:
		return !strings.HasPrefix(res, "attempts=- ")
	}
}

// ---------------------------------------------------------------- parsing

func ipOf(s string) (net.IP, bool) {
	if s == "nil" {
		return nil, true
	}
	b, err := hex.DecodeString(s)
	if err != nil || s != strings.ToLower(s) {
		return nil, false
	}
	return net.IP(b), true
}

func ipStr(ip net.IP) string {
	if len(ip) == 4 || len(ip) == 16 {
		return hex.EncodeToString(ip)
	}
	return "bad"
}

func entryOf(s string) (egress.AllowEntry, bool) {
	f := strings.Split(s, "!")
	if len(f) != 4 {
		return egress.AllowEntry{}, false
	}
	e := egress.AllowEntry{Scheme: f[0], Host: f[1], Port: f[2]}
	if f[3] != "-" {
		ip, ok := ipOf(f[3])
		if !ok || ip == nil {
			return e, false
		}
		e.IP = ip
	}
	return e, true
}

func entryStr(e egress.AllowEntry) string {
	ip := "-"
	if e.IP != nil {
		ip = ipStr(e.IP)
	}
	return e.Scheme + "!" + e.Host + "!" + e.Port + "!" + ip
}

func listOf(s string) []string {
	if s == "-" || s == "" {
		return nil
	}
	return strings.Split(s, ",")
}

func policyOf(s string) (egress.Policy, bool) {
	f := strings.Split(s, ";")
	if len(f) != 5 {
		return egress.Policy{}, false
	}
	get := func(i int, k string) (string, bool) {
		if !strings.HasPrefix(f[i], k+"=") {
			return "", false
		}
		return f[i][len(k)+1:], true
	}
	e, ok1 := get(0, "E")
	a, ok2 := get(1, "A")
	sec, ok3 := get(2, "S")
	t, ok4 := get(3, "T")
	m, ok5 := get(4, "M")
	if !(ok1 && ok2 && ok3 && ok4 && ok5) {
		return egress.Policy{}, false
	}
	p := egress.Policy{Enabled: e == "1"}
	for _, es := range listOf(a) {
		en, ok := entryOf(es)
		if !ok {
			return p, false
		}
		p.Allowlist = append(p.Allowlist, en)
	}
	if l := listOf(sec); l != nil {
		p.SecretRefs = map[string]struct{}{}
		for _, s := range l {
			p.SecretRefs[s] = struct{}{}
		}
	}
	tn, err1 := strconv.ParseInt(t, 10, 64)
	mn, err2 := strconv.ParseInt(m, 10, 64)
	if err1 != nil || err2 != nil {
		return p, false
	}
	p.Timeout = time.Duration(tn)
	p.MaxResponseBytes = mn
	return p, true
}

func joinOr(l []string) string {
	if len(l) == 0 {
		return "-"
	}
	return strings.Join(l, ",")
}

func policyStr(p egress.Policy) string {
	var as, ss []string
	for _, e := range p.Allowlist {
		as = append(as, entryStr(e))
	}
	for s := range p.SecretRefs {
		ss = append(ss, s)
	}
	sort.Strings(ss)
	en := "0"
	if p.Enabled {
		en = "1"
	}
	return fmt.Sprintf("E=%s;A=%s;S=%s;T=%d;M=%d", en, joinOr(as), joinOr(ss), int64(p.Timeout), p.MaxResponseBytes)
}

// ---------------------------------------------------------------- dial

type fakeResolver struct {
	ips []net.IP
	err error
}

func (f fakeResolver) LookupIP(context.Context, string) ([]net.IP, error) { return f.ips, f.err }

var (
	listenerOnce sync.Once
	listenerPort string
)

func loopbackPort() string {
	listenerOnce.Do(func() {
		l, err := net.Listen("tcp4", "127.0.0.1:0")
		if err != nil {
			panic(err)
		}
		_, listenerPort, _ = net.SplitHostPort(l.Addr().String())
		// an HTTP server: /r answers 302 to the metadata endpoint, anything else 200
		go func() {
			_ = http.Serve(l, http.HandlerFunc(func(w http.ResponseWriter, r *http.Request) {
				if r.URL.Path == "/r" {
					http.Redirect(w, r, "http://169.254.169.254/latest/meta-data/", http.StatusFound)
					return
				}
				_, _ = w.Write([]byte("ok"))
			}))
		}()
		// "whatever the proxy environment": a proxy is configured for every scheme; the client must ignore it
		for _, k := range []string{"HTTP_PROXY", "HTTPS_PROXY", "ALL_PROXY", "http_proxy", "https_proxy", "all_proxy"} {
			os.Setenv(k, "http://203.0.113.7:3128")
		}
		os.Unsetenv("NO_PROXY")
		os.Unsetenv("no_proxy")
	})
	return listenerPort
}

var errAbortBeforeConnect = errors.New("verif: aborted before connect(2)")

// egressSetup builds the real Service for a case and the observing base dialer.
type egressCase struct {
	svc      *egress.Service
	base     *net.Dialer
	attempts *[]string
	host     string
	port     string
}

func runDial(polS, port, mode, candS string) string {
	c, ok := setupEgress(polS, port, mode, candS)
	if !ok {
		return "bad-op"
	}
	conn, err := egress.VerifDialContext(c.svc, c.base)(context.Background(), "tcp", net.JoinHostPort(c.host, c.port))
	result := "ok"
	if err != nil {
		if reason, ok := egress.VerifRefusalReason(err); ok {
			result = "refused:" + reason
		} else if egress.VerifIsDNSError(err) {
			result = "dns"
		} else {
			result = "dialerr"
		}
	} else {
		conn.Close()
	}
	return "attempts=" + joinOr(*c.attempts) + " result=" + result
}

// runDo: the real Service.Do end to end (request line validation, Stage 1, transport, redirect
// policy, error classification), its connections observed and stopped at the Control hook.
func runDo(polS, scheme, mode, port, path, candS string) string {
	if scheme != "http" && scheme != "https" || (path != "p" && path != "r") {
		return "bad-op"
	}
	c, ok := setupEgress(polS, port, mode, candS)
	if !ok {
		return "bad-op"
	}
	egress.VerifSetBaseDialer(c.svc, c.base)
	defer egress.VerifCloseIdleConnections(c.svc)
	u := scheme + "://" + net.JoinHostPort(c.host, c.port) + "/"
	if path == "r" {
		u += "r"
	}
	resp, err := c.svc.Do(context.Background(), pprocutils.HTTPRequest{Method: "GET", URL: u})
	out := ""
	switch {
	case err == nil:
		out = "ok:" + strconv.Itoa(resp.StatusCode)
	case cerrors.Is(err, pprocutils.ErrHTTPEgressDisabled):
		out = "disabled"
	case cerrors.Is(err, pprocutils.ErrHTTPForbidden):
		switch {
		case strings.Contains(err.Error(), "allowlist"):
			out = "forbidden:allowlist"
		case strings.Contains(err.Error(), "redirects"):
			out = "forbidden:redirect"
		default:
			out = "forbidden:ip"
		}
	case cerrors.Is(err, pprocutils.ErrHTTPDNS):
		out = "dns"
	case cerrors.Is(err, pprocutils.ErrHTTPTransport):
		out = "transport"
	case cerrors.Is(err, pprocutils.ErrHTTPTimeout):
		out = "timeout"
	case cerrors.Is(err, pprocutils.ErrHTTPInvalidRequest):
		out = "invalid"
	default:
		out = "other"
	}
	return "do=" + out + " attempts=" + joinOr(*c.attempts)
}

func setupEgress(polS, port, mode, candS string) (*egressCase, bool) {
	lp := loopbackPort()
	subst := func(p string) string {
		if p == "L" {
			return lp
		}
		return p
	}
	pol, ok := policyOf(polS)
	if !ok {
		return nil, false
	}
	for i := range pol.Allowlist {
		pol.Allowlist[i].Port = subst(pol.Allowlist[i].Port)
	}
	var res fakeResolver
	type cand struct {
		ip net.IP
		ok bool
	}
	var cands []cand
	switch candS {
	case "!":
		res.err = errors.New("scripted resolver failure")
	case "-":
	default:
		for _, c := range strings.Split(candS, ",") {
			good := strings.HasSuffix(c, "+")
			ip, ok := ipOf(strings.TrimSuffix(c, "+"))
			if !ok {
				return nil, false
			}
			cands = append(cands, cand{ip, good})
			res.ips = append(res.ips, ip)
		}
	}
	svc := egress.New(pol, log.Nop(), egress.WithResolver(res))
	var attempts []string
	loop4 := net.IPv4(127, 0, 0, 1)
	base := &net.Dialer{Timeout: 2 * time.Second, Control: func(network, address string, c syscall.RawConn) error {
		host, p, _ := net.SplitHostPort(address)
		ip := net.ParseIP(host)
		tag := ipStr(ip.To16())
		if err := egress.VerifDialControl(svc, network, address, c); err != nil {
			attempts = append(attempts, tag+":r")
			return err
		}
		// connect(2) is allowed only to the harness' own loopback listener, for a candidate marked '+'
		for _, cd := range cands {
			if cd.ok && cd.ip.Equal(ip) && ip.Equal(loop4) && p == lp {
				attempts = append(attempts, tag+":c")
				return nil
			}
		}
		attempts = append(attempts, tag+":f")
		return errAbortBeforeConnect
	}}
	host := "h.verif.test"
	if mode == "lit" {
		if len(cands) != 1 || (len(cands[0].ip) != 4 && len(cands[0].ip) != 16) {
			return nil, false
		}
		host = cands[0].ip.String()
	}
	return &egressCase{svc: svc, base: base, attempts: &attempts, host: host, port: subst(port)}, true
}

func runEgress(line string) string {
	f := strings.Fields(line)
	if len(f) == 0 {
		return "bad-op"
	}
	switch {
	case f[0] == "refuse" && len(f) == 2:
		ip, ok := ipOf(f[1])
		if !ok {
			return "bad-op"
		}
		refused, reason := egress.Refuse(ip)
		if refused {
			return "refused=1 reason=" + string(reason) + " prop=ok"
		}
		return "refused=0 reason=- prop=ok"
	case f[0] == "resolve" && len(f) == 3:
		per, ok1 := policyOf(f[1])
		ceil, ok2 := policyOf(f[2])
		if !ok1 || !ok2 {
			return "bad-op"
		}
		eff, dropped := egress.ResolvePolicy(per, ceil)
		var ds []string
		for _, e := range dropped {
			ds = append(ds, entryStr(e))
		}
		return policyStr(eff) + " dropped=" + joinOr(ds)
	case f[0] == "dial" && len(f) == 5:
		return runDial(f[1], f[2], f[3], f[4])
	case f[0] == "do" && len(f) == 7:
		return runDo(f[1], f[2], f[3], f[4], f[5], f[6])
	}
	return "bad-op"
}

// ---------------------------------------------------------------- generator

// boundaries of every refused range (first, last, one before, one after) and of the embedded forms
var v4Ranges = [][2]uint32{
	{0x7f000000, 0x7fffffff}, {0x00000000, 0x00ffffff}, {0x0a000000, 0x0affffff}, {0xac100000, 0xac1fffff},
	{0xc0a80000, 0xc0a8ffff}, {0xa9fe0000, 0xa9feffff}, {0x64400000, 0x647fffff}, {0xe0000000, 0xffffffff},
}

var v4Special = []uint32{0xa9fea9fe /* metadata */, 0x7f000001, 0x08080808, 0x01010101, 0xc0000201, 0xc6120001, 0xffffffff, 0xdfffffff, 0xe0000000}

func genV4(r *gen.Rand, o *gen.Out) uint32 {
	switch r.Pick(45, 15, 40) {
	case 0:
		rg := v4Ranges[r.Intn(len(v4Ranges))]
		o.Count("v4:boundary")
		switch r.Intn(5) {
		case 0:
			return rg[0]
		case 1:
			return rg[1]
		case 2:
			return rg[0] - 1
		case 3:
			return rg[1] + 1
		default:
			return rg[0] + uint32(r.U64()%uint64(rg[1]-rg[0]+1))
		}
	case 1:
		o.Count("v4:special")
		return v4Special[r.Intn(len(v4Special))]
	default:
		o.Count("v4:random")
		return uint32(r.U64())
	}
}

func be32(v uint32) []byte { return []byte{byte(v >> 24), byte(v >> 16), byte(v >> 8), byte(v)} }

// genIP returns the ipspec of a generated address.
func genIP(r *gen.Rand, o *gen.Out) string {
	b16 := make([]byte, 16)
	switch r.Pick(22, 10, 8, 8, 8, 8, 8, 14, 8, 4, 2) {
	case 0:
		o.Count("ip:v4-4byte")
		return hex.EncodeToString(be32(genV4(r, o)))
	case 1:
		o.Count("ip:v4-mapped")
		b16[10], b16[11] = 0xff, 0xff
		copy(b16[12:], be32(genV4(r, o)))
	case 2:
		o.Count("ip:v4-compatible")
		copy(b16[12:], be32(genV4(r, o)))
	case 3:
		o.Count("ip:v4-translated")
		b16[8], b16[9] = 0xff, 0xff
		copy(b16[12:], be32(genV4(r, o)))
	case 4:
		o.Count("ip:nat64")
		copy(b16, []byte{0x00, 0x64, 0xff, 0x9b})
		if r.Chance(1, 5) { // just outside the /96 (e.g. the RFC 8215 local-use prefix 64:ff9b:1::/48)
			b16[5] = byte(r.Intn(3))
			b16[r.Range(4, 11)] = byte(r.Intn(256))
		}
		copy(b16[12:], be32(genV4(r, o)))
	case 5:
		o.Count("ip:6to4")
		b16[0], b16[1] = 0x20, 0x02
		copy(b16[2:], be32(genV4(r, o)))
		for i := 6; i < 16; i++ {
			b16[i] = byte(r.U64())
		}
	case 6:
		o.Count("ip:teredo")
		b16[0], b16[1] = 0x20, 0x01
		if r.Chance(1, 6) {
			b16[3] = byte(r.Intn(3)) // 2001:0001::… is not Teredo
		}
		copy(b16[4:], be32(genV4(r, o)))
		v := genV4(r, o) ^ 0xffffffff
		for i := 8; i < 12; i++ {
			b16[i] = byte(r.U64())
		}
		copy(b16[12:], be32(v))
	case 7:
		o.Count("ip:v6-native-boundary")
		pref := [][2]uint16{{0xfe80, 0xfebf}, {0xfec0, 0xfeff}, {0xfc00, 0xfdff}, {0xff00, 0xffff}, {0x2000, 0x3fff}, {0x0000, 0x0000}}[r.Intn(6)]
		var top uint16
		switch r.Intn(5) {
		case 0:
			top = pref[0]
		case 1:
			top = pref[1]
		case 2:
			top = pref[0] - 1
		case 3:
			top = pref[1] + 1
		default:
			top = pref[0] + uint16(r.Intn(int(pref[1]-pref[0])+1))
		}
		b16[0], b16[1] = byte(top>>8), byte(top)
		if r.Chance(2, 3) {
			for i := 2; i < 16; i++ {
				b16[i] = byte(r.U64())
			}
		} else if r.Chance(1, 2) {
			for i := 2; i < 16; i++ {
				b16[i] = 0xff
			}
		} else {
			b16[15] = byte(r.Intn(3))
		}
	case 8:
		o.Count("ip:v6-random")
		for i := range b16 {
			b16[i] = byte(r.U64())
		}
	case 9:
		o.Count("ip:malformed-length")
		n := []int{0, 1, 3, 5, 8, 15, 17, 20}[r.Intn(8)]
		if n == 0 {
			return "nil"
		}
		b := make([]byte, n)
		for i := range b {
			b[i] = byte(r.U64())
		}
		return hex.EncodeToString(b)
	default:
		o.Count("ip:nil")
		return "nil"
	}
	return hex.EncodeToString(b16)
}

var hostNames = []string{"api.example.com", "ollama.internal", "metadata.google.internal", "localhost", "a.b"}
var secretNames = []string{"openai", "hf", "db-pass", "k1", "k2"}

func genEntry(r *gen.Rand, o *gen.Out, ipPool []string) string {
	scheme := []string{"https", "http"}[r.Intn(2)]
	port := []string{"443", "80", "11434", "8080", "L"}[r.Intn(5)]
	if r.Chance(1, 2) && len(ipPool) > 0 {
		spec := ipPool[r.Intn(len(ipPool))]
		ip, ok := ipOf(spec)
		if ok && (len(ip) == 4 || len(ip) == 16) {
			o.Count("entry:ip-literal")
			return scheme + "!" + ip.String() + "!" + port + "!" + spec
		}
	}
	o.Count("entry:hostname")
	return scheme + "!" + hostNames[r.Intn(len(hostNames))] + "!" + port + "!-"
}

func genPolicy(r *gen.Rand, o *gen.Out, ipPool []string, base []string) string {
	en := "1"
	if r.Chance(1, 8) {
		en = "0"
	}
	var as []string
	n := r.Pick(2, 3, 3, 2)
	for i := 0; i < n; i++ {
		if len(base) > 0 && r.Chance(1, 2) {
			as = append(as, base[r.Intn(len(base))])
		} else {
			as = append(as, genEntry(r, o, ipPool))
		}
	}
	var ss []string
	seen := map[string]bool{}
	for i, k := 0, r.Pick(3, 3, 2, 1); i < k; i++ {
		s := secretNames[r.Intn(len(secretNames))]
		if !seen[s] {
			seen[s] = true
			ss = append(ss, s)
		}
	}
	sort.Strings(ss)
	dur := []int64{0, -5, 1_000_000_000, 30_000_000_000, 30_000_000_001, 120_000_000_000}[r.Intn(6)]
	mb := []int64{0, -1, 1, 1024, 4194304, 4194305, 1 << 33}[r.Intn(7)]
	return fmt.Sprintf("E=%s;A=%s;S=%s;T=%d;M=%d", en, joinOr(as), joinOr(ss), dur, mb)
}

func genEgress(r *gen.Rand, o *gen.Out, i int) string {
	switch r.Pick(50, 18, 22, 10) {
	case 3:
		o.Count("op:do")
		n := r.Pick(1, 4, 4, 2)
		var cands, pool []string
		for k := 0; k < n; k++ {
			c := genIP(r, o)
			if r.Chance(1, 4) {
				c = []string{"7f000001", "00000000000000000000ffff7f000001"}[r.Intn(2)]
			}
			pool = append(pool, c)
			if r.Chance(1, 2) {
				c += "+"
			}
			cands = append(cands, c)
		}
		scheme := []string{"http", "http", "https"}[r.Intn(3)]
		port := []string{"443", "80", "L", "L", "L"}[r.Intn(5)]
		mode, cs := "name", joinOr(cands)
		if n > 0 && r.Chance(1, 4) {
			if ip, ok := ipOf(strings.TrimSuffix(cands[0], "+")); ok && (len(ip) == 4 || len(ip) == 16) {
				mode, cs = "lit", cands[0]
			}
		}
		if n == 0 {
			cs = []string{"-", "!"}[r.Intn(2)]
		}
		// the policy usually lists the request's host (Stage 1 passes) and carve-outs among the candidates
		var entries []string
		if r.Chance(5, 6) {
			if mode == "lit" {
				ip, _ := ipOf(strings.TrimSuffix(cands[0], "+"))
				entries = append(entries, scheme+"!"+ip.String()+"!"+port+"!"+strings.TrimSuffix(cands[0], "+"))
			} else {
				entries = append(entries, scheme+"!h.verif.test!"+port+"!-")
			}
		}
		for _, c := range pool {
			if ip, ok := ipOf(c); ok && (len(ip) == 4 || len(ip) == 16) && r.Chance(1, 2) {
				entries = append(entries, "http!"+ip.String()+"!"+port+"!"+c)
			}
		}
		if r.Chance(1, 3) {
			entries = append(entries, genEntry(r, o, pool))
		}
		en := "1"
		if r.Chance(1, 12) {
			en = "0"
		}
		pol := fmt.Sprintf("E=%s;A=%s;S=-;T=0;M=0", en, joinOr(entries))
		path := "p"
		if r.Chance(1, 3) {
			path = "r"
		}
		return "do " + pol + " " + scheme + " " + mode + " " + port + " " + path + " " + cs
	case 0:
		o.Count("op:refuse")
		return "refuse " + genIP(r, o)
	case 1:
		o.Count("op:resolve")
		var pool []string
		for k := 0; k < 3; k++ {
			pool = append(pool, genIP(r, o))
		}
		ceil := genPolicy(r, o, pool, nil)
		var base []string
		if p, ok := policyOf(ceil); ok {
			for _, e := range p.Allowlist {
				base = append(base, entryStr(e))
			}
		}
		return "resolve " + genPolicy(r, o, pool, base) + " " + ceil
	default:
		o.Count("op:dial")
		n := r.Pick(1, 4, 4, 3, 2)
		var cands, pool []string
		for k := 0; k < n; k++ {
			c := genIP(r, o)
			if r.Chance(1, 6) {
				c = []string{"7f000001", "00000000000000000000ffff7f000001"}[r.Intn(2)]
			}
			pool = append(pool, c)
			if r.Chance(1, 3) {
				c += "+"
			}
			cands = append(cands, c)
		}
		mode := "name"
		cs := joinOr(cands)
		if n > 0 && r.Chance(1, 5) {
			// IP-literal host: exactly one well-formed candidate
			ip, ok := ipOf(strings.TrimSuffix(cands[0], "+"))
			if ok && (len(ip) == 4 || len(ip) == 16) {
				mode, cs = "lit", cands[0]
				o.Count("dial:ip-literal-host")
			}
		}
		if n == 0 {
			cs = []string{"-", "!"}[r.Intn(2)]
			o.Count("dial:no-answer")
		}
		port := []string{"443", "80", "11434", "L", "L"}[r.Intn(5)]
		return "dial " + genPolicy(r, o, pool, nil) + " " + port + " " + mode + " " + cs
	}
}
