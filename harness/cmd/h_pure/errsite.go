package main

import (
	"encoding/hex"
	"fmt"
	"go/ast"
	"go/parser"
	"go/token"
	"os"
	"path/filepath"
	"sort"
	"strconv"
	"strings"

	"github.com/conduitio/conduit/pkg/foundation/cerrors"
	"verif/harness/gen"
)

// Component errsite (C20): every cerrors.Errorf call site of the repository's non-test code
// (scanned from the source tree VERIF_REPO, default /repo) whose constant format could hold a %w.
// The REAL cerrors.Errorf is called with that format and as many distinct errors as the site
// passes arguments; the result line says which arguments stay reachable for errors.Is.
//
//	site <file:line> <hexformat> <argc>   ->  keeps=<bit per argument> prop=ok
//
// The model prints the same `keeps` from its model of xerrors.Errorf and evaluates the property
// monitor (`goodSite`: every %w argument is kept); `prop=lost:…` on the model side with equal
// `keeps` is a call site of the code base that drops the classification of an error it was
// given with %w — a failing input for C20.
func init() {
	components["errsite"] = component{gen: genErrSite, run: runErrSite,
		nontrivial: func(l, res string) bool { return strings.Contains(res, "1") }}
}

const cerrorsImport = "github.com/conduitio/conduit/pkg/foundation/cerrors"

var errSites []string

func repoRoot() string {
	if v := os.Getenv("VERIF_REPO"); v != "" {
		return v
	}
	return "/repo"
}

func constString(f *ast.File, e ast.Expr) (string, bool) {
	switch v := e.(type) {
	case *ast.BasicLit:
		if v.Kind == token.STRING {
			s, err := strconv.Unquote(v.Value)
			return s, err == nil
		}
	case *ast.ParenExpr:
		return constString(f, v.X)
	case *ast.BinaryExpr:
		if v.Op == token.ADD {
			a, ok1 := constString(f, v.X)
			b, ok2 := constString(f, v.Y)
			return a + b, ok1 && ok2
		}
	case *ast.Ident:
		for _, d := range f.Decls {
			gd, ok := d.(*ast.GenDecl)
			if !ok || gd.Tok != token.CONST {
				continue
			}
			for _, s := range gd.Specs {
				vs := s.(*ast.ValueSpec)
				for i, n := range vs.Names {
					if n.Name == v.Name && i < len(vs.Values) {
						return constString(f, vs.Values[i])
					}
				}
			}
		}
	}
	return "", false
}

func scanErrSites() []string {
	root := repoRoot()
	fset := token.NewFileSet()
	var out []string
	_ = filepath.Walk(root, func(p string, info os.FileInfo, err error) error {
		if err != nil {
			return nil
		}
		n := info.Name()
		if info.IsDir() {
			if p != root && (strings.HasPrefix(n, ".") || n == "node_modules" || n == "testdata" || n == "vendor") {
				return filepath.SkipDir
			}
			return nil
		}
		if !strings.HasSuffix(n, ".go") || strings.HasSuffix(n, "_test.go") || n == "zz_verif_hooks.go" {
			return nil
		}
		f, err := parser.ParseFile(fset, p, nil, parser.SkipObjectResolution)
		if err != nil {
			return nil
		}
		alias := ""
		for _, im := range f.Imports {
			if strings.Trim(im.Path.Value, "\"`") == cerrorsImport {
				alias = "cerrors"
				if im.Name != nil {
					alias = im.Name.Name
				}
			}
		}
		inPkg := f.Name.Name == "cerrors"
		rel, _ := filepath.Rel(root, p)
		ast.Inspect(f, func(nd ast.Node) bool {
			c, ok := nd.(*ast.CallExpr)
			if !ok || len(c.Args) == 0 || c.Ellipsis != token.NoPos {
				return true
			}
			hit := false
			switch fn := c.Fun.(type) {
			case *ast.SelectorExpr:
				id, ok := fn.X.(*ast.Ident)
				hit = ok && alias != "" && id.Name == alias && fn.Sel.Name == "Errorf"
			case *ast.Ident:
				hit = inPkg && fn.Name == "Errorf"
			}
			if !hit {
				return true
			}
			s, ok := constString(f, c.Args[0])
			if !ok || !strings.Contains(s, "%") || !strings.Contains(s, "w") {
				return true
			}
			out = append(out, fmt.Sprintf("site %s:%d %s %d", rel, fset.Position(c.Pos()).Line, hexFmt(s), len(c.Args)-1))
			return true
		})
		return nil
	})
	sort.Strings(out)
	return out
}

func genErrSite(r *gen.Rand, o *gen.Out, i int) string {
	if errSites == nil {
		errSites = scanErrSites()
		if len(errSites) == 0 {
			panic("no cerrors.Errorf call site found under " + repoRoot())
		}
	}
	o.Count("site")
	if i < len(errSites) {
		return errSites[i]
	}
	return errSites[r.Intn(len(errSites))]
}

func runErrSite(line string) string {
	f := strings.Fields(line)
	if len(f) != 4 || f[0] != "site" {
		return "bad-op"
	}
	format := ""
	if f[2] != "-" {
		b, err := hex.DecodeString(f[2])
		if err != nil {
			return "bad-op"
		}
		format = string(b)
	}
	n, err := strconv.Atoi(f[3])
	if err != nil || n < 0 || n > 64 {
		return "bad-op"
	}
	args := make([]any, n)
	errs := make([]error, n)
	for i := range args {
		errs[i] = cerrors.New("arg" + strconv.Itoa(i))
		args[i] = errs[i]
	}
	res := cerrors.Errorf(format, args...)
	keeps := "-"
	if n > 0 {
		var sb strings.Builder
		for _, e := range errs {
			if cerrors.Is(res, e) {
				sb.WriteByte('1')
			} else {
				sb.WriteByte('0')
			}
		}
		keeps = sb.String()
	}
	return "keeps=" + keeps + " prop=ok"
}
