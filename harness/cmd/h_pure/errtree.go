package main

import (
	"context"
	"encoding/hex"
	"fmt"
	"io"
	"net"
	"net/url"
	"os"
	"sort"
	"strconv"
	"strings"
	"syscall"

	"github.com/conduitio/conduit/pkg/conduit/exitcode"
	"github.com/conduitio/conduit/pkg/connector"
	"github.com/conduitio/conduit/pkg/foundation/cerrors"
	"github.com/conduitio/conduit/pkg/foundation/cerrors/conduiterr"
	apistatus "github.com/conduitio/conduit/pkg/http/api/status"
	"github.com/conduitio/conduit/pkg/orchestrator"
	"github.com/conduitio/conduit/pkg/pipeline"
	conn_plugin "github.com/conduitio/conduit/pkg/plugin/connector"
	"github.com/conduitio/conduit/pkg/processor"
	"google.golang.org/genproto/googleapis/rpc/errdetails"
	"google.golang.org/grpc/codes"
	grpcstatus "google.golang.org/grpc/status"
	"verif/harness/gen"

	// packages that own error codes (their package-level Register calls fill the registry)
	_ "github.com/conduitio/conduit/pkg/lifecycle-poc"
	_ "github.com/conduitio/conduit/pkg/lifecycle-poc/funnel"
	_ "github.com/conduitio/conduit/pkg/lifecycle/stream"
	_ "github.com/conduitio/conduit/pkg/provisioning"
	_ "github.com/conduitio/conduit/pkg/provisioning/config"
	_ "github.com/conduitio/conduit/pkg/registry"
	_ "github.com/conduitio/conduit/pkg/registry/index"
	_ "github.com/conduitio/conduit/pkg/registry/policy"
	_ "github.com/conduitio/conduit/pkg/registry/trust"
	_ "github.com/conduitio/conduit/pkg/scaffold"
)

// Component errtree (C20): error values built with the REAL constructors from a constructor
// expression (s-expression, grammar in Driver/Errs.lean), classified with the REAL IsFatalError,
// conduiterr.Get, ToStatus/FromStatus, grpc FromError, exitcode.ExitCode, the four API boundary
// functions and cerrors.Is against every sentinel of the table below.
//
// Lines `reg <reason> <grpc>`: one per code the process really registered; the model answers
// whether the regenerated registry holds exactly that pair.
func init() {
	components["errtree"] = component{gen: genErrTree, run: runErrTree, nontrivial: ntErrTree}
	components["errfmt"] = component{gen: genErrFmt, run: runErrFmt, nontrivial: func(l, res string) bool { return res != "wrap=-" }}
}

var sentinels = map[string]error{
	"context.Canceled":                               context.Canceled,
	"context.DeadlineExceeded":                       context.DeadlineExceeded,
	"syscall.ECONNREFUSED":                           syscall.ECONNREFUSED,
	"syscall.EADDRINUSE":                             syscall.EADDRINUSE,
	"syscall.EPIPE":                                  syscall.EPIPE,
	"io.EOF":                                         io.EOF,
	"cerrors.ErrNotImpl":                             cerrors.ErrNotImpl,
	"cerrors.ErrEmptyID":                             cerrors.ErrEmptyID,
	"pipeline.ErrNameMissing":                        pipeline.ErrNameMissing,
	"pipeline.ErrInstanceNotFound":                   pipeline.ErrInstanceNotFound,
	"pipeline.ErrPipelineRunning":                    pipeline.ErrPipelineRunning,
	"pipeline.ErrPipelineNotRunning":                 pipeline.ErrPipelineNotRunning,
	"pipeline.ErrNameAlreadyExists":                  pipeline.ErrNameAlreadyExists,
	"connector.ErrInvalidConnectorType":              connector.ErrInvalidConnectorType,
	"connector.ErrInstanceNotFound":                  connector.ErrInstanceNotFound,
	"connector.ErrConnectorRunning":                  connector.ErrConnectorRunning,
	"orchestrator.ErrInvalidProcessorParentType":     orchestrator.ErrInvalidProcessorParentType,
	"orchestrator.ErrPipelineHasConnectorsAttached":  orchestrator.ErrPipelineHasConnectorsAttached,
	"orchestrator.ErrPipelineHasProcessorsAttached":  orchestrator.ErrPipelineHasProcessorsAttached,
	"orchestrator.ErrConnectorHasProcessorsAttached": orchestrator.ErrConnectorHasProcessorsAttached,
	"orchestrator.ErrImmutableProvisionedByConfig":   orchestrator.ErrImmutableProvisionedByConfig,
	"processor.ErrInstanceNotFound":                  processor.ErrInstanceNotFound,
}

var sentinelNames = func() []string {
	var n []string
	for k := range sentinels {
		n = append(n, k)
	}
	sort.Strings(n)
	return n
}()

// ---------------------------------------------------------------- s-expressions

type sx struct {
	atom string
	list []*sx
	isL  bool
}

func parseSX(s string) (*sx, bool) {
	toks := []string{}
	cur := ""
	flush := func() {
		if cur != "" {
			toks = append(toks, cur)
			cur = ""
		}
	}
	for _, c := range s {
		switch c {
		case '(', ')':
			flush()
			toks = append(toks, string(c))
		case ' ':
			flush()
		default:
			cur += string(c)
		}
	}
	flush()
	pos := 0
	var rec func() (*sx, bool)
	rec = func() (*sx, bool) {
		if pos >= len(toks) {
			return nil, false
		}
		t := toks[pos]
		pos++
		if t == ")" {
			return nil, false
		}
		if t != "(" {
			return &sx{atom: t}, true
		}
		n := &sx{isL: true}
		for {
			if pos >= len(toks) {
				return nil, false
			}
			if toks[pos] == ")" {
				pos++
				return n, true
			}
			c, ok := rec()
			if !ok {
				return nil, false
			}
			n.list = append(n.list, c)
		}
	}
	r, ok := rec()
	if !ok || pos != len(toks) {
		return nil, false
	}
	return r, true
}

type badExpr struct{}

// nonErr marks a non-error Errorf argument.
type nonErr struct{}

func atomOf(x *sx) string {
	if x.isL {
		panic(badExpr{})
	}
	return x.atom
}

func natOf(x *sx) int {
	n, err := strconv.Atoi(atomOf(x))
	if err != nil || n < 0 {
		panic(badExpr{})
	}
	return n
}

func codeOf(reason string, g int) conduiterr.Code {
	if c, ok := conduiterr.LookupCode(reason); ok && int(c.GRPCCode()) == g {
		return c
	}
	return conduiterr.VerifCode(reason, codes.Code(g))
}

// build evaluates an expression with the real constructors. The result is an `any` holding an
// error, a nil error, or nonErr{}.
func build(x *sx) any {
	if !x.isL {
		switch x.atom {
		case "nil":
			return error(nil)
		case "new":
			return cerrors.New("fresh error")
		case "other":
			return nonErr{}
		}
		panic(badExpr{})
	}
	if len(x.list) == 0 {
		panic(badExpr{})
	}
	errArg := func(i int) error {
		if i >= len(x.list) {
			panic(badExpr{})
		}
		v := build(x.list[i])
		if v == nil {
			return nil
		}
		e, ok := v.(error)
		if !ok {
			return nil // a non-error where an error is expected: treated as nil (never generated)
		}
		return e
	}
	arity := func(n int) {
		if len(x.list) != n {
			panic(badExpr{})
		}
	}
	switch atomOf(x.list[0]) {
	case "s":
		arity(2)
		e, ok := sentinels[atomOf(x.list[1])]
		if !ok {
			// unknown sentinel names behave as distinct package-level values
			e = cerrors.New(atomOf(x.list[1]))
			sentinels[atomOf(x.list[1])] = e
		}
		return e
	case "ef":
		if len(x.list) < 2 {
			panic(badExpr{})
		}
		f := atomOf(x.list[1])
		var format string
		if f != "-" {
			b, err := hex.DecodeString(f)
			if err != nil {
				panic(badExpr{})
			}
			format = string(b)
		}
		var args []any
		for _, a := range x.list[2:] {
			v := build(a)
			switch t := v.(type) {
			case nonErr:
				args = append(args, "v")
			case nil:
				args = append(args, nil)
			default:
				args = append(args, t)
			}
		}
		return cerrors.Errorf(format, args...)
	case "sw":
		arity(3)
		e := errArg(2)
		if e == nil {
			return error(nil)
		}
		switch atomOf(x.list[1]) {
		case "f":
			return fmt.Errorf("context (std): %w", e)
		case "op":
			return &net.OpError{Op: "dial", Net: "tcp", Err: e}
		case "sys":
			return os.NewSyscallError("connect", e)
		case "url":
			return &url.Error{Op: "Get", URL: "http://x", Err: e}
		case "val":
			return &conn_plugin.ValidationError{Err: e}
		}
		panic(badExpr{})
	case "j":
		var es []error
		for i := 1; i < len(x.list); i++ {
			es = append(es, errArg(i))
		}
		return cerrors.Join(es...)
	case "f":
		arity(2)
		return cerrors.FatalError(errArg(1))
	case "cn":
		arity(3)
		return error(conduiterr.New(codeOf(atomOf(x.list[1]), natOf(x.list[2])), "coded error"))
	case "cw":
		arity(4)
		return error(conduiterr.Wrap(codeOf(atomOf(x.list[1]), natOf(x.list[2])), "boundary message", errArg(3)))
	case "wc":
		arity(4)
		return error(conduiterr.WithCode(errArg(1), codeOf(atomOf(x.list[2]), natOf(x.list[3]))))
	case "wu":
		arity(3)
		return error(conduiterr.WithUnknownReason(errArg(1), codes.Code(natOf(x.list[2]))))
	case "g":
		arity(2)
		return grpcstatus.Error(codes.Code(natOf(x.list[1])), "status error")
	case "vs":
		arity(2)
		ce, ok := conduiterr.Get(errArg(1))
		if !ok {
			return error(nil)
		}
		return conduiterr.ToStatus(ce).Err()
	case "fs":
		arity(2)
		return error(conduiterr.FromStatus(grpcstatus.Convert(errArg(1))))
	}
	panic(badExpr{})
}

func codeStr(c conduiterr.Code) string { return c.Reason() + "/" + strconv.Itoa(int(c.GRPCCode())) }

func conduitReason(st *grpcstatus.Status) string {
	for _, d := range st.Details() {
		if info, ok := d.(*errdetails.ErrorInfo); ok && info.GetDomain() == "conduit" {
			return info.GetReason()
		}
	}
	return "-"
}

func statusErrStr(e error) string {
	if e == nil {
		return "nil"
	}
	st, ok := grpcstatus.FromError(e)
	if !ok {
		return "?"
	}
	return strconv.Itoa(int(st.Code())) + "/" + conduitReason(st)
}

func runErrTree(line string) (res string) {
	defer func() {
		if p := recover(); p != nil {
			if _, ok := p.(badExpr); ok {
				res = "bad-op"
				return
			}
			panic(p)
		}
	}()
	if strings.HasPrefix(line, "reg ") {
		f := strings.Fields(line)
		if len(f) != 3 {
			return "bad-op"
		}
		c, ok := conduiterr.LookupCode(f[1])
		return "registered=" + strconv.FormatBool(ok && strconv.Itoa(int(c.GRPCCode())) == f[2])
	}
	x, ok := parseSX(line)
	if !ok {
		return "bad-op"
	}
	v := build(x)
	if v == nil {
		return "nil"
	}
	e, ok := v.(error)
	if !ok {
		return "nil" // `other` at top level
	}
	return classifyNonNil(e)
}

// classifyNonNil is the canonical classification line of a non-nil error value.
func classifyNonNil(e error) string {
	fatal := "0"
	if cerrors.IsFatalError(e) {
		fatal = "1"
	}
	code, rt := "-", "-"
	if ce, ok := conduiterr.Get(e); ok {
		code = codeStr(ce.Code)
		rt = codeStr(conduiterr.FromStatus(conduiterr.ToStatus(ce)).Code)
	}
	st := "-"
	if s, ok := grpcstatus.FromError(e); ok {
		st = strconv.Itoa(int(s.Code())) + "/" + conduitReason(s)
	}
	api := []string{
		statusErrStr(apistatus.PipelineError(e)), statusErrStr(apistatus.ConnectorError(e)),
		statusErrStr(apistatus.ProcessorError(e)), statusErrStr(apistatus.PluginError(e)),
	}
	var hits []string
	names := []string{"&ValidationError"}
	for n := range sentinels {
		names = append(names, n)
	}
	sort.Strings(names)
	for _, n := range names {
		var t error = &conn_plugin.ValidationError{}
		if n != "&ValidationError" {
			t = sentinels[n]
		}
		if cerrors.Is(e, t) {
			hits = append(hits, n)
		}
	}
	is := "-"
	if len(hits) > 0 {
		is = strings.Join(hits, ",")
	}
	return fmt.Sprintf("fatal=%s code=%s rt=%s st=%s exit=%d api=%s is=%s", fatal, code, rt, st,
		exitcode.ExitCode(e), strings.Join(api, ";"), is)
}

// non-trivial: a non-nil result built by at least two nested constructor applications.
func ntErrTree(line, res string) bool {
	return res != "nil" && res != "bad-op" && strings.Count(line, "(") >= 2
}

// ---------------------------------------------------------------- generator

var fmtTemplates = []struct {
	f    string
	args int
}{
	{"context: %w", 1}, {"task %s failed: %w", 2}, {"failed to nack %d records: %w", 2},
	{"a %w in the middle", 1}, {"%w", 1}, {"%w (while handling: %w)", 2}, {"%w: %w", 2},
	{"%w and %w and %w", 3}, {"no verbs at all", 0}, {"plain: %v", 1}, {"plain: %s", 1},
	{"value %v then %v", 2}, {"%v: %w", 2}, {"%w: %v", 2}, {"%s: %s", 2}, {"100%% sure: %w", 1},
	{"%+v / %w", 2}, {"x %[1]w", 1}, {"%*d: %w", 3}, {"trailing %", 0}, {"%w%w", 2}, {"%-5w|", 1},
	{"%d: %v", 2}, {"DLQ nack threshold exceeded (%d/%d), original error: %w", 3}, {": %w", 1}, {"", 0},
}

func hexFmt(s string) string {
	if s == "" {
		return "-"
	}
	return hex.EncodeToString([]byte(s))
}

func randFormat(r *gen.Rand) (string, int) {
	alpha := []string{"%", "w", "v", "s", "d", ":", " ", "a", "+", "-", "5", "%%", "%w", ": %w", ": %v", ": %s", "[", "*", "%+w", "q"}
	n := r.Range(0, 8)
	var sb strings.Builder
	for i := 0; i < n; i++ {
		sb.WriteString(alpha[r.Intn(len(alpha))])
	}
	s := sb.String()
	return s, strings.Count(strings.ReplaceAll(s, "%%", ""), "%")
}

var extraReasons = []string{"x.custom_one", "x.custom_two", "plugin.some_reason"}

func genCode(r *gen.Rand, o *gen.Out) (string, int) {
	live := conduiterr.Codes()
	switch r.Pick(70, 12, 10, 4, 4) {
	case 0:
		c := live[r.Intn(len(live))]
		o.Count("code:registered")
		return c.Reason(), int(c.GRPCCode())
	case 1:
		o.Count("code:unregistered")
		return extraReasons[r.Intn(len(extraReasons))], r.Range(1, 16)
	case 2:
		o.Count("code:registered-other-category")
		return live[r.Intn(len(live))].Reason(), r.Range(1, 16)
	case 3:
		o.Count("code:grpc-ok")
		return live[r.Intn(len(live))].Reason(), 0
	default:
		o.Count("code:grpc-out-of-range")
		return extraReasons[r.Intn(len(extraReasons))], r.Range(17, 40)
	}
}

func genExpr(r *gen.Rand, o *gen.Out, depth int) string {
	if depth <= 0 || r.Chance(1, 8) {
		switch r.Pick(30, 25, 20, 15, 10) {
		case 0:
			o.Count("leaf:sentinel")
			return "(s " + sentinelNames[r.Intn(len(sentinelNames))] + ")"
		case 1:
			o.Count("leaf:new")
			return "new"
		case 2:
			o.Count("leaf:cnew")
			re, g := genCode(r, o)
			return fmt.Sprintf("(cn %s %d)", re, g)
		case 3:
			o.Count("leaf:grpc")
			return fmt.Sprintf("(g %d)", r.Range(0, 17))
		default:
			o.Count("leaf:nil")
			return "nil"
		}
	}
	sub := func() string { return genExpr(r, o, depth-1) }
	switch r.Pick(26, 10, 12, 14, 10, 6, 5, 5, 4) {
	case 0:
		var f string
		var n int
		if r.Chance(4, 5) {
			t := fmtTemplates[r.Intn(len(fmtTemplates))]
			f, n = t.f, t.args
		} else {
			f, n = randFormat(r)
		}
		if r.Chance(1, 10) {
			n += r.Range(-1, 1)
			if n < 0 {
				n = 0
			}
		}
		o.Count("op:errorf")
		var sb strings.Builder
		sb.WriteString("(ef " + hexFmt(f))
		for i := 0; i < n; i++ {
			switch r.Pick(70, 25, 5) {
			case 0:
				sb.WriteString(" " + sub())
			case 1:
				sb.WriteString(" other")
			default:
				sb.WriteString(" nil")
			}
		}
		sb.WriteString(")")
		return sb.String()
	case 1:
		o.Count("op:stdwrap")
		k := []string{"f", "op", "sys", "url", "val"}[r.Intn(5)]
		return "(sw " + k + " " + sub() + ")"
	case 2:
		o.Count("op:join")
		n := r.Range(0, 4)
		s := "(j"
		for i := 0; i < n; i++ {
			s += " " + sub()
		}
		return s + ")"
	case 3:
		o.Count("op:fatal")
		return "(f " + sub() + ")"
	case 4:
		o.Count("op:cwrap")
		re, g := genCode(r, o)
		return fmt.Sprintf("(cw %s %d %s)", re, g, sub())
	case 5:
		o.Count("op:withCode")
		re, g := genCode(r, o)
		return fmt.Sprintf("(wc %s %s %d)", sub(), re, g)
	case 6:
		o.Count("op:withUnknown")
		return fmt.Sprintf("(wu %s %d)", sub(), r.Range(0, 16))
	case 7:
		o.Count("op:viaStatus")
		return "(vs " + sub() + ")"
	default:
		o.Count("op:fromStatus")
		return "(fs " + sub() + ")"
	}
}

func genErrTree(r *gen.Rand, o *gen.Out, i int) string {
	live := conduiterr.Codes()
	if i < len(live) {
		o.Count("registry-line")
		return fmt.Sprintf("reg %s %d", live[i].Reason(), int(live[i].GRPCCode()))
	}
	if r.Chance(1, 60) {
		o.Count("malformed")
		return []string{"(f", "(zz new)", "(cn a)", ")", "(ef zz new)", "(j other)"}[r.Intn(6)]
	}
	return genExpr(r, o, r.Range(1, 6))
}

// ---------------------------------------------------------------- errfmt

// Component errfmt: which argument the real cerrors.Errorf wraps.
//
//	<hexformat> <kinds>    kinds: e = an error, s = a string, n = a nil error
func genErrFmt(r *gen.Rand, o *gen.Out, i int) string {
	var f string
	var n int
	if r.Chance(1, 3) {
		t := fmtTemplates[r.Intn(len(fmtTemplates))]
		f, n = t.f, t.args
		o.Count("format:template")
	} else {
		f, n = randFormat(r)
		o.Count("format:random")
	}
	if r.Chance(1, 6) {
		n = r.Range(0, 4)
	}
	ks := ""
	for j := 0; j < n; j++ {
		ks += string("eeeesn"[r.Intn(6)])
	}
	if ks == "" {
		ks = "-"
	}
	return hexFmt(f) + " " + ks
}

func runErrFmt(line string) string {
	f := strings.Fields(line)
	if len(f) != 2 {
		return "bad-op"
	}
	format := ""
	if f[0] != "-" {
		b, err := hex.DecodeString(f[0])
		if err != nil {
			return "bad-op"
		}
		format = string(b)
	}
	var args []any
	var errs []error
	if f[1] != "-" {
		for i, c := range f[1] {
			switch c {
			case 'e':
				e := cerrors.New("arg" + strconv.Itoa(i))
				args = append(args, e)
				errs = append(errs, e)
			case 's':
				args = append(args, "str")
				errs = append(errs, nil)
			case 'n':
				args = append(args, nil)
				errs = append(errs, nil)
			default:
				return "bad-op"
			}
		}
	}
	res := cerrors.Errorf(format, args...)
	u := cerrors.Unwrap(res)
	if u == nil {
		return "wrap=-"
	}
	for i, e := range errs {
		if e != nil && e == u {
			return "wrap=" + strconv.Itoa(i)
		}
	}
	return "wrap=?"
}
