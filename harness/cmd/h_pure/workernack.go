package main

import (
	"context"
	"fmt"
	"strconv"
	"strings"

	"github.com/conduitio/conduit-commons/opencdc"
	"github.com/conduitio/conduit/pkg/connector"
	"github.com/conduitio/conduit/pkg/foundation/log"
	"github.com/conduitio/conduit/pkg/foundation/metrics/noop"
	"github.com/conduitio/conduit/pkg/lifecycle-poc/funnel"
	"verif/harness/gen"
)

// Component workernack (C20): the REAL arch-v2 nack path — funnel.Worker.Nack on a real Worker
// with a real DLQ (real window, real DestinationTask) over scripted fake connectors — and the
// classification of the error it returns. Syntax and the monitor in Driver/ErrPaths.lean:
//
//	wn <size> <thr> | src <expr|nil> | dlqw <expr|nil> | <e|p> <nackexpr> / <ackexpr|ok> | …
//
// The implementation line ends in `prop=ok`; the model evaluates the monitor (every error the call
// combined keeps its classification in the result), so a `prop=lost:…` on the model side with an
// otherwise equal line is a failing input for C20 on the real code path.
func init() {
	components["workernack"] = component{gen: genWorkerNack, run: runWorkerNack,
		nontrivial: func(l, res string) bool { return !strings.HasPrefix(res, "nil") && res != "bad-op" }}
}

type wnSource struct{ ackErr error }

func (s *wnSource) ID() string                                        { return "src" }
func (s *wnSource) Open(context.Context) error                        { return nil }
func (s *wnSource) Read(context.Context) ([]opencdc.Record, error)    { return nil, context.Canceled }
func (s *wnSource) Ack(context.Context, []opencdc.Position) error     { return s.ackErr }
func (s *wnSource) Teardown(context.Context) error                    { return nil }
func (s *wnSource) Errors() <-chan error                              { return nil }

// wnDest: Write returns the scripted error; Ack acks every written record in one response, each
// with its scripted error.
type wnDest struct {
	id       string
	writeErr error
	ackErrs  []error // per record of the batch handed to the worker, by position
	written  []opencdc.Record
}

func (d *wnDest) ID() string                     { return d.id }
func (d *wnDest) Open(context.Context) error     { return nil }
func (d *wnDest) Teardown(context.Context) error { return nil }
func (d *wnDest) Errors() <-chan error           { return nil }
func (d *wnDest) Write(_ context.Context, recs []opencdc.Record) error {
	if d.writeErr != nil {
		return d.writeErr
	}
	d.written = recs
	return nil
}

func (d *wnDest) Ack(context.Context) ([]connector.DestinationAck, error) {
	acks := make([]connector.DestinationAck, len(d.written))
	for i, r := range d.written {
		acks[i] = connector.DestinationAck{Position: r.Position}
		if i < len(d.ackErrs) {
			acks[i].Error = d.ackErrs[i]
		}
	}
	d.written = nil
	return acks, nil
}

func exprErr(s string) (error, bool) {
	x, ok := parseSX(strings.TrimSpace(s))
	if !ok {
		return nil, false
	}
	v := build(x)
	if v == nil {
		return nil, true
	}
	e, ok := v.(error)
	if !ok {
		return nil, true
	}
	return e, true
}

func runWorkerNack(line string) (res string) {
	defer func() {
		if p := recover(); p != nil {
			if _, ok := p.(badExpr); ok {
				res = "bad-op"
				return
			}
			panic(p)
		}
	}()
	fs := strings.Split(line, " | ")
	if len(fs) < 3 {
		return "bad-op"
	}
	hd := strings.Fields(fs[0])
	if len(hd) != 3 || hd[0] != "wn" {
		return "bad-op"
	}
	size, err1 := strconv.Atoi(hd[1])
	thr, err2 := strconv.Atoi(hd[2])
	if err1 != nil || err2 != nil || size < 0 || thr < 0 {
		return "bad-op"
	}
	srcF, dlqF := strings.TrimSpace(fs[1]), strings.TrimSpace(fs[2])
	if !strings.HasPrefix(srcF, "src ") || !strings.HasPrefix(dlqF, "dlqw ") {
		return "bad-op"
	}
	srcErr, ok1 := exprErr(srcF[4:])
	dlqWrite, ok2 := exprErr(dlqF[5:])
	if !ok1 || !ok2 {
		return "bad-op"
	}
	var recs []opencdc.Record
	var nackErrs, ackErrs []error
	for i, rf := range fs[3:] {
		parts := strings.Split(strings.TrimSpace(rf), " / ")
		if len(parts) != 2 {
			return "bad-op"
		}
		l := strings.TrimSpace(parts[0])
		if len(l) < 2 || (l[0] != 'e' && l[0] != 'p') {
			return "bad-op"
		}
		ne, ok := exprErr(l[1:])
		if !ok {
			return "bad-op"
		}
		if ne == nil {
			// a nacked record always carries an error in the engine; a nil one would make
			// dlqRecord dereference nil — not an input the engine produces
			return "bad-op"
		}
		var ae error
		if r := strings.TrimSpace(parts[1]); r != "ok" {
			ae, ok = exprErr(r)
			if !ok {
				return "bad-op"
			}
		}
		var pos opencdc.Position
		if l[0] == 'p' {
			pos = opencdc.Position("p" + strconv.Itoa(i))
		}
		recs = append(recs, opencdc.Record{Position: pos, Operation: opencdc.OperationCreate, Metadata: opencdc.Metadata{}})
		nackErrs = append(nackErrs, ne)
		ackErrs = append(ackErrs, ae)
	}

	logger := log.Nop()
	src := &wnSource{ackErr: srcErr}
	srcTask := funnel.NewSourceTask("src", src, logger, funnel.NoOpConnectorMetrics{})
	dstTask := funnel.NewDestinationTask("dst", &wnDest{id: "dst"}, logger, funnel.NoOpConnectorMetrics{})
	first := &funnel.TaskNode{Task: srcTask, Next: []*funnel.TaskNode{{Task: dstTask}}}
	dlq := funnel.NewDLQ("dlq", &wnDest{id: "dlq", writeErr: dlqWrite, ackErrs: ackErrs}, logger, funnel.NoOpConnectorMetrics{}, size, thr)
	w, err := funnel.NewWorker(first, dlq, logger, noop.Timer{})
	if err != nil {
		panic(err)
	}
	batch := funnel.NewBatch(recs)
	if len(recs) > 0 {
		batch.Nack(0, nackErrs...)
	}
	out := w.Nack(context.Background(), batch, "task")
	return classifyErr(out) + " prop=ok"
}

// classifyErr is runErrTree's classification of an already built value.
func classifyErr(e error) string {
	if e == nil {
		return "nil"
	}
	return classifyNonNil(e)
}

// ---------------------------------------------------------------- generator

func genWorkerNack(r *gen.Rand, o *gen.Out, i int) string {
	var size, thr int
	switch r.Pick(2, 5, 3) {
	case 0:
		size, thr = 0, r.Intn(3)
		o.Count("window:off")
	case 1:
		size = r.Range(1, 6)
		thr = r.Range(0, size)
		o.Count("window:small")
	default:
		size = r.Range(5, 40)
		thr = r.Range(1, 6)
		o.Count("window:large")
	}
	errExpr := func() string {
		for {
			s := genExpr(r, o, r.Range(0, 3))
			if s != "nil" && !strings.HasPrefix(s, "(j") && !strings.HasPrefix(s, "(f nil") && !strings.HasPrefix(s, "(vs") && !strings.HasPrefix(s, "(sw") && !strings.HasPrefix(s, "(g 0") {
				return s
			}
		}
	}
	src := "nil"
	switch r.Pick(6, 2, 2) {
	case 1:
		src = errExpr()
		o.Count("src:error")
	case 2:
		src = "(ef 73747265616d20636c6f7365643a202577 (s io.EOF))"
		o.Count("src:eof")
	}
	dlqw := "nil"
	if r.Chance(1, 6) {
		dlqw = errExpr()
		o.Count("dlq:write-error")
	}
	n := r.Pick(1, 5, 5, 4, 3, 2)
	var sb strings.Builder
	fmt.Fprintf(&sb, "wn %d %d | src %s | dlqw %s", size, thr, src, dlqw)
	for k := 0; k < n; k++ {
		kind := "p"
		if r.Chance(1, 4) {
			kind = "e"
			o.Count("record:empty-position")
		}
		ack := "ok"
		if r.Chance(1, 7) {
			ack = errExpr()
			o.Count("record:dlq-ack-error")
		}
		fmt.Fprintf(&sb, " | %s %s / %s", kind, errExpr(), ack)
	}
	return sb.String()
}
