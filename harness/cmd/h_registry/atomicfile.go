package main

import (
	"bytes"
	"fmt"
	"os"
	"os/exec"
	"path/filepath"
	"strconv"
	"strings"
	"syscall"
	"time"

	"github.com/conduitio/conduit/pkg/foundation/atomicfile"
	"verif/harness/gen"
)

// Component atomicfile: the real atomicfile.WriteFile.
//
//	w old=<n|-> new=<n> fault=none|nodir|tgtdir   ->  res=ok|err target=old|new|absent|other tmp=<temp files left>
//	    old: length of the previous content (- = no file); fault: nodir = the directory does not
//	    exist (CreateTemp fails), tgtdir = the target path is a non-empty directory (Rename fails).
//	k old=<n> new=<n> obs=old|new|other tmp=<n>    ->  ok   (recorded trace of a SIGKILLed writer)
//	    a child process runs WriteFile over an existing file and is killed (SIGKILL) at a random
//	    instant; obs is what the target holds afterwards, tmp the number of temp files left.
//
// Non-trivial: a fault was injected, or the kill landed while a temp file existed.
func init() {
	nt := func(line, res string) bool {
		return strings.HasPrefix(line, "w") && !strings.Contains(line, "fault=none") || strings.HasPrefix(line, "k") && !strings.Contains(line, "tmp=0")
	}
	components["atomicfile"] = component{gen: genAtomic, run: runAtomic, nontrivial: nt}
	// atomickill: only the SIGKILL runs (each needs a fresh process: ~1 s)
	components["atomickill"] = component{gen: genAtomicKill, run: runAtomic, nontrivial: nt}
}

func pattern(tag, n int) []byte {
	b := make([]byte, n)
	for i := range b {
		b[i] = byte((tag*37 + i*11 + 1) % 256)
	}
	return b
}

func tmpCount(dir string) int {
	ents, _ := os.ReadDir(dir)
	c := 0
	for _, e := range ents {
		if strings.HasPrefix(e.Name(), ".atomicfile-") {
			c++
		}
	}
	return c
}

func classifyTarget(path string, old, new []byte) string {
	data, err := os.ReadFile(path)
	switch {
	case err != nil && os.IsNotExist(err):
		return "absent"
	case err != nil:
		return "other"
	case bytes.Equal(data, new):
		return "new"
	case old != nil && bytes.Equal(data, old):
		return "old"
	}
	return "other"
}

func runAtomic(line string) string {
	f := strings.Fields(line)
	if len(f) == 0 {
		return "bad-op"
	}
	m := kvOf(line)
	switch f[0] {
	case "k":
		if (m["obs"] == "old" || m["obs"] == "new") && (m["tmp"] == "0" || m["tmp"] == "1") {
			return "ok"
		}
		return "viol=target-" + m["obs"] + "-tmp-" + m["tmp"]
	case "w":
	default:
		return "bad-op"
	}
	n, err := strconv.Atoi(m["new"])
	if err != nil || n < 0 {
		return "bad-op"
	}
	var old []byte
	if m["old"] != "-" {
		k, err := strconv.Atoi(m["old"])
		if err != nil || k < 0 {
			return "bad-op"
		}
		old = pattern(1, k)
	}
	new := pattern(2, n)
	sandbox, err := os.MkdirTemp(sandboxRoot(), "verif-atomic-*")
	if err != nil {
		return "harness-error"
	}
	defer os.RemoveAll(sandbox)
	dir := filepath.Join(sandbox, "d")
	path := filepath.Join(dir, "state.json")
	switch m["fault"] {
	case "none":
		_ = os.Mkdir(dir, 0o755)
		if old != nil {
			_ = os.WriteFile(path, old, 0o600)
		}
	case "nodir":
	case "tgtdir":
		_ = os.MkdirAll(filepath.Join(path, "child"), 0o755)
	default:
		return "bad-op"
	}
	werr := atomicfile.WriteFile(path, new, 0o644)
	res := "ok"
	if werr != nil {
		res = "err"
	}
	var tgt string
	if m["fault"] == "tgtdir" {
		tgt = "other"
		if st, e := os.Stat(filepath.Join(path, "child")); e == nil && st.IsDir() {
			tgt = "old"
		}
	} else {
		tgt = classifyTarget(path, old, new)
	}
	if res == "ok" {
		if st, e := os.Stat(path); e != nil || st.Mode().Perm() != 0o644 {
			res = "ok-badperm"
		}
	}
	return fmt.Sprintf("res=%s target=%s tmp=%d", res, tgt, tmpCount(dir))
}

// childAtomicWrite is the killed writer: announce readiness, then WriteFile.
func childAtomicWrite(args []string) {
	n, _ := strconv.Atoi(args[1])
	data := pattern(2, n)
	os.Stdout.Write([]byte{'R'})
	if err := atomicfile.WriteFile(args[0], data, 0o644); err != nil {
		os.Exit(3)
	}
	os.Stdout.Write([]byte{'D'})
}

var killCalib = map[int]time.Duration{}

func killOnce(oldN, newN int, delay time.Duration) (obs string, tmp int, done bool) {
	sandbox, err := os.MkdirTemp(os.TempDir(), "verif-kill-*")
	if err != nil {
		return "harness-error", 0, false
	}
	defer os.RemoveAll(sandbox)
	path := filepath.Join(sandbox, "state.json")
	old, new := pattern(1, oldN), pattern(2, newN)
	_ = os.WriteFile(path, old, 0o600)
	cmd := exec.Command(os.Args[0], "child-atomicwrite", path, strconv.Itoa(newN))
	out, _ := cmd.StdoutPipe()
	if err := cmd.Start(); err != nil {
		return "harness-error", 0, false
	}
	b := make([]byte, 1)
	_, _ = out.Read(b) // 'R'
	start := time.Now()
	if delay < 0 {
		// calibration run: wait for completion
		_, _ = out.Read(b)
		killCalib[newN] = time.Since(start)
		_ = cmd.Wait()
		return classifyTarget(path, old, new), tmpCount(sandbox), true
	}
	for time.Since(start) < delay {
	}
	_ = cmd.Process.Signal(syscall.SIGKILL)
	_ = cmd.Wait()
	return classifyTarget(path, old, new), tmpCount(sandbox), false
}

func genAtomicKill(r *gen.Rand, o *gen.Out, i int) string {
	{
		newN := 2 << 20 // one size: one calibration run per harness process
		oldN := r.Range(1, 4096)
		if _, ok := killCalib[newN]; !ok {
			killOnce(oldN, newN, -1)
		}
		d := time.Duration(r.Intn(int(killCalib[newN])*3/2 + 1))
		obs, tmp, _ := killOnce(oldN, newN, d)
		o.Count("kill.obs=" + obs)
		o.Count("kill.tmp=" + strconv.Itoa(tmp))
		return fmt.Sprintf("k old=%d new=%d obs=%s tmp=%d", oldN, newN, obs, tmp)
	}
}

func genAtomic(r *gen.Rand, o *gen.Out, i int) string {
	old := "-"
	if r.Chance(3, 4) {
		old = strconv.Itoa([]int{0, 1, r.Range(2, 100), r.Range(100, 100000)}[r.Intn(4)])
	}
	n := []int{0, 1, r.Range(2, 100), r.Range(100, 300000)}[r.Intn(4)]
	fault := []string{"none", "none", "nodir", "tgtdir"}[r.Intn(4)]
	if fault == "tgtdir" && old == "-" {
		old = "1"
	}
	o.Count("fault=" + fault)
	return fmt.Sprintf("w old=%s new=%d fault=%s", old, n, fault)
}
