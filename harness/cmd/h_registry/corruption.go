package main

import (
	"encoding/hex"
	"strings"

	"github.com/conduitio/conduit/pkg/registry"
	"verif/harness/gen"
)

// Component corruption: the real registry.CheckCorruption.
//
//	c <hex of the 32 received-digest bytes> <hex of the declared digest string>  ->  ok | corrupt
//
// Non-trivial: the declared string is not simply the lower-case hex of the digest.
func init() {
	components["corruption"] = component{gen: genCorruption, run: runCorruption, nontrivial: func(line, res string) bool {
		f := strings.Fields(line)
		if len(f) != 3 {
			return false
		}
		w, _ := unhx(f[2])
		return w != f[1]
	}}
}

func runCorruption(line string) string {
	f := strings.Fields(line)
	if len(f) != 3 || f[0] != "c" {
		return "bad-op"
	}
	g, ok1 := unhx(f[1])
	w, ok2 := unhx(f[2])
	if !ok1 || !ok2 || len(g) != 32 {
		return "bad-op"
	}
	var got [32]byte
	copy(got[:], g)
	if err := registry.CheckCorruption(got, w); err != nil {
		return "corrupt"
	}
	return "ok"
}

func genCorruption(r *gen.Rand, o *gen.Out, i int) string {
	got := make([]byte, 32)
	for k := range got {
		got[k] = byte(r.Intn(256))
	}
	want := hex.EncodeToString(got)
	kind := r.Pick(20, 10, 10, 6, 6, 8, 8, 6, 6, 6, 4, 4)
	switch kind {
	case 0: // exact
	case 1:
		want = "sha256:" + want
	case 2:
		want = strings.ToUpper(want)
	case 3:
		want = "sha256:sha256:" + want
	case 4:
		want = "SHA256:" + want
	case 5: // one nibble differs
		b := []byte(want)
		p := r.Intn(len(b))
		if b[p] == '0' {
			b[p] = '1'
		} else {
			b[p] = '0'
		}
		want = string(b)
	case 6: // truncated / extended
		if r.Chance(1, 2) {
			want = want[:r.Intn(len(want))]
		} else {
			want += want[:r.Range(1, 4)]
		}
	case 7: // non-hex character
		b := []byte(want)
		b[r.Intn(len(b))] = "gz :-G"[r.Intn(6)]
		want = string(b)
	case 8:
		want = ""
	case 9:
		want = want + " "
	case 10: // mixed case
		b := []byte(want)
		for k := range b {
			if r.Chance(1, 2) {
				b[k] = strings.ToUpper(string(b[k]))[0]
			}
		}
		want = string(b)
	default:
		want = "sha256:"
	}
	o.Count("kind=" + []string{"exact", "prefixed", "upper", "double-prefix", "upper-prefix", "nibble", "length", "nonhex", "empty", "trailing-space", "mixed-case", "prefix-only"}[kind])
	return "c " + hx(string(got)) + " " + hx(want)
}
