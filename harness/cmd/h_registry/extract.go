package main

import (
	"archive/tar"
	"bytes"
	"compress/gzip"
	"fmt"
	"io"
	"io/fs"
	"os"
	"path/filepath"
	"sort"
	"strconv"
	"strings"

	"github.com/conduitio/conduit/pkg/registry"
	"verif/harness/gen"
)

// Component extract: the real registry.ExtractBinary on a generated tar.gz.
//
//	x <entry>;<entry>;… [!]     entry = <t>:<hexname>:<size>[:<avail>]   t ∈ r d s h o
//	  (reg, dir, symlink, hardlink, other=fifo); avail < size cuts the tar stream inside the
//	  content of that (last) entry; trailing `!` appends a corrupt header block.
//	-> ok:<hex rel path>|<tree>  /  err:<class>|<tree>
//
// The archive is expanded into <sandbox>/dest; the whole sandbox is walked afterwards, so a file
// or directory created outside dest shows up as ESCAPE:<hex path>. File contents are checked
// against what the harness put into the archive (a mismatch prints `!content`).
//
// Non-trivial: the archive was refused for a reason other than "no candidate", or it was accepted
// with at least two entries.
func init() {
	components["extract"] = component{gen: genExtract, run: runExtract, nontrivial: func(line, res string) bool {
		if strings.HasPrefix(res, "err:") {
			return !strings.HasPrefix(res, "err:nocandidate")
		}
		return strings.Count(line, ";") >= 1
	}}
}

// Component extractbig: the decompression cap at its boundary (real 1 GiB expansions; a few cases).
func init() {
	components["extractbig"] = component{gen: genExtractBig, run: runExtract, nontrivial: func(line, res string) bool { return true }}
}

func genExtractBig(r *gen.Rand, o *gen.Out, i int) string {
	limit := int64(registry.VerifMaxExtractedBytes)
	first := limit - int64(r.Range(1, 4096))
	var second int64
	switch i % 3 {
	case 0:
		second = limit - first + 1 // one byte over the cap: refused, and the write is cut at cap+1
		o.Count("total=cap+1")
	case 1:
		second = limit - first // exactly the cap: accepted
		o.Count("total=cap")
	default:
		second = limit - first + int64(r.Range(2, 100000))
		o.Count("total>cap+1")
	}
	return fmt.Sprintf("x r:%s:%d;r:%s:%d", hx("conduit-connector-big"), first, hx("docs/pad"), second)
}

type xEntry struct {
	typ         byte
	name        string
	size, avail int64
}

func parseEntries(s string) ([]xEntry, bool) {
	if s == "-" {
		return nil, true
	}
	var out []xEntry
	for _, p := range strings.Split(s, ";") {
		f := strings.Split(p, ":")
		if len(f) != 3 && len(f) != 4 || len(f[0]) != 1 || !strings.Contains("rdsho", f[0]) {
			return nil, false
		}
		name, ok := unhx(f[1])
		if !ok {
			return nil, false
		}
		sz, err := strconv.ParseInt(f[2], 10, 64)
		if err != nil || sz < 0 {
			return nil, false
		}
		av := sz
		if len(f) == 4 {
			av, err = strconv.ParseInt(f[3], 10, 64)
			if err != nil || av < 0 {
				return nil, false
			}
		}
		out = append(out, xEntry{f[0][0], name, sz, av})
	}
	return out, true
}

// contentByte is the deterministic content of entry idx at offset off.
func contentByte(idx int, off int64) byte { return byte(int64(idx)*31 + off*7 + 1) }

type patternReader struct {
	idx int
	off int64
	n   int64
}

func (p *patternReader) Read(b []byte) (int, error) {
	if p.off >= p.n {
		return 0, io.EOF
	}
	k := 0
	for k < len(b) && p.off < p.n {
		b[k] = contentByte(p.idx, p.off)
		k++
		p.off++
	}
	return k, nil
}

// buildArchive writes the tar.gz with hand-made headers (an attacker is not limited to what
// archive/tar's Writer agrees to encode): names go into the ustar name field when they fit and
// otherwise (or at random) into a PAX `path` record. The tar stream is cut after `avail` content
// bytes of an entry with avail < size (only meaningful for the last entry).
func buildArchive(path string, es []xEntry, corruptTail bool) error {
	f, err := os.Create(path)
	if err != nil {
		return err
	}
	defer f.Close()
	gz, _ := gzip.NewWriterLevel(f, gzip.BestSpeed)
	cut := &cutWriter{w: gz, limit: -1}
	zero := make([]byte, 512)
	for i, e := range es {
		var tf byte
		link := ""
		size := int64(0)
		switch e.typ {
		case 'r':
			tf, size = tar.TypeReg, e.size
		case 'd':
			tf = tar.TypeDir
		case 's':
			tf, link = tar.TypeSymlink, "/etc/passwd"
		case 'h':
			tf, link = tar.TypeLink, "bin"
		case 'o':
			tf = tar.TypeFifo
		}
		ustarName := e.name
		if len(e.name) > 100 || (e.name != "" && (i+len(e.name))%3 == 0) {
			// PAX extended header carrying the path
			rec := paxRecord("path", e.name)
			cut.Write(rawHeader("PaxHeaders.0/entry", tar.TypeXHeader, int64(len(rec)), ""))
			cut.Write([]byte(rec))
			cut.Write(zero[:pad512(int64(len(rec)))])
			ustarName = "placeholder"
		}
		cut.Write(rawHeader(ustarName, tf, size, link))
		if e.typ == 'r' {
			if e.avail < e.size {
				cut.limit = cut.n + e.avail
			}
			if _, err := io.Copy(cut, &patternReader{idx: i, n: e.size}); err != nil {
				return err
			}
			if e.avail < e.size {
				cut.closed = true
				break
			}
			cut.Write(zero[:pad512(e.size)])
		}
	}
	if !cut.closed {
		if corruptTail {
			cut.Write(bytes.Repeat([]byte{0x5a}, 512))
		} else {
			cut.Write(zero)
			cut.Write(zero)
		}
	}
	return gz.Close()
}

func pad512(n int64) int64 { return (512 - n%512) % 512 }

func paxRecord(k, v string) string {
	// "<len> k=v\n" where len counts the whole record
	body := " " + k + "=" + v + "\n"
	n := len(body) + 1
	for len(strconv.Itoa(n))+len(body) != n {
		n = len(strconv.Itoa(n)) + len(body)
	}
	return strconv.Itoa(n) + body
}

func rawHeader(name string, typeflag byte, size int64, linkname string) []byte {
	b := make([]byte, 512)
	copy(b[0:100], name)
	copy(b[100:108], "0000644\x00")
	copy(b[108:116], "0000000\x00")
	copy(b[116:124], "0000000\x00")
	copy(b[124:136], fmt.Sprintf("%011o\x00", size))
	copy(b[136:148], "00000000000\x00")
	b[156] = typeflag
	copy(b[157:257], linkname)
	copy(b[257:263], "ustar\x00")
	copy(b[263:265], "00")
	for i := 148; i < 156; i++ {
		b[i] = ' '
	}
	sum := 0
	for _, c := range b {
		sum += int(c)
	}
	copy(b[148:156], fmt.Sprintf("%06o\x00 ", sum))
	return b
}

// cutWriter drops everything past limit (limit < 0: no limit).
type cutWriter struct {
	w      io.Writer
	n      int64
	limit  int64
	closed bool
}

func (c *cutWriter) Write(b []byte) (int, error) {
	if c.closed {
		return len(b), nil
	}
	k := int64(len(b))
	if c.limit >= 0 && c.n+k > c.limit {
		k = c.limit - c.n
		if k < 0 {
			k = 0
		}
	}
	if k > 0 {
		if _, err := c.w.Write(b[:k]); err != nil {
			return 0, err
		}
	}
	c.n += k
	return len(b), nil
}

// readBack lists what tar.Reader yields for the archive, in the case-line format (without avail).
func readBack(path string) string {
	f, err := os.Open(path)
	if err != nil {
		return "open-error"
	}
	defer f.Close()
	gz, err := gzip.NewReader(f)
	if err != nil {
		return "gzip-error"
	}
	tr := tar.NewReader(gz)
	var out []string
	for {
		h, err := tr.Next()
		if err != nil {
			break
		}
		t := "o"
		switch h.Typeflag {
		case tar.TypeReg:
			t = "r"
		case tar.TypeDir:
			t = "d"
		case tar.TypeSymlink:
			t = "s"
		case tar.TypeLink:
			t = "h"
		}
		sz := h.Size
		if t != "r" {
			sz = 0
		}
		out = append(out, fmt.Sprintf("%s:%s:%d", t, hx(h.Name), sz))
	}
	return strings.Join(out, ";")
}

func classify(err error) string {
	m := err.Error()
	switch {
	case strings.Contains(m, "is corrupt"):
		return "corrupt"
	case strings.Contains(m, "attempts to escape"):
		return "escape"
	case strings.Contains(m, "symlink/hardlink"):
		return "link"
	case strings.Contains(m, "could not create extraction directory"):
		return "mkdir"
	case strings.Contains(m, "could not create extracted file"):
		return "create"
	case strings.Contains(m, "could not extract archive entry"):
		return "copy"
	case strings.Contains(m, "expands past the maximum"):
		return "toobig"
	case strings.Contains(m, "more than one candidate"):
		return "multi"
	case strings.Contains(m, "no root-level regular file"):
		return "nocandidate"
	case strings.Contains(m, "not valid gzip"):
		return "gzip"
	case strings.Contains(m, "could not open downloaded archive"):
		return "open"
	}
	return "other:" + m
}

// dumpTree walks sandbox and prints everything except dest itself and the archive file.
func dumpTree(sandbox, dest, archive string, es []xEntry) string {
	var items []string
	nameIdx := map[string]int{}
	_ = filepath.WalkDir(sandbox, func(p string, d fs.DirEntry, err error) error {
		if err != nil {
			items = append(items, "walk-error")
			return nil
		}
		if p == sandbox || p == dest || p == archive {
			return nil
		}
		rel, inside := strings.CutPrefix(p, dest+"/")
		if !inside {
			items = append(items, "ESCAPE:"+hx(p[len(sandbox):]))
			return nil
		}
		info, err := os.Lstat(p)
		if err != nil {
			items = append(items, "stat-error")
			return nil
		}
		switch {
		case info.IsDir():
			items = append(items, "d:"+hx(rel))
		case info.Mode().IsRegular():
			it := "f:" + hx(rel) + ":" + strconv.FormatInt(info.Size(), 10)
			if !contentOK(p, rel, info.Size(), es, nameIdx) {
				it += "!content"
			}
			items = append(items, it)
		default:
			items = append(items, "special:"+hx(rel)+":"+info.Mode().Type().String())
		}
		return nil
	})
	sort.Strings(items)
	if len(items) == 0 {
		return "-"
	}
	return strings.Join(items, ",")
}

// contentOK checks the file holds a prefix of the content of the first regular entry whose cleaned
// name is rel (O_EXCL: a later entry of the same name never overwrites).
func contentOK(p, rel string, size int64, es []xEntry, _ map[string]int) bool {
	for i, e := range es {
		if e.typ == 'r' && filepath.Clean(e.name) == rel {
			f, err := os.Open(p)
			if err != nil {
				return false
			}
			defer f.Close()
			buf := make([]byte, 64<<10)
			var off int64
			for {
				n, err := f.Read(buf)
				for k := 0; k < n; k++ {
					if buf[k] != contentByte(i, off) {
						return false
					}
					off++
				}
				if err != nil {
					break
				}
			}
			return off == size
		}
	}
	return false
}

var sandboxSeq int
var lastExtractLine, lastExtractRes string

// runExtract memoises the last case: the generator already ran it to classify the case.
func runExtract(line string) string {
	if line == lastExtractLine {
		return lastExtractRes
	}
	res := runExtractReal(line)
	lastExtractLine, lastExtractRes = line, res
	return res
}

func runExtractReal(line string) string {
	f := strings.Fields(line)
	if len(f) < 2 || len(f) > 3 || f[0] != "x" || (len(f) == 3 && f[2] != "!") {
		return "bad-op"
	}
	es, ok := parseEntries(f[1])
	if !ok {
		return "bad-op"
	}
	sandboxSeq++
	sandbox, err := os.MkdirTemp(sandboxRoot(), "verif-extract-*")
	if err != nil {
		return "harness-error:" + err.Error()
	}
	defer os.RemoveAll(sandbox)
	dest := filepath.Join(sandbox, "dest")
	if err := os.Mkdir(dest, 0o700); err != nil {
		return "harness-error:" + err.Error()
	}
	archive := filepath.Join(sandbox, "artifact.tar.gz")
	if err := buildArchive(archive, es, len(f) == 3); err != nil {
		return "harness-error:" + err.Error()
	}
	// the tar reader must yield exactly the entries of the case line (names, types, sizes)
	want := make([]string, len(es))
	for i, e := range es {
		sz := e.size
		if e.typ != 'r' {
			sz = 0
		}
		want[i] = fmt.Sprintf("%c:%s:%d", e.typ, hx(e.name), sz)
	}
	if got := readBack(archive); got != strings.Join(want, ";") {
		return "harness-inconsistent:" + got
	}
	bin, err := registry.ExtractBinary(archive, dest)
	tree := dumpTree(sandbox, dest, archive, es)
	if err != nil {
		return "err:" + classify(err) + "|" + tree
	}
	rel, inside := strings.CutPrefix(bin, dest+"/")
	if !inside {
		return "ok:ESCAPE:" + hx(bin) + "|" + tree
	}
	return "ok:" + hx(rel) + "|" + tree
}

var typeLetters = "rdsho"

func genExtract(r *gen.Rand, o *gen.Out, i int) string {
	for {
		l := genExtractOnce(r, o)
		// keep only archives the tar writer can express (checked again in run)
		res := runExtract(l)
		if !strings.HasPrefix(res, "harness-") {
			cls := strings.SplitN(res, "|", 2)[0]
			if strings.HasPrefix(cls, "ok:") {
				cls = "ok"
			}
			o.Count("result=" + cls)
			return l
		}
		if os.Getenv("VERIF_DEBUG") != "" {
			fmt.Fprintln(os.Stderr, "REGEN", l, res)
		}
		o.Count("regen=" + strings.SplitN(res, ":", 2)[0])
	}
}

func genExtractOnce(r *gen.Rand, o *gen.Out) string {
	n := []int{0, 1, 1, 2, 2, 3, 3, 4, 5, 6, 8}[r.Intn(11)]
	shape := r.Pick(35, 65) // 0: benign install-like archive with variations, 1: free-form
	var es []string
	for k := 0; k < n; k++ {
		var t byte
		var name string
		if shape == 0 {
			t = "rrrrrd"[r.Intn(6)]
			switch r.Pick(4, 3, 2, 1) {
			case 0:
				name = segVocab[r.Intn(len(segVocab))]
			case 1:
				name = "docs/" + segVocab[r.Intn(len(segVocab))]
			case 2:
				name = "./" + segVocab[r.Intn(len(segVocab))]
			default:
				name = genPathStr(r, o, 3)
			}
		} else {
			t = typeLetters[r.Pick(55, 15, 10, 8, 12)]
			name = genPathStr(r, o, 5)
		}
		if strings.ContainsRune(name, 0) {
			name = strings.ReplaceAll(name, "\x00", "_")
		}
		size := int64(0)
		if t == 'r' {
			switch r.Pick(2, 6, 2, 1) {
			case 0:
				size = 0
			case 1:
				size = int64(r.Range(1, 64))
			case 2:
				size = int64(r.Range(65, 5000))
			default:
				size = int64(r.Range(5001, 200000))
			}
		}
		o.Count("type=" + string(t))
		es = append(es, fmt.Sprintf("%c:%s:%d", t, hx(name), size))
	}
	tail := ""
	if n > 0 && r.Chance(1, 12) {
		// cut the stream inside the last entry's content, if it is a regular file with content
		last := es[n-1]
		f := strings.Split(last, ":")
		if f[0] == "r" && f[2] != "0" {
			sz, _ := strconv.Atoi(f[2])
			es[n-1] = last + ":" + strconv.Itoa(r.Intn(sz))
			o.Count("stream=cut-in-content")
		}
	} else if r.Chance(1, 15) {
		tail = " !"
		o.Count("stream=corrupt-tail")
	}
	o.Count("entries=" + strconv.Itoa(n))
	s := strings.Join(es, ";")
	if s == "" {
		s = "-"
	}
	return "x " + s + tail
}
