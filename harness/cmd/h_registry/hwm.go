package main

import (
	"context"
	"crypto/ed25519"
	"encoding/base64"
	"encoding/json"
	"fmt"
	"os"
	"path/filepath"
	"strconv"
	"strings"
	"sync"
	"time"

	"github.com/conduitio/conduit/pkg/foundation/cerrors/conduiterr"
	"github.com/conduitio/conduit/pkg/registry"
	"github.com/conduitio/conduit/pkg/registry/index"
	"verif/harness/gen"
)

// Components hwmseq / hwmconc: the real TrustedVerifier.VerifyIndex with real ed25519-signed
// indexes and the real persisted index-state.json.
//
//	h init=<ver>:<content|->|none <call>,<call>,…   call = <kind>:<ver>:<content>:<fresh>
//	    kind r = valid root signature, f = valid freshness signature only, b = recognised key but
//	    bad signature, u = unknown key; fresh 0 = timestamp older than the staleness window
//	  -> per call  <ok|reason>@<persisted version>:<persisted content|->
//	hc init=<ver> <ver>:<ok|reason>,… final=<ver>    (recorded trace of concurrent calls, all root-signed)
//	  -> ok
//
// Non-trivial (hwmseq): at least one call was refused as a rollback, or a freshness-only index was
// judged; (hwmconc): at least one concurrent call was refused as a rollback.
func init() {
	components["hwmseq"] = component{gen: genHwmSeq, run: runHwmSeq, nontrivial: func(line, res string) bool {
		return strings.Contains(res, "index_rollback") || strings.Contains(line, "f:")
	}}
	components["hwmconc"] = component{gen: genHwmConc, run: runHwmConc, nontrivial: func(line, res string) bool {
		return strings.Contains(line, "index_rollback")
	}}
}

type hwmKeys struct {
	rootPub, freshPub, unkPub    ed25519.PublicKey
	rootPriv, freshPriv, unkPriv ed25519.PrivateKey
	anchors                      index.TrustAnchors
	hashToContent                map[string]string
}

var hwmK *hwmKeys

func detKey(seed byte) (ed25519.PublicKey, ed25519.PrivateKey) {
	s := make([]byte, ed25519.SeedSize)
	for i := range s {
		s[i] = seed + byte(i)
	}
	priv := ed25519.NewKeyFromSeed(s)
	return priv.Public().(ed25519.PublicKey), priv
}

func connectorsOf(content int) []index.Connector {
	return []index.Connector{{
		Name: "conn-" + strconv.Itoa(content),
		Publisher: index.Publisher{
			ExpectedOIDCIssuer: "https://token.actions.githubusercontent.com", ExpectedIdentityPattern: "^x$",
		},
	}}
}

func keys() *hwmKeys {
	if hwmK != nil {
		return hwmK
	}
	k := &hwmKeys{hashToContent: map[string]string{"": "-"}}
	k.rootPub, k.rootPriv = detKey(1)
	k.freshPub, k.freshPriv = detKey(50)
	k.unkPub, k.unkPriv = detKey(100)
	rid, _ := index.KeyID(k.rootPub)
	fid, _ := index.KeyID(k.freshPub)
	k.anchors = index.TrustAnchors{
		Roots:     map[string]ed25519.PublicKey{rid: k.rootPub},
		Freshness: map[string]ed25519.PublicKey{fid: k.freshPub},
	}
	for c := 0; c < 8; c++ {
		h, err := index.HashContentSubtree(connectorsOf(c), nil)
		if err != nil {
			panic(err)
		}
		k.hashToContent[h] = strconv.Itoa(c)
	}
	hwmK = k
	return k
}

func contentHash(c int) string {
	h, _ := index.HashContentSubtree(connectorsOf(c), nil)
	return h
}

func signedIndex(kind byte, version int64, content int, fresh bool) []byte {
	k := keys()
	ts := time.Now()
	if !fresh {
		ts = ts.Add(-30 * 24 * time.Hour)
	}
	payload := index.Payload{SchemaVersion: 1, Index: index.IndexMeta{Version: version, Timestamp: ts}, Connectors: connectorsOf(content)}
	raw, _ := json.Marshal(payload)
	canonical, err := index.Canonicalize(raw)
	if err != nil {
		panic(err)
	}
	var role string
	var pub ed25519.PublicKey
	var sig []byte
	switch kind {
	case 'r':
		role, pub, sig = "root", k.rootPub, ed25519.Sign(k.rootPriv, canonical)
	case 'f':
		role, pub, sig = "freshness", k.freshPub, ed25519.Sign(k.freshPriv, canonical)
	case 'b':
		role, pub, sig = "root", k.rootPub, ed25519.Sign(k.rootPriv, canonical)
		sig[5] ^= 0x40
	default:
		role, pub, sig = "root", k.unkPub, ed25519.Sign(k.unkPriv, canonical)
	}
	id, _ := index.KeyID(pub)
	env := map[string]any{"payload": json.RawMessage(raw), "signatures": []map[string]any{
		{"role": role, "keyId": id, "algorithm": "ed25519", "signature": base64.StdEncoding.EncodeToString(sig)},
	}}
	data, _ := json.Marshal(env)
	return data
}

func reasonOfErr(err error) string {
	if err == nil {
		return "ok"
	}
	if ce, ok := conduiterr.Get(err); ok {
		return ce.Code.Reason()
	}
	return "uncoded:" + err.Error()
}

func readState(path string) string {
	st, err := index.LoadState(path)
	if err != nil {
		return "unreadable"
	}
	c, ok := keys().hashToContent[st.LastVerifiedContentHash]
	if !ok {
		c = "?"
	}
	return fmt.Sprintf("%d:%s", st.Version, c)
}

func runHwmSeq(line string) string {
	f := strings.Fields(line)
	if len(f) != 3 || f[0] != "h" || !strings.HasPrefix(f[1], "init=") {
		return "bad-op"
	}
	sandbox, err := os.MkdirTemp(sandboxRoot(), "verif-hwm-*")
	if err != nil {
		return "harness-error"
	}
	defer os.RemoveAll(sandbox)
	statePath := filepath.Join(sandbox, ".registry", "index-state.json")
	_ = os.MkdirAll(filepath.Dir(statePath), 0o700)
	if init := strings.TrimPrefix(f[1], "init="); init != "none" {
		vc := strings.Split(init, ":")
		if len(vc) != 2 {
			return "bad-op"
		}
		v, err := strconv.ParseInt(vc[0], 10, 64)
		if err != nil {
			return "bad-op"
		}
		st := index.State{Version: v}
		if vc[1] != "-" {
			c, err := strconv.Atoi(vc[1])
			if err != nil {
				return "bad-op"
			}
			st.LastVerifiedContentHash = contentHash(c)
		}
		if err := index.SaveState(statePath, st); err != nil {
			return "harness-error"
		}
	}
	v := &registry.TrustedVerifier{Anchors: keys().anchors, StatePath: statePath, LockTimeout: 2 * time.Second}
	var out []string
	prev := readState(statePath)
	for _, c := range strings.Split(f[2], ",") {
		p := strings.Split(c, ":")
		if len(p) != 4 || len(p[0]) != 1 || !strings.Contains("rfbu", p[0]) {
			return "bad-op"
		}
		ver, e1 := strconv.ParseInt(p[1], 10, 64)
		cont, e2 := strconv.Atoi(p[2])
		if e1 != nil || e2 != nil || (p[3] != "0" && p[3] != "1") {
			return "bad-op"
		}
		// a kill at the chaos point just before the state write would leave what is on disk now:
		// it must still be the previous complete state
		atChaos := ""
		registry.VerifSetChaosHook(func(point string) {
			if point == "index-state-before-write" {
				atChaos = readState(statePath)
			}
		})
		vi, err := v.VerifyIndex(context.Background(), signedIndex(p[0][0], ver, cont, p[3] == "1"))
		registry.VerifSetChaosHook(nil)
		now := readState(statePath)
		item := reasonOfErr(err) + "@" + now
		if atChaos != "" && atChaos != prev {
			item += " viol=state-file-changed-before-the-atomic-write"
		}
		if err == nil && atChaos == "" {
			item += " viol=accepted-without-reaching-the-state-write"
		}
		// monitor: the persisted version never decreases; an accepted index is the verified one
		pv, _ := strconv.ParseInt(strings.Split(prev, ":")[0], 10, 64)
		nv, _ := strconv.ParseInt(strings.Split(now, ":")[0], 10, 64)
		if nv < pv {
			item += " viol=high-water-mark-decreased"
		}
		if err == nil && (vi == nil || !vi.Verified || vi.Payload.Index.Version != ver) {
			item += " viol=accepted-index-not-verified"
		}
		if err == nil && ver < pv {
			item += " viol=rollback-accepted"
		}
		out = append(out, item)
		prev = now
	}
	return strings.Join(out, ",")
}

func genHwmSeq(r *gen.Rand, o *gen.Out, i int) string {
	init := "none"
	cur := int64(0)
	if r.Chance(3, 4) {
		cur = int64(r.Range(0, 20))
		if r.Chance(1, 10) {
			cur = int64(r.Range(-3, 3))
		}
		c := "-"
		if r.Chance(2, 3) {
			c = strconv.Itoa(r.Range(0, 2))
		}
		init = fmt.Sprintf("%d:%s", cur, c)
	}
	n := r.Range(1, 8)
	var calls []string
	for k := 0; k < n; k++ {
		kind := "rfbu"[r.Pick(60, 20, 10, 10)]
		// versions around the current mark: below, equal, just above, far above
		var ver int64
		switch r.Pick(3, 2, 4, 1) {
		case 0:
			ver = cur - int64(r.Range(1, 3))
		case 1:
			ver = cur
		case 2:
			ver = cur + int64(r.Range(1, 3))
		default:
			ver = cur + int64(r.Range(4, 1000))
		}
		fresh := r.Chance(9, 10)
		cont := r.Range(0, 2)
		calls = append(calls, fmt.Sprintf("%c:%d:%d:%s", kind, ver, cont, b01(fresh)))
		o.Count("kind=" + string(kind))
		if kind == 'r' && fresh && ver >= cur {
			cur = ver
		}
	}
	o.Count("calls=" + strconv.Itoa(n))
	return "h init=" + init + " " + strings.Join(calls, ",")
}

// ---- concurrent

func runHwmConc(line string) string {
	f := strings.Fields(line)
	if len(f) != 4 || f[0] != "hc" {
		return "bad-op"
	}
	v0, e0 := strconv.ParseInt(strings.TrimPrefix(f[1], "init="), 10, 64)
	vf, e1 := strconv.ParseInt(strings.TrimPrefix(f[3], "final="), 10, 64)
	if e0 != nil || e1 != nil {
		return "bad-op"
	}
	// the recorded trace is judged by the model; here only the monitor on the trace itself
	if vf < v0 {
		return "viol=high-water-mark-decreased"
	}
	for _, c := range strings.Split(f[2], ",") {
		p := strings.Split(c, ":")
		if len(p) != 2 {
			return "bad-op"
		}
		v, err := strconv.ParseInt(p[0], 10, 64)
		if err != nil {
			return "bad-op"
		}
		if p[1] == "ok" && v > vf {
			return "viol=accepted-version-above-final-mark"
		}
	}
	return "ok"
}

func genHwmConc(r *gen.Rand, o *gen.Out, i int) string {
	sandbox, err := os.MkdirTemp(sandboxRoot(), "verif-hwmc-*")
	if err != nil {
		panic(err)
	}
	defer os.RemoveAll(sandbox)
	statePath := filepath.Join(sandbox, ".registry", "index-state.json")
	_ = os.MkdirAll(filepath.Dir(statePath), 0o700)
	v0 := int64(r.Range(0, 10))
	if err := index.SaveState(statePath, index.State{Version: v0, LastVerifiedContentHash: contentHash(1)}); err != nil {
		panic(err)
	}
	n := r.Range(2, 5)
	vers := make([]int64, n)
	raws := make([][]byte, n)
	for k := range vers {
		vers[k] = v0 + int64(r.Range(-2, 6))
		raws[k] = signedIndex('r', vers[k], 1, true)
	}
	res := make([]string, n)
	var wg sync.WaitGroup
	start := make(chan struct{})
	for k := 0; k < n; k++ {
		wg.Add(1)
		go func(k int) {
			defer wg.Done()
			v := &registry.TrustedVerifier{Anchors: keys().anchors, StatePath: statePath, LockTimeout: 10 * time.Second}
			<-start
			_, err := v.VerifyIndex(context.Background(), raws[k])
			res[k] = reasonOfErr(err)
		}(k)
	}
	close(start)
	wg.Wait()
	st, err := index.LoadState(statePath)
	final := "unreadable"
	if err == nil {
		final = strconv.FormatInt(st.Version, 10)
	}
	parts := make([]string, n)
	for k := range vers {
		parts[k] = fmt.Sprintf("%d:%s", vers[k], res[k])
		o.Count("result=" + res[k])
	}
	o.Count("calls=" + strconv.Itoa(n))
	return fmt.Sprintf("hc init=%d %s final=%s", v0, strings.Join(parts, ","), final)
}
