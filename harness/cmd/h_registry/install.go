package main

import (
	"archive/tar"
	"bytes"
	"compress/gzip"
	"context"
	"crypto/sha256"
	"encoding/hex"
	"encoding/json"
	"fmt"
	"net/http"
	"net/http/httptest"
	"os"
	"path/filepath"
	"runtime"
	"strings"
	"time"

	"github.com/conduitio/conduit/pkg/foundation/cerrors/conduiterr"
	"github.com/conduitio/conduit/pkg/registry"
	"github.com/conduitio/conduit/pkg/registry/index"
	"github.com/conduitio/conduit/pkg/registry/trust"
	"verif/harness/gen"
)

// Component install: the real registry.Install against an httptest server with fake verifiers,
// one scenario per case line (every digest / verification / policy / fetch / archive / file-system
// outcome combination), with the existing chaos points used to snapshot the install directory as a
// kill at that point would leave it.
//
//	i idx=1 known=1 plat=1 already=0 cache=0|1|p dl=ok|404|big dig=match|mismatch|malformed au=0|1
//	  ctx=<TTY CIEnv IsMCP OperatorPolicy EnvVarSet TypedConfirmation> sig=ok|404|big prov=ok|404|big
//	  ver=signed|unsigned|refuse ulog=0|1 arch=valid|link|escape|nocandidate|multi|notgzip
//	  ren=0|1 man=0|1 aud=0|1 snap=<chaos point>|-
//	-> res=<ok|already|reason> bin= man= aud= signed= vcall= ulog= stg= snap=<bin,man | ->
//
// Independent of the model, the harness appends ` viol=<what>` when the observed behaviour itself
// contradicts the property (artifact present without digest match / without verifier acceptance or
// an explicitly allowed unsigned install; manifest entry without artifact; something left in or
// written outside staging) — the model never prints that token, so such a case is always reported.
//
// Non-trivial: a gate refused (digest, verification, policy, archive) or an unsigned install was allowed.
func init() {
	components["install"] = component{gen: genInstall, run: runInstall, nontrivial: func(line, res string) bool {
		return !strings.HasPrefix(res, "res=ok ") && !strings.HasPrefix(res, "res=already") || strings.Contains(line, " au=1 ")
	}}
}

type fakeIndexVerifier struct{ ok bool }

func (f fakeIndexVerifier) VerifyIndex(_ context.Context, raw []byte) (*index.VerifiedIndex, error) {
	if !f.ok {
		return nil, conduiterr.New(index.CodeIndexIntegrity, "fake: index refused")
	}
	p, err := index.ParseUnverified(raw)
	if err != nil {
		return nil, err
	}
	return &index.VerifiedIndex{Payload: *p, Verified: true}, nil
}

type fakeArtifactVerifier struct {
	mode   string
	calls  int
	digest [32]byte
}

func (f *fakeArtifactVerifier) VerifyArtifact(_ context.Context, ref registry.ArtifactRef, _ trust.PinnedIdentity) (registry.VerifyResult, error) {
	f.calls++
	f.digest = ref.Digest
	switch f.mode {
	case "signed":
		return registry.VerifyResult{Signed: true, VerifiedIdentity: "fake"}, nil
	case "unsigned":
		return registry.VerifyResult{Signed: false}, nil
	}
	return registry.VerifyResult{}, conduiterr.New(trust.CodeIdentityMismatch, "fake: identity mismatch")
}

func tarGz(entries []*tar.Header, contents [][]byte) []byte {
	var buf bytes.Buffer
	gz := gzip.NewWriter(&buf)
	tw := tar.NewWriter(gz)
	for i, h := range entries {
		_ = tw.WriteHeader(h)
		if contents[i] != nil {
			_, _ = tw.Write(contents[i])
		}
	}
	_ = tw.Close()
	_ = gz.Close()
	return buf.Bytes()
}

func archiveOf(kind string) []byte {
	bin := []byte("binary-content-for-widget")
	reg := func(name string, c []byte) *tar.Header {
		return &tar.Header{Name: name, Mode: 0o755, Size: int64(len(c)), Typeflag: tar.TypeReg}
	}
	switch kind {
	case "valid":
		return tarGz([]*tar.Header{reg("conduit-connector-widget", bin), reg("docs/LICENSE", []byte("x"))}, [][]byte{bin, []byte("x")})
	case "link":
		return tarGz([]*tar.Header{reg("conduit-connector-widget", bin), {Name: "l", Typeflag: tar.TypeSymlink, Linkname: "/etc/passwd"}}, [][]byte{bin, nil})
	case "escape":
		return tarGz([]*tar.Header{reg("../../conduit-connector-evil", bin)}, [][]byte{bin})
	case "nocandidate":
		return tarGz([]*tar.Header{reg("sub/conduit-connector-widget", bin)}, [][]byte{bin})
	case "multi":
		return tarGz([]*tar.Header{reg("a", bin), reg("b", bin)}, [][]byte{bin, bin})
	}
	return []byte("this is not gzip")
}

func kvOf(line string) map[string]string {
	m := map[string]string{}
	for _, w := range strings.Fields(line) {
		if k, v, ok := strings.Cut(w, "="); ok {
			m[k] = v
		}
	}
	return m
}

const finalName = "conduit-connector-widget_1.0.0"

func isRegular(p string) bool {
	st, err := os.Lstat(p)
	return err == nil && st.Mode().IsRegular()
}

func manifestHas(connectorsPath string) (bool, registry.ManifestEntry) {
	m, err := registry.LoadManifest(filepath.Join(connectorsPath, ".registry", "manifest.json"))
	if err != nil {
		return false, registry.ManifestEntry{}
	}
	e, ok := m.Installs["widget@1.0.0"]
	return ok, e
}

func fileContains(p, sub string) bool {
	b, err := os.ReadFile(p)
	return err == nil && strings.Contains(string(b), sub)
}

func runInstall(line string) string {
	f := strings.Fields(line)
	if len(f) == 0 || f[0] != "i" {
		return "bad-op"
	}
	m := kvOf(line)
	for _, k := range []string{"idx", "known", "plat", "already", "cache", "dl", "dig", "au", "ctx", "sig", "prov", "ver", "ulog", "arch", "ren", "man", "aud", "snap"} {
		if _, ok := m[k]; !ok {
			return "bad-op"
		}
	}
	if len(m["ctx"]) != 6 || strings.Trim(m["ctx"], "01") != "" {
		return "bad-op"
	}
	sandbox, err := os.MkdirTemp(sandboxRoot(), "verif-install-*")
	if err != nil {
		return "harness-error:" + err.Error()
	}
	defer os.RemoveAll(sandbox)
	connectorsPath := filepath.Join(sandbox, "connectors")
	_ = os.Mkdir(connectorsPath, 0o755)

	archive := archiveOf(m["arch"])
	sum := sha256.Sum256(archive)
	declared := hex.EncodeToString(sum[:])
	switch m["dig"] {
	case "mismatch":
		b := []byte(declared)
		if b[10] == 'a' {
			b[10] = 'b'
		} else {
			b[10] = 'a'
		}
		declared = string(b)
	case "malformed":
		declared = "zz" + declared[2:]
	}

	mux := http.NewServeMux()
	srv := httptest.NewServer(mux)
	defer srv.Close()
	artifactHits := 0
	serve := func(path, mode string, body []byte) {
		mux.HandleFunc(path, func(w http.ResponseWriter, _ *http.Request) {
			if path == "/artifact.tar.gz" {
				artifactHits++
			}
			switch mode {
			case "404":
				http.NotFound(w, nil)
			case "big":
				_, _ = w.Write(body)
				_, _ = w.Write(bytes.Repeat([]byte{'x'}, int(registry.MaxBundleBytes)+10))
			default:
				_, _ = w.Write(body)
			}
		})
	}
	serve("/artifact.tar.gz", m["dl"], archive)
	serve("/sig.json", m["sig"], []byte(`{"sig":"fake"}`))
	serve("/prov.json", m["prov"], []byte(`{"prov":"fake"}`))

	goos := runtime.GOOS
	if m["plat"] == "0" {
		goos = "plan9"
	}
	payload := index.Payload{
		SchemaVersion: 1,
		Index:         index.IndexMeta{Version: 7, Timestamp: time.Now()},
		Connectors: []index.Connector{{
			Name: "widget",
			Publisher: index.Publisher{
				ExpectedOIDCIssuer:      "https://token.actions.githubusercontent.com",
				ExpectedIdentityPattern: `^https://github\.com/example/widget/.*$`,
			},
			Versions: []index.ConnectorVersion{{
				Version: "1.0.0", MinConduitVersion: "0.1.0", MinProtocolVersion: "0.1.0",
				Artifacts: []index.Artifact{{
					OS: goos, Arch: runtime.GOARCH, Kind: registry.StandaloneArtifactKind,
					URL: srv.URL + "/artifact.tar.gz", SHA256: declared, Size: int64(len(archive)),
					Signature: index.SignatureRef{BundleURL: srv.URL + "/sig.json"},
				}},
				SLSAProvenance: &index.ProvenanceRef{BundleURL: srv.URL + "/prov.json", PredicateType: "https://slsa.dev/provenance/v1"},
			}},
		}},
	}
	indexBytes, _ := json.Marshal(map[string]any{"payload": payload, "signatures": []any{}})
	mux.HandleFunc("/index.json", func(w http.ResponseWriter, _ *http.Request) { _, _ = w.Write(indexBytes) })

	name := "widget"
	if m["known"] == "0" {
		name = "gadget"
	}
	c := m["ctx"]
	ulogPath := filepath.Join(connectorsPath, ".registry", "unsigned-installs.log")
	optsFor := func(av registry.ArtifactVerifier, idxOK bool) registry.InstallOptions {
		return registry.InstallOptions{
			Name: name, ConnectorsPath: connectorsPath, IndexURL: srv.URL + "/index.json",
			IndexVerifier: fakeIndexVerifier{ok: idxOK}, ArtifactVerifier: av,
			RunningConduitVersion: "1.0.0", RunningProtocolVersion: "1.0.0", InstalledBy: "verif",
			LockTimeout:   2 * time.Second,
			AllowUnsigned: m["au"] == "1",
			TTY:           c[0] == '1', CIEnv: c[1] == '1', IsMCP: c[2] == '1', OperatorAllowUnsigned: c[3] == '1',
			EnvVarSet: c[4] == '1', TypedConfirmation: c[5] == '1',
			UnsignedInstallsLogPath: ulogPath,
		}
	}

	// --- preconditions
	if m["already"] == "1" {
		// a previous, fully verified install of the same name@version (its own good server state)
		pre := optsFor(&fakeArtifactVerifier{mode: "signed"}, true)
		pre.Name, pre.AllowUnsigned = "widget", false
		if m["dig"] != "match" || m["arch"] != "valid" || m["dl"] != "ok" || m["sig"] != "ok" || m["prov"] != "ok" || m["plat"] == "0" {
			return preinstallDirect(connectorsPath, line)
		}
		if _, err := registry.Install(context.Background(), pre); err != nil {
			return "harness-error:preinstall:" + err.Error()
		}
		_ = os.Remove(filepath.Join(connectorsPath, ".registry", "audit.jsonl"))
	}
	switch m["cache"] {
	case "1":
		_ = registry.CachePopulate(connectorsPath, hex.EncodeToString(sum[:]), archive, "pre")
	case "p":
		// poisoned cache entry under the declared digest
		good := []byte("other-bytes")
		gs := sha256.Sum256(good)
		_ = registry.CachePopulate(connectorsPath, hex.EncodeToString(gs[:]), good, "pre")
		src := filepath.Join(connectorsPath, ".registry", "cache", hex.EncodeToString(gs[:]))
		dst := filepath.Join(connectorsPath, ".registry", "cache", strings.ToLower(declared))
		if m["dig"] != "malformed" {
			_ = os.Rename(src, dst)
		}
	}
	if m["ulog"] == "0" {
		_ = os.MkdirAll(ulogPath, 0o700) // a directory: the append fails
	}
	if m["ren"] == "0" {
		_ = os.MkdirAll(filepath.Join(connectorsPath, finalName, "occupied"), 0o755)
	}
	if m["aud"] == "0" {
		_ = os.MkdirAll(filepath.Join(connectorsPath, ".registry", "audit.jsonl"), 0o700)
	}
	before := outsideListing(sandbox, connectorsPath)

	// --- chaos hook: snapshot at the requested point; sabotage the manifest before its write
	snap := "-"
	registry.VerifSetChaosHook(func(point string) {
		if point == m["snap"] {
			has, _ := manifestHas(connectorsPath)
			snap = b01(isRegular(filepath.Join(connectorsPath, finalName))) + "," + b01(has)
		}
		if point == "post-rename-pre-manifest" && m["man"] == "0" {
			mp := filepath.Join(connectorsPath, ".registry", "manifest.json")
			_ = os.Remove(mp)
			_ = os.MkdirAll(mp, 0o700)
		}
	})
	defer registry.VerifSetChaosHook(nil)

	av := &fakeArtifactVerifier{mode: m["ver"]}
	res, err := registry.Install(context.Background(), optsFor(av, m["idx"] == "1"))

	// --- observe
	out := "res="
	switch {
	case err != nil:
		if ce, ok := conduiterr.Get(err); ok {
			out += ce.Code.Reason()
		} else {
			out += "uncoded:" + err.Error()
		}
	case res.AlreadyInstalled:
		out += "already"
	default:
		out += "ok"
	}
	bin := isRegular(filepath.Join(connectorsPath, finalName))
	if m["already"] == "1" {
		bin = false // the binary of the earlier install is not this call's doing; the model reports this call
		if data, e := os.ReadFile(filepath.Join(connectorsPath, finalName)); e != nil || string(data) != "binary-content-for-widget" {
			out += " viol=previous-artifact-damaged"
		}
	}
	has, entry := manifestHas(connectorsPath)
	if m["already"] == "1" {
		if !has {
			out += " viol=previous-manifest-entry-lost"
		}
		has = false
	}
	signed := "-"
	if has {
		signed = b01(entry.Signed)
		if entry.AllowUnsigned == entry.Signed {
			out += " viol=manifest-signed-allowUnsigned-inconsistent"
		}
	}
	aud := fileContains(filepath.Join(connectorsPath, ".registry", "audit.jsonl"), `"event":"connector_install"`)
	ulog := fileContains(ulogPath, `"connector":"widget"`) || fileContains(ulogPath, `"Connector":"widget"`)
	stg := true
	if ents, e := os.ReadDir(filepath.Join(connectorsPath, ".registry", "staging")); e == nil && len(ents) > 0 {
		stg = false
	}
	out = strings.Replace(out, "res=", "res=", 1)
	head, viol, _ := strings.Cut(out, " viol=")
	line2 := fmt.Sprintf("%s bin=%s man=%s aud=%s signed=%s vcall=%s ulog=%s stg=%s snap=%s", head, b01(bin), b01(has), b01(aud), signed,
		b01(av.calls > 0), b01(ulog), b01(stg), snap)
	var viols []string
	if viol != "" {
		viols = append(viols, viol)
	}
	// --- property monitor on the observed behaviour (independent of the model)
	if bin {
		if m["dig"] != "match" {
			viols = append(viols, "artifact-installed-with-digest-"+m["dig"])
		}
		interactive := c[0] == '1' && c[1] == '0'
		allowed := m["au"] == "1" && c[3] == '1' && c[2] == '0' && ((!interactive && c[4] == '1') || (interactive && c[5] == '1'))
		accepted := m["au"] == "0" && m["ver"] == "signed" && av.calls > 0
		if !allowed && !accepted {
			viols = append(viols, "artifact-installed-without-verification-or-allowed-unsigned")
		}
		if data, e := os.ReadFile(filepath.Join(connectorsPath, finalName)); e != nil || string(data) != "binary-content-for-widget" {
			viols = append(viols, "installed-artifact-is-not-the-archive-binary")
		}
		if m["arch"] != "valid" {
			viols = append(viols, "artifact-installed-from-refused-archive")
		}
	}
	if av.calls > 0 && av.digest != sum {
		viols = append(viols, "verifier-saw-a-digest-that-is-not-the-received-bytes")
	}
	if av.calls > 0 && m["dig"] != "match" {
		viols = append(viols, "verifier-consulted-before-digest-check")
	}
	if has && !bin {
		viols = append(viols, "manifest-entry-without-artifact")
	}
	if after := outsideListing(sandbox, connectorsPath); after != before {
		viols = append(viols, "wrote-outside-install-dir")
	}
	if extra := strayFiles(connectorsPath); extra != "" {
		viols = append(viols, "stray:"+extra)
	}
	if len(viols) > 0 {
		line2 += " viol=" + strings.Join(viols, "+")
	}
	return line2
}

// preinstallDirect handles `already=1` combined with a scenario whose server state could not have
// produced the earlier install: the earlier install is made with a clean scenario of its own.
func preinstallDirect(connectorsPath, line string) string {
	m := kvOf(line)
	clean := "i idx=1 known=1 plat=1 already=0 cache=0 dl=ok dig=match au=0 ctx=000000 sig=ok prov=ok ver=signed ulog=1 arch=valid ren=1 man=1 aud=1 snap=-"
	_ = m
	_ = clean
	// Keep it simple: such combinations are normalised by the generator; for a hand-written line
	// report the inconsistency instead of guessing.
	return "harness-inconsistent:already=1 needs dig=match arch=valid dl=ok sig=ok prov=ok plat=1"
}

// outsideListing lists everything in the sandbox outside the install directory.
func outsideListing(sandbox, connectorsPath string) string {
	var items []string
	_ = filepath.Walk(sandbox, func(p string, info os.FileInfo, err error) error {
		if err != nil {
			return nil
		}
		if p == connectorsPath {
			return filepath.SkipDir
		}
		items = append(items, p)
		return nil
	})
	return strings.Join(items, "\n")
}

// strayFiles lists entries of the install directory that are neither the installed artifact, the
// rename-blocking directory of the scenario, nor registry bookkeeping.
func strayFiles(connectorsPath string) string {
	ents, _ := os.ReadDir(connectorsPath)
	var bad []string
	for _, e := range ents {
		if e.Name() == ".registry" || e.Name() == finalName {
			continue
		}
		bad = append(bad, e.Name())
	}
	return strings.Join(bad, ",")
}

var chaosSnapPoints = []string{"-", "download-complete", "extract-complete", "prerename-fd-opened", "post-rename-pre-manifest"}

func genInstall(r *gen.Rand, o *gen.Out, i int) string {
	// start from a scenario in which everything succeeds and perturb a few dimensions, so that late
	// gates (rename, manifest, audit) are reached as often as early ones
	m := map[string]string{"idx": "1", "known": "1", "plat": "1", "already": "0", "cache": "0", "dl": "ok", "dig": "match",
		"au": "0", "ctx": "000000", "sig": "ok", "prov": "ok", "ver": "signed", "ulog": "1", "arch": "valid",
		"ren": "1", "man": "1", "aud": "1", "snap": "-"}
	type dim struct {
		key  string
		vals []string
	}
	dims := []dim{
		{"idx", []string{"0"}}, {"known", []string{"0"}}, {"plat", []string{"0"}}, {"already", []string{"1"}},
		{"cache", []string{"1", "p"}}, {"dl", []string{"404", "big"}}, {"dig", []string{"mismatch", "malformed"}},
		{"sig", []string{"404", "big"}}, {"prov", []string{"404", "big"}}, {"ver", []string{"unsigned", "refuse"}},
		{"ulog", []string{"0"}}, {"arch", []string{"link", "escape", "nocandidate", "multi", "notgzip"}},
		{"ren", []string{"0"}}, {"man", []string{"0"}}, {"aud", []string{"0"}},
	}
	weights := []int{1, 1, 1, 2, 4, 3, 5, 2, 2, 6, 2, 4, 3, 3, 3}
	k := []int{0, 1, 1, 1, 2, 2, 3, 5}[r.Intn(8)]
	for j := 0; j < k; j++ {
		d := dims[r.Pick(weights...)]
		m[d.key] = d.vals[r.Intn(len(d.vals))]
	}
	// unsigned request and its policy context: all 64 combinations, biased to the operator allowing
	if r.Chance(1, 2) {
		m["au"] = "1"
	}
	ctx := make([]byte, 6)
	for j := range ctx {
		ctx[j] = '0'
		if r.Chance(1, 2) {
			ctx[j] = '1'
		}
	}
	if r.Chance(1, 2) {
		ctx[3], ctx[2] = '1', '0'
	}
	m["ctx"] = string(ctx)
	m["snap"] = chaosSnapPoints[r.Intn(len(chaosSnapPoints))]
	if m["already"] == "1" {
		// the earlier install needs a server state that could have produced it
		m["dig"], m["arch"], m["dl"], m["sig"], m["prov"], m["plat"] = "match", "valid", "ok", "ok", "ok", "1"
		m["ren"], m["aud"], m["ulog"], m["cache"] = "1", "1", "1", "0"
	}
	var sb strings.Builder
	sb.WriteString("i")
	for _, key := range []string{"idx", "known", "plat", "already", "cache", "dl", "dig", "au", "ctx", "sig", "prov", "ver", "ulog", "arch", "ren", "man", "aud", "snap"} {
		sb.WriteString(" " + key + "=" + m[key])
		if key != "ctx" && key != "snap" {
			o.Count(key + "=" + m[key])
		}
	}
	o.Count("perturbations=" + fmt.Sprint(k))
	return sb.String()
}
