// h_registry drives the registry (C19) components of the real code and writes, per component,
// the case lines for the Lean driver and the implementation's canonical results.
//
//	h_registry -comp extract -seed 1 -n 2000 -out DIR [-replay FILE]
package main

import (
	"bufio"
	"flag"
	"fmt"
	"os"
	"strings"

	"verif/harness/gen"
)

type component struct {
	// gen produces the i-th case line.
	gen func(r *gen.Rand, o *gen.Out, i int) string
	// run executes the real implementation on a case line and returns the canonical result.
	run func(line string) string
	// nontrivial says whether a case (line, implementation result) exercises the interesting
	// part of the component (the rule is written in the component's file and in the evidence).
	nontrivial func(line, res string) bool
}

var components = map[string]component{}

func main() {
	if len(os.Args) > 1 && os.Args[1] == "child-atomicwrite" {
		childAtomicWrite(os.Args[2:])
		return
	}
	comp := flag.String("comp", "", "component")
	seed := flag.Uint64("seed", 1, "seed")
	n := flag.Int("n", 1000, "number of generated cases")
	out := flag.String("out", "", "output directory")
	replay := flag.String("replay", "", "file of case lines to run instead of generating (corpus / replay)")
	flag.Parse()
	c, ok := components[*comp]
	if !ok {
		fmt.Fprintln(os.Stderr, "unknown component", *comp)
		os.Exit(2)
	}
	o := gen.NewOut(*out, *comp)
	defer o.Close()
	if *replay != "" {
		f, err := os.Open(*replay)
		if err != nil {
			panic(err)
		}
		sc := bufio.NewScanner(f)
		sc.Buffer(make([]byte, 1<<20), 1<<26)
		for sc.Scan() {
			l := strings.TrimSpace(sc.Text())
			if l == "" || strings.HasPrefix(l, "#") {
				continue
			}
			res := safeRun(c, l)
			o.Case(l, res, c.nontrivial(l, res))
		}
		return
	}
	r := gen.New(*seed)
	for i := 0; i < *n; i++ {
		l := c.gen(r, o, i)
		res := safeRun(c, l)
		o.Case(l, res, c.nontrivial(l, res))
	}
}

func safeRun(c component, l string) (res string) {
	defer func() {
		if p := recover(); p != nil {
			res = "panic"
		}
	}()
	return c.run(l)
}

// sandboxRoot is where per-case scratch directories are made: a tmpfs when there is one (the code
// under test fsyncs on every state write), else the default temp dir.
func sandboxRoot() string {
	if st, err := os.Stat("/dev/shm"); err == nil && st.IsDir() {
		return "/dev/shm"
	}
	return ""
}
