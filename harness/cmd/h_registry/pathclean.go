package main

import (
	"encoding/hex"
	"fmt"
	"path/filepath"
	"strings"

	"verif/harness/gen"
)

// Component pathclean: the real path/filepath functions ExtractBinary relies on.
//
//	p <hexA> <hexB>  ->  <hex Clean(A)> <IsAbs(A)> <hex Join(A,B)> <hex Dir(A)>
//
// Non-trivial: Clean(A) differs from A (something was normalised).
func init() {
	components["pathclean"] = component{gen: genPath, run: runPath, nontrivial: func(line, res string) bool {
		f := strings.Fields(line)
		r := strings.Fields(res)
		return len(f) == 3 && len(r) == 4 && f[1] != r[0]
	}}
}

func hx(s string) string {
	if s == "" {
		return "-"
	}
	return hex.EncodeToString([]byte(s))
}

func unhx(s string) (string, bool) {
	if s == "-" {
		return "", true
	}
	b, err := hex.DecodeString(s)
	if err != nil || strings.ToLower(s) != s {
		return "", false
	}
	return string(b), true
}

func b01(b bool) string {
	if b {
		return "1"
	}
	return "0"
}

var segVocab = []string{"a", "b", "bin", "lib", "x.y", "...", "..a", "a..", ".a", "a.", "conduit-connector-foo", "é", "日本", "\xff\xfe", "a b", "-", "~", "..."}

// genSeg returns one path element; class counted in the histogram.
func genSeg(r *gen.Rand, o *gen.Out) string {
	switch r.Pick(40, 14, 14, 8, 4, 3, 3) {
	case 0:
		o.Count("seg=normal")
		return segVocab[r.Intn(len(segVocab))]
	case 1:
		o.Count("seg=dotdot")
		return ".."
	case 2:
		o.Count("seg=dot")
		return "."
	case 3:
		o.Count("seg=empty")
		return ""
	case 4:
		o.Count("seg=long")
		return strings.Repeat("L", r.Range(250, 260))
	case 5:
		o.Count("seg=random-bytes")
		n := r.Range(1, 6)
		b := make([]byte, n)
		for i := range b {
			c := byte(r.Range(1, 255))
			if c == '/' {
				c = '_'
			}
			b[i] = c
		}
		return string(b)
	default:
		o.Count("seg=dots")
		return strings.Repeat(".", r.Range(3, 5))
	}
}

// genPathStr builds a path from elements, sometimes rooted / with trailing separators.
func genPathStr(r *gen.Rand, o *gen.Out, maxSegs int) string {
	n := r.Range(0, maxSegs)
	segs := make([]string, n)
	for i := range segs {
		segs[i] = genSeg(r, o)
	}
	p := strings.Join(segs, "/")
	switch r.Pick(70, 15, 5, 10) {
	case 1:
		p = "/" + p
	case 2:
		p = "//" + p
	case 3:
		p += "/"
	}
	return p
}

func genPath(r *gen.Rand, o *gen.Out, i int) string {
	a := genPathStr(r, o, 7)
	b := genPathStr(r, o, 4)
	if r.Chance(1, 10) {
		a = ""
	}
	return "p " + hx(a) + " " + hx(b)
}

func runPath(line string) string {
	f := strings.Fields(line)
	if len(f) != 3 || f[0] != "p" {
		return "bad-op"
	}
	a, ok1 := unhx(f[1])
	b, ok2 := unhx(f[2])
	if !ok1 || !ok2 {
		return "bad-op"
	}
	return fmt.Sprintf("%s %s %s %s", hx(filepath.Clean(a)), b01(filepath.IsAbs(a)), hx(filepath.Join(a, b)), hx(filepath.Dir(a)))
}
