package main

import (
	"context"
	"encoding/json"
	"errors"
	"fmt"
	"sort"
	"strconv"
	"strings"
	"sync"
	"time"

	"github.com/conduitio/conduit-commons/database"
	"github.com/conduitio/conduit-commons/database/inmemory"
	"github.com/conduitio/conduit-commons/opencdc"
	"github.com/conduitio/conduit-connector-protocol/pconnector"
	"github.com/conduitio/conduit/pkg/connector"
	"github.com/conduitio/conduit/pkg/foundation/log"
	connectorPlugin "github.com/conduitio/conduit/pkg/plugin/connector"
	"verif/harness/gen"
)

// Component srcbatch: K (2-4) REAL connector.Sources sharing ONE real Persister (one connector.Service,
// one store), i.e. several connectors in one flush batch / one transaction. The store wrapper fails
// the Set of chosen connectors' keys (per key) or the Commit; the harness flushes and quiesces round by
// round and records, per round, what was written, whether the transaction committed (with the stored
// position of every source) and which acks reached which plugin. The batch is a Go map: the iteration
// order varies from round to round, which is exactly what the scenarios need.
//
//	case line:  k=<K> ; <ops> ; <trace>
//	ops   a<i> ack the next position of source i | F<i> the next Set of source i's state fails | Fc the next Commit
//	      fails | f flush now and quiesce (end of round)
//	trace a<i>:<p>  FS<i>  FC  C:<p0>/<p1>/…  S<i>:<p>  |

type batchWorld struct {
	mu      sync.Mutex
	log     []string
	quiet   bool
	k       int
	failKey map[string]bool
	failC   bool
	inner   *inmemory.DB
	srcs    []*connector.Source
}

func (w *batchWorld) emit(tok string) {
	w.mu.Lock()
	defer w.mu.Unlock()
	if !w.quiet {
		w.log = append(w.log, tok)
	}
}

func bKey(i int) string { return "connector:instance:src" + strconv.Itoa(i) }

type batchDB struct{ w *batchWorld }
type batchTx struct {
	w     *batchWorld
	inner database.Transaction
}
type batchTxKey struct{}

func (d *batchDB) NewTransaction(ctx context.Context, update bool) (database.Transaction, context.Context, error) {
	tx, ctx2, err := d.w.inner.NewTransaction(ctx, update)
	if err != nil {
		return nil, ctx, err
	}
	return &batchTx{w: d.w, inner: tx}, context.WithValue(ctx2, batchTxKey{}, true), nil
}

func (d *batchDB) Set(ctx context.Context, key string, value []byte) error {
	if ctx.Value(batchTxKey{}) != nil {
		w := d.w
		w.mu.Lock()
		fail := w.failKey[key]
		delete(w.failKey, key)
		w.mu.Unlock()
		if fail {
			w.emit("FS" + strings.TrimPrefix(key, "connector:instance:src"))
			return errInjected
		}
	}
	return d.w.inner.Set(ctx, key, value)
}
func (d *batchDB) Get(ctx context.Context, key string) ([]byte, error) { return d.w.inner.Get(ctx, key) }
func (d *batchDB) GetKeys(ctx context.Context, p string) ([]string, error) {
	return d.w.inner.GetKeys(ctx, p)
}
func (d *batchDB) Close() error               { return nil }
func (d *batchDB) Ping(context.Context) error { return nil }
func (t *batchTx) Discard()                   { t.inner.Discard() }
func (t *batchTx) Commit() error {
	w := t.w
	w.mu.Lock()
	fail := w.failC
	w.failC = false
	w.mu.Unlock()
	if fail {
		w.emit("FC")
		return errInjected
	}
	if err := t.inner.Commit(); err != nil {
		w.emit("FC")
		return err
	}
	ps := make([]string, w.k)
	for i := range ps {
		ps[i] = "-"
		if raw, err := w.inner.Get(context.Background(), bKey(i)); err == nil {
			var v struct {
				State *struct{ Position []byte }
			}
			if json.Unmarshal(raw, &v) == nil && v.State != nil && len(v.State.Position) > 0 {
				ps[i] = string(v.State.Position)
			}
		}
	}
	w.emit("C:" + strings.Join(ps, "/"))
	return nil
}

// batchPlugin: a minimal source plugin; its ack stream records what the plugin is told.
type batchPlugin struct {
	w   *batchWorld
	i   int
	ctx context.Context
}

func (p *batchPlugin) Configure(context.Context, pconnector.SourceConfigureRequest) (pconnector.SourceConfigureResponse, error) {
	return pconnector.SourceConfigureResponse{}, nil
}
func (p *batchPlugin) Open(context.Context, pconnector.SourceOpenRequest) (pconnector.SourceOpenResponse, error) {
	return pconnector.SourceOpenResponse{}, nil
}
func (p *batchPlugin) Run(ctx context.Context, _ pconnector.SourceRunStream) error {
	p.ctx = ctx
	return nil
}
func (p *batchPlugin) Stop(context.Context, pconnector.SourceStopRequest) (pconnector.SourceStopResponse, error) {
	return pconnector.SourceStopResponse{}, nil
}
func (p *batchPlugin) Teardown(context.Context, pconnector.SourceTeardownRequest) (pconnector.SourceTeardownResponse, error) {
	return pconnector.SourceTeardownResponse{}, nil
}
func (p *batchPlugin) LifecycleOnCreated(context.Context, pconnector.SourceLifecycleOnCreatedRequest) (pconnector.SourceLifecycleOnCreatedResponse, error) {
	return pconnector.SourceLifecycleOnCreatedResponse{}, nil
}
func (p *batchPlugin) LifecycleOnUpdated(context.Context, pconnector.SourceLifecycleOnUpdatedRequest) (pconnector.SourceLifecycleOnUpdatedResponse, error) {
	return pconnector.SourceLifecycleOnUpdatedResponse{}, nil
}
func (p *batchPlugin) LifecycleOnDeleted(context.Context, pconnector.SourceLifecycleOnDeletedRequest) (pconnector.SourceLifecycleOnDeletedResponse, error) {
	return pconnector.SourceLifecycleOnDeletedResponse{}, nil
}
func (p *batchPlugin) NewStream() pconnector.SourceRunStream { return &batchStream{p} }

type batchStream struct{ p *batchPlugin }

func (s *batchStream) Client() pconnector.SourceRunStreamClient { return s }
func (s *batchStream) Server() pconnector.SourceRunStreamServer { panic("unused") }
func (s *batchStream) Send(req pconnector.SourceRunRequest) error {
	if s.p.ctx.Err() != nil {
		return s.p.ctx.Err()
	}
	for _, pos := range req.AckPositions {
		s.p.w.emit(fmt.Sprintf("S%d:%s", s.p.i, string(pos)))
	}
	return nil
}
func (s *batchStream) Recv() (pconnector.SourceRunResponse, error) {
	<-s.p.ctx.Done()
	return pconnector.SourceRunResponse{}, s.p.ctx.Err()
}

type batchDispenser struct{ p *batchPlugin }

func (d batchDispenser) DispenseSpecifier() (connectorPlugin.SpecifierPlugin, error) {
	return nil, errors.New("unused")
}
func (d batchDispenser) DispenseSource() (connectorPlugin.SourcePlugin, error) { return d.p, nil }
func (d batchDispenser) DispenseDestination() (connectorPlugin.DestinationPlugin, error) {
	return nil, errors.New("unused")
}

type batchFetcher struct{ p *batchPlugin }

func (f batchFetcher) NewDispenser(log.CtxLogger, string, string) (connectorPlugin.Dispenser, error) {
	return batchDispenser{f.p}, nil
}

func runBatch(k int, ops []string) (trace string, verdict string) {
	ctx := context.Background()
	w := &batchWorld{k: k, failKey: map[string]bool{}, inner: &inmemory.DB{}, quiet: true}
	db := &batchDB{w}
	logger := log.Nop()
	pers := connector.NewPersister(logger, db, time.Hour, 0)
	clk := &manualClock{}
	connector.VerifSetClock(pers, clk)
	svc := connector.NewService(logger, db, pers)
	if err := svc.Init(ctx); err != nil {
		return "", "harness-error:" + err.Error()
	}
	hi := make([]int, k)
	for i := 0; i < k; i++ {
		id := "src" + strconv.Itoa(i)
		if _, err := svc.Create(ctx, id, connector.TypeSource, "builtin:fake", "pl", connector.Config{
			Name: id, Settings: map[string]string{"k": "v"}}, connector.ProvisionTypeAPI); err != nil {
			return "", "harness-error:" + err.Error()
		}
		inst, _ := svc.Get(ctx, id)
		c, err := inst.Connector(ctx, batchFetcher{&batchPlugin{w: w, i: i}})
		if err != nil {
			return "", "harness-error:" + err.Error()
		}
		src := c.(*connector.Source)
		if err := src.Open(ctx); err != nil {
			return "", "harness-error:" + err.Error()
		}
		w.srcs = append(w.srcs, src)
		go func() { // the node: reads errs while the pipeline runs
			for range src.Errors() {
			}
		}()
	}
	settle := func() {
		pers.Flush(ctx)
		done := make(chan struct{})
		go func() { pers.WaitPendingWrites(); close(done) }()
		select {
		case <-done:
		case <-time.After(5 * time.Second):
			verdict = "hang:WaitPendingWrites"
		}
		// let the delivery goroutines empty their queues
		for i := 0; i < 2000; i++ {
			busy := false
			for _, s := range w.srcs {
				if _, d, _, _, _ := connector.VerifSourceQueues(s); d > 0 {
					busy = true
				}
			}
			if !busy {
				break
			}
			time.Sleep(200 * time.Microsecond)
		}
		// a delivery goroutine that has taken its queue may still be sending: wait until the log is stable
		last, stable := -1, 0
		for i := 0; i < 4000 && stable < 6; i++ {
			time.Sleep(400 * time.Microsecond)
			w.mu.Lock()
			n := len(w.log)
			w.mu.Unlock()
			if n == last {
				stable++
			} else {
				last, stable = n, 0
			}
		}
	}
	verdict = "ok"
	settle() // the Open-time lifecycle persists of all sources: not part of the trace
	w.mu.Lock()
	w.quiet = false
	w.mu.Unlock()
	for _, op := range ops {
		switch {
		case op == "f":
			settle()
			// canonical order inside the round: the concurrent deliveries are sorted
			w.mu.Lock()
			start := len(w.log)
			for start > 0 && w.log[start-1] != "|" {
				start--
			}
			round := w.log[start:]
			sort.SliceStable(round, func(a, b int) bool { return tokRank(round[a]) < tokRank(round[b]) })
			w.log = append(w.log, "|")
			w.mu.Unlock()
		case op == "Fc":
			w.mu.Lock()
			w.failC = true
			w.mu.Unlock()
		case op[0] == 'F':
			i, _ := strconv.Atoi(op[1:])
			if i < k {
				w.mu.Lock()
				w.failKey[bKey(i)] = true
				w.mu.Unlock()
			}
		case op[0] == 'a':
			i, _ := strconv.Atoi(op[1:])
			if i >= k {
				continue
			}
			hi[i]++
			w.emit(fmt.Sprintf("a%d:%d", i, hi[i]))
			if err := w.srcs[i].Ack(ctx, []opencdc.Position{mkPos(hi[i])}); err != nil {
				return strings.Join(w.log, " "), "ack-error"
			}
		}
	}
	w.mu.Lock()
	w.quiet = true
	out := strings.Join(w.log, " ")
	w.mu.Unlock()
	for _, s := range w.srcs {
		connector.VerifSetSourceTimings(s, 50*time.Millisecond, 1, time.Millisecond)
		_ = s.Teardown(ctx)
	}
	return out, verdict
}

// tokRank: acks first, then store events in the order they happened, then deliveries (by token)
func tokRank(t string) int {
	switch {
	case t[0] == 'a':
		return 0
	case t[0] == 'F' || t[0] == 'C':
		return 1
	default:
		return 2
	}
}

func genBatch(r *gen.Rand, o *gen.Out) (int, []string) {
	k := r.Range(2, 4)
	o.Count(fmt.Sprintf("batch-k=%d", k))
	var ops []string
	rounds := r.Range(2, 8)
	for rd := 0; rd < rounds; rd++ {
		n := 0
		for i := 0; i < k; i++ {
			if r.Chance(3, 4) {
				for j := r.Range(1, 2); j > 0; j-- {
					ops = append(ops, fmt.Sprintf("a%d", i))
				}
				n++
			}
		}
		switch r.Pick(5, 4, 1) {
		case 1:
			// one (sometimes two) of the connectors' store writes fails
			ops = append(ops, fmt.Sprintf("F%d", r.Intn(k)))
			if r.Chance(1, 4) {
				ops = append(ops, fmt.Sprintf("F%d", r.Intn(k)))
			}
			o.Count("round=set-failure")
		case 2:
			ops = append(ops, "Fc")
			o.Count("round=commit-failure")
		default:
			o.Count("round=clean")
		}
		ops = append(ops, "f")
	}
	return k, ops
}
