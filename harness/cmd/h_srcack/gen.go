package main

import (
	"fmt"

	"verif/harness/gen"
)

// generators produce (configuration, op script) per component. All are structured, mostly
// valid runs of one source on one persister; they differ in the op mix:
//
//	srcack   C02: acks, every kind of flush trigger, store failures at NewTransaction/Set/Commit,
//	         held commits, transient send failures, optional teardown at the end
//	srccrash C03: the same plus crash+restart at random instants (and every commit snapshot is
//	         restarted after the run)
//	srcstop  C06: mostly healthy runs stopped at a random instant (Teardown, then WaitPersisted),
//	         a minority with faults and a short teardown budget
var generators = map[string]func(r *gen.Rand, o *gen.Out) (runCfg, []string){
	"srcack":   func(r *gen.Rand, o *gen.Out) (runCfg, []string) { return genRun(r, o, "ack") },
	"srccrash": func(r *gen.Rand, o *gen.Out) (runCfg, []string) { return genRun(r, o, "crash") },
	"srcstop":  func(r *gen.Rand, o *gen.Out) (runCfg, []string) { return genRun(r, o, "stop") },
	"srcnode":  genNode,
}

// genNode: healthy runs of one connector behind a real v1 SourceNode: 1-3 runs separated by restarts,
// each with 0-4 records (0 = the resumed run is idle), flush triggers in between, a graceful stop at
// the end of every run. The stop must always complete.
func genNode(r *gen.Rand, o *gen.Out) (runCfg, []string) {
	cfg := runCfg{maxRetries: 3, node: true, bundleThr: []int{0, 0, 1, 2, 3}[r.Intn(5)]}
	var ops []string
	runs := r.Range(1, 3)
	o.Count(fmt.Sprintf("node-runs=%d", runs))
	for i := 0; i < runs; i++ {
		k := r.Pick(3, 3, 2, 1, 1) // 0..4 records
		if i > 0 && k == 0 {
			o.Count("node-resumed-run-idle")
		}
		for k > 0 {
			n := r.Range(1, k)
			ops = append(ops, fmt.Sprintf("e%d", n))
			k -= n
			switch r.Pick(3, 2, 1, 2) {
			case 0:
				ops = append(ops, "q")
			case 1:
				ops = append(ops, "f")
			case 2:
				ops = append(ops, "k")
			}
		}
		if r.Chance(2, 3) {
			ops = append(ops, "q")
		}
		ops = append(ops, "G")
		if r.Chance(1, 2) {
			ops = append(ops, "W")
		}
		if i+1 < runs {
			ops = append(ops, "X")
		}
	}
	return cfg, ops
}

func genRun(r *gen.Rand, o *gen.Out, kind string) (runCfg, []string) {
	cfg := runCfg{maxRetries: r.Range(1, 4)}
	switch r.Pick(3, 2, 2, 2, 1) {
	case 0:
		cfg.bundleThr = 0
	case 1:
		cfg.bundleThr = 1
	case 2:
		cfg.bundleThr = 2
	case 3:
		cfg.bundleThr = r.Range(3, 6)
	default:
		cfg.bundleThr = r.Range(7, 40)
	}
	faults := true
	if kind == "stop" {
		faults = r.Chance(1, 4)
	}
	cfg.timeouts = faults
	// half of the runs on a store without write-conflict detection (blind commits, last one wins)
	cfg.blind = r.Chance(1, 2)
	o.Count(fmt.Sprintf("blindStore=%v", cfg.blind))
	o.Count(fmt.Sprintf("bundleThr=%d", min(cfg.bundleThr, 7)))
	o.Count(fmt.Sprintf("faults=%v", faults))
	var n int
	switch r.Pick(3, 5, 2) {
	case 0:
		n = r.Range(1, 6)
	case 1:
		n = r.Range(7, 30)
	default:
		n = r.Range(31, 120)
	}
	if kind == "stop" {
		n = r.Range(0, 25)
	}
	var ops []string
	add := func(op string) { ops = append(ops, op); o.Count("op=" + op[:1]) }
	for i := 0; i < n; i++ {
		w := []int{40, 8, 8, 8, 0, 0, 0, 0, 0}
		if faults {
			w[4], w[5], w[6], w[7] = 7, 5, 5, 3
		}
		if kind == "crash" {
			w[8] = 4
		}
		switch r.Pick(w...) {
		case 0:
			add(fmt.Sprintf("a%d", r.Pick(6, 3, 1)+1))
		case 1:
			if r.Chance(1, 3) {
				add("fc")
			} else {
				add("f")
			}
		case 2:
			add("k")
		case 3:
			add("q")
		case 4:
			add([]string{"Ft", "Fs", "Fc"}[r.Intn(3)])
		case 5:
			add("h")
		case 6:
			add("r")
		case 7:
			if r.Chance(3, 4) {
				add(fmt.Sprintf("n%d", r.Range(1, 5)))
			} else if r.Chance(1, 2) {
				add("hs")
			} else {
				add("rs")
			}
		case 8:
			add("X")
		}
	}
	// delivery-round shape: several acks covered by ONE flush (so one delivery round holds >= 2 queue
	// entries), the first Send of the round held or retried, and further acks+flushes completing
	// while the round is still in progress (they append to the shared queue under the goroutine's feet)
	if kind != "stop" && r.Chance(1, 3) {
		o.Count("shape=delivery-round")
		if r.Chance(1, 2) {
			add("hs")
		} else {
			add(fmt.Sprintf("n%d", r.Range(1, max(1, cfg.maxRetries-1))))
			add("hs")
		}
		for i := r.Range(2, 4); i > 0; i-- {
			add(fmt.Sprintf("a%d", r.Range(1, 2)))
		}
		add("f")
		add("q")
		for i := r.Range(2, 4); i > 0; i-- {
			add(fmt.Sprintf("a%d", r.Range(1, 2)))
			add("f")
			add("q")
		}
		add("rs")
		add("q")
		for i := r.Range(0, 2); i > 0; i-- {
			add("a1")
			add("f")
			add("q")
		}
	}
	// read-side shape: the plugin hands out records, the run is stopped (Stop RPC, then Teardown), the
	// connector is restarted from the store and stopped again, idle or after k records: Source.Stop must
	// return the last position handed out in THAT run (empty when idle), never the resumed-from position
	if kind == "stop" && !faults && r.Chance(1, 3) {
		o.Count("shape=stop-position")
		k := r.Range(1, 3)
		ops = append([]string{fmt.Sprintf("e%d", k), fmt.Sprintf("a%d", k)}, ops...)
		add("f")
		add("q")
		add("S")
		add("T")
		add("W")
		add("X")
		if r.Chance(1, 2) {
			add(fmt.Sprintf("e%d", r.Range(1, 3)))
		} else {
			o.Count("shape=stop-position-idle")
		}
		add("S")
	}
	// slow-store shape (healthy: the store answers, late): a flush whose commit takes longer than the persister's
	// debounce interval is in flight when newer acks arrive and the stop begins; Teardown's forced flush must
	// still wait for it, flush the newer batch and deliver every ack before the plugin is torn down
	if kind == "stop" && !faults && r.Chance(1, 250) {
		o.Count("shape=slow-commit-across-stop")
		add(fmt.Sprintf("hd%d", r.Range(1150, 1400)))
		add(fmt.Sprintf("a%d", r.Range(1, 2)))
		add("f")
		add("q")
		for i := r.Range(1, 3); i > 0; i-- {
			add(fmt.Sprintf("a%d", r.Range(1, 2)))
		}
	}
	// overlapping-flush shape: a commit is held, a later ack arrives, and a second flush is requested with
	// a CANCELLED context (Flush, or a force-stop Teardown): the generations must still be serialised —
	// if they overlap, the older snapshot commits last and (on a blind store) overwrites the newer position
	tcStop := false
	if faults && r.Chance(1, 4) {
		o.Count("shape=overlap-cancelled-ctx")
		add("q")
		add("h")
		add(fmt.Sprintf("a%d", r.Range(1, 2)))
		add("f")
		add("q")
		for i := r.Range(1, 2); i > 0; i-- {
			add(fmt.Sprintf("a%d", r.Range(1, 2)))
		}
		if r.Chance(1, 2) {
			add("fc")
			add("q")
			add("r")
			add("q")
		} else {
			tcStop = true
		}
	}
	stop := kind == "stop" || tcStop || r.Chance(1, 3)
	if stop {
		if r.Chance(1, 2) && kind != "stop" {
			add("q")
		}
		if tcStop || (faults && r.Chance(1, 4)) {
			add("Tc")
		} else {
			add("T")
		}
		if !faults || r.Chance(1, 2) {
			add("W")
		}
		if kind == "crash" && r.Chance(1, 2) {
			add("X")
			for i := r.Range(0, 5); i > 0; i-- {
				add(fmt.Sprintf("a%d", r.Range(1, 2)))
			}
			add("f")
		}
	}
	o.Count(fmt.Sprintf("stop=%v", stop))
	return cfg, ops
}
