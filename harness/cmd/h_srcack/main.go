// h_srcack drives the REAL connector.Source + connector.Persister (+ connector.Service for
// restarts) on a fault-injecting, snapshotting store with a fake in-process source plugin, and
// records one trace per case at the process boundary (store transactions, plugin stream,
// plugin calls, control-call returns). The Lean driver component `srcack` accepts the trace
// against the M3 model and evaluates the C02/C03/C06 monitors; the implementation line of every
// recorded trace is `ok`.
//
//	h_srcack -comp srcack|srccrash|srcstop -seed S -n N -out DIR [-replay FILE]
//
// Case line:  <cfg> ; <ops> ; <trace>      (the driver reads cfg and trace, a replay re-runs ops)
//
//	cfg   mr=<maxRetries> bt=<bundleThreshold> to=<0|1> bs=<0|1 store commits blindly (no write-conflict detection)>
//	ops   hd<ms> next commit takes <ms> (slow store, no fault) | Wb<ms> WaitPersisted barrier probe | a<n> ack n positions | f Flush | fc Flush(cancelled ctx) | Tc Teardown(cancelled ctx) | k fire debounce timer | q quiesce | Ft/Fs/Fc fail next
//	      flush at NewTransaction/Set/Commit | h hold next commit | r release | n<k> next k sends fail
//	      | hs/rs hold/release sends | T Teardown | W WaitPersisted | X crash+restart
//	trace a:<p,..> (Ack called) A (Ack returned) C:<pos>/<reopen> FT FS FC S:<p,..> N EP ES T P1 P0 R1 R0 W WH X O:<pos>
package main

import (
	"bufio"
	"context"
	"errors"
	"flag"
	"fmt"
	"os"
	"runtime"
	"strconv"
	"strings"
	"time"

	"github.com/conduitio/conduit-commons/database/inmemory"
	"github.com/conduitio/conduit-commons/opencdc"
	"github.com/conduitio/conduit/pkg/connector"
	"github.com/conduitio/conduit/pkg/foundation/log"
	"verif/harness/gen"
)


type incarnation struct {
	id     int
	db     *faultDB
	pers   *connector.Persister
	svc    *connector.Service
	src    *connector.Source
	plugin *fakePlugin
	clock  *manualClock
	stopErrs chan struct{}
	errsDone chan struct{}
	hi     int // last acked read index of this incarnation
	ackBusy chan struct{}
	torn   bool
	stopRPC bool
}

func (w *world) newIncarnation(content map[string][]byte, create bool, quiet bool) (*incarnation, error) {
	ctx := context.Background()
	inner := &inmemory.DB{}
	for k, v := range content {
		if err := inner.Set(ctx, k, v); err != nil {
			return nil, err
		}
	}
	inc := &incarnation{id: w.inc, clock: &manualClock{}}
	if quiet {
		inc.id = -1 - w.inc // never the current incarnation: nothing it does is logged
	}
	inc.db = &faultDB{w: w, inc: inc.id, inner: inner}
	logger := log.Nop()
	inc.pers = connector.NewPersister(logger, inc.db, time.Hour, w.cfg.bundleThr)
	connector.VerifSetClock(inc.pers, inc.clock)
	inc.svc = connector.NewService(logger, inc.db, inc.pers)
	if err := inc.svc.Init(ctx); err != nil {
		return nil, err
	}
	if create {
		_, err := inc.svc.Create(ctx, connID, connector.TypeSource, "builtin:fake", "pl", connector.Config{
			Name: "src", Settings: map[string]string{"k": "v"}}, connector.ProvisionTypeAPI)
		if err != nil {
			return nil, err
		}
	}
	inst, err := inc.svc.Get(ctx, connID)
	if err != nil {
		return nil, err
	}
	inc.plugin = &fakePlugin{w: w, inc: inc.id, quiet: quiet, permits: make(chan struct{}, 1<<16)}
	c, err := inst.Connector(ctx, fakeFetcher{inc.plugin})
	if err != nil {
		return nil, err
	}
	inc.src = c.(*connector.Source)
	to := 20 * time.Second
	if w.cfg.timeouts {
		to = 60 * time.Millisecond
	}
	connector.VerifSetSourceTimings(inc.src, to, w.cfg.maxRetries, time.Millisecond)
	if w.cfg.node {
		return inc, nil // the SourceNode opens the source itself
	}
	if err := inc.src.Open(ctx); err != nil {
		return nil, err
	}
	if n, err := strconv.Atoi(string(inc.plugin.openAt)); err == nil {
		inc.hi = n
	}
	return inc, nil
}

// startErrsReader plays the node: it reads Source.Errors() while the pipeline runs.
func (w *world) startErrsReader(inc *incarnation) {
	inc.stopErrs = make(chan struct{})
	inc.errsDone = make(chan struct{})
	go func() {
		defer close(inc.errsDone)
		for {
			select {
			case err := <-inc.src.Errors():
				w.emit(inc.id, classifyErr(err))
			case <-inc.stopErrs:
				return
			}
		}
	}()
}

// sendErr is what the fake stream returns for scripted Send failures, so that an escalated
// delivery failure (ES) is distinguishable from a persist failure (EP) on the errs channel.
func classifyErr(err error) string {
	if errors.Is(err, errSend) {
		return "ES"
	}
	return "EP"
}

func (w *world) stopErrsReader(inc *incarnation) {
	if inc.stopErrs != nil {
		close(inc.stopErrs)
		<-inc.errsDone
		inc.stopErrs = nil
	}
}

// quiesce waits until the event log has been stable for a few polls (bounded).
func (w *world) quiesce() {
	last, stable := w.logLen(), 0
	for i := 0; i < 400 && stable < 4; i++ {
		runtime.Gosched()
		time.Sleep(300 * time.Microsecond)
		n := w.logLen()
		if n == last && w.idle() {
			stable++
		} else {
			stable, last = 0, n
		}
	}
}

// idle: nothing the implementation could still do on its own (best effort, via the hooks).
func (w *world) idle() bool {
	inc := w.cur
	if inc == nil {
		return true
	}
	_, deferred, _, _, _ := connector.VerifSourceQueues(inc.src)
	w.mu.Lock()
	held := w.holdCh != nil || w.sendGate != nil
	w.mu.Unlock()
	return deferred == 0 || held || inc.torn
}

func (w *world) releaseCommit() {
	w.mu.Lock()
	ch := w.holdCh
	w.holdCh = nil
	w.holdNext = false
	w.mu.Unlock()
	if ch != nil {
		close(ch)
	}
}

func (w *world) releaseSends() {
	w.mu.Lock()
	g := w.sendGate
	w.sendGate = nil
	w.mu.Unlock()
	if g != nil {
		close(g)
	}
}

func (w *world) waitAck(inc *incarnation) {
	if inc.ackBusy == nil {
		return
	}
	select {
	case <-inc.ackBusy:
	case <-time.After(30 * time.Millisecond):
		// the Ack is blocked behind a held commit (bundle threshold): let the commit go
		w.releaseCommit()
		<-inc.ackBusy
	}
	inc.ackBusy = nil
}

// runOps executes an op script and returns the trace and the harness verdict ("ok", or what
// went wrong with the run itself).
func runOps(cfg runCfg, ops []string) (trace string, verdict string) {
	w := &world{cfg: cfg}
	verdict = "ok"
	inc, err := w.newIncarnation(nil, true, false)
	if err != nil {
		return "", "harness-error:" + err.Error()
	}
	w.cur = inc
	w.startErrsReader(inc)
	ctx := context.Background()
	for opi, op := range ops {
		inc = w.cur
		switch {
		case op[0] == 'a':
			if inc.torn {
				continue
			}
			n, _ := strconv.Atoi(op[1:])
			if n < 1 {
				n = 1
			}
			w.waitAck(inc)
			ps := make([]opencdc.Position, n)
			for i := range ps {
				ps[i] = mkPos(inc.hi + 1 + i)
			}
			inc.hi += n
			// the call and its return are both observed: the effects of Ack (state, queue, Persist)
			// take place somewhere in between (it may block behind a running flush)
			w.emit(inc.id, "a:"+posList(ps))
			done := make(chan struct{})
			inc.ackBusy = done
			go func(src *connector.Source, id int) {
				defer close(done)
				if err := src.Ack(ctx, ps); err != nil {
					w.emit(id, "AERR")
				} else {
					w.emit(id, "A")
				}
			}(inc.src, inc.id)
			select {
			case <-done:
				inc.ackBusy = nil
			case <-time.After(5 * time.Millisecond):
			}
		case op[0] == 'e':
			// the plugin hands out k records and the engine reads them (Source.Read)
			if inc.torn || inc.stopRPC {
				continue
			}
			k, _ := strconv.Atoi(op[1:])
			for i := 0; i < k; i++ {
				inc.plugin.allow(1)
				if _, err := inc.src.Read(ctx); err != nil {
					w.emit(inc.id, "RERR")
				}
			}
		case op == "S":
			// the Stop RPC of a graceful stop: the value the real Source.Stop returns
			if inc.torn || inc.stopRPC {
				continue
			}
			inc.stopRPC = true
			pos, err := inc.src.Stop(ctx)
			if err != nil {
				w.emit(inc.id, "SPERR")
			} else {
				w.emit(inc.id, "SP:"+posTok(pos))
			}
		case op == "f":
			if inc.torn {
				continue
			}
			go inc.pers.Flush(ctx)
		case op == "fc":
			// Flush with an already cancelled context (what a force stop hands down): flushes must
			// stay serialised on the running one all the same
			if inc.torn {
				continue
			}
			go inc.pers.Flush(cancelledCtx())
		case op == "k":
			inc.clock.fire()
		case op == "q":
			w.waitAck(inc)
			w.quiesce()
		case op == "Ft" || op == "Fs" || op == "Fc":
			w.mu.Lock()
			w.failNext = op[1:]
			w.mu.Unlock()
		case op == "h":
			w.mu.Lock()
			if w.holdCh == nil {
				w.holdNext = true
			}
			w.mu.Unlock()
		case op == "r":
			w.releaseCommit()
		case op[0] == 'n':
			k, _ := strconv.Atoi(op[1:])
			w.mu.Lock()
			w.failSends += k
			w.mu.Unlock()
		case op == "hs":
			w.mu.Lock()
			if w.sendGate == nil {
				w.sendGate = make(chan struct{})
			}
			w.mu.Unlock()
		case op == "rs":
			w.releaseSends()
		case op == "T" || op == "Tc":
			if inc.torn {
				continue
			}
			w.waitAck(inc)
			if !cfg.timeouts {
				// a healthy stop: nothing is held by the environment
				w.releaseCommit()
				w.releaseSends()
			}
			w.stopErrsReader(inc) // the node stops reading errs before it tears the source down
			inc.torn = true
			w.emit(inc.id, "T")
			ret := make(chan error, 1)
			tctx := ctx
			if op == "Tc" {
				// force stop: Teardown with a cancelled context — its bounded waits return at once
				tctx = cancelledCtx()
			}
			go func() { ret <- inc.src.Teardown(tctx) }()
			var terr error
			select {
			case terr = <-ret:
			case <-time.After(400 * time.Millisecond):
				// Teardown's own Flush waits (unbounded, holding the persister lock) for a running
				// flush: a store that never answers stalls it. Let the store answer now.
				w.releaseCommit()
				w.releaseSends()
				select {
				case terr = <-ret:
				case <-time.After(30 * time.Second):
					verdict = "hang:Teardown"
				}
			}
			if verdict == "ok" {
				if terr == nil {
					w.emit(inc.id, "R1")
				} else {
					w.emit(inc.id, "R0")
				}
			}
			if !(opi+1 < len(ops) && strings.HasPrefix(ops[opi+1], "Wb")) {
				w.releaseCommit()
				w.releaseSends()
			}
		case strings.HasPrefix(op, "Wb"):
			// durability-barrier probe: WaitPersisted must not return while a commit is held. Wait <ms>
			// (longer than any bound a broken barrier could have), then let the store answer.
			if !inc.torn {
				continue
			}
			ms, _ := strconv.Atoi(op[2:])
			ret := make(chan struct{})
			go func() { inc.svc.WaitPersisted(); close(ret) }()
			select {
			case <-ret:
				w.emit(inc.id, "W")
				w.releaseCommit()
			case <-time.After(time.Duration(ms) * time.Millisecond):
				w.releaseCommit()
				select {
				case <-ret:
					w.emit(inc.id, "W")
				case <-time.After(2 * time.Second):
					w.emit(inc.id, "WH")
				}
			}
		case strings.HasPrefix(op, "hd"):
			ms, _ := strconv.Atoi(op[2:])
			w.mu.Lock()
			w.delayNext = time.Duration(ms) * time.Millisecond
			w.mu.Unlock()
		case op == "W":
			if !inc.torn {
				continue
			}
			ret := make(chan struct{})
			go func() { inc.svc.WaitPersisted(); close(ret) }()
			select {
			case <-ret:
				w.emit(inc.id, "W")
			case <-time.After(250 * time.Millisecond):
				w.emit(inc.id, "WH")
			}
		case op == "X":
			w.waitAck(inc)
			// the process dies: nothing of this incarnation is observed any more
			w.mu.Lock()
			w.log = append(w.log, "X")
			w.inc++
			content := inc.db.snapshot()
			w.failNext, w.holdNext, w.failSends = "", false, 0
			w.mu.Unlock()
			w.releaseCommit()
			w.releaseSends()
			w.stopErrsReader(inc)
			ninc, err := w.newIncarnation(content, false, false)
			if err != nil {
				return strings.Join(w.log, " "), "harness-error:" + err.Error()
			}
			w.cur = ninc
			w.emit(ninc.id, "O:"+posTok(ninc.plugin.openAt))
			w.startErrsReader(ninc)
		}
	}
	inc = w.cur
	w.waitAck(inc)
	w.releaseCommit()
	w.releaseSends()
	w.quiesce()
	w.stopErrsReader(inc)
	// freeze the log: nothing later is observed
	w.mu.Lock()
	w.inc += 1000
	logCopy := append([]string(nil), w.log...)
	idx, snaps := w.commitIdx, w.commitSnap
	w.mu.Unlock()
	// C03: every store snapshot is a possible crash state; restart the REAL service on each and
	// record the position the plugin is reopened with next to the commit that produced it.
	for i, s := range snaps {
		pcfg := cfg
		pcfg.node = false
		probe := &world{cfg: pcfg}
		pinc, err := probe.newIncarnation(s, false, true)
		if err != nil {
			logCopy[idx[i]] += "/ERR"
			continue
		}
		logCopy[idx[i]] += "/" + posTok(pinc.plugin.openAt)
		_ = pinc.src.Teardown(ctx)
	}
	return strings.Join(logCopy, " "), verdict
}

func cancelledCtx() context.Context {
	c, cancel := context.WithCancel(context.Background())
	cancel()
	return c
}

func cfgString(c runCfg) string {
	to := 0
	if c.timeouts {
		to = 1
	}
	bs := 0
	if c.blind {
		bs = 1
	}
	nd := ""
	if c.node {
		nd = " nd=1"
	}
	return fmt.Sprintf("mr=%d bt=%d to=%d bs=%d%s", c.maxRetries, c.bundleThr, to, bs, nd)
}

func parseCfg(s string) runCfg {
	c := runCfg{maxRetries: 3}
	for _, f := range strings.Fields(s) {
		kv := strings.SplitN(f, "=", 2)
		if len(kv) != 2 {
			continue
		}
		n, _ := strconv.Atoi(kv[1])
		switch kv[0] {
		case "mr":
			c.maxRetries = n
		case "bt":
			c.bundleThr = n
		case "to":
			c.timeouts = n == 1
		case "bs":
			c.blind = n == 1
		case "nd":
			c.node = n == 1
		}
	}
	if c.maxRetries < 1 {
		c.maxRetries = 1
	}
	return c
}

// faultOp: the op makes the environment misbehave (store failure, failing / held Send, held commit).
func faultOp(op string) bool {
	return op == "Ft" || op == "Fs" || op == "Fc" || op == "h" || op == "hs" || op == "Tc" || (len(op) > 1 && op[0] == 'n')
}

func runCase(cfg runCfg, ops []string) (line, impl string) {
	// to=0 is the claim "healthy environment, teardown budget cannot expire" under which the driver
	// demands the strict C06 post-condition: a script that injects a fault is never run under it.
	for _, op := range ops {
		if faultOp(op) {
			cfg.timeouts = true
		}
	}
	var trace, verdict string
	if cfg.node {
		trace, verdict = runNodeOps(cfg, ops)
	} else {
		trace, verdict = runOps(cfg, ops)
	}
	return cfgString(cfg) + " ; " + strings.Join(ops, " ") + " ; " + trace, verdict
}

func nontrivial(line string) bool {
	parts := strings.SplitN(line, ";", 3)
	if len(parts) != 3 {
		return false
	}
	tr := parts[2]
	return strings.Contains(tr, "S:") && strings.Contains(tr, "C:") &&
		(strings.Contains(tr, " F") || strings.Contains(tr, " N") || strings.Contains(tr, " X") || strings.Contains(tr, " T"))
}

func main() {
	comp := flag.String("comp", "", "component: srcack | srccrash | srcstop")
	seed := flag.Uint64("seed", 1, "seed")
	n := flag.Int("n", 100, "number of generated cases")
	out := flag.String("out", "", "output directory")
	replay := flag.String("replay", "", "file of case lines to re-run (corpus / replay)")
	procs := flag.Int("procs", 0, "GOMAXPROCS (0 = leave)")
	flag.Parse()
	if *procs > 0 {
		runtime.GOMAXPROCS(*procs)
	}
	if *comp == "srcbatch" {
		mainBatch(*seed, *n, *out, *replay)
		return
	}
	g, ok := generators[*comp]
	if !ok {
		fmt.Fprintln(os.Stderr, "unknown component", *comp)
		os.Exit(2)
	}
	o := gen.NewOut(*out, *comp)
	defer o.Close()
	if *replay != "" {
		f, err := os.Open(*replay)
		if err != nil {
			panic(err)
		}
		sc := bufio.NewScanner(f)
		sc.Buffer(make([]byte, 1<<20), 1<<26)
		for sc.Scan() {
			l := strings.TrimSpace(sc.Text())
			if l == "" || strings.HasPrefix(l, "#") {
				continue
			}
			parts := strings.SplitN(l, ";", 3)
			if len(parts) < 2 {
				o.Case(l, "bad-op", false)
				continue
			}
			line, impl := runCase(parseCfg(parts[0]), strings.Fields(parts[1]))
			o.Case(line, impl, nontrivial(line))
		}
		return
	}
	r := gen.New(*seed)
	for i := 0; i < *n; i++ {
		cfg, ops := g(r, o)
		line, impl := runCase(cfg, ops)
		o.Case(line, impl, nontrivial(line))
	}
}

func batchCase(k int, ops []string) (line, impl string) {
	trace, verdict := runBatch(k, ops)
	return fmt.Sprintf("k=%d ; %s ; %s", k, strings.Join(ops, " "), trace), verdict
}

func mainBatch(seed uint64, n int, out, replay string) {
	o := gen.NewOut(out, "srcbatch")
	defer o.Close()
	nt := func(l string) bool { return strings.Contains(l, "FS") && strings.Contains(l, " C:") && strings.Contains(l, " S") }
	if replay != "" {
		f, err := os.Open(replay)
		if err != nil {
			panic(err)
		}
		sc := bufio.NewScanner(f)
		sc.Buffer(make([]byte, 1<<20), 1<<26)
		for sc.Scan() {
			l := strings.TrimSpace(sc.Text())
			if l == "" || strings.HasPrefix(l, "#") {
				continue
			}
			parts := strings.SplitN(l, ";", 3)
			k := 2
			for _, f := range strings.Fields(parts[0]) {
				if strings.HasPrefix(f, "k=") {
					k, _ = strconv.Atoi(f[2:])
				}
			}
			if len(parts) < 2 || k < 1 || k > 8 {
				o.Case(l, "bad-op", false)
				continue
			}
			// a witness needs the failing connector to be iterated first: a few attempts get past the map order
			rep := 1
			for _, f := range strings.Fields(parts[0]) {
				if strings.HasPrefix(f, "rep=") {
					rep, _ = strconv.Atoi(f[4:])
				}
			}
			for i := 0; i < rep; i++ {
				line, impl := batchCase(k, strings.Fields(parts[1]))
				o.Case(line, impl, nt(line))
			}
		}
		return
	}
	r := gen.New(seed)
	for i := 0; i < n; i++ {
		k, ops := genBatch(r, o)
		line, impl := batchCase(k, ops)
		o.Case(line, impl, nt(line))
	}
}
