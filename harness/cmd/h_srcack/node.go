package main

import (
	"context"
	"strconv"
	"strings"
	"time"

	"github.com/conduitio/conduit-commons/opencdc"
	"github.com/conduitio/conduit/pkg/connector"
	"github.com/conduitio/conduit/pkg/foundation/log"
	"github.com/conduitio/conduit/pkg/foundation/metrics/noop"
	"github.com/conduitio/conduit/pkg/lifecycle/stream"
)

// Component srcnode: the REAL connector.Source (+ Persister, Service, fault store) behind a REAL v1
// stream.SourceNode, with the fake plugin handing out records on demand. The harness plays the rest of
// the pipeline: it takes every message the node publishes, acks its position through Source.Ack and
// acks the message. Scenarios are runs of the same connector: records, graceful stop (SourceNode.Stop:
// Source.Stop, control message, loop end, deferred Source.Teardown), restart from the store, stop again —
// also idle, i.e. without any record in the resumed run.
//
//	ops   e<k> the plugin may hand out k more records | q quiesce | f Flush | k fire debounce timer |
//	      G graceful stop of the node, wait for Run to return | W WaitPersisted | X restart (new process on the store)
//	trace E:<p> SP:<pos> (what Source.Stop returned) T P1 R1 (the node's deferred teardown) NE / NH (Run returned / hangs)

// nodeSource is what the SourceNode sees: the real Source, with Stop and Teardown observed.
type nodeSource struct {
	*connector.Source
	w  *world
	id int
}

func (n *nodeSource) Stop(ctx context.Context) (opencdc.Position, error) {
	pos, err := n.Source.Stop(ctx)
	if err != nil {
		n.w.emit(n.id, "SPERR")
	} else {
		n.w.emit(n.id, "SP:"+posTok(pos))
	}
	return pos, err
}

func (n *nodeSource) Teardown(ctx context.Context) error {
	n.w.emit(n.id, "T")
	err := n.Source.Teardown(ctx)
	if err == nil {
		n.w.emit(n.id, "R1")
	} else {
		n.w.emit(n.id, "R0")
	}
	return err
}

type nodeRun struct {
	inc     *incarnation
	node    *stream.SourceNode
	runDone chan error
	stopped bool
}

func (w *world) startNode(content map[string][]byte, create bool) (*nodeRun, error) {
	inc, err := w.newIncarnation(content, create, false)
	if err != nil {
		return nil, err
	}
	ctx := context.Background()
	src := &nodeSource{Source: inc.src, w: w, id: inc.id}
	node := &stream.SourceNode{Name: "src-node", Source: src, PipelineTimer: noop.Timer{}}
	node.SetLogger(log.Nop())
	pub := node.Pub()
	nr := &nodeRun{inc: inc, node: node, runDone: make(chan error, 1)}
	// the rest of the pipeline: every record is handled at once and acked in order
	go func() {
		for msg := range pub {
			p := msg.Record.Position
			w.emit(inc.id, "a:"+posTok(p))
			if err := inc.src.Ack(ctx, []opencdc.Position{p}); err != nil {
				w.emit(inc.id, "AERR")
			} else {
				w.emit(inc.id, "A")
			}
			_ = msg.Ack()
		}
	}()
	go func() { nr.runDone <- node.Run(ctx) }()
	// Run opens the source; wait until the plugin has been opened
	for i := 0; i < 4000 && !inc.plugin.isOpened(); i++ {
		time.Sleep(500 * time.Microsecond)
	}
	return nr, nil
}

func runNodeOps(cfg runCfg, ops []string) (trace string, verdict string) {
	w := &world{cfg: cfg}
	verdict = "ok"
	ctx := context.Background()
	nr, err := w.startNode(nil, true)
	if err != nil {
		return "", "harness-error:" + err.Error()
	}
	w.cur = nr.inc
	hung := false
	for _, op := range ops {
		if hung {
			break
		}
		inc := nr.inc
		switch {
		case op[0] == 'e':
			if nr.stopped {
				continue
			}
			k, _ := strconv.Atoi(op[1:])
			inc.plugin.allow(k)
		case op == "q":
			w.quiesce()
		case op == "f":
			if !inc.torn {
				go inc.pers.Flush(ctx)
			}
		case op == "k":
			inc.clock.fire()
		case op == "G":
			if nr.stopped {
				continue
			}
			nr.stopped = true
			inc.torn = true
			go func() { _ = nr.node.Stop(ctx, nil) }()
			select {
			case <-nr.runDone:
				w.emit(inc.id, "NE")
			case <-time.After(2500 * time.Millisecond):
				w.emit(inc.id, "NH")
				hung = true
			}
		case op == "W":
			if !nr.stopped {
				continue
			}
			ret := make(chan struct{})
			go func() { inc.svc.WaitPersisted(); close(ret) }()
			select {
			case <-ret:
				w.emit(inc.id, "W")
			case <-time.After(250 * time.Millisecond):
				w.emit(inc.id, "WH")
			}
		case op == "X":
			if !nr.stopped {
				continue // only a stopped pipeline is restarted here
			}
			w.quiesce()
			w.mu.Lock()
			w.log = append(w.log, "X")
			w.inc++
			content := inc.db.snapshot()
			w.mu.Unlock()
			nr2, err := w.startNode(content, false)
			if err != nil {
				return strings.Join(w.log, " "), "harness-error:" + err.Error()
			}
			w.emit(nr2.inc.id, "O:"+posTok(nr2.inc.plugin.openAt))
			nr = nr2
			w.cur = nr.inc
		}
	}
	if !hung {
		w.quiesce()
	}
	w.mu.Lock()
	w.inc += 1000 // freeze the log
	logCopy := append([]string(nil), w.log...)
	idx, snaps := w.commitIdx, w.commitSnap
	w.mu.Unlock()
	// end whatever still runs (a hung node is force-stopped, an unstopped one too)
	nr.node.ForceStop(ctx)
	if !nr.stopped || hung {
		select {
		case <-nr.runDone:
		case <-time.After(3 * time.Second):
		}
	}
	for i := range snaps {
		// the reopen position of a commit snapshot equals its stored position (checked for real by
		// the srccrash / srcstop components); keep the token shape the driver expects
		logCopy[idx[i]] += "/" + strings.TrimPrefix(logCopy[idx[i]], "C:")
	}
	return strings.Join(logCopy, " "), verdict
}
