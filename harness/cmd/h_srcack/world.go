package main

import (
	"context"
	"encoding/json"
	"errors"
	"strconv"
	"strings"
	"sync"
	"time"

	"github.com/conduitio/conduit-commons/database"
	"github.com/conduitio/conduit-commons/database/inmemory"
	"github.com/conduitio/conduit-commons/opencdc"
	"github.com/conduitio/conduit-connector-protocol/pconnector"
	"github.com/conduitio/conduit/pkg/connector"
	"github.com/conduitio/conduit/pkg/foundation/log"
	connectorPlugin "github.com/conduitio/conduit/pkg/plugin/connector"
)

const connID = "src"
const storeKey = "connector:instance:" + connID

var (
	errInjected = errors.New("injected failure")
	errDead     = errors.New("process is dead")
	errSend     = errors.New("injected send failure")
)

// world is one run: the event log, the fault-injecting snapshotting store, the fake plugin
// and the current process incarnation (real connector.Service + Persister + Source).
type world struct {
	mu  sync.Mutex
	log []string
	// reopen[i] is filled after the run for every commit token log[i]
	commitIdx  []int
	commitSnap []map[string][]byte

	inc int // current incarnation; events of older ones are ignored ("the process is dead")

	// fault plan for the next flush (consumed by the first NewTransaction that sees it)
	failNext string // "", "t", "s", "c"
	holdNext bool
	// delayNext: the next flush's Commit takes this long (a slow but responding store: not a fault)
	delayNext time.Duration
	holdCh   chan struct{} // non-nil while a commit is held
	// sends
	failSends int
	holdSend  bool
	sendGate  chan struct{}

	cfg runCfg

	cur *incarnation
}

type runCfg struct {
	maxRetries int
	bundleThr  int
	timeouts   bool // short teardown budget: timeouts may fire
	node       bool // a real v1 stream.SourceNode runs the source (component srcnode)
	// blind: the store applies a transaction's writes at Commit without write-conflict detection
	// (last commit wins) — what badger does for blind writes. The in-memory database instead
	// rejects a commit whose keys changed since the transaction began, which would mask two
	// overlapping flush generations; correct code never overlaps them, so both modes agree on it.
	blind bool
}

func (w *world) emit(inc int, tok string) bool {
	w.mu.Lock()
	defer w.mu.Unlock()
	if inc != w.inc {
		return false
	}
	w.log = append(w.log, tok)
	return true
}

func (w *world) logLen() int {
	w.mu.Lock()
	defer w.mu.Unlock()
	return len(w.log)
}

// ---------------------------------------------------------------- store

// faultDB wraps the in-memory database: every transaction of the persister is observed, can be
// failed at NewTransaction / Set / Commit, can be held before Commit, and every successful
// commit is snapshotted.
type faultDB struct {
	w     *world
	inc   int
	inner *inmemory.DB
}

type faultTx struct {
	db      *faultDB
	inner   database.Transaction // nil in blind mode
	changes map[string][]byte    // blind mode: writes applied at Commit
	plan    string
	hold    bool
	delay   time.Duration
}

type txKey struct{}

func (d *faultDB) dead() bool {
	d.w.mu.Lock()
	defer d.w.mu.Unlock()
	return d.inc != d.w.inc
}

func (d *faultDB) NewTransaction(ctx context.Context, update bool) (database.Transaction, context.Context, error) {
	w := d.w
	w.mu.Lock()
	if d.inc != w.inc {
		w.mu.Unlock()
		return nil, ctx, errDead
	}
	plan, hold, delay := w.failNext, w.holdNext, w.delayNext
	w.failNext, w.holdNext, w.delayNext = "", false, 0
	if plan == "t" {
		w.log = append(w.log, "FT")
		w.mu.Unlock()
		return nil, ctx, errInjected
	}
	if hold {
		w.holdCh = make(chan struct{})
	}
	w.mu.Unlock()
	if w.cfg.blind {
		ft := &faultTx{db: d, changes: map[string][]byte{}, plan: plan, hold: hold, delay: delay}
		return ft, context.WithValue(ctx, txKey{}, ft), nil
	}
	tx, ctx2, err := d.inner.NewTransaction(ctx, update)
	if err != nil {
		return nil, ctx, err
	}
	ft := &faultTx{db: d, inner: tx, plan: plan, hold: hold, delay: delay}
	return ft, context.WithValue(ctx2, txKey{}, ft), nil
}

func (d *faultDB) Set(ctx context.Context, key string, value []byte) error {
	if ft, ok := ctx.Value(txKey{}).(*faultTx); ok {
		if d.dead() {
			return errDead
		}
		if ft.plan == "s" && key == storeKey {
			ft.plan = "s-done"
			d.w.emit(d.inc, "FS")
			return errInjected
		}
	}
	if ft, ok := ctx.Value(txKey{}).(*faultTx); ok && ft.changes != nil {
		ft.changes[key] = value
		return nil
	}
	return d.inner.Set(ctx, key, value)
}

func (d *faultDB) Get(ctx context.Context, key string) ([]byte, error) { return d.inner.Get(ctx, key) }
func (d *faultDB) GetKeys(ctx context.Context, prefix string) ([]string, error) {
	return d.inner.GetKeys(ctx, prefix)
}
func (d *faultDB) Close() error                   { return nil }
func (d *faultDB) Ping(context.Context) error     { return nil }
func (t *faultTx) Discard() {
	if t.inner != nil {
		t.inner.Discard()
	}
}

func (t *faultTx) Commit() error {
	w := t.db.w
	if t.delay > 0 {
		time.Sleep(t.delay)
	}
	if t.hold {
		w.mu.Lock()
		ch := w.holdCh
		w.mu.Unlock()
		if ch != nil {
			<-ch
		}
	}
	w.mu.Lock()
	defer w.mu.Unlock()
	if t.db.inc != w.inc {
		return errDead
	}
	if t.plan == "c" {
		w.log = append(w.log, "FC")
		return errInjected
	}
	if t.inner == nil {
		for k, v := range t.changes {
			if err := t.db.inner.Set(context.Background(), k, v); err != nil {
				w.log = append(w.log, "FC")
				return err
			}
		}
	} else if err := t.inner.Commit(); err != nil {
		w.log = append(w.log, "FC")
		return err
	}
	snap := t.db.snapshot()
	w.commitIdx = append(w.commitIdx, len(w.log))
	w.commitSnap = append(w.commitSnap, snap)
	w.log = append(w.log, "C:"+posTok(storedPos(snap)))
	return nil
}

// snapshot copies the committed content of the store.
func (d *faultDB) snapshot() map[string][]byte {
	ctx := context.Background()
	keys, _ := d.inner.GetKeys(ctx, "")
	m := make(map[string][]byte, len(keys))
	for _, k := range keys {
		v, err := d.inner.Get(ctx, k)
		if err == nil {
			m[k] = append([]byte(nil), v...)
		}
	}
	return m
}

// storedPos decodes the source position held by a store snapshot (nil = none).
func storedPos(snap map[string][]byte) opencdc.Position {
	raw, ok := snap[storeKey]
	if !ok {
		return nil
	}
	var v struct {
		State *struct{ Position []byte }
	}
	if err := json.Unmarshal(raw, &v); err != nil || v.State == nil {
		return nil
	}
	return v.State.Position
}

func posTok(p opencdc.Position) string {
	if len(p) == 0 {
		return "-"
	}
	return string(p)
}

func posList(ps []opencdc.Position) string {
	s := make([]string, len(ps))
	for i, p := range ps {
		s[i] = posTok(p)
	}
	return strings.Join(s, ",")
}

func mkPos(i int) opencdc.Position { return opencdc.Position(strconv.Itoa(i)) }

// ---------------------------------------------------------------- fake source plugin

type fakePlugin struct {
	w      *world
	inc    int
	quiet  bool // reopen probes do not log
	openAt opencdc.Position
	opened bool
	ctx    context.Context
	tdErr  error
	tdN    int
	// record stream of this run: the plugin hands out one record per permit, in read order after the
	// position it was opened with, and nothing after Stop; Stop replies with the last position handed out
	rmu     sync.Mutex
	permits chan struct{}
	next    int
	lastOut opencdc.Position
	stopped bool
}

var _ connectorPlugin.SourcePlugin = (*fakePlugin)(nil)

func (p *fakePlugin) Configure(context.Context, pconnector.SourceConfigureRequest) (pconnector.SourceConfigureResponse, error) {
	return pconnector.SourceConfigureResponse{}, nil
}

func (p *fakePlugin) Open(_ context.Context, r pconnector.SourceOpenRequest) (pconnector.SourceOpenResponse, error) {
	p.openAt = append(opencdc.Position(nil), r.Position...)
	p.rmu.Lock()
	if n, err := strconv.Atoi(string(p.openAt)); err == nil {
		p.next = n
	}
	p.opened = true
	p.rmu.Unlock()
	return pconnector.SourceOpenResponse{}, nil
}

func (p *fakePlugin) Run(ctx context.Context, _ pconnector.SourceRunStream) error {
	p.ctx = ctx
	return nil
}

func (p *fakePlugin) Stop(context.Context, pconnector.SourceStopRequest) (pconnector.SourceStopResponse, error) {
	p.rmu.Lock()
	defer p.rmu.Unlock()
	p.stopped = true
	return pconnector.SourceStopResponse{LastPosition: append(opencdc.Position(nil), p.lastOut...)}, nil
}

func (p *fakePlugin) isOpened() bool {
	p.rmu.Lock()
	defer p.rmu.Unlock()
	return p.opened
}

// allow lets the plugin hand out k more records.
func (p *fakePlugin) allow(k int) {
	for i := 0; i < k; i++ {
		p.permits <- struct{}{}
	}
}

func (p *fakePlugin) Teardown(context.Context, pconnector.SourceTeardownRequest) (pconnector.SourceTeardownResponse, error) {
	p.tdN++
	if !p.quiet {
		if p.tdErr != nil {
			p.w.emit(p.inc, "P0")
		} else {
			p.w.emit(p.inc, "P1")
		}
	}
	return pconnector.SourceTeardownResponse{}, p.tdErr
}

func (p *fakePlugin) LifecycleOnCreated(context.Context, pconnector.SourceLifecycleOnCreatedRequest) (pconnector.SourceLifecycleOnCreatedResponse, error) {
	return pconnector.SourceLifecycleOnCreatedResponse{}, nil
}

func (p *fakePlugin) LifecycleOnUpdated(context.Context, pconnector.SourceLifecycleOnUpdatedRequest) (pconnector.SourceLifecycleOnUpdatedResponse, error) {
	return pconnector.SourceLifecycleOnUpdatedResponse{}, nil
}

func (p *fakePlugin) LifecycleOnDeleted(context.Context, pconnector.SourceLifecycleOnDeletedRequest) (pconnector.SourceLifecycleOnDeletedResponse, error) {
	return pconnector.SourceLifecycleOnDeletedResponse{}, nil
}

func (p *fakePlugin) NewStream() pconnector.SourceRunStream { return &fakeStream{p: p} }

type fakeStream struct{ p *fakePlugin }

func (s *fakeStream) Client() pconnector.SourceRunStreamClient { return s }
func (s *fakeStream) Server() pconnector.SourceRunStreamServer { panic("server side unused") }

// Send is the plugin boundary for acks: like the in-memory and gRPC streams it fails once the
// stream context is cancelled; otherwise scripted failures, an optional gate, then delivery.
func (s *fakeStream) Send(req pconnector.SourceRunRequest) error {
	p := s.p
	w := p.w
	w.mu.Lock()
	gate := w.sendGate
	w.mu.Unlock()
	if gate != nil {
		select {
		case <-gate:
		case <-p.ctx.Done():
		}
	}
	w.mu.Lock()
	defer w.mu.Unlock()
	if p.inc != w.inc {
		return errDead
	}
	if p.ctx.Err() != nil {
		if !p.quiet {
			w.log = append(w.log, "N")
		}
		return p.ctx.Err()
	}
	if w.failSends > 0 {
		w.failSends--
		w.log = append(w.log, "N")
		return errSend
	}
	if !p.quiet {
		w.log = append(w.log, "S:"+posList(req.AckPositions))
	}
	return nil
}

func (s *fakeStream) Recv() (pconnector.SourceRunResponse, error) {
	p := s.p
	for {
		select {
		case <-p.ctx.Done():
			return pconnector.SourceRunResponse{}, p.ctx.Err()
		case <-p.permits:
		}
		p.rmu.Lock()
		if p.stopped {
			p.rmu.Unlock()
			continue // nothing is handed out after Stop
		}
		p.next++
		pos := mkPos(p.next)
		p.lastOut = pos
		if !p.quiet {
			p.w.emit(p.inc, "E:"+posTok(pos))
		}
		p.rmu.Unlock()
		return pconnector.SourceRunResponse{Records: []opencdc.Record{{
			Position: pos, Operation: opencdc.OperationCreate,
			Key: opencdc.RawData("k"), Payload: opencdc.Change{After: opencdc.RawData("v")},
		}}}, nil
	}
}

type fakeDispenser struct{ p *fakePlugin }

func (d fakeDispenser) DispenseSpecifier() (connectorPlugin.SpecifierPlugin, error) {
	return nil, errors.New("unused")
}
func (d fakeDispenser) DispenseSource() (connectorPlugin.SourcePlugin, error) { return d.p, nil }
func (d fakeDispenser) DispenseDestination() (connectorPlugin.DestinationPlugin, error) {
	return nil, errors.New("unused")
}

type fakeFetcher struct{ p *fakePlugin }

func (f fakeFetcher) NewDispenser(log.CtxLogger, string, string) (connectorPlugin.Dispenser, error) {
	return fakeDispenser{f.p}, nil
}

// ---------------------------------------------------------------- clock

// manualClock: timers fire only when the harness says so (op k), each in its own goroutine
// exactly like time.AfterFunc.
type manualClock struct {
	mu     sync.Mutex
	timers []*manualTimer
}

type manualTimer struct {
	mu      sync.Mutex
	fn      func()
	stopped bool
	fired   bool
}

func (t *manualTimer) Stop() bool {
	t.mu.Lock()
	defer t.mu.Unlock()
	ok := !t.stopped && !t.fired
	t.stopped = true
	return ok
}

func (c *manualClock) Now() time.Time { return time.Unix(0, 0) }

func (c *manualClock) AfterFunc(_ time.Duration, f func()) connector.VerifTimer {
	t := &manualTimer{fn: f}
	c.mu.Lock()
	c.timers = append(c.timers, t)
	c.mu.Unlock()
	return t
}

// fire runs every pending timer; reports whether one fired.
func (c *manualClock) fire() bool {
	c.mu.Lock()
	ts := c.timers
	c.timers = nil
	c.mu.Unlock()
	any := false
	for _, t := range ts {
		t.mu.Lock()
		run := !t.stopped && !t.fired
		if run {
			t.fired = true
		}
		t.mu.Unlock()
		if run {
			any = true
			go t.fn()
		}
	}
	return any
}
