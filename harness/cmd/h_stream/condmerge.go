package main

import (
	"context"
	"errors"
	"strconv"
	"strings"

	"github.com/conduitio/conduit-commons/opencdc"
	sdk "github.com/conduitio/conduit-processor-sdk"
	"github.com/conduitio/conduit/pkg/processor"
	"verif/harness/gen"
)

// Component condmerge: the real processor.RunnableProcessor.Process with a condition.
//
//	cm <pattern> <kinds>
//
// pattern: one letter per input record — k (condition true: kept), p (false: passes through),
// e (evaluating the condition fails). kinds: what the plugin returns for the kept records it is
// given, one letter per returned element (s single, f filter, x error record; "-" = empty reply);
// its length is free: shorter, equal or longer than the number of kept records.
//
// Result: the returned slice, canonically: s<i> = SingleRecord equal to input record i,
// s<i>! = a SingleRecord for record i that differs from the input, t<j><kind> = the plugin's
// j-th element, C = the "failed evaluating condition" error record, M = the "processor returned
// more records than input" error record, ? = anything else; "panic" when the call panicked.
func init() {
	components["condmerge"] = component{gen: genCondMerge, run: runCondMerge, nontrivial: ntCondMerge}
}

// non-trivial: there is at least one kept and one pass-through record (the merge loop runs).
func ntCondMerge(line, res string) bool {
	f := strings.Fields(line)
	if len(f) != 3 {
		return false
	}
	pre := f[1]
	if i := strings.IndexByte(pre, 'e'); i >= 0 {
		pre = pre[:i]
	}
	return strings.Contains(pre, "k") && strings.Contains(pre, "p")
}

func genCondMerge(r *gen.Rand, o *gen.Out, i int) string {
	n := r.Range(1, 8)
	if r.Chance(1, 10) {
		n = r.Range(9, 24)
	}
	keepPct := []int{10, 30, 50, 70, 90}[r.Intn(5)]
	errAt := -1
	if r.Chance(1, 6) {
		errAt = r.Intn(n)
	}
	var b strings.Builder
	kept := 0
	for j := 0; j < n; j++ {
		switch {
		case j == errAt:
			b.WriteByte('e')
		case r.Intn(100) < keepPct:
			b.WriteByte('k')
			if errAt < 0 || j < errAt {
				kept++
			}
		default:
			b.WriteByte('p')
		}
	}
	// plugin output length: mostly full, often short, sometimes long / empty
	var l int
	switch r.Pick(5, 4, 1, 1) {
	case 0:
		l = kept
	case 1:
		l = r.Range(0, kept)
	case 2:
		l = kept + r.Range(1, 2)
	default:
		l = 0
	}
	var k strings.Builder
	for j := 0; j < l; j++ {
		k.WriteByte("ssssfx"[r.Intn(6)])
	}
	ks := k.String()
	if ks == "" {
		ks = "-"
	}
	o.Count("n=" + bucketN(n))
	switch {
	case l == kept:
		o.Count("reply=full")
	case l < kept:
		o.Count("reply=short")
	default:
		o.Count("reply=long")
	}
	if errAt >= 0 {
		o.Count("cond-error")
	}
	return "cm " + b.String() + " " + ks
}

func bucketN(n int) string {
	switch {
	case n <= 2:
		return "1-2"
	case n <= 8:
		return "3-8"
	}
	return ">8"
}

type cmPlugin struct {
	sdk.UnimplementedProcessor
	kinds string
	given int
}

func (p *cmPlugin) Process(_ context.Context, recs []opencdc.Record) []sdk.ProcessedRecord {
	p.given = len(recs)
	// capacity == length, as for a reply decoded from the wire
	out := make([]sdk.ProcessedRecord, len(p.kinds))
	for j := range p.kinds {
		switch p.kinds[j] {
		case 's':
			out[j] = sdk.SingleRecord{Metadata: opencdc.Metadata{"tok": strconv.Itoa(j)}}
		case 'f':
			out[j] = sdk.FilterRecord{}
		default:
			out[j] = sdk.ErrorRecord{Error: errors.New("tok" + strconv.Itoa(j))}
		}
	}
	return out
}

func runCondMerge(line string) string {
	f := strings.Fields(line)
	if len(f) != 3 || f[0] != "cm" {
		return "bad-op"
	}
	pattern, kinds := f[1], f[2]
	if kinds == "-" {
		kinds = ""
	}
	for _, c := range pattern {
		if c != 'k' && c != 'p' && c != 'e' {
			return "bad-op"
		}
	}
	for _, c := range kinds {
		if c != 's' && c != 'f' && c != 'x' {
			return "bad-op"
		}
	}
	recs := make([]opencdc.Record, len(pattern))
	for i := range pattern {
		c := map[byte]string{'k': "true", 'p': "false", 'e': "junk"}[pattern[i]]
		recs[i] = opencdc.Record{
			Position: opencdc.Position("p" + strconv.Itoa(i)),
			Metadata: opencdc.Metadata{"c": c, "idx": strconv.Itoa(i)},
			Key:      opencdc.RawData("k" + strconv.Itoa(i)),
		}
	}
	plug := &cmPlugin{kinds: kinds}
	rp, err := processor.VerifNewRunnableProcessor(plug, "{{ .Metadata.c }}")
	if err != nil {
		return "bad-op"
	}
	defer rp.Close()
	in := make([]opencdc.Record, len(recs))
	for i := range recs {
		in[i] = recs[i].Clone()
	}
	out := rp.Process(context.Background(), in)
	var toks []string
	for _, pr := range out {
		switch v := pr.(type) {
		case sdk.SingleRecord:
			if t, ok := v.Metadata["tok"]; ok && v.Position == nil {
				toks = append(toks, "t"+t+"s")
				continue
			}
			idx, err := strconv.Atoi(v.Metadata["idx"])
			if err != nil || idx < 0 || idx >= len(recs) {
				toks = append(toks, "?")
				continue
			}
			same := string(v.Position) == string(recs[idx].Position) && v.Metadata["c"] == recs[idx].Metadata["c"] &&
				len(v.Metadata) == 2 && string(v.Key.Bytes()) == string(recs[idx].Key.Bytes())
			if same {
				toks = append(toks, "s"+strconv.Itoa(idx))
			} else {
				toks = append(toks, "s"+strconv.Itoa(idx)+"!")
			}
		case sdk.FilterRecord:
			toks = append(toks, "f") // position in the plugin reply is recovered below
		case sdk.ErrorRecord:
			msg := v.Error.Error()
			switch {
			case strings.HasPrefix(msg, "tok"):
				toks = append(toks, "t"+msg[3:]+"x")
			case strings.Contains(msg, "failed evaluating condition"):
				toks = append(toks, "C")
			case strings.Contains(msg, "more records than input"):
				toks = append(toks, "M")
			default:
				toks = append(toks, "?")
			}
		default:
			toks = append(toks, "?")
		}
	}
	// filter records carry no token: number them by the order of filter elements in the reply
	fi := 0
	var fpos []int
	for j := range kinds {
		if kinds[j] == 'f' {
			fpos = append(fpos, j)
		}
	}
	for i, t := range toks {
		if t == "f" {
			if fi < len(fpos) {
				toks[i] = "t" + strconv.Itoa(fpos[fi]) + "f"
			} else {
				toks[i] = "?"
			}
			fi++
		}
	}
	if len(toks) == 0 {
		return "-"
	}
	return strings.Join(toks, ",")
}
