// h_stream drives the default (v1) pipeline engine of /repo — the real pkg/lifecycle/stream
// node graph wired the way pkg/lifecycle/service.go buildNodes wires it — and the real
// processor.RunnableProcessor, with scripted fake plugins, and writes per component the case
// lines for the Lean driver and the implementation's canonical results.
//
//	h_stream -comp pipe|condmerge -seed 1 -n 500 -out DIR [-replay FILE]
//
// Component pipe: one case = one scenario (topology + plugin scripts, see scenario.go) run once;
// the case line handed to the Lean driver is "<scenario> | <recorded trace>", the implementation
// line is "ok" (the run ended, every node returned), "panic" or "hang". Scenarios run in a
// child process (h_stream -child) so that a panic in a goroutine of the engine or a wedged run
// becomes the result of that one case instead of killing the whole run.
package main

import (
	"bufio"
	"flag"
	"fmt"
	"os"
	"strings"

	"verif/harness/gen"
)

type component struct {
	gen        func(r *gen.Rand, o *gen.Out, i int) string
	run        func(line string) string
	nontrivial func(line, res string) bool
	// traced components produce the case line themselves (scenario + trace)
	traced func(scenario string) (caseLine, res string)
}

var components = map[string]component{}

func main() {
	comp := flag.String("comp", "", "component")
	seed := flag.Uint64("seed", 1, "seed")
	n := flag.Int("n", 1000, "number of generated cases")
	out := flag.String("out", "", "output directory")
	replay := flag.String("replay", "", "file of case lines to run instead of generating (corpus / replay)")
	child := flag.Bool("child", false, "internal: run scenarios from stdin, one result line each")
	flag.Parse()
	if *child {
		childMain()
		return
	}
	c, ok := components[*comp]
	if !ok {
		fmt.Fprintln(os.Stderr, "unknown component", *comp)
		os.Exit(2)
	}
	o := gen.NewOut(*out, *comp)
	defer o.Close()
	defer stopChild()
	// a wedged run costs a whole watchdog period: after a few of them the point is made
	hangs := 0
	one := func(l string) {
		if c.traced != nil {
			if hangs >= 4 {
				return
			}
			cl, res := c.traced(l)
			if res == "hang" {
				hangs++
			}
			o.Case(cl, res, c.nontrivial(cl, res))
			return
		}
		res := safeRun(c, l)
		o.Case(l, res, c.nontrivial(l, res))
	}
	if *replay != "" {
		f, err := os.Open(*replay)
		if err != nil {
			panic(err)
		}
		sc := bufio.NewScanner(f)
		sc.Buffer(make([]byte, 1<<20), 1<<26)
		for sc.Scan() {
			l := strings.TrimSpace(sc.Text())
			if l == "" || strings.HasPrefix(l, "#") {
				continue
			}
			one(l)
		}
		return
	}
	r := gen.New(*seed)
	for i := 0; i < *n; i++ {
		one(c.gen(r, o, i))
	}
}

func safeRun(c component, l string) (res string) {
	defer func() {
		if p := recover(); p != nil {
			res = "panic"
		}
	}()
	return c.run(l)
}
