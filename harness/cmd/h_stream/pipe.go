package main

import (
	"bufio"
	"bytes"
	"context"
	"errors"
	"fmt"
	"io"
	"os"
	"os/exec"
	"runtime"
	"strconv"
	"strings"
	"sync"
	"time"

	"github.com/conduitio/conduit-commons/opencdc"
	sdk "github.com/conduitio/conduit-processor-sdk"
	"github.com/conduitio/conduit/pkg/connector"
	"github.com/conduitio/conduit/pkg/foundation/log"
	"github.com/conduitio/conduit/pkg/foundation/metrics"
	"github.com/conduitio/conduit/pkg/foundation/metrics/noop"
	"github.com/conduitio/conduit/pkg/lifecycle"
	"github.com/conduitio/conduit/pkg/lifecycle/stream"
)

// Component pipe (see scenario.go for the scenario grammar). Trace tokens, in the order the
// fake plugins saw the events (one global order, taken under a mutex at the plugin boundary):
//
//	R:s:i            source s handed record i to the engine                 (READ)
//	P:g:x:k:s:i:kind processor k of chain (g=S source x | P pipeline | D destination x) returned kind for record s.i
//	W:d:s:i:o|f      destination d was given record s.i; Write returns nil / an error      (WRITE)
//	A:d:<acks>       reply of destination d's Ack(): s.i.o / s.i.n joined by '+', ?.?.o for an
//	                 unknown position, '-' for an empty reply, '!' for an error            (DACK)
//	Q:s:i:o|w        DLQ plugin was given the DLQ record of s.i; Write returns nil / error (DLQW)
//	U:s:i:o|n|e|x|r  DLQ plugin's Ack() reply for it: ok, nack, empty, unknown position, error (DLQA)
//	S:s:i:o|r|f      source s's Ack was called for record i; returns nil / error / io.EOF  (SACK)
//	X:g|f            the harness issued the graceful / force stop
//	E:…              end of run (informational)
func init() {
	components["pipe"] = component{gen: genScenario, nontrivial: ntPipe, traced: runPipeCase}
}

// non-trivial: the run delivered at least one record to a destination and involved at least one
// of: a nack / DLQ write, a filter, more than one destination, more than one source, a parallel
// processor, a batch ack, a stop before the end.
func ntPipe(line, res string) bool {
	i := strings.Index(line, " | ")
	if i < 0 {
		return false
	}
	tr := line[i+3:]
	if !strings.Contains(tr, "W:") || !strings.Contains(tr, "S:") {
		return false
	}
	sc := line[:i]
	return strings.Contains(tr, "Q:") || strings.Contains(tr, ":f ") || !strings.Contains(sc, " m=1 ") ||
		!strings.Contains(sc, " n=1 ") || strings.Contains(tr, "+") || !strings.Contains(sc, "stop=n")
}

// ---------------------------------------------------------------- child process protocol

var (
	childCmd *exec.Cmd
	childIn  io.WriteCloser
	childOut *bufio.Reader
	childErr *bytes.Buffer
)

func startChild() {
	exe, err := os.Executable()
	if err != nil {
		panic(err)
	}
	childCmd = exec.Command(exe, "-child")
	childIn, _ = childCmd.StdinPipe()
	so, _ := childCmd.StdoutPipe()
	childOut = bufio.NewReaderSize(so, 1<<20)
	childErr = &bytes.Buffer{}
	childCmd.Stderr = childErr
	if err := childCmd.Start(); err != nil {
		panic(err)
	}
}

func stopChild() {
	if childCmd != nil {
		childIn.Close()
		_ = childCmd.Wait()
		childCmd = nil
	}
}

func killChild() {
	if childCmd != nil {
		_ = childCmd.Process.Kill()
		_ = childCmd.Wait()
		childCmd = nil
	}
}

// runPipeCase runs one scenario in the child and returns the case line for the Lean driver and
// the implementation's result class.
func runPipeCase(line string) (string, string) {
	scn := line
	if i := strings.Index(line, " | "); i >= 0 {
		scn = line[:i] // replay: the trace is recorded afresh
	}
	scn = strings.TrimSpace(scn)
	if _, err := parseScenario(scn); err != nil {
		return scn + " | ", "bad-op"
	}
	if childCmd == nil {
		startChild()
	}
	if _, err := io.WriteString(childIn, scn+"\n"); err != nil {
		killChild()
		startChild()
		if _, err := io.WriteString(childIn, scn+"\n"); err != nil {
			killChild()
			return scn + " | ", "panic"
		}
	}
	type reply struct {
		s   string
		err error
	}
	ch := make(chan reply, 1)
	rd := childOut
	go func() {
		s, err := rd.ReadString('\n')
		ch <- reply{s, err}
	}()
	select {
	case r := <-ch:
		if r.err != nil {
			// the child died: a panic in some goroutine of the engine
			tail := childErr.String()
			if len(tail) > 1500 {
				tail = tail[:1500]
			}
			fmt.Fprintf(os.Stderr, "h_stream: child died on %q:\n%s\n", scn, tail)
			killChild()
			return scn + " | ", "panic"
		}
		p := strings.SplitN(strings.TrimRight(r.s, "\n"), "\t", 2)
		if len(p) != 2 {
			return scn + " | ", "bad-op"
		}
		if p[0] == "hang" {
			killChild() // it has left; the next case starts a fresh one
		}
		return scn + " | " + p[1], p[0]
	case <-time.After(75 * time.Second):
		killChild()
		return scn + " | ", "hang"
	}
}

func childMain() {
	in := bufio.NewScanner(os.Stdin)
	in.Buffer(make([]byte, 1<<20), 1<<26)
	out := bufio.NewWriter(os.Stdout)
	for in.Scan() {
		sc, err := parseScenario(in.Text())
		if err != nil {
			fmt.Fprintf(out, "bad-op\t\n")
			out.Flush()
			continue
		}
		res, tr := runScenario(sc)
		fmt.Fprintf(out, "%s\t%s\n", res, strings.Join(tr, " "))
		out.Flush()
	}
}

// ---------------------------------------------------------------- one run

type run struct {
	sc     *scenario
	mu     sync.Mutex
	trace  []string
	reads  int
	last   time.Time
	stopCh chan struct{}
	once   sync.Once
	panics int
}

func (h *run) log(format string, a ...any) {
	h.mu.Lock()
	h.trace = append(h.trace, fmt.Sprintf(format, a...))
	h.last = time.Now()
	h.mu.Unlock()
}

// lat: scripted latency, a function of the seed and the event only (so a replay has the same delays).
func (h *run) lat(tag string, a, b, c int) {
	if !h.sc.lat {
		return
	}
	x := h.sc.seed*0x9E3779B97F4A7C15 + uint64(a)*1000003 + uint64(b)*10007 + uint64(c)*101
	for _, ch := range tag {
		x = x*31 + uint64(ch)
	}
	x ^= x >> 29
	x *= 0xBF58476D1CE4E5B9
	x ^= x >> 32
	switch x % 8 {
	case 0, 1, 2:
	case 3, 4:
		runtime.Gosched()
	case 5:
		time.Sleep(20 * time.Microsecond)
	case 6:
		time.Sleep(100 * time.Microsecond)
	default:
		time.Sleep(400 * time.Microsecond)
	}
}

func pos(s, i int) opencdc.Position { return opencdc.Position("s" + strconv.Itoa(s) + "-" + strconv.Itoa(i)) }

func mkRecord(s, i int) opencdc.Record {
	return opencdc.Record{
		Position:  pos(s, i),
		Operation: opencdc.OperationCreate,
		Metadata:  opencdc.Metadata{"vs": strconv.Itoa(s), "vi": strconv.Itoa(i)},
		Key:       opencdc.RawData("k"),
		Payload:   opencdc.Change{After: opencdc.RawData("v")},
	}
}

func ident(r opencdc.Record) (int, int, bool) {
	s, e1 := strconv.Atoi(r.Metadata["vs"])
	i, e2 := strconv.Atoi(r.Metadata["vi"])
	return s, i, e1 == nil && e2 == nil
}

// ---- fake source

type fakeSource struct {
	h       *run
	s       int
	mu      sync.Mutex
	next    int
	stopped bool
	acks    int
	tornDown bool
}

func (f *fakeSource) ID() string                   { return "src" + strconv.Itoa(f.s) }
func (f *fakeSource) Open(context.Context) error   { return nil }
func (f *fakeSource) Errors() <-chan error         { return nil }
func (f *fakeSource) Teardown(context.Context) error {
	f.mu.Lock()
	f.tornDown = true
	f.mu.Unlock()
	return nil
}

func (f *fakeSource) Read(ctx context.Context) ([]opencdc.Record, error) {
	f.h.lat("read", f.s, f.next, 0)
	f.mu.Lock()
	if !f.stopped && f.next < f.h.sc.recs[f.s] && ctx.Err() == nil {
		i := f.next
		f.next++
		f.h.mu.Lock()
		f.h.trace = append(f.h.trace, fmt.Sprintf("R:%d:%d", f.s, i))
		f.h.last = time.Now()
		f.h.reads++
		hit := f.h.sc.stopKind != 'n' && f.h.reads == f.h.sc.stopAt
		f.h.mu.Unlock()
		f.mu.Unlock()
		if hit {
			f.h.once.Do(func() { close(f.h.stopCh) })
		}
		return []opencdc.Record{mkRecord(f.s, i)}, nil
	}
	f.mu.Unlock()
	<-ctx.Done()
	return nil, ctx.Err()
}

func (f *fakeSource) Stop(context.Context) (opencdc.Position, error) {
	f.mu.Lock()
	defer f.mu.Unlock()
	f.stopped = true
	if f.next == 0 {
		return nil, nil
	}
	return pos(f.s, f.next-1), nil
}

func (f *fakeSource) Ack(_ context.Context, ps []opencdc.Position) error {
	f.mu.Lock()
	k := f.acks
	f.acks++
	dead := f.tornDown
	f.mu.Unlock()
	r := byte('o')
	if k < len(f.h.sc.sa[f.s]) {
		r = f.h.sc.sa[f.s][k]
	}
	if dead {
		// the plugin is gone (plugin.ErrPluginNotRunning): the ack is lost, the position not persisted
		r = 't'
	}
	for _, p := range ps {
		s, i := parsePos(p)
		f.h.log("S:%s:%s:%c", s, i, r)
	}
	switch r {
	case 't':
		return errors.New("plugin is not running: ack after source teardown")
	case 'r':
		return errors.New("source ack failed")
	case 'f':
		return io.EOF
	}
	return nil
}

func parsePos(p opencdc.Position) (string, string) {
	t := string(p)
	if len(t) > 1 && t[0] == 's' {
		if j := strings.IndexByte(t, '-'); j > 0 {
			return t[1:j], t[j+1:]
		}
	}
	return "?", "?"
}

// ---- fake destination

type fakeDest struct {
	h       *run
	d       int
	replies string
	writeF  int
	mu      sync.Mutex
	cond    chan struct{} // signalled on every write
	pending []opencdc.Record
	writes  int
	calls   int
	dlq     bool
	batch   int
	flushed bool
	closed  chan struct{}
}

// batching mode (scenario db<d>=<b>): nothing is acknowledged until b records are buffered or
// Stop(lastPosition) was called, then everything buffered is acknowledged in one reply.
func (f *fakeDest) ackBatching(ctx context.Context) ([]connector.DestinationAck, error) {
	for {
		f.mu.Lock()
		n := len(f.pending)
		if n >= f.batch || (f.flushed && n > 0) {
			recs := f.pending
			f.pending = nil
			var acks []connector.DestinationAck
			var toks []string
			for _, r := range recs {
				acks = append(acks, connector.DestinationAck{Position: r.Position})
				toks = append(toks, ackTok(r, true))
			}
			f.h.mu.Lock()
			f.h.trace = append(f.h.trace, fmt.Sprintf("A:%d:%s", f.d, strings.Join(toks, "+")))
			f.h.last = time.Now()
			f.h.mu.Unlock()
			f.mu.Unlock()
			return acks, nil
		}
		f.mu.Unlock()
		select {
		case <-ctx.Done():
			return nil, ctx.Err()
		case <-f.closed:
			return nil, nil
		case <-f.cond:
		case <-time.After(200 * time.Microsecond):
		}
	}
}

func newFakeDest(h *run, d int, replies string, writeF int) *fakeDest {
	return &fakeDest{h: h, d: d, replies: replies, writeF: writeF, cond: make(chan struct{}, 1), closed: make(chan struct{})}
}

func (f *fakeDest) ID() string                                        { return "dst" + strconv.Itoa(f.d) }
func (f *fakeDest) Open(context.Context) error                        { return nil }
func (f *fakeDest) Errors() <-chan error                              { return nil }
func (f *fakeDest) Stop(context.Context, opencdc.Position) error {
	// a batching destination flushes what it buffered up to the last position
	f.mu.Lock()
	f.flushed = true
	f.mu.Unlock()
	select {
	case f.cond <- struct{}{}:
	default:
	}
	return nil
}
func (f *fakeDest) Teardown(context.Context) error {
	select {
	case <-f.closed:
	default:
		close(f.closed)
	}
	return nil
}

func (f *fakeDest) Write(_ context.Context, recs []opencdc.Record) error {
	for _, r := range recs {
		s, i, ok := ident(r)
		f.mu.Lock()
		k := f.writes
		f.writes++
		fail := k == f.writeF
		res := 'o'
		if fail {
			res = 'f'
		}
		if ok {
			st := r.Metadata["vp"]
			if st == "" {
				st = "-"
			}
			f.h.log("W:%d:%d:%d:%c:%s", f.d, s, i, res, st)
		} else {
			f.h.log("W:%d:?:?:%c", f.d, res)
		}
		if !fail {
			f.pending = append(f.pending, r)
		}
		f.mu.Unlock()
		if fail {
			return errors.New("destination write failed")
		}
		select {
		case f.cond <- struct{}{}:
		default:
		}
	}
	return nil
}

// take waits until k records are pending (or 2ms passed with at least one) and removes them.
func (f *fakeDest) take(ctx context.Context, k int) []opencdc.Record {
	deadline := time.Now().Add(2 * time.Millisecond)
	for {
		f.mu.Lock()
		n := len(f.pending)
		if n >= k || (n > 0 && time.Now().After(deadline)) {
			if n > k {
				n = k
			}
			out := f.pending[:n:n]
			f.pending = f.pending[n:]
			f.mu.Unlock()
			return out
		}
		f.mu.Unlock()
		select {
		case <-ctx.Done():
			return nil
		case <-f.closed:
			return nil
		case <-f.cond:
		case <-time.After(200 * time.Microsecond):
		}
	}
}

func ackTok(r opencdc.Record, ok bool) string {
	s, i, good := ident(r)
	c := 'o'
	if !ok {
		c = 'n'
	}
	if !good {
		return fmt.Sprintf("?.?.%c", c)
	}
	return fmt.Sprintf("%d.%d.%c", s, i, c)
}

func (f *fakeDest) Ack(ctx context.Context) ([]connector.DestinationAck, error) {
	if f.batch > 0 {
		return f.ackBatching(ctx)
	}
	f.mu.Lock()
	k := f.calls
	f.calls++
	f.mu.Unlock()
	tok := byte('a')
	if k < len(f.replies) {
		tok = f.replies[k]
	}
	need := 1
	switch {
	case tok >= '2' && tok <= '9':
		need = int(tok - '0')
	case tok == 'o':
		need = 2
	}
	recs := f.take(ctx, need)
	if recs == nil {
		if ctx.Err() != nil {
			return nil, ctx.Err()
		}
		return nil, nil // torn down
	}
	f.h.lat("dack", f.d, k, 0)
	nackErr := errors.New("destination nack")
	var acks []connector.DestinationAck
	var toks []string
	switch tok {
	case 'n':
		acks = []connector.DestinationAck{{Position: recs[0].Position, Error: nackErr}}
		toks = []string{ackTok(recs[0], false)}
	case 'e':
		f.unget(recs)
		f.h.log("A:%d:-", f.d)
		return []connector.DestinationAck{}, nil
	case 'x':
		f.unget(recs)
		f.h.log("A:%d:?.?.o", f.d)
		return []connector.DestinationAck{{Position: opencdc.Position("bogus")}}, nil
	case 'r':
		f.unget(recs)
		f.h.log("A:%d:!", f.d)
		return nil, errors.New("destination ack stream failed")
	case 'u':
		acks = []connector.DestinationAck{{Position: recs[0].Position}, {Position: recs[0].Position}}
		toks = []string{ackTok(recs[0], true), ackTok(recs[0], true)}
	case 'o':
		for j := len(recs) - 1; j >= 0; j-- {
			acks = append(acks, connector.DestinationAck{Position: recs[j].Position})
			toks = append(toks, ackTok(recs[j], true))
		}
	default:
		for _, r := range recs {
			acks = append(acks, connector.DestinationAck{Position: r.Position})
			toks = append(toks, ackTok(r, true))
		}
	}
	f.h.log("A:%d:%s", f.d, strings.Join(toks, "+"))
	return acks, nil
}

func (f *fakeDest) unget(recs []opencdc.Record) {
	f.mu.Lock()
	f.pending = append(append([]opencdc.Record{}, recs...), f.pending...)
	f.mu.Unlock()
}

// ---- fake DLQ destination (below the real lifecycle.DLQDestination adapter)

type fakeDLQ struct {
	h     *run
	mu    sync.Mutex
	k     int
	cur   opencdc.Record
	curS  string
	curI  string
	curOp byte
}

func (f *fakeDLQ) ID() string                                   { return "dlq" }
func (f *fakeDLQ) Open(context.Context) error                   { return nil }
func (f *fakeDLQ) Errors() <-chan error                         { return nil }
func (f *fakeDLQ) Stop(context.Context, opencdc.Position) error { return nil }
func (f *fakeDLQ) Teardown(context.Context) error               { return nil }

// dlqIdent recovers (s, i) of the original record from the DLQ record and checks that it
// carries the original record, the error and the failing component.
func dlqIdent(r opencdc.Record) (string, string) {
	sd, ok := r.Payload.After.(opencdc.StructuredData)
	if !ok {
		return "?", "?"
	}
	md, _ := sd["metadata"].(map[string]string)
	if md == nil {
		if m2, ok := sd["metadata"].(opencdc.Metadata); ok {
			md = m2
		} else if m3, ok := sd["metadata"].(map[string]any); ok {
			md = map[string]string{}
			for k, v := range m3 {
				md[k] = fmt.Sprint(v)
			}
		}
	}
	s, i := md["vs"], md["vi"]
	if s == "" || i == "" {
		return "?", "?"
	}
	if _, err := r.Metadata.GetConduitDLQNackError(); err != nil {
		return "?", "?"
	}
	if _, err := r.Metadata.GetConduitDLQNackNodeID(); err != nil {
		return "?", "?"
	}
	// the DLQ record's position is the message ID: <source id>/<position>
	if string(r.Position) != "src"+s+"/s"+s+"-"+i {
		return "?", "?"
	}
	return s, i
}

func (f *fakeDLQ) Write(_ context.Context, recs []opencdc.Record) error {
	f.mu.Lock()
	defer f.mu.Unlock()
	op := byte('o')
	if f.k < len(f.h.sc.q) {
		op = f.h.sc.q[f.k]
	}
	f.k++
	f.cur = recs[0]
	f.curS, f.curI = dlqIdent(recs[0])
	f.curOp = op
	if op == 'w' {
		f.h.log("Q:%s:%s:w", f.curS, f.curI)
		return errors.New("dlq write failed")
	}
	f.h.log("Q:%s:%s:o", f.curS, f.curI)
	return nil
}

func (f *fakeDLQ) Ack(context.Context) ([]connector.DestinationAck, error) {
	f.mu.Lock()
	defer f.mu.Unlock()
	f.h.lat("dlqa", f.k, 0, 0)
	switch f.curOp {
	case 'n':
		f.h.log("U:%s:%s:n", f.curS, f.curI)
		return []connector.DestinationAck{{Position: f.cur.Position, Error: errors.New("dlq nack")}}, nil
	case 'e':
		f.h.log("U:%s:%s:e", f.curS, f.curI)
		return nil, nil
	case 'x':
		f.h.log("U:%s:%s:x", f.curS, f.curI)
		return []connector.DestinationAck{{Position: opencdc.Position("bogus")}}, nil
	case 'r':
		f.h.log("U:%s:%s:r", f.curS, f.curI)
		return nil, errors.New("dlq ack stream failed")
	}
	f.h.log("U:%s:%s:o", f.curS, f.curI)
	return []connector.DestinationAck{{Position: f.cur.Position}}, nil
}

// ---- fake processor

type fakeProc struct {
	h    *run
	seg  byte
	x, k int
	spec procSpec
}

func (p *fakeProc) Open(context.Context) error     { return nil }
func (p *fakeProc) Teardown(context.Context) error { return nil }

func (p *fakeProc) Process(_ context.Context, recs []opencdc.Record) []sdk.ProcessedRecord {
	r := recs[0]
	s, i, ok := ident(r)
	kind := byte('s')
	if ok {
		ks := ""
		if p.seg == 'S' {
			ks = p.spec.kinds[0]
		} else if s < len(p.spec.kinds) {
			ks = p.spec.kinds[s]
		}
		if i < len(ks) {
			kind = ks[i]
		}
	}
	p.h.lat("proc", int(p.seg)*100+p.x*10+p.k, s, i)
	p.h.log("P:%c:%d:%d:%d:%d:%c", p.seg, p.x, p.k, s, i, kind)
	switch kind {
	case 'f':
		return []sdk.ProcessedRecord{sdk.FilterRecord{}}
	case 'e':
		return []sdk.ProcessedRecord{sdk.ErrorRecord{Error: errors.New("processor error")}}
	case 'm':
		return []sdk.ProcessedRecord{sdk.MultiRecord{r, r}}
	case 'z':
		return []sdk.ProcessedRecord{}
	case 'l':
		return []sdk.ProcessedRecord{sdk.SingleRecord(r), sdk.SingleRecord(r)}
	case 'p':
		r2 := r.Clone()
		r2.Position = opencdc.Position("moved")
		return []sdk.ProcessedRecord{sdk.SingleRecord(r2)}
	case 'n':
		return []sdk.ProcessedRecord{nil}
	}
	// stamp the record: what reaches a destination shows which processors it went through
	r2 := r.Clone()
	stamp := fmt.Sprintf("%c%dk%d", p.seg, p.x, p.k)
	if old := r2.Metadata["vp"]; old != "" {
		stamp = old + "+" + stamp
	}
	r2.Metadata["vp"] = stamp
	return []sdk.ProcessedRecord{sdk.SingleRecord(r2)}
}

// ---- building the node graph the way lifecycle.Service.buildNodes does

var errGraceful = errors.New("graceful shutdown")

func (h *run) buildProcessorNodes(seg byte, x int, chain []procSpec, first stream.PubNode, last stream.SubNode) []stream.Node {
	var nodes []stream.Node
	prev := first
	for k, spec := range chain {
		proc := &fakeProc{h: h, seg: seg, x: x, k: k, spec: spec}
		name := fmt.Sprintf("proc-%c%d-%d", seg, x, k)
		mk := func() *stream.ProcessorNode {
			return &stream.ProcessorNode{Name: name, Processor: proc, ProcessorTimer: noop.Timer{}}
		}
		var node stream.PubSubNode
		if spec.workers > 1 {
			node = &stream.ParallelNode{
				Name: name + "-parallel",
				NewNode: func(i int) stream.PubSubNode {
					n := mk()
					n.Name = n.Name + "-" + strconv.Itoa(i)
					return n
				},
				Workers: spec.workers,
			}
		} else {
			node = mk()
		}
		node.Sub(prev.Pub())
		prev = node
		nodes = append(nodes, node)
	}
	last.Sub(prev.Pub())
	return nodes
}

func histogram() metrics.RecordBytesHistogram {
	return metrics.NewRecordBytesHistogram(noop.Histogram{})
}

func (h *run) buildNodes() ([]stream.Node, []*stream.SourceNode) {
	sc := h.sc
	fanIn := &stream.FaninNode{Name: "fanin"}
	fanOut := &stream.FanoutNode{Name: "fanout"}
	var nodes []stream.Node
	var srcNodes []*stream.SourceNode

	dlqNode := &stream.DLQHandlerNode{
		Name:                "dlq",
		Handler:             &lifecycle.DLQDestination{Destination: &fakeDLQ{h: h}, Logger: log.Nop()},
		WindowSize:          sc.winSize,
		WindowNackThreshold: sc.winThr,
		Timer:               noop.Timer{},
		Histogram:           histogram(),
	}
	for s := 0; s < sc.n; s++ {
		src := &fakeSource{h: h, s: s}
		sourceNode := &stream.SourceNode{Name: src.ID(), Source: src, PipelineTimer: noop.Timer{}}
		dlqNode.Add(1)
		ackerNode := &stream.SourceAckerNode{Name: src.ID() + "-acker", Source: src, DLQHandlerNode: dlqNode}
		ackerNode.Sub(sourceNode.Pub())
		metricsNode := &stream.MetricsNode{Name: src.ID() + "-metrics", Histogram: histogram()}
		metricsNode.Sub(ackerNode.Pub())
		procNodes := h.buildProcessorNodes('S', s, sc.sp[s], metricsNode, fanIn)
		nodes = append(nodes, sourceNode, ackerNode, metricsNode)
		nodes = append(nodes, procNodes...)
		srcNodes = append(srcNodes, sourceNode)
	}
	nodes = append(nodes, dlqNode)
	nodes = append(nodes, fanIn)
	nodes = append(nodes, h.buildProcessorNodes('P', 0, sc.pp, fanIn, fanOut)...)
	nodes = append(nodes, fanOut)
	for d := 0; d < sc.m; d++ {
		dest := newFakeDest(h, d, sc.dReplies[d], sc.dWriteF[d])
		dest.batch = sc.dBatch[d]
		ackerNode := &stream.DestinationAckerNode{Name: dest.ID() + "-acker", Destination: dest}
		destinationNode := &stream.DestinationNode{Name: dest.ID(), Destination: dest, ConnectorTimer: noop.Timer{}}
		metricsNode := &stream.MetricsNode{Name: dest.ID() + "-metrics", Histogram: histogram()}
		destinationNode.Sub(metricsNode.Pub())
		ackerNode.Sub(destinationNode.Pub())
		connNodes := h.buildProcessorNodes('D', d, sc.dp[d], fanOut, metricsNode)
		nodes = append(nodes, connNodes...)
		nodes = append(nodes, metricsNode, destinationNode, ackerNode)
	}
	logger := log.Nop()
	for _, n := range nodes {
		stream.SetLogger(n, logger)
	}
	return nodes, srcNodes
}

// runScenario runs the scenario once and returns the result class and the trace.
func runScenario(sc *scenario) (string, []string) {
	old := runtime.GOMAXPROCS(sc.gmp)
	defer runtime.GOMAXPROCS(old)
	h := &run{sc: sc, stopCh: make(chan struct{}), last: time.Now()}
	nodes, srcNodes := h.buildNodes()

	// like runPipeline: every node runs in the tomb; the first node error kills it (cancels ctx)
	ctx, cancel := context.WithCancel(context.Background())
	defer cancel()
	var wg sync.WaitGroup
	var emu sync.Mutex
	nodeErrs := map[string]string{}
	for _, n := range nodes {
		wg.Add(1)
		go func(n stream.Node) {
			defer wg.Done()
			defer func() {
				if p := recover(); p != nil {
					emu.Lock()
					h.panics++
					nodeErrs[n.ID()] = "panic"
					emu.Unlock()
					cancel()
				}
			}()
			err := n.Run(ctx)
			if err != nil && !errors.Is(err, errGraceful) {
				emu.Lock()
				if errors.Is(err, context.Canceled) {
					nodeErrs[n.ID()] = "ctx"
				} else {
					nodeErrs[n.ID()] = "err"
				}
				emu.Unlock()
				cancel()
			}
		}(n)
	}
	done := make(chan struct{})
	go func() { wg.Wait(); close(done) }()

	// 'g': a user's stop (lifecycle.Service.Stop passes no reason); 's' and the natural end: process
	// shutdown (Service.StopAll passes the non-nil pipeline.ErrGracefulShutdown, which SourceNode.Run
	// then returns)
	graceful := func() {
		var reason error = errGraceful
		if sc.stopKind == 'g' {
			reason = nil
			h.log("X:g")
		} else {
			h.log("X:s")
		}
		sctx, c := context.WithTimeout(context.Background(), 2*time.Second)
		defer c()
		for _, n := range srcNodes {
			_ = n.Stop(sctx, reason)
		}
	}
	force := func() {
		h.log("X:f")
		cancel()
		for _, n := range nodes {
			if fn, ok := n.(stream.ForceStoppableNode); ok {
				fn.ForceStop(context.Background())
			}
		}
	}
	if sc.stopKind != 'n' && sc.stopAt == 0 {
		h.once.Do(func() { close(h.stopCh) })
	}
	go func() {
		if sc.stopKind == 'n' {
			// natural end: everything read and the trace quiet for a while, then stop gracefully
			total := 0
			for _, r := range sc.recs {
				total += r
			}
			for {
				select {
				case <-done:
					return
				case <-time.After(300 * time.Microsecond):
				}
				h.mu.Lock()
				quiet := h.reads == total && time.Since(h.last) > 3*time.Millisecond
				h.mu.Unlock()
				if quiet {
					graceful()
					return
				}
			}
		}
		select {
		case <-done:
		case <-h.stopCh:
			if sc.stopKind == 'g' || sc.stopKind == 's' {
				graceful()
			} else {
				force()
			}
		}
	}()

	res := "ok"
	select {
	case <-done:
	case <-time.After(30 * time.Second):
		res = "hang"
		buf := make([]byte, 1<<16)
		nb := runtime.Stack(buf, true)
		fmt.Fprintf(os.Stderr, "h_stream: hang on %q\n%s\n", sc.String(), buf[:nb])
		// the wedged goroutines cannot be reclaimed: leave the process (the parent restarts it)
		h.mu.Lock()
		tr := append([]string{}, h.trace...)
		h.mu.Unlock()
		fmt.Printf("hang\t%s\n", strings.Join(tr, " "))
		os.Exit(3)
	}
	emu.Lock()
	if h.panics > 0 {
		res = "panic"
	}
	var es []string
	for id, c := range nodeErrs {
		if c != "ctx" {
			es = append(es, id+"="+c)
		}
	}
	emu.Unlock()
	h.mu.Lock()
	tr := append([]string{}, h.trace...)
	h.mu.Unlock()
	sortStrings(es)
	tr = append(tr, "E:"+strings.Join(es, ","))
	return res, tr
}

func sortStrings(a []string) {
	for i := 1; i < len(a); i++ {
		for j := i; j > 0 && a[j] < a[j-1]; j-- {
			a[j], a[j-1] = a[j-1], a[j]
		}
	}
}
