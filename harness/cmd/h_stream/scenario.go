package main

import (
	"fmt"
	"sort"
	"strconv"
	"strings"

	"verif/harness/gen"
)

// A scenario is the part of a pipe case line in front of " | ": space separated key=value tokens.
//
//	pipe n=<N> m=<M> r=<c0>,<c1>..   N sources, M destinations, records per source
//	     w=<size>/<thr>               DLQ window size / nack threshold
//	     sp<s>=<chain> pp=<chain> dp<d>=<chain>
//	                                  processor chains of source s / of the pipeline / of destination d;
//	                                  chain = procs separated by ';', proc = <workers>:<kinds>[/<kinds>…]
//	                                  kinds = result kind per record index (one string per source for
//	                                  pp/dp chains): s single, f filter, e error record, m multi (2),
//	                                  z zero results, l two results, p changed position, n nil result;
//	                                  records beyond the string get 's'
//	     d<d>=<replies>               destination d's Ack() replies, one token per call: a ack next,
//	                                  n nack next, 2..9 ack the next k at once, e empty reply,
//	                                  x unknown position, o two acks in swapped order, u the same
//	                                  position twice, r error; afterwards 'a' forever
//	     dw<d>=<k>                    destination d's k-th Write (0-based) fails
//	     db<d>=<b>                    destination d batches: it acknowledges nothing until b records are buffered
//	                                  or Stop(lastPosition) is called (then everything buffered is acked at once),
//	                                  as an SDK destination with size based batching does; d<d> is ignored then
//	     q=<replies>                  DLQ plugin per record: o ok, w write error, n nack, e empty ack
//	                                  reply, x unknown position, r Ack error; afterwards 'o'
//	     sa<s>=<results>              source s's Ack results per call: o ok, r error, f io.EOF; then 'o'
//	     stop=n | g@<k> | s@<k> | f@<k>  n: graceful stop once everything read has settled (as s);
//	                                  g@k / s@k / f@k after k records were read in total: graceful stop by the user
//	                                  (Stop(ctx, nil)), graceful stop at process shutdown (StopAll: Stop(ctx, reason)
//	                                  with the non-nil pipeline.ErrGracefulShutdown), force stop
//	     gmp=<p> lat=<0|1> seed=<x>   GOMAXPROCS, scripted latencies on/off, seed of the latencies
type procSpec struct {
	workers int
	kinds   []string // per source (pp/dp) or single entry (sp)
}

type scenario struct {
	n, m     int
	recs     []int
	winSize  int
	winThr   int
	sp       [][]procSpec // per source
	pp       []procSpec
	dp       [][]procSpec // per destination
	dReplies []string
	dWriteF  []int
	dBatch   []int
	q        string
	sa       []string
	stopKind byte // 'n', 'g' (user stop, no reason), 's' (shutdown: stop with a non-nil reason), 'f'
	stopAt   int
	gmp      int
	lat      bool
	seed     uint64
}

func parseChain(v string) ([]procSpec, error) {
	if v == "" || v == "-" {
		return nil, nil
	}
	var out []procSpec
	for _, p := range strings.Split(v, ";") {
		wk := strings.SplitN(p, ":", 2)
		if len(wk) != 2 {
			return nil, fmt.Errorf("bad proc %q", p)
		}
		w, err := strconv.Atoi(wk[0])
		if err != nil || w < 1 || w > 16 {
			return nil, fmt.Errorf("bad workers %q", p)
		}
		ks := strings.Split(wk[1], "/")
		for _, k := range ks {
			for _, c := range k {
				if !strings.ContainsRune("sfemzlpn", c) {
					return nil, fmt.Errorf("bad kind %q", p)
				}
			}
		}
		out = append(out, procSpec{workers: w, kinds: ks})
	}
	return out, nil
}

func fmtChain(c []procSpec) string {
	if len(c) == 0 {
		return "-"
	}
	var ps []string
	for _, p := range c {
		ps = append(ps, strconv.Itoa(p.workers)+":"+strings.Join(p.kinds, "/"))
	}
	return strings.Join(ps, ";")
}

func parseScenario(line string) (*scenario, error) {
	f := strings.Fields(line)
	if len(f) == 0 || f[0] != "pipe" {
		return nil, fmt.Errorf("not a pipe scenario")
	}
	sc := &scenario{n: 1, m: 1, winSize: 0, winThr: 0, stopKind: 'n', gmp: 2}
	kv := map[string]string{}
	for _, t := range f[1:] {
		p := strings.SplitN(t, "=", 2)
		if len(p) != 2 {
			return nil, fmt.Errorf("bad token %q", t)
		}
		kv[p[0]] = p[1]
	}
	var err error
	geti := func(k string, def int) int {
		v, ok := kv[k]
		if !ok {
			return def
		}
		x, e := strconv.Atoi(v)
		if e != nil {
			err = e
		}
		return x
	}
	sc.n = geti("n", 1)
	sc.m = geti("m", 1)
	if err != nil || sc.n < 1 || sc.n > 8 || sc.m < 1 || sc.m > 8 {
		return nil, fmt.Errorf("bad n/m")
	}
	sc.recs = make([]int, sc.n)
	if v, ok := kv["r"]; ok {
		ps := strings.Split(v, ",")
		for i := 0; i < sc.n && i < len(ps); i++ {
			sc.recs[i], err = strconv.Atoi(ps[i])
			if err != nil || sc.recs[i] < 0 || sc.recs[i] > 1000 {
				return nil, fmt.Errorf("bad r")
			}
		}
	}
	if v, ok := kv["w"]; ok {
		ps := strings.Split(v, "/")
		if len(ps) != 2 {
			return nil, fmt.Errorf("bad w")
		}
		sc.winSize, err = strconv.Atoi(ps[0])
		if err != nil {
			return nil, err
		}
		sc.winThr, err = strconv.Atoi(ps[1])
		if err != nil {
			return nil, err
		}
	}
	sc.sp = make([][]procSpec, sc.n)
	sc.sa = make([]string, sc.n)
	for s := 0; s < sc.n; s++ {
		if sc.sp[s], err = parseChain(kv["sp"+strconv.Itoa(s)]); err != nil {
			return nil, err
		}
		sc.sa[s] = kv["sa"+strconv.Itoa(s)]
	}
	if sc.pp, err = parseChain(kv["pp"]); err != nil {
		return nil, err
	}
	sc.dp = make([][]procSpec, sc.m)
	sc.dReplies = make([]string, sc.m)
	sc.dWriteF = make([]int, sc.m)
	sc.dBatch = make([]int, sc.m)
	for d := 0; d < sc.m; d++ {
		if v, ok := kv["db"+strconv.Itoa(d)]; ok {
			if sc.dBatch[d], err = strconv.Atoi(v); err != nil || sc.dBatch[d] < 0 {
				return nil, fmt.Errorf("bad db")
			}
		}
		if sc.dp[d], err = parseChain(kv["dp"+strconv.Itoa(d)]); err != nil {
			return nil, err
		}
		sc.dReplies[d] = kv["d"+strconv.Itoa(d)]
		sc.dWriteF[d] = -1
		if v, ok := kv["dw"+strconv.Itoa(d)]; ok {
			if sc.dWriteF[d], err = strconv.Atoi(v); err != nil {
				return nil, err
			}
		}
	}
	sc.q = kv["q"]
	if v, ok := kv["stop"]; ok && v != "n" {
		ps := strings.Split(v, "@")
		if len(ps) != 2 || (ps[0] != "g" && ps[0] != "f" && ps[0] != "s") {
			return nil, fmt.Errorf("bad stop")
		}
		sc.stopKind = ps[0][0]
		if sc.stopAt, err = strconv.Atoi(ps[1]); err != nil {
			return nil, err
		}
	}
	sc.gmp = geti("gmp", 2)
	sc.lat = geti("lat", 0) == 1
	if v, ok := kv["seed"]; ok {
		if sc.seed, err = strconv.ParseUint(v, 10, 64); err != nil {
			return nil, err
		}
	}
	if err != nil {
		return nil, err
	}
	return sc, nil
}

func (sc *scenario) String() string {
	var t []string
	t = append(t, "pipe", "n="+strconv.Itoa(sc.n), "m="+strconv.Itoa(sc.m))
	var rs []string
	for _, r := range sc.recs {
		rs = append(rs, strconv.Itoa(r))
	}
	t = append(t, "r="+strings.Join(rs, ","), fmt.Sprintf("w=%d/%d", sc.winSize, sc.winThr))
	for s := 0; s < sc.n; s++ {
		if len(sc.sp[s]) > 0 {
			t = append(t, "sp"+strconv.Itoa(s)+"="+fmtChain(sc.sp[s]))
		}
	}
	if len(sc.pp) > 0 {
		t = append(t, "pp="+fmtChain(sc.pp))
	}
	for d := 0; d < sc.m; d++ {
		if len(sc.dp[d]) > 0 {
			t = append(t, "dp"+strconv.Itoa(d)+"="+fmtChain(sc.dp[d]))
		}
	}
	for d := 0; d < sc.m; d++ {
		if sc.dReplies[d] != "" {
			t = append(t, "d"+strconv.Itoa(d)+"="+sc.dReplies[d])
		}
		if sc.dWriteF[d] >= 0 {
			t = append(t, "dw"+strconv.Itoa(d)+"="+strconv.Itoa(sc.dWriteF[d]))
		}
		if sc.dBatch[d] > 0 {
			t = append(t, "db"+strconv.Itoa(d)+"="+strconv.Itoa(sc.dBatch[d]))
		}
	}
	if sc.q != "" {
		t = append(t, "q="+sc.q)
	}
	for s := 0; s < sc.n; s++ {
		if sc.sa[s] != "" {
			t = append(t, "sa"+strconv.Itoa(s)+"="+sc.sa[s])
		}
	}
	if sc.stopKind == 'n' {
		t = append(t, "stop=n")
	} else {
		t = append(t, fmt.Sprintf("stop=%c@%d", sc.stopKind, sc.stopAt))
	}
	l := 0
	if sc.lat {
		l = 1
	}
	t = append(t, "gmp="+strconv.Itoa(sc.gmp), "lat="+strconv.Itoa(l), "seed="+strconv.FormatUint(sc.seed, 10))
	return strings.Join(t, " ")
}

// ---------------------------------------------------------------- generator

func genKinds(r *gen.Rand, n int, pctBad int, fatalOK bool) string {
	var b strings.Builder
	for i := 0; i < n; i++ {
		if r.Intn(100) >= pctBad {
			b.WriteByte('s')
			continue
		}
		if fatalOK && r.Chance(1, 6) {
			b.WriteByte("mzlpn"[r.Intn(5)])
		} else if r.Chance(1, 2) {
			b.WriteByte('f')
		} else {
			b.WriteByte('e')
		}
	}
	return b.String()
}

func genChain(r *gen.Rand, o *gen.Out, sc *scenario, perSource bool, own int, pctBad int, fatalOK bool) []procSpec {
	var c []procSpec
	k := r.Pick(5, 3, 1, 1)
	for j := 0; j < k; j++ {
		p := procSpec{workers: 1}
		if r.Chance(2, 5) {
			p.workers = r.Range(2, 4)
			o.Count("parallel-proc")
		}
		if perSource {
			for s := 0; s < sc.n; s++ {
				p.kinds = append(p.kinds, genKinds(r, sc.recs[s], pctBad, fatalOK))
			}
		} else {
			p.kinds = []string{genKinds(r, sc.recs[own], pctBad, fatalOK)}
		}
		c = append(c, p)
	}
	return c
}

func genReplies(r *gen.Rand, total int, pctNack int, malformed bool) string {
	var b strings.Builder
	for i := 0; i < total; {
		x := r.Intn(100)
		switch {
		case malformed && x < 4:
			b.WriteByte("exour"[r.Intn(5)])
			i++
		case x < 4+pctNack:
			b.WriteByte('n')
			i++
		case x < 30+pctNack:
			k := r.Range(2, 5)
			b.WriteByte(byte('0' + k))
			i += k
		default:
			b.WriteByte('a')
			i++
		}
	}
	return b.String()
}

// genScenario: structured generator. Most scenarios are well-formed (acks/nacks/filters/errors,
// batches of acks, parallel processors, several sources and destinations, stops at a random
// instant); a separate malformed stream adds empty / unknown / swapped / repeated acks, failing
// calls and wrong processor result shapes.
func genScenario(r *gen.Rand, o *gen.Out, i int) string {
	sc := &scenario{}
	sc.n = r.Pick(5, 3, 2) + 1
	sc.m = r.Pick(3, 4, 2, 1) + 1
	sc.recs = make([]int, sc.n)
	total := 0
	for s := range sc.recs {
		sc.recs[s] = r.Range(0, 8)
		if r.Chance(1, 8) {
			sc.recs[s] = r.Range(9, 20)
		}
		total += sc.recs[s]
	}
	malformed := i%4 == 3
	if malformed {
		o.Count("stream=malformed")
	} else {
		o.Count("stream=wellformed")
	}
	pctBad := []int{0, 5, 15, 30}[r.Intn(4)]
	// window: with several sources the order of window updates of different sources is not
	// observable, so verdict-sensitive windows are only generated for one source
	switch r.Pick(3, 2, 3) {
	case 0:
		sc.winSize, sc.winThr = 0, 0 // no limit
	case 1:
		sc.winSize, sc.winThr = r.Range(1, 5), 0 // tolerate none
	default:
		if sc.n == 1 {
			sc.winSize = r.Range(1, 6)
			sc.winThr = r.Range(1, sc.winSize+1)
		} else {
			sc.winSize, sc.winThr = 0, r.Range(0, 3)
		}
	}
	o.Count(fmt.Sprintf("topology=%dx%d", sc.n, sc.m))
	sc.sp = make([][]procSpec, sc.n)
	for s := 0; s < sc.n; s++ {
		if r.Chance(1, 3) {
			sc.sp[s] = genChain(r, o, sc, false, s, pctBad, malformed)
		}
	}
	if r.Chance(1, 2) {
		sc.pp = genChain(r, o, sc, true, 0, pctBad, malformed)
	}
	sc.dp = make([][]procSpec, sc.m)
	for d := 0; d < sc.m; d++ {
		if r.Chance(1, 4) {
			sc.dp[d] = genChain(r, o, sc, true, 0, pctBad, malformed)
		}
	}
	sc.dReplies = make([]string, sc.m)
	sc.dWriteF = make([]int, sc.m)
	pctNack := []int{0, 0, 5, 20}[r.Intn(4)]
	for d := 0; d < sc.m; d++ {
		sc.dWriteF[d] = -1
		if r.Chance(3, 4) {
			sc.dReplies[d] = genReplies(r, total, pctNack, malformed)
		}
		if malformed && r.Chance(1, 8) && total > 0 {
			sc.dWriteF[d] = r.Intn(total)
			o.Count("dest-write-fails")
		}
	}
	// batching family (graceful-stop drain): one destination rejects every record (so every record
	// is settled through the DLQ and the sources can drain), the others buffer what they are given
	// and acknowledge it only when their batch is full or at Stop(lastPosition) — with a batch
	// larger than the run the acks arrive only after the stop request, during the node's drain.
	// refused-result family (ParallelNode keeps order and loses nothing when one of its workers'
	// nodes stops): a parallel processor with 2-4 workers returns, for ONE early record, a result
	// the ProcessorNode refuses (changed position, MultiRecord, zero / two results, nil) — the record
	// is dead-lettered (tolerant DLQ) and that worker's node stops, the other workers go on; every
	// later record handed to the stopped worker must be dead-lettered too ("worker not running"),
	// never passed on unprocessed (destinations see the processors' stamps)
	refuse := !malformed && total >= 4 && r.Chance(1, 6)
	if refuse {
		o.Count("refused-result-parallel")
		src := 0
		for s := range sc.recs {
			if sc.recs[s] > sc.recs[src] {
				src = s
			}
		}
		bad := r.Intn(sc.recs[src]/3 + 1)
		mk := func(perSource bool) procSpec {
			p := procSpec{workers: r.Range(2, 4)}
			one := func(n int, hit bool) string {
				b := []byte(strings.Repeat("s", n))
				if hit && bad < n {
					b[bad] = "pmzln"[r.Intn(5)]
				}
				return string(b)
			}
			if perSource {
				for s := 0; s < sc.n; s++ {
					p.kinds = append(p.kinds, one(sc.recs[s], s == src))
				}
			} else {
				p.kinds = []string{one(sc.recs[src], true)}
			}
			return p
		}
		switch r.Pick(3, 2, 2) {
		case 0:
			sc.pp = []procSpec{mk(true)}
		case 1:
			sc.sp[src] = []procSpec{mk(false)}
		default:
			sc.dp[r.Intn(sc.m)] = []procSpec{mk(true)}
		}
		sc.winSize, sc.winThr = 0, 0
	}
	sc.dBatch = make([]int, sc.m)
	batching := !malformed && !refuse && sc.m >= 2 && total > 0 && r.Chance(1, 3)
	if batching {
		o.Count("batching-destination")
		dn := r.Intn(sc.m)
		for d := 0; d < sc.m; d++ {
			sc.dWriteF[d] = -1
			sc.dp[d] = nil
			if d == dn {
				sc.dReplies[d] = strings.Repeat("n", total+4)
				continue
			}
			sc.dReplies[d] = ""
			if r.Chance(3, 4) {
				sc.dBatch[d] = total + r.Range(1, 3)
			} else {
				sc.dBatch[d] = r.Range(2, total+1)
			}
		}
		sc.winSize, sc.winThr = 0, 0
		// no filters: a filtered record is acked (not rejected) by every branch, and the branch that
		// batches only gets to it after the written records in front of it, which it acknowledges
		// at Stop only — with a purely size based batching destination that run would never drain
		nofilter := func(c []procSpec) {
			for i := range c {
				for j := range c[i].kinds {
					c[i].kinds[j] = strings.ReplaceAll(c[i].kinds[j], "f", "s")
				}
			}
		}
		for s := range sc.sp {
			nofilter(sc.sp[s])
		}
		nofilter(sc.pp)
	}
	if !batching && !refuse && r.Chance(1, 3) {
		var b strings.Builder
		for j := 0; j < 6; j++ {
			if r.Chance(1, 4) {
				b.WriteByte("wnexr"[r.Intn(5)])
			} else {
				b.WriteByte('o')
			}
		}
		sc.q = b.String()
		o.Count("dlq-faults")
	}
	sc.sa = make([]string, sc.n)
	for s := 0; s < sc.n; s++ {
		if !batching && r.Chance(1, 8) && sc.recs[s] > 0 {
			k := r.Intn(sc.recs[s])
			sc.sa[s] = strings.Repeat("o", k) + string("rf"[r.Intn(2)])
			o.Count("source-ack-faults")
		}
	}
	switch r.Pick(5, 3, 2) {
	case 0:
		sc.stopKind = 'n'
	case 1:
		sc.stopKind, sc.stopAt = "gs"[r.Intn(2)], r.Range(0, total)
	default:
		sc.stopKind, sc.stopAt = 'f', r.Range(0, total)
		if batching {
			sc.stopKind = "gs"[r.Intn(2)]
		}
	}
	o.Count("stop=" + string(sc.stopKind))
	sc.gmp = []int{1, 2, 4, 16}[r.Intn(4)]
	sc.lat = r.Chance(1, 2)
	sc.seed = r.U64() % 1000000
	o.Count("gmp=" + strconv.Itoa(sc.gmp))
	return sc.String()
}

func sortedKeys(m map[string]int) []string {
	ks := make([]string, 0, len(m))
	for k := range m {
		ks = append(ks, k)
	}
	sort.Strings(ks)
	return ks
}
