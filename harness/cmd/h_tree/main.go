// h_tree ties the Lean model of the arch-v2 task-tree construction (Model/TreeBuild.lean) to the
// real code: it drives the REAL lifecycle-poc service builder (buildRunnablePipeline, through the
// verif hook VerifBuildTrees, with the real connector and processor services on an in-memory
// store), the real buildSharedTail and the real funnel.(*TaskNode).AppendToEnd, and prints the
// resulting trees canonically.
//
//	h_tree -comp treeshape|appendtoend|rebuild -seed 1 -n 2000 -out DIR [-replay FILE]
//
// Case lines
//
//	treeshape:    pipe P=<procs> C=<conn>;<conn>;…      conn = <s|d|x><id>:<procs>   procs = - | <id>[?],…
//	              tail P=<ids> B=<branch>;<branch>;…    branch = - | <K><id>.<K><id>…   (direct call of buildSharedTail)
//	appendtoend:  <tree> + <tree>,<tree>,… | <tree> + -
//
// (`x` = an id in pl.ConnectorIDs that no connector has, `<id>?` = a processor id nobody created.)
//	rebuild:      <v1|v2> P=<procs> C=<conn>;… | <step>,<step>,… => <observed>      (see rebuild.go)
//
// Result lines: `ok <tree> | <tree> …` (one tree per worker / shared root) or `err:<class>`;
// appendtoend: `ok <tree>` or `err <receiver tree afterwards>`. Trees are written K<id>(child,child…),
// K = S | P | D by the Go type of the task (*SourceTask / *ProcessorTask / *DestinationTask).
package main

import (
	"bufio"
	"flag"
	"fmt"
	"os"
	"strings"

	"verif/harness/gen"
)

type component struct {
	gen        func(r *gen.Rand, o *gen.Out) string
	run        func(line string) string
	nontrivial func(line, res string) bool
	// trace components: the case line given to the Lean driver is `<line> => <what the real code
	// did>` and the implementation line is `ok` (the driver accepts the trace against the model
	// and evaluates the property monitor on it); on -replay only the part before `=>` is used.
	trace bool
}

var components = map[string]component{
	"treeshape":   {gen: genTreeShape, run: runTreeShape, nontrivial: ntTreeShape},
	"appendtoend": {gen: genAppend, run: runAppend, nontrivial: ntAppend},
	"rebuild":     {gen: genRebuild, run: runRebuild, nontrivial: ntRebuild, trace: true},
}

func main() {
	comp := flag.String("comp", "", "component")
	seed := flag.Uint64("seed", 1, "seed")
	n := flag.Int("n", 1000, "number of generated cases")
	out := flag.String("out", "", "output directory")
	replay := flag.String("replay", "", "file of case lines to run instead of generating (corpus / replay)")
	flag.Parse()
	c, ok := components[*comp]
	if !ok {
		fmt.Fprintln(os.Stderr, "unknown component", *comp)
		os.Exit(2)
	}
	o := gen.NewOut(*out, *comp)
	defer o.Close()
	if *replay != "" {
		f, err := os.Open(*replay)
		if err != nil {
			panic(err)
		}
		sc := bufio.NewScanner(f)
		sc.Buffer(make([]byte, 1<<20), 1<<26)
		for sc.Scan() {
			l := strings.TrimSpace(sc.Text())
			if l == "" || strings.HasPrefix(l, "#") {
				continue
			}
			record(o, c, l)
		}
		return
	}
	r := gen.New(*seed)
	for i := 0; i < *n; i++ {
		record(o, c, c.gen(r, o))
	}
}

func record(o *gen.Out, c component, l string) {
	if !c.trace {
		res := safeRun(c, l)
		o.Case(l, res, c.nontrivial(l, res))
		return
	}
	head, _, _ := strings.Cut(l, "=>")
	head = strings.TrimSpace(head)
	res := safeRun(c, head)
	impl := "ok"
	if res == "panic" {
		impl = "panic"
	}
	o.Case(head+" => "+res, impl, c.nontrivial(head, res))
}

func safeRun(c component, l string) (res string) {
	defer func() {
		if p := recover(); p != nil {
			res = "panic"
		}
	}()
	return c.run(l)
}
