package main

// Component `treeshape`: the REAL lifecycle-poc builder on generated pipeline configurations.
//
// `pipe` lines: a fresh lifecyclepoc.Service is wired to the real connector.Service and
// processor.Service (in-memory store; connector plugins and the processor registry are fakes that
// are never asked to do anything during a build), the connectors / processors of the case are
// created through those services, and VerifBuildTrees (= buildRunnablePipeline) is called on a
// pipeline.Instance carrying the case's ConnectorIDs / ProcessorIDs. Nothing is started.
// `tail` lines call buildSharedTail directly (also with arguments the service never passes).

import (
	"context"
	"errors"
	"fmt"
	"strconv"
	"strings"
	"time"

	"github.com/conduitio/conduit-commons/database/inmemory"
	sdk "github.com/conduitio/conduit-processor-sdk"
	"github.com/conduitio/conduit/pkg/connector"
	"github.com/conduitio/conduit/pkg/foundation/log"
	"github.com/conduitio/conduit/pkg/lifecycle"
	lifecyclepoc "github.com/conduitio/conduit/pkg/lifecycle-poc"
	"github.com/conduitio/conduit/pkg/lifecycle-poc/funnel"
	"github.com/conduitio/conduit/pkg/pipeline"
	connectorPlugin "github.com/conduitio/conduit/pkg/plugin/connector"
	"github.com/conduitio/conduit/pkg/plugin/processor/egress"
	"github.com/conduitio/conduit/pkg/processor"

	"verif/harness/gen"
)

// ---------------------------------------------------------------- fakes (never used during a build)

type connPlugins struct{}

func (connPlugins) NewDispenser(log.CtxLogger, string, string) (connectorPlugin.Dispenser, error) {
	return noDispenser{}, nil
}

type noDispenser struct{}

var errNoPlugin = errors.New("verif: no plugin")

func (noDispenser) DispenseSpecifier() (connectorPlugin.SpecifierPlugin, error) {
	return nil, errNoPlugin
}
func (noDispenser) DispenseSource() (connectorPlugin.SourcePlugin, error) { return nil, errNoPlugin }
func (noDispenser) DispenseDestination() (connectorPlugin.DestinationPlugin, error) {
	return nil, errNoPlugin
}

type procRegistry struct{}

type nopProcessor struct{ sdk.UnimplementedProcessor }

func (procRegistry) NewProcessor(context.Context, string, string, egress.Policy) (sdk.Processor, error) {
	return nopProcessor{}, nil
}

type noPipelines struct{}

func (noPipelines) Get(context.Context, string) (*pipeline.Instance, error) {
	return nil, errors.New("verif: unused")
}
func (noPipelines) List(context.Context) map[string]*pipeline.Instance { return nil }
func (noPipelines) UpdateStatus(context.Context, string, pipeline.Status, string) error {
	return nil
}

// ---------------------------------------------------------------- case lines

type procRef struct {
	id    string
	found bool
}

type connCfg struct {
	kind  byte // s | d | x
	id    string
	procs []procRef
}

func parseID(s string) (string, bool) {
	if s == "" {
		return "", false
	}
	for _, c := range s {
		if c < '0' || c > '9' {
			return "", false
		}
	}
	v, err := strconv.ParseUint(s, 10, 32)
	if err != nil {
		return "", false
	}
	return strconv.FormatUint(v, 10), true
}

func parseProcs(s string) ([]procRef, bool) {
	if s == "-" {
		return nil, true
	}
	var out []procRef
	for _, t := range strings.Split(s, ",") {
		found := true
		if strings.HasSuffix(t, "?") {
			found = false
			t = t[:len(t)-1]
		}
		id, ok := parseID(t)
		if !ok {
			return nil, false
		}
		out = append(out, procRef{id, found})
	}
	return out, true
}

func parsePipe(fields []string) (pprocs []procRef, conns []connCfg, ok bool) {
	if len(fields) != 3 || !strings.HasPrefix(fields[1], "P=") || !strings.HasPrefix(fields[2], "C=") {
		return nil, nil, false
	}
	pprocs, ok = parseProcs(fields[1][2:])
	if !ok {
		return nil, nil, false
	}
	cs := fields[2][2:]
	if cs != "-" {
		for _, t := range strings.Split(cs, ";") {
			if len(t) < 1 || !strings.ContainsRune("sdx", rune(t[0])) {
				return nil, nil, false
			}
			ids, ps, ok2 := strings.Cut(t[1:], ":")
			if !ok2 {
				return nil, nil, false
			}
			id, ok3 := parseID(ids)
			procs, ok4 := parseProcs(ps)
			if !ok3 || !ok4 {
				return nil, nil, false
			}
			conns = append(conns, connCfg{t[0], id, procs})
		}
	}
	// one id names one entity: a connector id listed twice must carry the same kind and processor
	// list, a processor id the same found-flag
	found := map[string]bool{}
	all := append([]procRef{}, pprocs...)
	for _, c := range conns {
		all = append(all, c.procs...)
	}
	for _, p := range all {
		if f, seen := found[p.id]; seen && f != p.found {
			return nil, nil, false
		}
		found[p.id] = p.found
	}
	first := map[string]connCfg{}
	for _, c := range conns {
		if f, seen := first[c.id]; seen {
			if f.kind != c.kind || fmt.Sprint(f.procs) != fmt.Sprint(c.procs) {
				return nil, nil, false
			}
		} else {
			first[c.id] = c
		}
	}
	return pprocs, conns, true
}

func must[T any](v T, err error) T {
	if err != nil {
		panic(err)
	}
	return v
}

func classify(err error) string {
	m := err.Error()
	treeErr := func() string {
		switch {
		case strings.Contains(m, "destination branch has no tasks"):
			return "emptyBranch"
		case strings.Contains(m, "multiple next tasks"):
			return "multiNext"
		}
		return "other(" + m + ")"
	}
	switch {
	case strings.Contains(m, "failed to build shared sink task graph"):
		return "err:tail:" + treeErr()
	case strings.Contains(m, "failed to build shared sink:"):
		return "err:sink"
	case strings.Contains(m, "failed to append task to task node list"), strings.Contains(m, "failed to attach shared sink"):
		return "err:append:" + treeErr()
	case strings.Contains(m, "failed to create worker"):
		return "err:worker"
	case strings.Contains(m, "without any source connectors"):
		return "err:nosrc"
	case strings.Contains(m, "without any destination connectors"):
		return "err:nodst"
	case errors.Is(err, processor.ErrProcessorRunning):
		return "err:running"
	case errors.Is(err, connector.ErrConnectorRunning):
		return "err:connrunning"
	case strings.Contains(m, "could not fetch connector"):
		return "err:connector"
	case strings.Contains(m, "could not fetch processor"):
		return "err:processor"
	}
	return "err:other(" + m + ")"
}

func runPipe(fields []string) string {
	pprocs, conns, ok := parsePipe(fields)
	if !ok {
		return "bad-op"
	}
	ctx := context.Background()
	logger := log.Nop()
	db := &inmemory.DB{}
	persister := connector.NewPersister(logger, db, time.Hour, 1<<20)
	connSvc := connector.NewService(logger, db, persister)
	procSvc := processor.NewService(logger, db, procRegistry{})

	const plID = "verif-pl"
	created := map[string]bool{}
	mkProcs := func(ps []procRef, parent processor.Parent) {
		for _, p := range ps {
			if p.found && !created[p.id] {
				created[p.id] = true
				must(procSvc.Create(ctx, p.id, "builtin:verif", parent, processor.Config{Settings: map[string]string{}}, processor.ProvisionTypeAPI, ""))
			}
		}
	}
	mkProcs(pprocs, processor.Parent{ID: plID, Type: processor.ParentTypePipeline})
	pl := &pipeline.Instance{ID: plID, Config: pipeline.Config{Name: "verif-pipeline"}, DLQ: pipeline.DefaultDLQ}
	seen := map[string]bool{}
	for _, c := range conns {
		pl.ConnectorIDs = append(pl.ConnectorIDs, c.id)
		if c.kind == 'x' || seen[c.id] {
			continue
		}
		seen[c.id] = true
		typ := connector.TypeSource
		if c.kind == 'd' {
			typ = connector.TypeDestination
		}
		must(connSvc.Create(ctx, c.id, typ, "builtin:verif", plID, connector.Config{Name: "c" + c.id, Settings: map[string]string{}}, connector.ProvisionTypeAPI))
		mkProcs(c.procs, processor.Parent{ID: c.id, Type: processor.ParentTypeConnector})
		for _, p := range c.procs {
			must(connSvc.AddProcessor(ctx, c.id, p.id))
		}
	}
	for _, p := range pprocs {
		pl.ProcessorIDs = append(pl.ProcessorIDs, p.id)
	}
	rec := &lifecycle.ErrRecoveryCfg{MinDelay: time.Millisecond, MaxDelay: time.Millisecond, BackoffFactor: 2, MaxRetries: 0, MaxRetriesWindow: time.Second}
	svc := lifecyclepoc.NewService(logger, rec, connSvc, procSvc, connPlugins{}, noPipelines{}, true)
	roots, err := svc.VerifBuildTrees(ctx, pl)
	if err != nil {
		return classify(err)
	}
	return "ok " + treesString(roots)
}

func runTail(fields []string) string {
	if len(fields) != 3 || !strings.HasPrefix(fields[1], "P=") || !strings.HasPrefix(fields[2], "B=") {
		return "bad-op"
	}
	ps, ok := parseProcs(fields[1][2:])
	if !ok {
		return "bad-op"
	}
	var procTasks []funnel.Task
	for _, p := range ps {
		if !p.found {
			return "bad-op"
		}
		procTasks = append(procTasks, mkTask('P', p.id))
	}
	var destTasks [][]funnel.Task
	if bs := fields[2][2:]; bs != "none" {
		for _, b := range strings.Split(bs, ";") {
			var branch []funnel.Task
			if b != "-" {
				for _, t := range strings.Split(b, ".") {
					if len(t) < 2 || !strings.ContainsRune("SPD", rune(t[0])) {
						return "bad-op"
					}
					id, ok := parseID(t[1:])
					if !ok {
						return "bad-op"
					}
					branch = append(branch, mkTask(t[0], id))
				}
			}
			destTasks = append(destTasks, branch)
		}
	}
	roots, err := lifecyclepoc.VerifBuildSharedTail(procTasks, destTasks)
	if err != nil {
		m := err.Error()
		switch {
		case strings.Contains(m, "destination branch has no tasks"):
			return "err:emptyBranch"
		case strings.Contains(m, "multiple next tasks"):
			return "err:multiNext"
		}
		return "err:other(" + m + ")"
	}
	return "ok " + treesString(roots)
}

func runTreeShape(line string) string {
	fields := strings.Fields(line)
	if len(fields) == 0 {
		return "bad-op"
	}
	switch fields[0] {
	case "pipe":
		return runPipe(fields)
	case "tail":
		return runTail(fields)
	}
	return "bad-op"
}

// non-trivial: a tree with a fan-out was built, or a build was refused
func ntTreeShape(_, res string) bool {
	return strings.HasPrefix(res, "err:") || strings.Contains(res, ",")
}

// ---------------------------------------------------------------- generators

func procsStr(ps []string) string {
	if len(ps) == 0 {
		return "-"
	}
	return strings.Join(ps, ",")
}

func genTreeShape(r *gen.Rand, o *gen.Out) string {
	if r.Chance(1, 5) {
		return genTail(r, o)
	}
	// distinct ids, handed out in a random order
	pool := make([]int, 40)
	for i := range pool {
		pool[i] = i + 1
	}
	for i := len(pool) - 1; i > 0; i-- {
		j := r.Intn(i + 1)
		pool[i], pool[j] = pool[j], pool[i]
	}
	next := 0
	fresh := func() string { next++; return strconv.Itoa(pool[next-1]) }
	nsrc, ndst, npp := r.Range(1, 3), r.Range(1, 4), r.Range(0, 3)
	type conn struct {
		kind  string
		id    string
		procs []string
	}
	var conns []conn
	for i := 0; i < nsrc; i++ {
		c := conn{kind: "s", id: fresh()}
		for j := r.Range(0, 2); j > 0; j-- {
			c.procs = append(c.procs, fresh())
		}
		conns = append(conns, c)
	}
	for i := 0; i < ndst; i++ {
		c := conn{kind: "d", id: fresh()}
		for j := r.Range(0, 2); j > 0; j-- {
			c.procs = append(c.procs, fresh())
		}
		conns = append(conns, c)
	}
	// pl.ConnectorIDs is in creation order, sources and destinations interleaved
	for i := len(conns) - 1; i > 0; i-- {
		j := r.Intn(i + 1)
		conns[i], conns[j] = conns[j], conns[i]
	}
	var pprocs []string
	for i := 0; i < npp; i++ {
		pprocs = append(pprocs, fresh())
	}
	o.Count(fmt.Sprintf("src:%d", nsrc))
	o.Count(fmt.Sprintf("dst:%d", ndst))
	o.Count(fmt.Sprintf("pprocs:%d", npp))
	allProcs := func() []*string {
		var out []*string
		for i := range pprocs {
			out = append(out, &pprocs[i])
		}
		for i := range conns {
			for j := range conns[i].procs {
				out = append(out, &conns[i].procs[j])
			}
		}
		return out
	}
	if r.Chance(1, 4) {
		switch d := r.Intn(10); d {
		case 0: // no source
			o.Count("deg:nosrc")
			var keep []conn
			for _, c := range conns {
				if c.kind != "s" {
					keep = append(keep, c)
				}
			}
			conns = keep
		case 1: // no destination
			o.Count("deg:nodst")
			var keep []conn
			for _, c := range conns {
				if c.kind != "d" {
					keep = append(keep, c)
				}
			}
			conns = keep
		case 2: // an id in ConnectorIDs without a connector
			o.Count("deg:missing-connector")
			at := r.Intn(len(conns) + 1)
			conns = append(conns[:at], append([]conn{{kind: "x", id: fresh()}}, conns[at:]...)...)
		case 3: // a processor id nobody created
			o.Count("deg:missing-processor")
			if ps := allProcs(); len(ps) > 0 {
				p := ps[r.Intn(len(ps))]
				*p += "?"
			}
		case 4: // one processor instance referenced twice
			o.Count("deg:processor-twice")
			if ps := allProcs(); len(ps) > 1 {
				a, b := r.Intn(len(ps)), r.Intn(len(ps))
				if a != b {
					*ps[a] = *ps[b]
				}
			}
		case 5: // the same connector listed twice
			o.Count("deg:connector-twice")
			c := conns[r.Intn(len(conns))]
			at := r.Intn(len(conns) + 1)
			conns = append(conns[:at], append([]conn{c}, conns[at:]...)...)
		case 6, 7: // a connector id equal to a processor id (separate id spaces in the code)
			o.Count("deg:connector-id=processor-id")
			if ps := allProcs(); len(ps) > 0 {
				ci := r.Intn(len(conns))
				conns[ci].id = strings.TrimSuffix(*ps[r.Intn(len(ps))], "?")
			}
		case 8: // no connectors at all
			o.Count("deg:empty")
			conns = nil
		case 9: // malformed line
			o.Count("deg:malformed")
			return "pipe P=" + procsStr(pprocs) + " C=s1:;d"
		}
	}
	cs := make([]string, len(conns))
	for i, c := range conns {
		cs[i] = c.kind + c.id + ":" + procsStr(c.procs)
	}
	c := strings.Join(cs, ";")
	if c == "" {
		c = "-"
	}
	return "pipe P=" + procsStr(pprocs) + " C=" + c
}

func genTail(r *gen.Rand, o *gen.Out) string {
	id := 0
	fresh := func() string { id++; return strconv.Itoa(id) }
	var ps []string
	for i := r.Range(0, 3); i > 0; i-- {
		ps = append(ps, fresh())
	}
	nb := r.Range(0, 4)
	o.Count(fmt.Sprintf("tail:branches:%d", nb))
	if nb == 0 {
		return "tail P=" + procsStr(ps) + " B=none"
	}
	bs := make([]string, nb)
	for i := range bs {
		nt := r.Pick(8, 40, 35, 17) // tasks in the branch: 0 is the "(bug)" exit
		if nt == 0 {
			o.Count("tail:empty-branch")
			bs[i] = "-"
			continue
		}
		ts := make([]string, nt)
		for j := range ts {
			k := "P"
			if j == nt-1 && r.Chance(9, 10) {
				k = "D"
			} else if r.Chance(1, 10) {
				k = string("SPD"[r.Intn(3)])
			}
			ts[j] = k + fresh()
		}
		bs[i] = strings.Join(ts, ".")
	}
	return "tail P=" + procsStr(ps) + " B=" + strings.Join(bs, ";")
}
