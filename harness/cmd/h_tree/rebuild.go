package main

// Component `rebuild` (C11: "once a run has ended its connectors and processors are released so the
// pipeline can be started again", restricted to processor reservations and Start's build step).
//
// A case is a pipeline configuration and a sequence of steps against ONE set of real services
// (connector.Service, processor.Service on an in-memory store) and the real lifecycle service of
// the chosen engine (v1 pkg/lifecycle, v2 pkg/lifecycle-poc):
//
//	<v1|v2> P=<procs> C=<conn>;<conn>;… | <step>,<step>,…
//
//	b         one buildRunnablePipeline call (what Start does first) through the verif hook
//	          (v2 VerifBuildRunnable, v1 VerifBuildNodes); a successful build stays "live"
//	t         every live run ends the way runPipeline ends it: v2 Worker.Close of every worker, then
//	          Sink.Close; v1 every ProcessorNode's Run returns (run with a cancelled context: the
//	          deferred Processor.Teardown executes)
//	mk<id>    create the processor instance <id> (repairs an unknown processor id)
//	rmp<id>   drop <id> from pl.ProcessorIDs and from every connector's ProcessorIDs
//	rmc<id>   drop connector <id> from pl.ConnectorIDs
//	adds<id> / addd<id>   create a source / destination connector without processors and add it
//	fp<id> / fc<id> / fx  from now on Open of processor <id> / of the plugin of connector <id> fails (fatal error) / nothing fails
//	s         the real Start(ctx, pipelineID): build, then the engine's open phase (v2 runPipeline: sink.Open, every
//	          worker.Open, with the rollback it performs on a failure; v1: every node's Run opens its own connector /
//	          processor). v2: a started run stays live until `t` (Stop graceful + WaitPipeline). v1: the run is
//	          force-stopped at once and awaited (whether its nodes opened or died), so `s` reports the state after the run ended
//
// Observed, per `b`: `ok{…}` or `err:<class>{…}`, per `s`: `s:ok{…}` (v2) / `s:ran{…}` (v1) / `s:err:<class>{…}` with the
// additional classes `open` (v2 open phase failed) and `plrunning`, per `t`: `t{…}`, where {…} is the set of processor
// instances that are reserved (`running`) afterwards (a trailing `double-teardown` token: some processor plugin instance was
// torn down twice, which a standalone / WASM processor does not survive - never expected) — probed through the public API:
// processor.Service.Update refuses a reserved instance with ErrProcessorRunning. The recorded case
// line is `<case> => <observed>`; the Lean driver accepts it against Model/Rebuild.lean and
// evaluates the C11 monitor `noLeakAfterFailedBuild`.

import (
	"context"
	"errors"
	"fmt"
	"sort"
	"strconv"
	"strings"
	"sync"
	"sync/atomic"
	"time"

	"github.com/conduitio/conduit-commons/database/inmemory"
	"github.com/conduitio/conduit-connector-protocol/pconnector"
	sdk "github.com/conduitio/conduit-processor-sdk"
	"github.com/conduitio/conduit/pkg/foundation/cerrors"
	"github.com/conduitio/conduit/pkg/connector"
	"github.com/conduitio/conduit/pkg/foundation/log"
	"github.com/conduitio/conduit/pkg/lifecycle"
	lifecyclepoc "github.com/conduitio/conduit/pkg/lifecycle-poc"
	"github.com/conduitio/conduit/pkg/lifecycle/stream"
	"github.com/conduitio/conduit/pkg/pipeline"
	connectorPlugin "github.com/conduitio/conduit/pkg/plugin/connector"
	"github.com/conduitio/conduit/pkg/plugin/connector/builtin"
	"github.com/conduitio/conduit/pkg/plugin/processor/egress"
	"github.com/conduitio/conduit/pkg/processor"

	"verif/harness/gen"
)

type rbWorld struct {
	ctx     context.Context
	connSvc *connector.Service
	procSvc *processor.Service
	pl      *pipeline.Instance
	procs   map[string]bool // processor instances created
	conns   map[string]bool // connector instances created
	listed  map[string]bool // ids that ever were in pl.ConnectorIDs (incl. unknown ones)
	v1      *lifecycle.Service
	v2      *lifecyclepoc.Service
	live    []func()
	mu       sync.Mutex
	failProc map[string]bool
	failConn map[string]bool
	// a processor plugin instance was torn down twice (unsafe for standalone processors)
	doubleTeardown bool
}

// ---------------------------------------------------------------- plugins of the rebuild world: they open, run idle and stop;
// Open fails (fatally: no recovery restart) for the ids the case marked

var errOpenInjected = cerrors.FatalError(errors.New("verif: injected open failure"))

func (w *rbWorld) fails(m map[string]bool, id string) bool {
	w.mu.Lock()
	defer w.mu.Unlock()
	return m[id]
}

type rbPlugins struct{ w *rbWorld }

func (p rbPlugins) NewDispenser(_ log.CtxLogger, _ string, connectorID string) (connectorPlugin.Dispenser, error) {
	return rbDispenser{p.w, connectorID}, nil
}

type rbDispenser struct {
	w  *rbWorld
	id string
}

func (d rbDispenser) DispenseSpecifier() (connectorPlugin.SpecifierPlugin, error) {
	return nil, errNoPlugin
}
func (d rbDispenser) DispenseSource() (connectorPlugin.SourcePlugin, error) {
	return &rbSource{d.w, d.id}, nil
}
func (d rbDispenser) DispenseDestination() (connectorPlugin.DestinationPlugin, error) {
	return &rbDest{d.w, d.id}, nil
}

type rbSource struct {
	w  *rbWorld
	id string
}

func (q *rbSource) Configure(context.Context, pconnector.SourceConfigureRequest) (pconnector.SourceConfigureResponse, error) {
	return pconnector.SourceConfigureResponse{}, nil
}
func (q *rbSource) Open(context.Context, pconnector.SourceOpenRequest) (pconnector.SourceOpenResponse, error) {
	if q.w.fails(q.w.failConn, q.id) {
		return pconnector.SourceOpenResponse{}, errOpenInjected
	}
	return pconnector.SourceOpenResponse{}, nil
}
func (q *rbSource) NewStream() pconnector.SourceRunStream { return &builtin.InMemorySourceRunStream{} }
func (q *rbSource) Run(ctx context.Context, stream pconnector.SourceRunStream) error {
	st, ok := stream.(*builtin.InMemorySourceRunStream)
	if !ok {
		return errors.New("verif: unexpected stream type")
	}
	st.Init(ctx)
	return nil
}
func (q *rbSource) Stop(context.Context, pconnector.SourceStopRequest) (pconnector.SourceStopResponse, error) {
	return pconnector.SourceStopResponse{}, nil
}
func (q *rbSource) Teardown(context.Context, pconnector.SourceTeardownRequest) (pconnector.SourceTeardownResponse, error) {
	return pconnector.SourceTeardownResponse{}, nil
}
func (q *rbSource) LifecycleOnCreated(context.Context, pconnector.SourceLifecycleOnCreatedRequest) (pconnector.SourceLifecycleOnCreatedResponse, error) {
	return pconnector.SourceLifecycleOnCreatedResponse{}, nil
}
func (q *rbSource) LifecycleOnUpdated(context.Context, pconnector.SourceLifecycleOnUpdatedRequest) (pconnector.SourceLifecycleOnUpdatedResponse, error) {
	return pconnector.SourceLifecycleOnUpdatedResponse{}, nil
}
func (q *rbSource) LifecycleOnDeleted(context.Context, pconnector.SourceLifecycleOnDeletedRequest) (pconnector.SourceLifecycleOnDeletedResponse, error) {
	return pconnector.SourceLifecycleOnDeletedResponse{}, nil
}

type rbDest struct {
	w  *rbWorld
	id string
}

func (d *rbDest) Configure(context.Context, pconnector.DestinationConfigureRequest) (pconnector.DestinationConfigureResponse, error) {
	return pconnector.DestinationConfigureResponse{}, nil
}
func (d *rbDest) Open(context.Context, pconnector.DestinationOpenRequest) (pconnector.DestinationOpenResponse, error) {
	if d.w.fails(d.w.failConn, d.id) {
		return pconnector.DestinationOpenResponse{}, errOpenInjected
	}
	return pconnector.DestinationOpenResponse{}, nil
}
func (d *rbDest) NewStream() pconnector.DestinationRunStream {
	return &builtin.InMemoryDestinationRunStream{}
}
func (d *rbDest) Run(ctx context.Context, stream pconnector.DestinationRunStream) error {
	st, ok := stream.(*builtin.InMemoryDestinationRunStream)
	if !ok {
		return errors.New("verif: unexpected stream type")
	}
	st.Init(ctx)
	return nil
}
func (d *rbDest) Stop(context.Context, pconnector.DestinationStopRequest) (pconnector.DestinationStopResponse, error) {
	return pconnector.DestinationStopResponse{}, nil
}
func (d *rbDest) Teardown(context.Context, pconnector.DestinationTeardownRequest) (pconnector.DestinationTeardownResponse, error) {
	return pconnector.DestinationTeardownResponse{}, nil
}
func (d *rbDest) LifecycleOnCreated(context.Context, pconnector.DestinationLifecycleOnCreatedRequest) (pconnector.DestinationLifecycleOnCreatedResponse, error) {
	return pconnector.DestinationLifecycleOnCreatedResponse{}, nil
}
func (d *rbDest) LifecycleOnUpdated(context.Context, pconnector.DestinationLifecycleOnUpdatedRequest) (pconnector.DestinationLifecycleOnUpdatedResponse, error) {
	return pconnector.DestinationLifecycleOnUpdatedResponse{}, nil
}
func (d *rbDest) LifecycleOnDeleted(context.Context, pconnector.DestinationLifecycleOnDeletedRequest) (pconnector.DestinationLifecycleOnDeletedResponse, error) {
	return pconnector.DestinationLifecycleOnDeletedResponse{}, nil
}

type rbProcRegistry struct{ w *rbWorld }

type rbProcessor struct {
	sdk.UnimplementedProcessor
	w         *rbWorld
	id        string
	teardowns atomic.Int32
}

func (p *rbProcessor) Open(context.Context) error {
	if p.w.fails(p.w.failProc, p.id) {
		return errOpenInjected
	}
	return nil
}

// Teardown: a standalone (WASM) processor closes its command channel here, so a second Teardown of
// the same plugin instance panics in the real thing - it is recorded and reported as `double-teardown`.
func (p *rbProcessor) Teardown(context.Context) error {
	if p.teardowns.Add(1) > 1 {
		p.w.mu.Lock()
		p.w.doubleTeardown = true
		p.w.mu.Unlock()
	}
	return nil
}

func (r rbProcRegistry) NewProcessor(_ context.Context, _ string, id string, _ egress.Policy) (sdk.Processor, error) {
	return &rbProcessor{w: r.w, id: id}, nil
}

// rbPipelines is the PipelineService of the lifecycle service: the one pipeline of the case.
type rbPipelines struct{ w *rbWorld }

func (p rbPipelines) Get(_ context.Context, id string) (*pipeline.Instance, error) {
	if id != p.w.pl.ID {
		return nil, pipeline.ErrInstanceNotFound
	}
	return p.w.pl, nil
}
func (p rbPipelines) List(context.Context) map[string]*pipeline.Instance {
	return map[string]*pipeline.Instance{p.w.pl.ID: p.w.pl}
}
func (p rbPipelines) UpdateStatus(_ context.Context, id string, st pipeline.Status, msg string) error {
	if id == p.w.pl.ID {
		p.w.pl.SetStatus(st)
	}
	return nil
}

const rbPlugin = "builtin:verif"

func (w *rbWorld) mkProc(id string) {
	if w.procs[id] {
		return
	}
	w.procs[id] = true
	must(w.procSvc.Create(w.ctx, id, rbPlugin, processor.Parent{ID: w.pl.ID, Type: processor.ParentTypePipeline},
		processor.Config{Settings: map[string]string{}}, processor.ProvisionTypeAPI, ""))
}

func (w *rbWorld) mkConn(kind byte, id string, procs []procRef) {
	w.listed[id] = true
	if kind == 'x' || w.conns[id] {
		return
	}
	w.conns[id] = true
	typ := connector.TypeSource
	if kind == 'd' {
		typ = connector.TypeDestination
	}
	must(w.connSvc.Create(w.ctx, id, typ, rbPlugin, w.pl.ID, connector.Config{Name: "c" + id, Settings: map[string]string{}}, connector.ProvisionTypeAPI))
	for _, p := range procs {
		if p.found {
			w.mkProc(p.id)
		}
		must(w.connSvc.AddProcessor(w.ctx, id, p.id))
	}
}

func newRbWorld(eng string, pprocs []procRef, conns []connCfg) *rbWorld {
	logger := log.Nop()
	db := &inmemory.DB{}
	w := &rbWorld{ctx: context.Background(), procs: map[string]bool{}, conns: map[string]bool{}, listed: map[string]bool{},
		failProc: map[string]bool{}, failConn: map[string]bool{}}
	w.connSvc = connector.NewService(logger, db, connector.NewPersister(logger, db, time.Millisecond, 1))
	w.procSvc = processor.NewService(logger, db, rbProcRegistry{w})
	w.pl = &pipeline.Instance{ID: "verif-pl", Config: pipeline.Config{Name: "verif-pipeline"}, DLQ: pipeline.DefaultDLQ}
	for _, p := range pprocs {
		if p.found {
			w.mkProc(p.id)
		}
		w.pl.ProcessorIDs = append(w.pl.ProcessorIDs, p.id)
	}
	for _, c := range conns {
		w.pl.ConnectorIDs = append(w.pl.ConnectorIDs, c.id)
		w.mkConn(c.kind, c.id, c.procs)
	}
	rec := &lifecycle.ErrRecoveryCfg{MinDelay: time.Millisecond, MaxDelay: time.Millisecond, BackoffFactor: 2, MaxRetries: 0, MaxRetriesWindow: time.Second}
	if eng == "v1" {
		w.v1 = lifecycle.NewService(logger, rec, w.connSvc, w.procSvc, rbPlugins{w}, rbPipelines{w})
	} else {
		w.v2 = lifecyclepoc.NewService(logger, rec, w.connSvc, w.procSvc, rbPlugins{w}, rbPipelines{w}, true)
	}
	return w
}

// held probes every processor instance through the public API.
func (w *rbWorld) held() string {
	var ids []int
	for id := range w.procs {
		_, err := w.procSvc.Update(w.ctx, id, rbPlugin, processor.Config{Settings: map[string]string{}, Workers: 1})
		if err != nil {
			if !errors.Is(err, processor.ErrProcessorRunning) {
				panic(err)
			}
			n, _ := strconv.Atoi(id)
			ids = append(ids, n)
		}
	}
	sort.Ints(ids)
	ss := make([]string, len(ids))
	for i, n := range ids {
		ss[i] = strconv.Itoa(n)
	}
	return "{" + strings.Join(ss, ",") + "}"
}

func (w *rbWorld) build() string {
	if w.v2 != nil {
		workers, sink, err := w.v2.VerifBuildRunnable(w.ctx, w.pl)
		if err != nil {
			return classify(err)
		}
		w.live = append(w.live, func() {
			// runPipeline: every worker goroutine ends with w.Close, then (after workersWg.Wait) sink.Close
			for _, wk := range workers {
				_ = wk.Close(context.Background())
			}
			_ = sink.Close(context.Background())
		})
		return "ok"
	}
	nodes, err := w.v1.VerifBuildNodes(w.ctx, w.pl)
	if err != nil {
		return classify(err)
	}
	w.live = append(w.live, func() {
		// runPipeline runs every node; a ProcessorNode's Run tears its processor down on every exit
		ctx, cancel := context.WithCancel(context.Background())
		cancel()
		for _, n := range nodes {
			if pn, ok := n.(*stream.ProcessorNode); ok {
				_ = pn.Run(ctx)
			}
		}
	})
	return "ok"
}

func classifyStart(err error) string {
	m := err.Error()
	switch {
	case errors.Is(err, pipeline.ErrPipelineRunning):
		return "err:plrunning"
	case strings.Contains(m, "failed to open shared sink"), strings.Contains(m, "failed to open worker"):
		return "err:open"
	}
	return classify(err)
}

// waitBounded runs f and gives up after d (the goroutine is abandoned: the case reports `hang`).
func waitBounded(d time.Duration, f func()) bool {
	done := make(chan struct{})
	go func() { defer close(done); f() }()
	select {
	case <-done:
		return true
	case <-time.After(d):
		return false
	}
}

// start is the real Start of the engine.
func (w *rbWorld) start() string {
	if w.v2 != nil {
		if err := w.v2.Start(w.ctx, w.pl.ID); err != nil {
			return "s:" + classifyStart(err)
		}
		w.live = append(w.live, func() {
			_ = w.v2.Stop(context.Background(), w.pl.ID, false)
			if !waitBounded(10*time.Second, func() { _ = w.v2.WaitPipeline(w.pl.ID) }) {
				panic("hang: v2 run does not end")
			}
		})
		return "s:ok"
	}
	if err := w.v1.Start(w.ctx, w.pl.ID); err != nil {
		return "s:" + classifyStart(err)
	}
	// v1 opens inside the nodes' goroutines: end the run at once (force) and wait for it, whichever
	// nodes opened, failed to open or never got that far
	_ = w.v1.Stop(context.Background(), w.pl.ID, true)
	if !waitBounded(10*time.Second, func() { _ = w.v1.WaitPipeline(w.pl.ID) }) {
		return "s:hang"
	}
	return "s:ran"
}

func filterOut(xs []string, id string) []string {
	var out []string
	for _, x := range xs {
		if x != id {
			out = append(out, x)
		}
	}
	return out
}

func runRebuild(head string) string {
	cfgs, stepss, ok := strings.Cut(head, "|")
	if !ok {
		return "bad-op"
	}
	f := strings.Fields(cfgs)
	if len(f) != 3 || (f[0] != "v1" && f[0] != "v2") {
		return "bad-op"
	}
	pprocs, conns, ok := parsePipe([]string{"pipe", f[1], f[2]})
	if !ok {
		return "bad-op"
	}
	var steps []string
	if s := strings.TrimSpace(stepss); s != "-" {
		for _, t := range strings.Split(s, ",") {
			steps = append(steps, strings.TrimSpace(t))
		}
	}
	// validate the steps before touching anything
	for _, st := range steps {
		switch {
		case st == "b", st == "t", st == "s", st == "fx":
		default:
			okp := false
			for _, pre := range []string{"mk", "rmp", "rmc", "adds", "addd", "fp", "fc"} {
				if rest, has := strings.CutPrefix(st, pre); has {
					if _, good := parseID(rest); good {
						okp = true
					}
					break
				}
			}
			if !okp {
				return "bad-op"
			}
		}
	}
	w := newRbWorld(f[0], pprocs, conns)
	var out []string
	for _, st := range steps {
		switch {
		case st == "b":
			out = append(out, w.build()+w.held())
		case st == "s":
			out = append(out, w.start()+w.held())
		case st == "fx":
			w.mu.Lock()
			w.failProc, w.failConn = map[string]bool{}, map[string]bool{}
			w.mu.Unlock()
		case strings.HasPrefix(st, "fp"), strings.HasPrefix(st, "fc"):
			id, _ := parseID(st[2:])
			w.mu.Lock()
			if st[1] == 'p' {
				w.failProc[id] = true
			} else {
				w.failConn[id] = true
			}
			w.mu.Unlock()
		case st == "t":
			for _, c := range w.live {
				c()
			}
			w.live = nil
			out = append(out, "t"+w.held())
		case strings.HasPrefix(st, "mk"):
			id, _ := parseID(st[2:])
			w.mkProc(id)
		case strings.HasPrefix(st, "rmp"):
			id, _ := parseID(st[3:])
			w.pl.ProcessorIDs = filterOut(w.pl.ProcessorIDs, id)
			for cid := range w.conns {
				inst := must(w.connSvc.Get(w.ctx, cid))
				inst.ProcessorIDs = filterOut(inst.ProcessorIDs, id)
			}
		case strings.HasPrefix(st, "rmc"):
			id, _ := parseID(st[3:])
			w.pl.ConnectorIDs = filterOut(w.pl.ConnectorIDs, id)
		default: // adds / addd
			id, _ := parseID(st[4:])
			if w.listed[id] {
				return "bad-op" // one id names one connector
			}
			w.mkConn(st[3], id, nil)
			w.pl.ConnectorIDs = append(w.pl.ConnectorIDs, id)
		}
	}
	w.mu.Lock()
	dbl := w.doubleTeardown
	w.mu.Unlock()
	if dbl {
		out = append(out, "double-teardown")
	}
	if len(out) == 0 {
		return "-"
	}
	return strings.Join(out, " ")
}

// non-trivial: a build failed while at least one processor was (still) reserved, or a teardown ran
func ntRebuild(_, res string) bool {
	for _, t := range strings.Fields(res) {
		if strings.Contains(t, "err:") && !strings.HasSuffix(t, "{}") {
			return true
		}
	}
	return (strings.Contains(res, "ok{") && strings.Contains(res, "t{")) || strings.Contains(res, "s:ran{")
}

// ---------------------------------------------------------------- generator

func genRebuild(r *gen.Rand, o *gen.Out) string {
	eng := "v2"
	if r.Chance(1, 2) {
		eng = "v1"
	}
	o.Count("eng:" + eng)
	ids := make([]int, 30)
	for i := range ids {
		ids[i] = i + 1
	}
	for i := len(ids) - 1; i > 0; i-- {
		j := r.Intn(i + 1)
		ids[i], ids[j] = ids[j], ids[i]
	}
	next := 0
	fresh := func() string { next++; return strconv.Itoa(ids[next-1]) }
	type conn struct {
		kind, id string
		procs    []string
	}
	var conns []conn
	for i := r.Range(1, 2); i > 0; i-- {
		c := conn{kind: "s", id: fresh()}
		for j := r.Range(0, 2); j > 0; j-- {
			c.procs = append(c.procs, fresh())
		}
		conns = append(conns, c)
	}
	for i := r.Range(1, 2); i > 0; i-- {
		c := conn{kind: "d", id: fresh()}
		for j := r.Range(0, 2); j > 0; j-- {
			c.procs = append(c.procs, fresh())
		}
		conns = append(conns, c)
	}
	for i := len(conns) - 1; i > 0; i-- {
		j := r.Intn(i + 1)
		conns[i], conns[j] = conns[j], conns[i]
	}
	var pprocs []string
	for i := r.Range(0, 2); i > 0; i-- {
		pprocs = append(pprocs, fresh())
	}
	allProcs := func() []*string {
		var out []*string
		for i := range pprocs {
			out = append(out, &pprocs[i])
		}
		for i := range conns {
			for j := range conns[i].procs {
				out = append(out, &conns[i].procs[j])
			}
		}
		return out
	}
	var repair []string // candidate repairs of the injected defect
	switch d := r.Pick(25, 22, 10, 8, 10, 8, 7, 10); d {
	case 0:
		o.Count("cfg:clean")
	case 1: // the k-th processor is unknown
		if ps := allProcs(); len(ps) > 0 {
			o.Count("cfg:unknown-processor")
			p := ps[r.Intn(len(ps))]
			repair = []string{"mk" + *p, "rmp" + *p}
			*p += "?"
		} else {
			o.Count("cfg:clean")
		}
	case 2: // an id in ConnectorIDs without a connector
		o.Count("cfg:unknown-connector")
		id := fresh()
		at := r.Intn(len(conns) + 1)
		conns = append(conns[:at], append([]conn{{kind: "x", id: id}}, conns[at:]...)...)
		repair = []string{"rmc" + id}
	case 3: // no destination
		o.Count("cfg:no-destination")
		var keep []conn
		for _, c := range conns {
			if c.kind != "d" {
				keep = append(keep, c)
			}
		}
		conns = keep
		repair = []string{"addd" + fresh()}
	case 4: // one processor instance referenced twice
		if ps := allProcs(); len(ps) > 1 {
			o.Count("cfg:processor-twice")
			a, b := r.Intn(len(ps)), r.Intn(len(ps))
			if a != b {
				*ps[a] = *ps[b]
				repair = []string{"rmp" + *ps[b]}
			}
		} else {
			o.Count("cfg:clean")
		}
	case 5: // a destination connector id equal to a pipeline processor id (v2: NewSink refuses)
		if len(pprocs) > 0 {
			o.Count("cfg:destination-id=processor-id")
			for i := range conns {
				if conns[i].kind == "d" {
					conns[i].id = pprocs[r.Intn(len(pprocs))]
					repair = []string{"rmp" + conns[i].id}
					break
				}
			}
		} else {
			o.Count("cfg:clean")
		}
	case 6: // a source connector id equal to one of its own processors (v2: NewWorker refuses)
		done := false
		for i := range conns {
			if conns[i].kind == "s" && len(conns[i].procs) > 0 {
				conns[i].id = conns[i].procs[0]
				repair = []string{"rmp" + conns[i].id}
				done = true
				break
			}
		}
		if done {
			o.Count("cfg:source-id=own-processor-id")
		} else {
			o.Count("cfg:clean")
		}
	case 7: // no source
		o.Count("cfg:no-source")
		var keep []conn
		for _, c := range conns {
			if c.kind != "s" {
				keep = append(keep, c)
			}
		}
		conns = keep
		repair = []string{"adds" + fresh()}
	}
	// the history: attempts, the repair, run ends
	var steps []string
	switch r.Pick(50, 15, 15, 10, 10) {
	case 0:
		steps = []string{"b"}
		if len(repair) > 0 {
			steps = append(steps, repair[r.Intn(len(repair))])
		} else {
			steps = append(steps, "t")
		}
		steps = append(steps, "b", "t")
	case 1: // a second attempt without a repair, then the repair
		steps = []string{"b", "b"}
		if len(repair) > 0 {
			steps = append(steps, repair[r.Intn(len(repair))])
		}
		steps = append(steps, "t", "b", "t")
	case 2: // run, end, run again, end
		steps = []string{"b", "t", "b", "t"}
		if len(repair) > 0 {
			steps = append([]string{repair[r.Intn(len(repair))]}, steps...)
		}
	case 3: // the run that ended is followed by a breaking edit and its repair
		steps = []string{"b", "t"}
		if ps := allProcs(); len(ps) > 0 {
			p := strings.TrimSuffix(*ps[r.Intn(len(ps))], "?")
			steps = append(steps, "rmp"+p)
		}
		steps = append(steps, "b", "t", "b")
	case 4: // random
		all := append([]string{"b", "b", "t", "t"}, repair...)
		for i := r.Range(2, 6); i > 0; i-- {
			steps = append(steps, all[r.Intn(len(all))])
		}
	}
	// Start instead of the bare build, and Open failures of a processor / a connector plugin
	if r.Chance(1, 2) {
		o.Count("start:yes")
		for i, st := range steps {
			if st == "b" && r.Chance(2, 3) {
				steps[i] = "s"
			}
		}
		if r.Chance(2, 3) {
			var inj []string
			for n := r.Pick(70, 30) + 1; n > 0; n-- {
				if ps := allProcs(); len(ps) > 0 && r.Chance(3, 5) {
					o.Count("open-failure:processor")
					inj = append(inj, "fp"+strings.TrimSuffix(*ps[r.Intn(len(ps))], "?"))
				} else if len(conns) > 0 {
					c := conns[r.Intn(len(conns))]
					o.Count("open-failure:connector-" + c.kind)
					inj = append(inj, "fc"+c.id)
				}
			}
			// the failure is in place for the first Start after a random prefix, and lifted after it
			at := 0
			for i, st := range steps {
				if st == "s" {
					at = i
					if r.Chance(2, 3) {
						break
					}
				}
			}
			var ns []string
			ns = append(ns, steps[:at]...)
			ns = append(ns, inj...)
			if at < len(steps) {
				ns = append(ns, steps[at])
				ns = append(ns, "fx")
				if r.Chance(1, 2) {
					ns = append(ns, "s")
				}
				ns = append(ns, steps[at+1:]...)
			}
			steps = ns
		} else {
			o.Count("open-failure:none")
		}
	} else {
		o.Count("start:no")
	}
	o.Count(fmt.Sprintf("steps:%d", len(steps)))
	if r.Chance(1, 50) {
		o.Count("malformed")
		steps = append(steps, "zz9")
	}
	cs := make([]string, len(conns))
	for i, c := range conns {
		cs[i] = c.kind + c.id + ":" + procsStr(c.procs)
	}
	c := strings.Join(cs, ";")
	if c == "" {
		c = "-"
	}
	return eng + " P=" + procsStr(pprocs) + " C=" + c + " | " + strings.Join(steps, ",")
}
