package main

// Component `rebuild` (C11: "once a run has ended its connectors and processors are released so the
// pipeline can be started again", restricted to processor reservations and Start's build step).
//
// A case is a pipeline configuration and a sequence of steps against ONE set of real services
// (connector.Service, processor.Service on an in-memory store) and the real lifecycle service of
// the chosen engine (v1 pkg/lifecycle, v2 pkg/lifecycle-poc):
//
//	<v1|v2> P=<procs> C=<conn>;<conn>;… | <step>,<step>,…
//
//	b         one buildRunnablePipeline call (what Start does first) through the verif hook
//	          (v2 VerifBuildRunnable, v1 VerifBuildNodes); a successful build stays "live"
//	t         every live run ends the way runPipeline ends it: v2 Worker.Close of every worker, then
//	          Sink.Close; v1 every ProcessorNode's Run returns (run with a cancelled context: the
//	          deferred Processor.Teardown executes)
//	mk<id>    create the processor instance <id> (repairs an unknown processor id)
//	rmp<id>   drop <id> from pl.ProcessorIDs and from every connector's ProcessorIDs
//	rmc<id>   drop connector <id> from pl.ConnectorIDs
//	adds<id> / addd<id>   create a source / destination connector without processors and add it
//
// Observed, per `b`: `ok{…}` or `err:<class>{…}`, per `t`: `t{…}`, where {…} is the set of processor
// instances that are reserved (`running`) afterwards — probed through the public API:
// processor.Service.Update refuses a reserved instance with ErrProcessorRunning. The recorded case
// line is `<case> => <observed>`; the Lean driver accepts it against Model/Rebuild.lean and
// evaluates the C11 monitor `noLeakAfterFailedBuild`.

import (
	"context"
	"errors"
	"fmt"
	"sort"
	"strconv"
	"strings"
	"time"

	"github.com/conduitio/conduit-commons/database/inmemory"
	"github.com/conduitio/conduit/pkg/connector"
	"github.com/conduitio/conduit/pkg/foundation/log"
	"github.com/conduitio/conduit/pkg/lifecycle"
	lifecyclepoc "github.com/conduitio/conduit/pkg/lifecycle-poc"
	"github.com/conduitio/conduit/pkg/lifecycle/stream"
	"github.com/conduitio/conduit/pkg/pipeline"
	"github.com/conduitio/conduit/pkg/processor"

	"verif/harness/gen"
)

type rbWorld struct {
	ctx     context.Context
	connSvc *connector.Service
	procSvc *processor.Service
	pl      *pipeline.Instance
	procs   map[string]bool // processor instances created
	conns   map[string]bool // connector instances created
	listed  map[string]bool // ids that ever were in pl.ConnectorIDs (incl. unknown ones)
	v1      *lifecycle.Service
	v2      *lifecyclepoc.Service
	live    []func()
}

const rbPlugin = "builtin:verif"

func (w *rbWorld) mkProc(id string) {
	if w.procs[id] {
		return
	}
	w.procs[id] = true
	must(w.procSvc.Create(w.ctx, id, rbPlugin, processor.Parent{ID: w.pl.ID, Type: processor.ParentTypePipeline},
		processor.Config{Settings: map[string]string{}}, processor.ProvisionTypeAPI, ""))
}

func (w *rbWorld) mkConn(kind byte, id string, procs []procRef) {
	w.listed[id] = true
	if kind == 'x' || w.conns[id] {
		return
	}
	w.conns[id] = true
	typ := connector.TypeSource
	if kind == 'd' {
		typ = connector.TypeDestination
	}
	must(w.connSvc.Create(w.ctx, id, typ, rbPlugin, w.pl.ID, connector.Config{Name: "c" + id, Settings: map[string]string{}}, connector.ProvisionTypeAPI))
	for _, p := range procs {
		if p.found {
			w.mkProc(p.id)
		}
		must(w.connSvc.AddProcessor(w.ctx, id, p.id))
	}
}

func newRbWorld(eng string, pprocs []procRef, conns []connCfg) *rbWorld {
	logger := log.Nop()
	db := &inmemory.DB{}
	w := &rbWorld{ctx: context.Background(), procs: map[string]bool{}, conns: map[string]bool{}, listed: map[string]bool{}}
	w.connSvc = connector.NewService(logger, db, connector.NewPersister(logger, db, time.Hour, 1<<20))
	w.procSvc = processor.NewService(logger, db, procRegistry{})
	w.pl = &pipeline.Instance{ID: "verif-pl", Config: pipeline.Config{Name: "verif-pipeline"}, DLQ: pipeline.DefaultDLQ}
	for _, p := range pprocs {
		if p.found {
			w.mkProc(p.id)
		}
		w.pl.ProcessorIDs = append(w.pl.ProcessorIDs, p.id)
	}
	for _, c := range conns {
		w.pl.ConnectorIDs = append(w.pl.ConnectorIDs, c.id)
		w.mkConn(c.kind, c.id, c.procs)
	}
	rec := &lifecycle.ErrRecoveryCfg{MinDelay: time.Millisecond, MaxDelay: time.Millisecond, BackoffFactor: 2, MaxRetries: 0, MaxRetriesWindow: time.Second}
	if eng == "v1" {
		w.v1 = lifecycle.NewService(logger, rec, w.connSvc, w.procSvc, connPlugins{}, noPipelines{})
	} else {
		w.v2 = lifecyclepoc.NewService(logger, rec, w.connSvc, w.procSvc, connPlugins{}, noPipelines{}, true)
	}
	return w
}

// held probes every processor instance through the public API.
func (w *rbWorld) held() string {
	var ids []int
	for id := range w.procs {
		_, err := w.procSvc.Update(w.ctx, id, rbPlugin, processor.Config{Settings: map[string]string{}, Workers: 1})
		if err != nil {
			if !errors.Is(err, processor.ErrProcessorRunning) {
				panic(err)
			}
			n, _ := strconv.Atoi(id)
			ids = append(ids, n)
		}
	}
	sort.Ints(ids)
	ss := make([]string, len(ids))
	for i, n := range ids {
		ss[i] = strconv.Itoa(n)
	}
	return "{" + strings.Join(ss, ",") + "}"
}

func (w *rbWorld) build() string {
	if w.v2 != nil {
		workers, sink, err := w.v2.VerifBuildRunnable(w.ctx, w.pl)
		if err != nil {
			return classify(err)
		}
		w.live = append(w.live, func() {
			// runPipeline: every worker goroutine ends with w.Close, then (after workersWg.Wait) sink.Close
			for _, wk := range workers {
				_ = wk.Close(context.Background())
			}
			_ = sink.Close(context.Background())
		})
		return "ok"
	}
	nodes, err := w.v1.VerifBuildNodes(w.ctx, w.pl)
	if err != nil {
		return classify(err)
	}
	w.live = append(w.live, func() {
		// runPipeline runs every node; a ProcessorNode's Run tears its processor down on every exit
		ctx, cancel := context.WithCancel(context.Background())
		cancel()
		for _, n := range nodes {
			if pn, ok := n.(*stream.ProcessorNode); ok {
				_ = pn.Run(ctx)
			}
		}
	})
	return "ok"
}

func filterOut(xs []string, id string) []string {
	var out []string
	for _, x := range xs {
		if x != id {
			out = append(out, x)
		}
	}
	return out
}

func runRebuild(head string) string {
	cfgs, stepss, ok := strings.Cut(head, "|")
	if !ok {
		return "bad-op"
	}
	f := strings.Fields(cfgs)
	if len(f) != 3 || (f[0] != "v1" && f[0] != "v2") {
		return "bad-op"
	}
	pprocs, conns, ok := parsePipe([]string{"pipe", f[1], f[2]})
	if !ok {
		return "bad-op"
	}
	var steps []string
	if s := strings.TrimSpace(stepss); s != "-" {
		for _, t := range strings.Split(s, ",") {
			steps = append(steps, strings.TrimSpace(t))
		}
	}
	// validate the steps before touching anything
	for _, st := range steps {
		switch {
		case st == "b", st == "t":
		default:
			okp := false
			for _, pre := range []string{"mk", "rmp", "rmc", "adds", "addd"} {
				if rest, has := strings.CutPrefix(st, pre); has {
					if _, good := parseID(rest); good {
						okp = true
					}
					break
				}
			}
			if !okp {
				return "bad-op"
			}
		}
	}
	w := newRbWorld(f[0], pprocs, conns)
	var out []string
	for _, st := range steps {
		switch {
		case st == "b":
			out = append(out, w.build()+w.held())
		case st == "t":
			for _, c := range w.live {
				c()
			}
			w.live = nil
			out = append(out, "t"+w.held())
		case strings.HasPrefix(st, "mk"):
			id, _ := parseID(st[2:])
			w.mkProc(id)
		case strings.HasPrefix(st, "rmp"):
			id, _ := parseID(st[3:])
			w.pl.ProcessorIDs = filterOut(w.pl.ProcessorIDs, id)
			for cid := range w.conns {
				inst := must(w.connSvc.Get(w.ctx, cid))
				inst.ProcessorIDs = filterOut(inst.ProcessorIDs, id)
			}
		case strings.HasPrefix(st, "rmc"):
			id, _ := parseID(st[3:])
			w.pl.ConnectorIDs = filterOut(w.pl.ConnectorIDs, id)
		default: // adds / addd
			id, _ := parseID(st[4:])
			if w.listed[id] {
				return "bad-op" // one id names one connector
			}
			w.mkConn(st[3], id, nil)
			w.pl.ConnectorIDs = append(w.pl.ConnectorIDs, id)
		}
	}
	if len(out) == 0 {
		return "-"
	}
	return strings.Join(out, " ")
}

// non-trivial: a build failed while at least one processor was (still) reserved, or a teardown ran
func ntRebuild(_, res string) bool {
	for _, t := range strings.Fields(res) {
		if strings.HasPrefix(t, "err:") && !strings.HasSuffix(t, "{}") {
			return true
		}
	}
	return strings.Contains(res, "ok{") && strings.Contains(res, "t{")
}

// ---------------------------------------------------------------- generator

func genRebuild(r *gen.Rand, o *gen.Out) string {
	eng := "v2"
	if r.Chance(1, 2) {
		eng = "v1"
	}
	o.Count("eng:" + eng)
	ids := make([]int, 30)
	for i := range ids {
		ids[i] = i + 1
	}
	for i := len(ids) - 1; i > 0; i-- {
		j := r.Intn(i + 1)
		ids[i], ids[j] = ids[j], ids[i]
	}
	next := 0
	fresh := func() string { next++; return strconv.Itoa(ids[next-1]) }
	type conn struct {
		kind, id string
		procs    []string
	}
	var conns []conn
	for i := r.Range(1, 2); i > 0; i-- {
		c := conn{kind: "s", id: fresh()}
		for j := r.Range(0, 2); j > 0; j-- {
			c.procs = append(c.procs, fresh())
		}
		conns = append(conns, c)
	}
	for i := r.Range(1, 2); i > 0; i-- {
		c := conn{kind: "d", id: fresh()}
		for j := r.Range(0, 2); j > 0; j-- {
			c.procs = append(c.procs, fresh())
		}
		conns = append(conns, c)
	}
	for i := len(conns) - 1; i > 0; i-- {
		j := r.Intn(i + 1)
		conns[i], conns[j] = conns[j], conns[i]
	}
	var pprocs []string
	for i := r.Range(0, 2); i > 0; i-- {
		pprocs = append(pprocs, fresh())
	}
	allProcs := func() []*string {
		var out []*string
		for i := range pprocs {
			out = append(out, &pprocs[i])
		}
		for i := range conns {
			for j := range conns[i].procs {
				out = append(out, &conns[i].procs[j])
			}
		}
		return out
	}
	var repair []string // candidate repairs of the injected defect
	switch d := r.Pick(25, 22, 10, 8, 10, 8, 7, 10); d {
	case 0:
		o.Count("cfg:clean")
	case 1: // the k-th processor is unknown
		if ps := allProcs(); len(ps) > 0 {
			o.Count("cfg:unknown-processor")
			p := ps[r.Intn(len(ps))]
			repair = []string{"mk" + *p, "rmp" + *p}
			*p += "?"
		} else {
			o.Count("cfg:clean")
		}
	case 2: // an id in ConnectorIDs without a connector
		o.Count("cfg:unknown-connector")
		id := fresh()
		at := r.Intn(len(conns) + 1)
		conns = append(conns[:at], append([]conn{{kind: "x", id: id}}, conns[at:]...)...)
		repair = []string{"rmc" + id}
	case 3: // no destination
		o.Count("cfg:no-destination")
		var keep []conn
		for _, c := range conns {
			if c.kind != "d" {
				keep = append(keep, c)
			}
		}
		conns = keep
		repair = []string{"addd" + fresh()}
	case 4: // one processor instance referenced twice
		if ps := allProcs(); len(ps) > 1 {
			o.Count("cfg:processor-twice")
			a, b := r.Intn(len(ps)), r.Intn(len(ps))
			if a != b {
				*ps[a] = *ps[b]
				repair = []string{"rmp" + *ps[b]}
			}
		} else {
			o.Count("cfg:clean")
		}
	case 5: // a destination connector id equal to a pipeline processor id (v2: NewSink refuses)
		if len(pprocs) > 0 {
			o.Count("cfg:destination-id=processor-id")
			for i := range conns {
				if conns[i].kind == "d" {
					conns[i].id = pprocs[r.Intn(len(pprocs))]
					repair = []string{"rmp" + conns[i].id}
					break
				}
			}
		} else {
			o.Count("cfg:clean")
		}
	case 6: // a source connector id equal to one of its own processors (v2: NewWorker refuses)
		done := false
		for i := range conns {
			if conns[i].kind == "s" && len(conns[i].procs) > 0 {
				conns[i].id = conns[i].procs[0]
				repair = []string{"rmp" + conns[i].id}
				done = true
				break
			}
		}
		if done {
			o.Count("cfg:source-id=own-processor-id")
		} else {
			o.Count("cfg:clean")
		}
	case 7: // no source
		o.Count("cfg:no-source")
		var keep []conn
		for _, c := range conns {
			if c.kind != "s" {
				keep = append(keep, c)
			}
		}
		conns = keep
		repair = []string{"adds" + fresh()}
	}
	// the history: attempts, the repair, run ends
	var steps []string
	switch r.Pick(50, 15, 15, 10, 10) {
	case 0:
		steps = []string{"b"}
		if len(repair) > 0 {
			steps = append(steps, repair[r.Intn(len(repair))])
		} else {
			steps = append(steps, "t")
		}
		steps = append(steps, "b", "t")
	case 1: // a second attempt without a repair, then the repair
		steps = []string{"b", "b"}
		if len(repair) > 0 {
			steps = append(steps, repair[r.Intn(len(repair))])
		}
		steps = append(steps, "t", "b", "t")
	case 2: // run, end, run again, end
		steps = []string{"b", "t", "b", "t"}
		if len(repair) > 0 {
			steps = append([]string{repair[r.Intn(len(repair))]}, steps...)
		}
	case 3: // the run that ended is followed by a breaking edit and its repair
		steps = []string{"b", "t"}
		if ps := allProcs(); len(ps) > 0 {
			p := strings.TrimSuffix(*ps[r.Intn(len(ps))], "?")
			steps = append(steps, "rmp"+p)
		}
		steps = append(steps, "b", "t", "b")
	case 4: // random
		all := append([]string{"b", "b", "t", "t"}, repair...)
		for i := r.Range(2, 6); i > 0; i-- {
			steps = append(steps, all[r.Intn(len(all))])
		}
	}
	o.Count(fmt.Sprintf("steps:%d", len(steps)))
	if r.Chance(1, 50) {
		o.Count("malformed")
		steps = append(steps, "zz9")
	}
	cs := make([]string, len(conns))
	for i, c := range conns {
		cs[i] = c.kind + c.id + ":" + procsStr(c.procs)
	}
	c := strings.Join(cs, ";")
	if c == "" {
		c = "-"
	}
	return eng + " P=" + procsStr(pprocs) + " C=" + c + " | " + strings.Join(steps, ",")
}
