package main

// Canonical printing / parsing of real funnel.TaskNode trees and the `appendtoend` component:
// the real (*TaskNode).AppendToEnd on arbitrary small trees (also receivers with several Next,
// where it must refuse and leave the receiver as it was).

import (
	"fmt"
	"strconv"
	"strings"

	"github.com/conduitio/conduit/pkg/foundation/log"
	"github.com/conduitio/conduit/pkg/lifecycle-poc/funnel"

	"verif/harness/gen"
)

func kindOf(t funnel.Task) string {
	switch t.(type) {
	case *funnel.SourceTask:
		return "S"
	case *funnel.ProcessorTask:
		return "P"
	case *funnel.DestinationTask:
		return "D"
	}
	return fmt.Sprintf("?%T?", t)
}

// treeString walks Next directly (not Tasks(), which stops at a shared boundary): the tree a
// worker's doTask / doNextTask traverse at run time.
func treeString(n *funnel.TaskNode) string {
	if n == nil {
		return "nil"
	}
	var b strings.Builder
	var walk func(n *funnel.TaskNode, depth int)
	walk = func(n *funnel.TaskNode, depth int) {
		if depth > 64 {
			b.WriteString("DEEP")
			return
		}
		if n == nil || n.Task == nil {
			b.WriteString("nil")
			return
		}
		b.WriteString(kindOf(n.Task))
		b.WriteString(n.Task.ID())
		if len(n.Next) > 0 {
			b.WriteString("(")
			for i, c := range n.Next {
				if i > 0 {
					b.WriteString(",")
				}
				walk(c, depth+1)
			}
			b.WriteString(")")
		}
	}
	walk(n, 0)
	return b.String()
}

func treesString(ns []*funnel.TaskNode) string {
	ss := make([]string, len(ns))
	for i, n := range ns {
		ss[i] = treeString(n)
	}
	return strings.Join(ss, " | ")
}

// mkTask builds a real task object of the given kind (its plugin is never used here).
func mkTask(kind byte, id string) funnel.Task {
	switch kind {
	case 'S':
		return funnel.NewSourceTask(id, nil, log.Nop(), nil)
	case 'P':
		return funnel.NewProcessorTask(id, nil, log.Nop(), nil)
	case 'D':
		return funnel.NewDestinationTask(id, nil, log.Nop(), nil)
	}
	return nil
}

// parseTree: node := K<digits>[ '(' node {',' node} ')' ]
func parseTree(s string) (*funnel.TaskNode, string, bool) {
	if len(s) == 0 || !strings.ContainsRune("SPD", rune(s[0])) {
		return nil, s, false
	}
	k := s[0]
	i := 1
	for i < len(s) && s[i] >= '0' && s[i] <= '9' {
		i++
	}
	if i == 1 {
		return nil, s, false
	}
	v, err := strconv.ParseUint(s[1:i], 10, 32)
	if err != nil {
		return nil, s, false
	}
	n := &funnel.TaskNode{Task: mkTask(k, strconv.FormatUint(v, 10))}
	rest := s[i:]
	if strings.HasPrefix(rest, "(") {
		rest = rest[1:]
		for {
			c, r, ok := parseTree(rest)
			if !ok {
				return nil, s, false
			}
			n.Next = append(n.Next, c)
			if strings.HasPrefix(r, ",") {
				rest = r[1:]
				continue
			}
			if strings.HasPrefix(r, ")") {
				rest = r[1:]
				break
			}
			return nil, s, false
		}
	}
	return n, rest, true
}

// parseTrees: comma separated trees at nesting depth 0, or "-" for none.
func parseTrees(s string) ([]*funnel.TaskNode, bool) {
	if s == "-" {
		return nil, true
	}
	var out []*funnel.TaskNode
	for {
		n, rest, ok := parseTree(s)
		if !ok {
			return nil, false
		}
		out = append(out, n)
		if rest == "" {
			return out, true
		}
		if !strings.HasPrefix(rest, ",") {
			return nil, false
		}
		s = rest[1:]
	}
}

func runAppend(line string) string {
	l, r, ok := strings.Cut(line, " + ")
	if !ok {
		return "bad-op"
	}
	recv, rest, ok := parseTree(strings.TrimSpace(l))
	if !ok || rest != "" {
		return "bad-op"
	}
	next, ok := parseTrees(strings.TrimSpace(r))
	if !ok {
		return "bad-op"
	}
	if err := recv.AppendToEnd(next...); err != nil {
		return "err " + treeString(recv)
	}
	return "ok " + treeString(recv)
}

func ntAppend(line, res string) bool {
	// the recursion or the refusal was exercised
	return strings.HasPrefix(res, "err") || strings.Contains(strings.SplitN(line, " + ", 2)[0], "(")
}

func genNode(r *gen.Rand, id *int, depth int, wide bool) string {
	k := "SPD"[r.Intn(3)]
	*id++
	s := fmt.Sprintf("%c%d", k, *id)
	if depth >= 4 {
		return s
	}
	var nc int
	if wide {
		nc = r.Pick(30, 35, 20, 15) // 0..3 children
	} else {
		nc = r.Pick(25, 75) // chains
	}
	if nc == 0 {
		return s
	}
	cs := make([]string, nc)
	for i := range cs {
		cs[i] = genNode(r, id, depth+1, wide)
	}
	return s + "(" + strings.Join(cs, ",") + ")"
}

func genAppend(r *gen.Rand, o *gen.Out) string {
	id := 0
	wide := r.Chance(1, 2)
	recv := genNode(r, &id, 0, wide)
	nn := r.Pick(10, 50, 25, 15)
	next := "-"
	if nn > 0 {
		ns := make([]string, nn)
		for i := range ns {
			ns[i] = genNode(r, &id, 2, r.Chance(1, 3))
		}
		next = strings.Join(ns, ",")
	}
	if wide {
		o.Count("recv:any")
	} else {
		o.Count("recv:chain")
	}
	o.Count(fmt.Sprintf("next:%d", nn))
	if r.Chance(1, 60) {
		o.Count("malformed")
		return recv + " + " + next + "("
	}
	return recv + " + " + next
}
