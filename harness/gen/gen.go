// Package gen holds the seeded PRNG and output helpers shared by all harness commands.
// Every random choice of a harness derives from one splitmix64 state seeded by VERIF_SEED,
// so a case replays exactly.
package gen

import (
	"bufio"
	"encoding/json"
	"fmt"
	"os"
	"path/filepath"
	"sort"
	"sync"
)

// Rand is a splitmix64 PRNG.
type Rand struct{ s uint64 }

func New(seed uint64) *Rand { return &Rand{s: seed*0x9E3779B97F4A7C15 + 0x1234567} }

func (r *Rand) U64() uint64 {
	r.s += 0x9E3779B97F4A7C15
	z := r.s
	z = (z ^ (z >> 30)) * 0xBF58476D1CE4E5B9
	z = (z ^ (z >> 27)) * 0x94D049BB133111EB
	return z ^ (z >> 31)
}

// Intn returns a value in [0,n).
func (r *Rand) Intn(n int) int {
	if n <= 0 {
		return 0
	}
	return int(r.U64() % uint64(n))
}

// Range returns a value in [lo,hi].
func (r *Rand) Range(lo, hi int) int { return lo + r.Intn(hi-lo+1) }

// Chance returns true with probability num/den.
func (r *Rand) Chance(num, den int) bool { return r.Intn(den) < num }

// Pick returns one of the weights' indices, proportionally.
func (r *Rand) Pick(weights ...int) int {
	t := 0
	for _, w := range weights {
		t += w
	}
	x := r.Intn(t)
	for i, w := range weights {
		if x < w {
			return i
		}
		x -= w
	}
	return len(weights) - 1
}

// Out collects the three streams a component run produces: the case lines given to the Lean
// driver (<comp>.in), the implementation's result lines (<comp>.impl) and a histogram of the
// input distribution (<comp>.stats.json).
type Out struct {
	dir, comp string
	in, impl  *bufio.Writer
	nt        *bufio.Writer
	fin, fimp *os.File
	fnt       *os.File
	Hist      map[string]int
	mu        sync.Mutex
	N         int
}

func NewOut(dir, comp string) *Out {
	must(os.MkdirAll(dir, 0o755))
	fin, err := os.Create(filepath.Join(dir, comp+".in"))
	must(err)
	fimp, err := os.Create(filepath.Join(dir, comp+".impl"))
	must(err)
	fnt, err := os.Create(filepath.Join(dir, comp+".nt"))
	must(err)
	return &Out{dir: dir, comp: comp, fin: fin, fimp: fimp, fnt: fnt,
		in: bufio.NewWriter(fin), impl: bufio.NewWriter(fimp), nt: bufio.NewWriter(fnt), Hist: map[string]int{}}
}

// Case records one case: the driver input line, the implementation's canonical output and
// whether the case is non-trivial by the component's stated rule.
func (o *Out) Case(in, impl string, nontrivial bool) {
	fmt.Fprintln(o.in, in)
	fmt.Fprintln(o.impl, impl)
	if nontrivial {
		fmt.Fprintln(o.nt, "1")
	} else {
		fmt.Fprintln(o.nt, "0")
	}
	o.N++
}

func (o *Out) Count(key string) {
	o.mu.Lock()
	o.Hist[key]++
	o.mu.Unlock()
}

func (o *Out) Close() {
	must(o.in.Flush())
	must(o.impl.Flush())
	must(o.nt.Flush())
	must(o.fin.Close())
	must(o.fimp.Close())
	must(o.fnt.Close())
	keys := make([]string, 0, len(o.Hist))
	for k := range o.Hist {
		keys = append(keys, k)
	}
	sort.Strings(keys)
	b, _ := json.MarshalIndent(map[string]any{"cases": o.N, "hist": o.Hist}, "", " ")
	must(os.WriteFile(filepath.Join(o.dir, o.comp+".stats.json"), b, 0o644))
}

func must(err error) {
	if err != nil {
		panic(err)
	}
}
