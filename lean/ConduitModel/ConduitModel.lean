import ConduitModel.Model.DlqWindow
import ConduitModel.Spec.DlqWindow
import ConduitModel.Proofs.DlqWindow
import ConduitModel.Props.C07
import ConduitModel.Driver.Main
import ConduitModel.Model.Funnel
import ConduitModel.Driver.Funnel
import ConduitModel.Facts.C07
