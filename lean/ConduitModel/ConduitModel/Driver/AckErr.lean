import ConduitModel.Driver.ErrPaths
import ConduitModel.Model.AckErr

/-
Driver component `ackerr` (C20): the v1 ack / nack route
DestinationAckerNode → Message.Ack/Nack → SourceAckerNode → DLQHandlerNode / Source.Ack.

  ak <size> <thr> | <msg> | <msg> | …
     size thr : DLQ window size / nack threshold of the DLQHandlerNode
     msg      : <a | n NACKEXPR> / <ok | w EXPR | k EXPR | n EXPR> / <ok | EXPR>
                what the destination answers for the record (ack, or nack with this error);
                what the DLQ destination does with the DLQ record (ok; Write fails; Ack fails; it
                nacks the record); what Source.Ack returns when the ack / nack is forwarded
     EXPR     : constructor expression as in `errtree`
  -> classification (same columns as `errtree`) of the error the destination acker node stops
     with — `nil` if every message was handled. The model's wrappers are the transparent `%w`
     wrappers of the clean tree (Facts/C20Prop ties that to the source), so a flattened error on
     this route shows as `fatal=0` / `code=-` / a missing sentinel on the implementation side.
-/
namespace Conduit.Driver
open Conduit.Errs Conduit.AckErr

namespace AckErrD
open ErrsD ErrPathsD

def trim (s : String) : String := s.trimAscii.toString

/-- `<tag> EXPR` → the error value (must be non-nil) and the expression. -/
def tagged (s : String) : Option (String × Err × Expr) :=
  let s := trim s
  let tag := (s.take 1).toString
  match parseExpr (trim (s.drop 1).toString) with
  | none => none
  | some x =>
    match eval env x with
    | none => none
    | some e => some (tag, e, x)

def msgOf (s : String) : Option (Msg × List Expr) :=
  match (trim s).splitOn " / " with
  | [k, d, a] =>
    let k := trim k; let d := trim d; let a := trim a
    -- destination answer
    let nk : Option (Option Err × List Expr) :=
      if k = "a" then some (none, [])
      else match tagged k with
        | some ("n", e, x) => some (some e, [x])
        | _ => none
    -- DLQ outcome
    let dq : Option (DlqOutcome × List Expr) :=
      if d = "ok" then some (.ok, [])
      else match tagged d with
        | some ("w", e, x) => some (.writeErr e, [x])
        | some ("k", e, x) => some (.ackCallErr e, [x])
        | some ("n", e, x) => some (.nacked e, [x])
        | _ => none
    -- Source.Ack
    let sa : Option (E × List Expr) :=
      if a = "ok" then some (none, [])
      else match parseExpr a with
        | some x => (match eval env x with | some e => some (some e, [x]) | none => none)
        | none => none
    match nk, dq, sa with
    | some (n, xs1), some (o, xs2), some (r, xs3) => some (⟨n, o, r⟩, xs1 ++ xs2 ++ xs3)
    | _, _, _ => none
  | _ => none

end AckErrD

open AckErrD ErrPathsD in
def ackerrLine (line : String) : String :=
  match line.splitOn " | " with
  | hd :: msgs =>
    match words hd with
    | ["ak", sz, th] =>
      match sz.toNat?, th.toNat?, msgs.mapM msgOf with
      | some sz, some th, some ms =>
        let names := sentinelUniverse (ms.flatMap (·.2))
        classifyVal names (nodeError sz th (ms.map (·.1)))
      | _, _, _ => "bad-op"
    | _ => "bad-op"
  | _ => "bad-op"

end Conduit.Driver
