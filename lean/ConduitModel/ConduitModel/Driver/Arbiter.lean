import ConduitModel.Spec.Arbiter
import ConduitModel.Driver.Util

/-
Driver component `arbiter`: the PURE arbiter step functions of `Spec/Arbiter.lean`.

  ma <M> <n> | <vote> <vote> …
      a fresh multiAckNacker for M branches and n positions; a vote is one Ack/Nack call
      `a<branch>:<i,j,…>` (ack) or `n<branch>:<i,j,…>` (nack) naming slot indices < n
      (`a<branch>:` or `a<branch>:-` = empty batch).
      -> the parent calls in order, then the released count:  `A0-2 N3 A4-5 | released=6`
         (`A<from>-<last>` = parent.Ack of slots from..last inclusive, `N<i>` = parent.Nack of slot i;
         `-` when no parent call was made). A slot index ≥ n is `bad-op`.
  run <total> | <op> <op> …
      a fresh splitRun with `total` members; op = `a<k>` (ack vote for a group of k), `n<k>` (nack
      vote), `g<d>` (SplitRecord grows total by d)
      -> one word per vote: `-` (held), `ACK`, `NACK`, `ERR`;  `-` alone when there is no vote.
-/
namespace Conduit.Driver
open Conduit.Funnel

def parseMaVote (n : Nat) (s : String) : Option Vote :=
  match s.splitOn ":" with
  | [hd, tl] =>
    let mk (isAck : Bool) (b : List Char) : Option Vote := do
      let br ← (String.ofList b).toNat?
      let idxs ← parseNats tl
      if idxs.any (· ≥ n) then none
      else pure { branch := br, isAck := isAck, task := br, items := idxs.map fun i => { ix := i } }
    match hd.toList with
    | 'a' :: b => mk true b
    | 'n' :: b => mk false b
    | _ => none
  | _ => none

def releasedStr : Released → String
  | .ackRun f t => s!"A{f}-{t - 1}"
  | .nackOne i => s!"N{i}"

def parseRunOp (s : String) : Option RunOp :=
  match s.toList with
  | 'a' :: r => (String.ofList r).toNat?.map fun k => .vote { k := k, isAck := true }
  | 'n' :: r => (String.ofList r).toNat?.map fun k => .vote { k := k, isAck := false }
  | 'g' :: r => (String.ofList r).toNat?.map .grow
  | _ => none

def runOutStr : RunOut → String
  | .hold => "-" | .ack => "ACK" | .nack => "NACK" | .err => "ERR"

def arbiterLine (line : String) : String :=
  match line.splitOn "|" with
  | [hd, tl] =>
    match words hd with
    | ["ma", m, n] =>
      match m.toNat?, n.toNat? with
      | some m, some n =>
        match (words tl).mapM (parseMaVote n) with
        | some vs =>
          let r := maRun (MA.init m n) vs
          let evs := if r.2.isEmpty then "-" else " ".intercalate (r.2.map releasedStr)
          s!"{evs} | released={r.1.released}"
        | none => "bad-op"
      | _, _ => "bad-op"
    | ["run", t] =>
      match t.toNat? with
      | some t =>
        match (words tl).mapM parseRunOp with
        | some ops =>
          let r := runOps { origPos := some 1, origRec := { tag := 0, pos := some 1 }, total := t } ops
          if r.2.isEmpty then "-" else " ".intercalate (r.2.map runOutStr)
        | none => "bad-op"
      | none => "bad-op"
    | _ => "bad-op"
  | _ => "bad-op"

end Conduit.Driver
