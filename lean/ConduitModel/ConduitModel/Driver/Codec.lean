import ConduitModel.Model.Resume
import ConduitModel.Driver.Util

/-
Driver components of C17 (codec): `b64`, `jsonstr`, `storedoc`, `golden`, `pre041`, `resume`.

Canonical text forms (shared with harness/cmd/h_pure/codec*.go):
  string   s<hex of UTF-8>            bytes  nil | b<hex>
  list     nil | [s..,s..]            map    nil | {s<key>:s<val>,…}   (dump: sorted by raw key)
  bytes map nil | {s<key>:b..|nil,…}  time   Y/M/D/h/m/s/ns/offsetMinutes
  state    none | src:<bytes> | dst:<bytes map>
  conn <id> <type> <name> <settings> <pipelineID> <plugin> <procIDs> <state> <prov> <created> <updated> <lastName> <lastSettings>
  pipe <id> <name> <descr> <error> <created> <updated> <prov> <dlqPlugin> <dlqSettings> <wsize> <wthr> <connIDs> <procIDs> <status>
  proc <id> <created> <updated> <prov> <plugin> <condition> <parentID> <parentType> <settings> <workers>
  JSON tree  null | T | F | n<int> | s<hex> | [v,…] | {s<hexkey>:v,…} (sorted by raw key)
-/
namespace Conduit.Driver
open Conduit.Codec

/-! ### hex / UTF-8 -/

def hexNib (c : Char) : Option Nat :=
  let n := c.toNat
  if 48 ≤ n ∧ n ≤ 57 then some (n - 48) else if 97 ≤ n ∧ n ≤ 102 then some (n - 87) else none

def unhexL : List Char → Option (List UInt8)
  | [] => some []
  | a :: b :: t => do
    let x ← hexNib a; let y ← hexNib b; let r ← unhexL t
    pure (UInt8.ofNat (x * 16 + y) :: r)
  | _ => none

def nibChar (n : Nat) : Char := hexDigit n

def hexL (bs : List UInt8) : List Char :=
  bs.foldr (fun b acc => nibChar (b.toNat / 16) :: nibChar (b.toNat % 16) :: acc) []

def utf8Of (l : List Char) : List UInt8 := (String.ofList l).toUTF8.toList

def ofUtf8 (bs : List UInt8) : Option (List Char) :=
  (String.fromUTF8? (ByteArray.mk bs.toArray)).map String.toList

/-! ### printing the canonical forms -/

def pStr (s : Str) : List Char := 's' :: hexL (utf8Of s)
def pBytes : Option Bytes → List Char
  | none => "nil".toList
  | some b => 'b' :: hexL b
def commaSep : List (List Char) → List Char
  | [] => []
  | [x] => x
  | x :: xs => x ++ ',' :: commaSep xs
def pList : Option (List Str) → List Char
  | none => "nil".toList
  | some l => '[' :: (commaSep (l.map pStr) ++ [']'])
def sortRaw {α : Type} (m : List (Str × α)) : List (Str × α) := m.mergeSort fun a b => decide (a.1 ≤ b.1)
def pMapWith {α : Type} (f : α → List Char) : Option (SMap α) → List Char
  | none => "nil".toList
  | some m => '{' :: (commaSep ((sortRaw m).map fun kv => pStr kv.1 ++ ':' :: f kv.2) ++ ['}'])
def pMap := pMapWith pStr
def pBMap := pMapWith pBytes
def pNat (n : Nat) : List Char := (toString n).toList
def pInt (n : Int) : List Char := (toString n).toList
def pI64 (n : Int64) : List Char := pInt n.toInt
def pTime (t : Time) : List Char :=
  pNat t.year ++ '/' :: pNat t.month ++ '/' :: pNat t.day ++ '/' :: pNat t.hour ++ '/' :: pNat t.min ++ '/' ::
    pNat t.sec ++ '/' :: pNat t.nano ++ '/' :: pInt t.off
def pState : ConnState → List Char
  | .none => "none".toList
  | .source p => "src:".toList ++ pBytes p
  | .destination ps => "dst:".toList ++ pBMap ps
def spaceSep : List (List Char) → List Char
  | [] => []
  | [x] => x
  | x :: xs => x ++ ' ' :: spaceSep xs

def pConn (x : ConnInstance) : List Char :=
  spaceSep ["conn".toList, pStr x.id, pI64 x.type, pStr x.config.name, pMap x.config.settings, pStr x.pipelineID,
    pStr x.plugin, pList x.processorIDs, pState x.state, pI64 x.provisionedBy, pTime x.createdAt, pTime x.updatedAt,
    pStr x.lastActiveConfig.name, pMap x.lastActiveConfig.settings]
def pPipe (x : PipeInstance) : List Char :=
  spaceSep ["pipe".toList, pStr x.id, pStr x.config.name, pStr x.config.description, pStr x.error, pTime x.createdAt,
    pTime x.updatedAt, pI64 x.provisionedBy, pStr x.dlq.plugin, pMap x.dlq.settings, pI64 x.dlq.windowSize,
    pI64 x.dlq.windowNackThreshold, pList x.connectorIDs, pList x.processorIDs, pI64 x.status]
def pProc (x : ProcInstance) : List Char :=
  spaceSep ["proc".toList, pStr x.id, pTime x.createdAt, pTime x.updatedAt, pI64 x.provisionedBy, pStr x.plugin,
    pStr x.condition, pStr x.parent.id, pI64 x.parent.type, pMap x.config.settings, pI64 x.config.workers]

mutual
def pTree : Json → List Char
  | .null => "null".toList
  | .bool true => ['T']
  | .bool false => ['F']
  | .num n => 'n' :: pInt n
  | .str s => pStr s
  | .arr l => '[' :: (commaSep (pTreeL l) ++ [']'])
  | .obj kvs => '{' :: (commaSep ((sortRaw (pTreeM kvs)).map fun kv => pStr kv.1 ++ ':' :: kv.2) ++ ['}'])
def pTreeL : List Json → List (List Char)
  | [] => []
  | x :: xs => pTree x :: pTreeL xs
def pTreeM : List (Str × Json) → List (Str × List Char)
  | [] => []
  | (k, v) :: t => (k, pTree v) :: pTreeM t
end

/-! ### parsing the canonical forms -/

def rStr (t : List Char) : Option Str :=
  match t with
  | 's' :: h => (unhexL h).bind ofUtf8
  | _ => none
def rBytes (t : List Char) : Option (Option Bytes) :=
  match t with
  | 'b' :: h => (unhexL h).map some
  | _ => if t = "nil".toList then some none else none
def splitOnC (c : Char) (l : List Char) : List (List Char) :=
  let r := l.foldr (fun x (acc : List Char × List (List Char)) => if x = c then ([], acc.1 :: acc.2) else (x :: acc.1, acc.2)) ([], [])
  r.1 :: r.2
/-- strips `open … close` -/
def inner (o c : Char) (t : List Char) : Option (List Char) :=
  match t with
  | x :: r => if x = o ∧ r.getLast? = some c then some r.dropLast else none
  | [] => none
def rList (t : List Char) : Option (Option (List Str)) :=
  if t = "nil".toList then some none else
  match inner '[' ']' t with
  | some [] => some (some [])
  | some b => ((splitOnC ',' b).mapM rStr).map some
  | none => none
def rMapWith {α : Type} (f : List Char → Option α) (t : List Char) : Option (Option (SMap α)) :=
  if t = "nil".toList then some none else
  match inner '{' '}' t with
  | some [] => some (some [])
  | some b => ((splitOnC ',' b).mapM fun e =>
      match splitOnC ':' e with
      | [k, v] => do let k ← rStr k; let v ← f v; pure (k, v)
      | _ => none).map fun l => some (SMap.ofList l)
  | none => none
def rMap := rMapWith rStr
def rBMap := rMapWith rBytes
def rNat (t : List Char) : Option Nat := (String.ofList t).toNat?
def rInt (t : List Char) : Option Int := (String.ofList t).toInt?
def rI64 (t : List Char) : Option Int64 := (rInt t).map Int64.ofInt
def rTime (t : List Char) : Option Time :=
  match splitOnC '/' t with
  | [y, mo, d, h, mi, s, ns, off] => do
    pure ⟨← rNat y, ← rNat mo, ← rNat d, ← rNat h, ← rNat mi, ← rNat s, ← rNat ns, ← rInt off⟩
  | _ => none
def rState (t : List Char) : Option ConnState :=
  if t = "none".toList then some .none else
  match t with
  | 's' :: 'r' :: 'c' :: ':' :: r => (rBytes r).map .source
  | 'd' :: 's' :: 't' :: ':' :: r => (rBMap r).map .destination
  | _ => none

def rConn (f : List (List Char)) : Option ConnInstance :=
  match f with
  | [id, ty, name, settings, pid, plugin, procs, st, prov, cat, uat, lname, lsettings] => do
    pure { id := ← rStr id, type := ← rI64 ty, config := ⟨← rStr name, ← rMap settings⟩, pipelineID := ← rStr pid,
           plugin := ← rStr plugin, processorIDs := ← rList procs, state := ← rState st, provisionedBy := ← rI64 prov,
           createdAt := ← rTime cat, updatedAt := ← rTime uat, lastActiveConfig := ⟨← rStr lname, ← rMap lsettings⟩ }
  | _ => none
def rPipe (f : List (List Char)) : Option PipeInstance :=
  match f with
  | [id, name, descr, err, cat, uat, prov, dplugin, dsettings, ws, wt, cids, pids, status] => do
    pure { id := ← rStr id, config := ⟨← rStr name, ← rStr descr⟩, error := ← rStr err, createdAt := ← rTime cat,
           updatedAt := ← rTime uat, provisionedBy := ← rI64 prov,
           dlq := ⟨← rStr dplugin, ← rMap dsettings, ← rI64 ws, ← rI64 wt⟩, connectorIDs := ← rList cids,
           processorIDs := ← rList pids, status := ← rI64 status }
  | _ => none
def rProc (f : List (List Char)) : Option ProcInstance :=
  match f with
  | [id, cat, uat, prov, plugin, cond, pid, ptype, settings, workers] => do
    pure { id := ← rStr id, createdAt := ← rTime cat, updatedAt := ← rTime uat, provisionedBy := ← rI64 prov,
           plugin := ← rStr plugin, condition := ← rStr cond, parent := ⟨← rStr pid, ← rI64 ptype⟩,
           config := ⟨← rMap settings, ← rI64 workers⟩ }
  | _ => none

def fields (line : String) : List (List Char) := (splitOnC ' ' line.toList).filter (· ≠ [])

def out (l : List Char) : String := String.ofList l

/-! ### components -/

/-- `enc <hex>` → base64 text;  `dec <hex of text>` → `ok:<hex>` | `err` -/
def b64Line (line : String) : String :=
  match fields line with
  | [op, h] =>
    match unhexL h with
    | none => "bad-op"
    | some bs =>
      if op = "enc".toList then out (b64Encode bs)
      else if op = "dec".toList then
        match ofUtf8 bs with
        | none => "bad-op"
        | some s => match b64Decode s with
          | some r => out ("ok:".toList ++ hexL r)
          | none => "err"
      else "bad-op"
  | [op] => if op = "enc".toList then "" else if op = "dec".toList then "ok:" else "bad-op"
  | _ => "bad-op"

/-- `enc <hex of UTF-8>` → `<hex of the literal> rt=<1|0>`;  `dec <hex of literal text>` → `ok:<hex>` | `err` -/
def jsonstrLine (line : String) : String :=
  let go (op : List Char) (bs : List UInt8) : String :=
    match ofUtf8 bs with
    | none => "bad-op"
    | some s =>
      if op = "enc".toList then
        let q := quote s
        out (hexL (utf8Of q) ++ " rt=".toList ++ (if unquote q = some s then ['1'] else ['0']))
      else if op = "dec".toList then
        match unquote s with
        | some r => out ("ok:".toList ++ hexL (utf8Of r))
        | none => "err"
      else "bad-op"
  match fields line with
  | [op, h] => match unhexL h with
    | some bs => go op bs
    | none => "bad-op"
  | [op] => go op []
  | _ => "bad-op"

def docOut {α : Type} (k : Str) (doc : List Char) (orig : List Char) (back : Option (Except DecErr α)) (p : α → List Char) : String :=
  let b := match back with
    | some (.ok y) => p y
    | _ => "err".toList
  out ("key=".toList ++ pStr k ++ " doc=".toList ++ hexL (utf8Of doc) ++ " back=".toList ++ b ++ " rt=".toList ++ (if b = orig then ['1'] else ['0']))

/-- an entity written through the store and read back by a new store -/
def storedocLine (line : String) : String :=
  match fields line with
  | k :: f =>
    if k = "conn".toList then
      match rConn f with
      | some x => docOut (storeKey connKeyPrefix x.id) (storeConn x) (pConn x) (loadConn (storeConn x)) pConn
      | none => "bad-op"
    else if k = "pipe".toList then
      match rPipe f with
      | some x => docOut (storeKey pipeKeyPrefix x.id) (storePipe x) (pPipe x) (loadPipe (storePipe x)) pPipe
      | none => "bad-op"
    else if k = "proc".toList then
      match rProc f with
      | some x => docOut (storeKey procKeyPrefix x.id) (storeProc x) (pProc x) (loadProc (storeProc x)) pProc
      | none => "bad-op"
    else "bad-op"
  | [] => "bad-op"

def goldenOut {α : Type} (r : Option (Except DecErr α)) (p : α → List Char) (enc : α → Json) : String :=
  match r with
  | some (.ok x) => out ("inst=".toList ++ p x ++ " re=".toList ++ pTree (enc x))
  | _ => "err"

/-- `golden conn|pipe|proc <hex of document>`: a foreign document read by the store and written again -/
def goldenLine (line : String) : String :=
  match fields line with
  | [_, k, h] =>
    match (unhexL h).bind ofUtf8 with
    | none => "bad-op"
    | some d =>
      if k = "conn".toList then goldenOut (loadConn d) pConn encConn
      else if k = "pipe".toList then goldenOut (loadPipe d) pPipe encPipe
      else if k = "proc".toList then goldenOut (loadProc d) pProc encProc
      else "bad-op"
  | _ => "bad-op"

/-- `pre041 <hex of old document>`: migration at `NewStore`, then `GetAll` -/
def pre041Line (line : String) : String :=
  match fields line with
  | [_, h] =>
    match (unhexL h).bind ofUtf8 with
    | none => "bad-op"
    | some d =>
      match (parse d).bind migrateDoc with
      | none => "skipped"
      | some (id, nd) =>
        -- `GetAll` keys its result by `trimKeyPrefix` of the database key
        let k := storeKey connKeyPrefix id
        let inst := match decConn nd with
          | .ok x => "id=".toList ++ pStr (trimKey connKeyPrefix k) ++ ' ' :: pConn x
          | .error _ => "err".toList
        out ("key=".toList ++ pStr k ++ " doc=".toList ++ pTree nd ++ " inst=".toList ++ inst)
  | _ => "bad-op"

/-- `oldstore <e> <e> …`, `e` = `o:<hex key suffix>:<hex doc>` (a record under the pre-0.4.1 prefix)
or `c:<hex id>:<hex doc>` (a record under the current connector prefix): the whole store through
`NewStore`'s migration, every record afterwards (sorted by key), then `GetAll` (sorted by ID). -/
def oldstoreLine (line : String) : String :=
  match fields line with
  | _ :: es =>
    let recs := es.mapM fun e => match splitOnC ':' e with
      | [k, a, d] => do
        let a ← (unhexL a).bind ofUtf8
        let d ← (unhexL d).bind ofUtf8
        if k = ['o'] then some (storeKey connPre041KeyPrefix a, d)
        else if k = ['c'] then some (storeKey connKeyPrefix a, d)
        else none
      | _ => none
    match recs with
    | none => "bad-op"
    | some db =>
      let join := fun (l : List (List Char)) => l.foldr (fun x acc => if acc = [] then x else x ++ " | ".toList ++ acc) []
      let after := sortRaw (migrateStore db)
      let docs := after.map fun r =>
        "key=".toList ++ pStr r.1 ++ " doc=".toList ++ (match parse r.2 with | some j => pTree j | none => "unparsable".toList)
      let inst := match getAllConn after with
        | none => "err".toList
        | some l => join ((sortRaw l).map fun p => "id=".toList ++ pStr p.1 ++ ' ' :: pConn p.2)
      out (join docs ++ " inst=".toList ++ inst)
  | [] => "bad-op"

def splitOnTok (sep : List Char) (l : List (List Char)) : List (List (List Char)) :=
  let r := l.foldr (fun x (acc : List (List Char) × List (List (List Char))) =>
    if x = sep then ([], acc.1 :: acc.2) else (x :: acc.1, acc.2)) ([], [])
  r.1 :: r.2

/-- `resume pipe … ; pipe … ; …`: stored pipelines, a restart, and what is started -/
def resumeLine (line : String) : String :=
  match fields line with
  | _ :: rest =>
    let groups := (splitOnTok [';'] rest).filter (· ≠ [])
    match groups.mapM (fun g => match g with
        | _ :: f => rPipe f
        | [] => none) with
    | none => "bad-op"
    | some ps =>
      match restart (ps.map storePipe) with
      | none => "err"
      | some (after, started) =>
        let byId := fun (l : List PipeInstance) => l.mergeSort fun a b => decide (a.id ≤ b.id)
        let st := commaSep ((byId after).map fun p => pStr p.id ++ ':' :: pI64 p.status)
        let same := (byId after).map (fun p => { p with status := 0 }) = (byId ps).map (fun p => { p with status := 0 })
        let ids := commaSep ((started.mergeSort fun a b => decide (a ≤ b)).map pStr)
        out ("after=".toList ++ st ++ " same=".toList ++ (if same then ['1'] else ['0']) ++ " started=".toList ++ ids)
  | [] => "bad-op"

end Conduit.Driver
