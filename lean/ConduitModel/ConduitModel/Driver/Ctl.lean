import ConduitModel.Model.Ctl
import ConduitModel.Spec.Ctl
import ConduitModel.Generated.Ctl
import ConduitModel.Driver.Util

/-
Driver component `crud` (C14): a case line is a history of API / environment ops (plus
`sf <id> <status>`: a lifecycle status write whose store Set fails)
(`;`-separated, optional `!k` = the k-th store operation of that call fails); see
harness/cmd/h_ctl/crud.go for the grammar. Output: per op
`<class>#<memory dump>#<reload or =>#<raw keys or =>` joined by ` | `, then ` mon=ok` or
` mon=FAIL:<clause>:<op>!<k>@<index>` (the first step at which the C14 monitor fails).
The code variant (which mutate-then-store sites restore memory …) is the regenerated one.
-/
namespace Conduit.Driver
open Conduit.Ctl

def parseInt (s : String) : Option Int :=
  match s.toList with
  | '-' :: r => (String.ofList r).toNat?.map fun n => - (Int.ofNat n)
  | _ => s.toNat?.map Int.ofNat

def parseOp (f : List String) : Option Op :=
  match f with
  | ["pc", a, b] => do pure (.plCreate (← a.toNat?) (← b.toNat?))
  | ["pu", i, a, b] => do pure (.plUpdate (← i.toNat?) (← a.toNat?) (← b.toNat?))
  | ["pq", i, pl, st, ws, thr] => do
      pure (.plUpdateDLQ (← i.toNat?) { plugin := ← pl.toNat?, settings := ← st.toNat?, ws := ← parseInt ws, thr := ← parseInt thr })
  | ["pd", i] => do pure (.plDelete (← i.toNat?))
  | ["cc", t, pl, pid, n, st] => do pure (.cnCreate (← t.toNat?) (← pl.toNat?) (← pid.toNat?) (← n.toNat?) (← st.toNat?))
  | ["cu", i, pl, n, st] => do pure (.cnUpdate (← i.toNat?) (← pl.toNat?) (← n.toNat?) (← st.toNat?))
  | ["cd", i] => do pure (.cnDelete (← i.toNat?))
  | ["rc", pl, pt, par, st, w, c] => do
      pure (.prCreate (← pl.toNat?) (← pt.toNat?) (← par.toNat?) (← st.toNat?) (← parseInt w) (← c.toNat?))
  | ["ru", i, pl, st, w] => do pure (.prUpdate (← i.toNat?) (← pl.toNat?) (← st.toNat?) (← parseInt w))
  | ["rd", i] => do pure (.prDelete (← i.toNat?))
  | ["st", i, st] => do pure (.envStatus (← i.toNat?) (← st.toNat?))
  | ["ss", i, p] => do pure (.envState (← i.toNat?) (← p.toNat?))
  | ["Pc", n] => do pure (.envPl (← n.toNat?))
  | ["Cc", t, pid, n, st] => do pure (.envCn (← t.toNat?) (← pid.toNat?) (← n.toNat?) (← st.toNat?))
  | ["Rc", pt, par, st] => do pure (.envPr (← pt.toNat?) (← par.toNat?) (← st.toNat?))
  | _ => none

def parseStep (s : String) : Option (Op × Option Nat) :=
  let f := words s
  match f.getLast? with
  | none => none
  | some l =>
    if l.startsWith "!" then
      match (l.drop 1).toString.toNat?, parseOp f.dropLast with
      | some k, some op => some (op, if k = 0 then none else some k)
      | _, _ => none
    else (parseOp f).map fun op => (op, none)

def errStr : Except Err Unit → String
  | .ok _ => "ok"
  | .error .nf => "nf" | .error .run => "run" | .error .imm => "imm" | .error .att => "att"
  | .error .inv => "inv" | .error .st => "st" | .error .panic => "panic"
  | .error .stale => "stale" | .error .unauth => "unauth" | .error .life => "life"

/-- a step of a `crud` history: an op of the model's `Op` language, or `sf <id> <status>` — the
lifecycle's status write whose store `Set` fails (the nodes are already running / stopped, the
write is only the record of it): memory keeps the new status, the store the old one. -/
inductive CStep where
  | op (o : Op) (k : Option Nat)
  | statusFail (id : Id) (st : Nat)

def parseCStep (s : String) : Option CStep :=
  match words s with
  | ["sf", i, st] => do pure (.statusFail (← i.toNat?) (← st.toNat?))
  | _ => (parseStep s).map fun (o, k) => .op o k

/-- run the history; collect per-op output and the first monitor failure. After a failed status
write memory and store differ *in that status* by design, so the memory = store clause is not
judged any more on that history (all-or-nothing, guards and references still are). -/
def crudRun (v : Variant) : St → Nat → Bool → List CStep → List String → Option String → List String × Option String
  | _, _, _, [], outs, mon => (outs.reverse, mon)
  | s, i, div, .op op k :: rest, outs, mon =>
    let r := exec v s op k
    let mon := match mon with
      | some m => some m
      | none =>
        let why := match stepMonitor v s op k with
          | some "memstore" => if div then (if !refsB r.2 then some "refs" else none) else some "memstore"
          | w => w
        why.map fun why => s!"{why}:{op.tag}!{match k with | some n => toString n | none => "-"}@{i}"
    crudRun v r.2 (i + 1) div rest ((errStr r.1 ++ "#" ++ observe r.2) :: outs) mon
  | s, i, div, .statusFail id st :: rest, outs, mon =>
    let r := (svcPlStatus id st).run { s with ctr := 0, failAt := some 1 }
    let s' := { r.2 with next := s.next + 1, failAt := none, ctr := 0 }
    crudRun v s' (i + 1) (div || r.1 == .error .st) rest ((errStr r.1 ++ "#" ++ observe s') :: outs) mon

def crudLineV (v : Variant) (line : String) : String :=
  match (line.splitOn ";").mapM parseCStep with
  | none => "bad-op"
  | some steps =>
    let (outs, mon) := crudRun v St.init 0 false steps [] none
    " | ".intercalate outs ++ (match mon with | none => " mon=ok" | some m => " mon=FAIL:" ++ m)

/-- the code variant as regenerated from the source. -/
def genVariant : Variant :=
  { plUpdate := Generated.Ctl.keepPlUpdate, plUpdateDLQ := Generated.Ctl.keepPlUpdateDLQ,
    plAddConn := Generated.Ctl.keepPlAddConn, plRemConn := Generated.Ctl.keepPlRemConn,
    plAddProc := Generated.Ctl.keepPlAddProc, plRemProc := Generated.Ctl.keepPlRemProc,
    cnUpdate := Generated.Ctl.keepCnUpdate, cnAddProc := Generated.Ctl.keepCnAddProc,
    cnRemProc := Generated.Ctl.keepCnRemProc, prUpdate := Generated.Ctl.keepPrUpdate,
    cnOrchOldPlugin := Generated.Ctl.cnOrchOldPlugin, updConnCopies := Generated.Ctl.updConnCopies,
    condExported := Generated.Ctl.condExported, condUpdated := Generated.Ctl.condUpdated,
    condRecreates := Generated.Ctl.condRecreates }

def crudLine (line : String) : String := crudLineV genVariant line

end Conduit.Driver
