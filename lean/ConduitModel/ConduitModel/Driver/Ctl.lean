import ConduitModel.Model.Ctl
import ConduitModel.Spec.Ctl
import ConduitModel.Generated.Ctl
import ConduitModel.Driver.Util

/-
Driver component `crud` (C14): a case line is a history of API / environment ops
(`;`-separated, optional `!k` = the k-th store operation of that call fails); see
harness/cmd/h_ctl/crud.go for the grammar. Output: per op
`<class>#<memory dump>#<reload or =>#<raw keys or =>` joined by ` | `, then ` mon=ok` or
` mon=FAIL:<clause>:<op>!<k>@<index>` (the first step at which the C14 monitor fails).
The code variant (which mutate-then-store sites restore memory …) is the regenerated one.
-/
namespace Conduit.Driver
open Conduit.Ctl

def parseInt (s : String) : Option Int :=
  match s.toList with
  | '-' :: r => (String.ofList r).toNat?.map fun n => - (Int.ofNat n)
  | _ => s.toNat?.map Int.ofNat

def parseOp (f : List String) : Option Op :=
  match f with
  | ["pc", a, b] => do pure (.plCreate (← a.toNat?) (← b.toNat?))
  | ["pu", i, a, b] => do pure (.plUpdate (← i.toNat?) (← a.toNat?) (← b.toNat?))
  | ["pq", i, pl, st, ws, thr] => do
      pure (.plUpdateDLQ (← i.toNat?) { plugin := ← pl.toNat?, settings := ← st.toNat?, ws := ← parseInt ws, thr := ← parseInt thr })
  | ["pd", i] => do pure (.plDelete (← i.toNat?))
  | ["cc", t, pl, pid, n, st] => do pure (.cnCreate (← t.toNat?) (← pl.toNat?) (← pid.toNat?) (← n.toNat?) (← st.toNat?))
  | ["cu", i, pl, n, st] => do pure (.cnUpdate (← i.toNat?) (← pl.toNat?) (← n.toNat?) (← st.toNat?))
  | ["cd", i] => do pure (.cnDelete (← i.toNat?))
  | ["rc", pl, pt, par, st, w, c] => do
      pure (.prCreate (← pl.toNat?) (← pt.toNat?) (← par.toNat?) (← st.toNat?) (← parseInt w) (← c.toNat?))
  | ["ru", i, pl, st, w] => do pure (.prUpdate (← i.toNat?) (← pl.toNat?) (← st.toNat?) (← parseInt w))
  | ["rd", i] => do pure (.prDelete (← i.toNat?))
  | ["st", i, st] => do pure (.envStatus (← i.toNat?) (← st.toNat?))
  | ["ss", i, p] => do pure (.envState (← i.toNat?) (← p.toNat?))
  | ["Pc", n] => do pure (.envPl (← n.toNat?))
  | ["Cc", t, pid, n, st] => do pure (.envCn (← t.toNat?) (← pid.toNat?) (← n.toNat?) (← st.toNat?))
  | ["Rc", pt, par, st] => do pure (.envPr (← pt.toNat?) (← par.toNat?) (← st.toNat?))
  | _ => none

def parseStep (s : String) : Option (Op × Option Nat) :=
  let f := words s
  match f.getLast? with
  | none => none
  | some l =>
    if l.startsWith "!" then
      match (l.drop 1).toString.toNat?, parseOp f.dropLast with
      | some k, some op => some (op, if k = 0 then none else some k)
      | _, _ => none
    else (parseOp f).map fun op => (op, none)

def errStr : Except Err Unit → String
  | .ok _ => "ok"
  | .error .nf => "nf" | .error .run => "run" | .error .imm => "imm" | .error .att => "att"
  | .error .inv => "inv" | .error .st => "st" | .error .panic => "panic"
  | .error .stale => "stale" | .error .unauth => "unauth" | .error .life => "life"

/-- run the history; collect per-op output and the first monitor failure. -/
def crudRun (v : Variant) : St → Nat → List (Op × Option Nat) → List String → Option String → List String × Option String
  | _, _, [], outs, mon => (outs.reverse, mon)
  | s, i, (op, k) :: rest, outs, mon =>
    let r := exec v s op k
    let mon := match mon with
      | some m => some m
      | none => (stepMonitor v s op k).map fun why =>
          s!"{why}:{op.tag}!{match k with | some n => toString n | none => "-"}@{i}"
    crudRun v r.2 (i + 1) rest ((errStr r.1 ++ "#" ++ observe r.2) :: outs) mon

def crudLineV (v : Variant) (line : String) : String :=
  match (line.splitOn ";").mapM parseStep with
  | none => "bad-op"
  | some steps =>
    let (outs, mon) := crudRun v St.init 0 steps [] none
    " | ".intercalate outs ++ (match mon with | none => " mon=ok" | some m => " mon=FAIL:" ++ m)

/-- the code variant as regenerated from the source. -/
def genVariant : Variant :=
  { plUpdate := Generated.Ctl.keepPlUpdate, plUpdateDLQ := Generated.Ctl.keepPlUpdateDLQ,
    plAddConn := Generated.Ctl.keepPlAddConn, plRemConn := Generated.Ctl.keepPlRemConn,
    plAddProc := Generated.Ctl.keepPlAddProc, plRemProc := Generated.Ctl.keepPlRemProc,
    cnUpdate := Generated.Ctl.keepCnUpdate, cnAddProc := Generated.Ctl.keepCnAddProc,
    cnRemProc := Generated.Ctl.keepCnRemProc, prUpdate := Generated.Ctl.keepPrUpdate,
    cnOrchOldPlugin := Generated.Ctl.cnOrchOldPlugin, updConnCopies := Generated.Ctl.updConnCopies,
    condExported := Generated.Ctl.condExported, condUpdated := Generated.Ctl.condUpdated,
    condRecreates := Generated.Ctl.condRecreates }

def crudLine (line : String) : String := crudLineV genVariant line

end Conduit.Driver
