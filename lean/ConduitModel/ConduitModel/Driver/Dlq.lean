import ConduitModel.Model.DlqWindow
import ConduitModel.Spec.DlqWindow
import ConduitModel.Driver.Util

/-
Driver component `dlqwindow`.
  v1 <size> <thr> <bits>            -> verdict bits (1 = accepted; acks always 1)
  v2 <size> <thr> <k><n>,<k><n>…    -> accepted count per batch   (k ∈ {a,n})
  spec <size> <thr> <bits>          -> verdict bits of the abstract spec
-/
namespace Conduit.Driver
open Conduit.Dlq

def parseBatches (s : String) : Option (List (Bool × Nat)) :=
  if s = "-" then some [] else
  (s.splitOn ",").mapM fun t =>
    match t.toList with
    | 'a' :: r => (String.ofList r).toNat?.map fun n => (false, n)
    | 'n' :: r => (String.ofList r).toNat?.map fun n => (true, n)
    | _ => none

def dlqLine (line : String) : String :=
  match words line with
  | ["v1", sz, th, bits] =>
    match sz.toNat?, th.toNat?, bitsOf (if bits = "-" then "" else bits) with
    | some sz, some th, some os => bitsStr (runV1 (Win.new sz th) os).2
    | _, _, _ => "bad-op"
  | ["spec", sz, th, bits] =>
    match sz.toNat?, th.toNat?, bitsOf (if bits = "-" then "" else bits) with
    | some sz, some th, some os => bitsStr (Spec.run sz th Spec.init os).2
    | _, _, _ => "bad-op"
  | ["v2", sz, th, bs] =>
    match sz.toNat?, th.toNat?, parseBatches bs with
    | some sz, some th, some bs => natsStr (runV2 (Win.new sz th) bs).2
    | _, _, _ => "bad-op"
  | _ => "bad-op"

end Conduit.Driver
