import ConduitModel.Model.Egress
import ConduitModel.Spec.Egress
import ConduitModel.Generated.Egress
import ConduitModel.Driver.Util

/-
Driver component `egress` (C18).
  refuse <ipspec>                          -> refused=<0|1> reason=<label|-> prop=<ok|floor-address-not-refused>
  resolve <policy> <policy>                -> <policy> dropped=<entries|->      (per-processor, ceiling)
  dial <policy> <port> <mode> <cands>      -> attempts=<hex32>:<r|f|c>,…|- result=<ok|refused:<reason>|dialerr|dns>
ipspec : `nil` | `<hex bytes>` (8 hex digits = 4-byte slice, 32 = 16-byte slice, other lengths = malformed)
policy : E=<0|1>;A=<entry>,…|-;S=<name>,…|-;T=<int>;M=<int>
entry  : <scheme>!<host>!<port>!<ipspec|->
  do <policy> <scheme> <mode> <port> <p|r> <cands> -> do=<class> attempts=…   (Service.Do end to end; r = the server answers 302)
mode   : `name` (host is a DNS name, the resolver answers <cands>) | `lit` (host is the single IP literal in <cands>)
cands  : <ipspec>[+]  comma separated ('+' = connect(2) would succeed), `-` = empty answer, `!` = resolver error
-/
namespace Conduit.Driver
open Conduit.Egress

namespace EgressD

def tables : Tables :=
  { v4 := Generated.Egress.refusedV4, v6 := Generated.Egress.refusedV6, nat64 := Generated.Egress.nat64Net,
    translated := Generated.Egress.v4TranslatedNet, v4McastFirstByte := Generated.Egress.v4McastFirstByte,
    v6McastFirstByte := 255,
    rUnparseable := Generated.Egress.reasonUnparseable, rV4Mapped := Generated.Egress.reasonV4Mapped,
    rV4Compatible := Generated.Egress.reasonV4Compatible, rV4Translated := Generated.Egress.reasonV4Translated,
    rNAT64 := Generated.Egress.reasonNAT64, rSixToFour := Generated.Egress.reasonSixToFour,
    rTeredo := Generated.Egress.reasonTeredo, rMulticast := Generated.Egress.reasonMulticastEtc }

def defaults : Defaults := ⟨Generated.Egress.defaultTimeoutNs, Generated.Egress.defaultMaxResponseBytes⟩

def hexDigit (c : Char) : Option Nat :=
  if '0' ≤ c ∧ c ≤ '9' then some (c.toNat - 48)
  else if 'a' ≤ c ∧ c ≤ 'f' then some (c.toNat - 87)
  else none

def hexNat (s : String) : Option Nat :=
  s.toList.foldlM (fun acc c => (hexDigit c).map fun d => acc * 16 + d) 0

def ipOf (s : String) : Option IP :=
  if s = "nil" then some .bad
  else if s.length % 2 = 1 then none
  else match hexNat s with
    | none => none
    | some n => if s.length = 8 then some (.b4 n) else if s.length = 32 then some (.b16 n) else some .bad

def hexPad (n width : Nat) : String :=
  let ds := (Nat.toDigits 16 n)
  String.ofList (List.replicate (width - ds.length) '0' ++ ds)

def ipStr : IP → String
  | .b4 a => hexPad a 8
  | .b16 x => hexPad x 32
  | .bad => "bad"

def entryOf (s : String) : Option AllowEntry :=
  match s.splitOn "!" with
  | [sc, h, p, ip] =>
    if ip = "-" then some ⟨sc, h, p, none⟩ else (ipOf ip).map fun i => ⟨sc, h, p, some i⟩
  | _ => none

def entryStr (e : AllowEntry) : String :=
  s!"{e.scheme}!{e.host}!{e.port}!{match e.ip with | none => "-" | some i => ipStr i}"

def listOf (s : String) : List String := if s = "-" ∨ s = "" then [] else s.splitOn ","

def field (k : String) (s : String) : Option String :=
  if s.startsWith (k ++ "=") then some ((s.drop (k.length + 1)).toString) else none

def policyOf (s : String) : Option Policy :=
  match s.splitOn ";" with
  | [e, a, sec, t, m] => do
    let e ← field "E" e
    let a ← field "A" a
    let sec ← field "S" sec
    let t ← field "T" t
    let m ← field "M" m
    let entries ← (listOf a).mapM entryOf
    pure { enabled := e = "1", allow := entries, secrets := listOf sec, timeout := ← t.toInt?, maxBytes := ← m.toInt? }
  | _ => none

def joinOr (l : List String) : String := if l.isEmpty then "-" else ",".intercalate l

def policyStr (p : Policy) : String :=
  s!"E={if p.enabled then "1" else "0"};A={joinOr (p.allow.map entryStr)};S={joinOr p.secrets};T={p.timeout};M={p.maxBytes}"

def candOf (s : String) : Option (IP × Bool) :=
  if s.endsWith "+" then (ipOf (s.dropEnd 1).toString).map fun i => (i, true)
  else (ipOf s).map fun i => (i, false)

def attemptStr : Attempt → Option String
  | .skipped _ => none
  | .controlRefused ip => some s!"{ipStr (reparse ip)}:r"
  | .connectFailed ip => some s!"{ipStr (reparse ip)}:f"
  | .connected ip => some s!"{ipStr (reparse ip)}:c"

/-- Go's dialer on a literal address: a literal `::` also tries 0.0.0.0 (net.internetAddrList,
issue 18806); everything else is dialed as is. -/
def goExpand (ip : IP) : List IP :=
  if to16 ip = some 0 then [ip, .b16 0xffff00000000] else [ip]

/-- what `dialContext` returns: the connection, or `lastRefusal` = the error of the last
candidate (for a dialed candidate: the dialer's first error). -/
def resultStr (t : Tables) (groups : List (List Attempt)) : String :=
  if groups.flatten.any Attempt.isConnected then "ok"
  else match groups.getLast? with
    | none => s!"refused:{t.rUnparseable}"
    | some g =>
      match g.head? with
      | some (.skipped ip) => s!"refused:{(refuse t ip).getD ""}"
      | some (.controlRefused ip) => s!"refused:{(refuse t (reparse ip)).getD ""}"
      | some (.connectFailed _) => "dialerr"
      | _ => "dialerr"

end EgressD

open EgressD in
def egressLine (line : String) : String :=
  match words line with
  | ["refuse", ip] =>
    match ipOf ip with
    | some ip =>
      -- monitor: an address of the documented floor (Spec.floorB ⊇ Floor) must be refused
      match refuse tables ip with
      | some r => s!"refused=1 reason={r} prop=ok"
      | none => s!"refused=0 reason=- prop={if floorB ip then "floor-address-not-refused" else "ok"}"
    | none => "bad-op"
  | ["resolve", per, ceil] =>
    match policyOf per, policyOf ceil with
    | some per, some ceil =>
      let r := resolvePolicy defaults per ceil
      s!"{policyStr r.1} dropped={joinOr (r.2.map entryStr)}"
    | _, _ => "bad-op"
  | ["dial", pol, port, mode, cands] =>
    match policyOf pol with
    | none => "bad-op"
    | some pol =>
      if cands = "!" then "attempts=- result=dns"
      else
      match (listOf cands).mapM candOf with
      | none => "bad-op"
      | some cs =>
        if cs.isEmpty then "attempts=- result=dns"
        else
          let ips := cs.map fun c => if mode = "lit" then reparse c.1 else c.1
          -- connect(2) can only succeed on the harness' own listener: 127.0.0.1 (either form), port "L"
          let ok := fun ip => port = "L" && to16 ip == some 0xffff7f000001 &&
            cs.any fun c => c.2 && to16 c.1 == to16 ip
          let gs := dialContext tables pol port goExpand ok ips
          s!"attempts={joinOr (gs.flatten.filterMap attemptStr)} result={resultStr tables gs}"
  | ["do", pol, scheme, mode, port, path, cands] =>
    match policyOf pol with
    | none => "bad-op"
    | some pol =>
      let parsed : Option (Option (List (IP × Bool))) :=
        if cands = "!" then some none else ((listOf cands).mapM candOf).map some
      match parsed with
      | none => "bad-op"
      | some cs =>
        let all := cs.getD []
        let lit := mode = "lit"
        if lit && all.length ≠ 1 then "bad-op" else
        let reqIP : Option IP := if lit then all.head?.map (·.1) else none
        let host := if lit then "" else "h.verif.test"      -- IP entries match by address, not by text
        let ok := fun ip => port = "L" && to16 ip == some 0xffff7f000001 &&
          all.any fun c => c.2 && to16 c.1 == to16 ip
        let r := doRequest tables pol scheme host port reqIP goExpand ok (cs.map fun l => l.map (·.1)) (path = "r")
        -- the harness' listener speaks plain HTTP: after a successful connect an https request dies
        -- in the TLS handshake, which Do reports as a transport error
        let o := if scheme = "https" && (r.1 == .ok || r.1 == .forbiddenRedirect) then DoOutcome.transport else r.1
        let out := match o with
          | .disabled => "disabled" | .forbiddenAllowlist => "forbidden:allowlist" | .forbiddenIP => "forbidden:ip"
          | .forbiddenRedirect => "forbidden:redirect" | .dns => "dns" | .transport => "transport" | .ok => "ok:200"
        s!"do={out} attempts={joinOr (r.2.flatten.filterMap attemptStr)}"
  | _ => "bad-op"

end Conduit.Driver
