import ConduitModel.Driver.Errs
import ConduitModel.Model.DlqWindow
import ConduitModel.Generated.ErrPaths

/-
Driver component `workernack` (C20): the arch-v2 nack path — funnel.Worker.Nack → DLQ.Nack →
DLQ.sendToDLQ → DestinationTask.Do — as far as the ERROR it returns is concerned.

  wn <size> <thr> | src <expr|nil> | dlqw <expr|nil> | <e|p> <nackexpr> / <ackexpr|ok> | …
     size thr  : DLQ window size / nack threshold
     src       : what Source.Ack returns            (constructor expression, see `errtree`)
     dlqw      : what the DLQ destination's Write returns
     one field per record of the nacked batch: e = empty position, p = non-empty; the record's nack
     error; what the DLQ destination acks that record with (ok = no error)
  -> classification of Worker.Nack's result as in `errtree`, then
     prop=<ok | lost:…>   the monitor: every error this call combined into its result (the position
     error, DLQ.Nack's error, the source's ack error) keeps its classification in the result —
     fatal stays fatal, a code stays reported by conduiterr.Get (some code), sentinels stay matched.

The control flow below is hand-written after the Go functions; every error COMPOSITION is the
regenerated template `Generated.ErrPaths.*` (indices = the function's return statements in source
order), evaluated with the real-constructor semantics of `Model/Errs`.
-/
namespace Conduit.Driver
open Conduit.Errs

namespace ErrPathsD
open ErrsD

/-- evaluate a regenerated composition template over error VALUES. -/
partial def evalT (vars : List (String × E)) : SX → Option E
  | .atom "nil" => some none
  | .atom s => if s.startsWith "$" then vars.lookup (s.drop 1).toString else none
  | .list [.atom "f", x] => (evalT vars x).map fatalError
  | .list (.atom "j" :: xs) => (xs.mapM (evalT vars)).map join
  | .list (.atom "ef" :: .atom h :: args) => do
    let f ← fmtOf h
    let as ← args.mapM fun a =>
      match a with
      | .atom "other" => some Val.other
      | a => (evalT vars a).map Val.ofE
    pure (some (errorf f as))
  | _ => none

def template (l : List String) (i : Nat) : Option SX :=
  match l[i]? with
  | none => none
  | some s =>
    let ts := tokenize s
    match parseSX (ts.length + 1) ts with
    | some (sx, []) => some sx
    | _ => none

def tpl (l : List String) (i : Nat) (vars : List (String × E)) : Option E :=
  (template l i).bind (evalT vars)

structure Rec where
  emptyPos : Bool
  nackErr : E
  dlqAck : E

/-- `DestinationTask.Do` on the DLQ destination (the fake acks every written record at once, with
the scripted per-record errors): only a Write error makes `Do` itself fail. -/
def destinationDo (dlqWrite : E) : Option E :=
  match dlqWrite with
  | none => some none
  | some e => tpl Generated.ErrPaths.destinationDo 0 [("err", some e)]

/-- `DLQ.sendToDLQ` → (successCount, err). -/
def sendToDLQ (recs : List Rec) (dlqWrite : E) : Option (Nat × E) := do
  let doErr ← destinationDo dlqWrite
  match doErr with
  | some e => pure (0, ← tpl Generated.ErrPaths.sendToDLQ 0 [("err", some e)])
  | none =>
    let ackCount := (recs.takeWhile fun r => r.dlqAck.isNone).length
    if ackCount < recs.length then
      let st := (recs[ackCount]?).bind (·.dlqAck)
      pure (ackCount, ← tpl Generated.ErrPaths.sendToDLQ 1 [("statusErr", st)])
    else pure (ackCount, none)

/-- `DLQ.Nack` on a fresh DLQ → (n, err). -/
def dlqNack (size thr : Nat) (recs : List Rec) (dlqWrite : E) : Option (Nat × E) :=
  if recs.isEmpty then some (0, none)
  else
    let nacked := ((Conduit.Dlq.Win.new size thr).nackN recs.length).2
    let step2 : Option (Nat × E) :=
      if nacked < recs.length then
        let st := (recs[nacked]?).bind (·.nackErr)
        if thr > 0 then (tpl Generated.ErrPaths.dlqNack 2 [("statusErr", st)]).map fun e => (nacked, e)
        else (tpl Generated.ErrPaths.dlqNack 3 [("statusErr", st)]).map fun e => (nacked, e)
      else some (nacked, none)
    if nacked > 0 then
      match sendToDLQ (recs.take nacked) dlqWrite with
      | none => none
      | some (succ, some e) => (tpl Generated.ErrPaths.dlqNack 1 [("err", some e)]).map fun e' => (succ, e')
      | some (_, none) => step2
    else step2

/-- `Worker.Nack` → (result, the error values it combined). -/
def workerNack (size thr : Nat) (recs : List Rec) (srcAck dlqWrite : E) (posCode : Code) :
    Option (E × List E) := do
  let (n, err) ← dlqNack size thr recs dlqWrite
  if n > 0 then
    -- validateAckPositions(originalBatch.positions[:n])
    let posErr : E := if (recs.take n).any (·.emptyPos) then some (cnew posCode) else none
    match posErr with
    | some pe =>
      if err.isSome then
        pure (← tpl Generated.ErrPaths.workerNack 0 [("posErr", some pe), ("err", err)], [some pe, err])
      else pure (← tpl Generated.ErrPaths.workerNack 1 [("posErr", some pe)], [some pe])
    | none =>
      -- Source.Ack; io.EOF (closed stream) is suppressed
      let ackFails := match srcAck with
        | some a => !isErr (.sentinel "io.EOF") a
        | none => false
      if ackFails then
        pure (← tpl Generated.ErrPaths.workerNack 2 [("ackErr", srcAck)], [srcAck])
      else if err.isSome then
        pure (← tpl Generated.ErrPaths.workerNack 3 [("err", err)], [err])
      else pure (none, [])
  else if err.isSome then
    pure (← tpl Generated.ErrPaths.workerNack 3 [("err", err)], [err])
  else pure (none, [])

/-- all sentinel names an expression mentions, for the `is=` column and the monitor. -/
def sentinelUniverse (xs : List Expr) : List String := sortDedup (xs.flatMap sentinelsOf)

def tgt (n : String) : Target := if n = "&ValidationError" then .validation else .sentinel n

/-- classification line of a VALUE (same columns as `errtree`). -/
def classifyVal (names : List String) : E → String
  | none => "nil"
  | some e =>
    let fatal := if isFatalErr e then "1" else "0"
    let code := getErr e
    let rt := code.map fun c => fromStatus env.registry env.unknownReason (toStatus c)
    let st := match grpcFromError e with
      | none => "-"
      | some s => s!"{s.grpc}/{s.reason.getD "-"}"
    let ex := exitCode exitCfg (some e)
    let api := ";".intercalate ([Generated.Errs.pipelineErrorArms, Generated.Errs.connectorErrorArms,
        Generated.Errs.processorErrorArms, []].map fun own => statusErrStr (apiStatus (apiCfg own) e))
    let hits := names.filter fun n => isErr (tgt n) e
    let isS := if hits.isEmpty then "-" else ",".intercalate hits
    s!"fatal={fatal} code={codeStr code} rt={codeStr rt} st={st} exit={ex} api={api} is={isS}"

/-- the monitor: what of a part's classification is missing in the result. -/
def lostOf (names : List String) (result : E) (part : E) : List String :=
  match part with
  | none => []
  | some p =>
    (if isFatalErr p && !isFatal result then ["fatal"] else []) ++
    (match getErr p with
      | some c => if (get result).isNone then [s!"code:{c.reason}"] else []
      | none => []) ++
    (names.filter fun n => isErr (tgt n) p && !is (tgt n) result).map fun n => s!"is:{n}"

def exprOrNil (s : String) : Option Expr := parseExpr s.trimAscii.toString

def recOf (s : String) : Option (Rec × List Expr) :=
  match s.trimAscii.toString.splitOn " / " with
  | [l, r] =>
    let l := l.trimAscii.toString
    let kind := l.take 1
    let body := (l.drop 1).trimAscii.toString
    if kind.toString ≠ "e" ∧ kind.toString ≠ "p" then none else do
    let nx ← parseExpr body
    let r := r.trimAscii.toString
    let ax ← if r = "ok" then some Expr.nil else parseExpr r
    -- a nacked record always carries an error (the harness refuses a nil one as well)
    if (eval env nx).isNone then none
    else pure (⟨kind.toString = "e", eval env nx, eval env ax⟩, [nx, ax])
  | _ => none

end ErrPathsD

open ErrPathsD ErrsD in
def workernackLine (line : String) : String :=
  match line.splitOn " | " with
  | hd :: src :: dlqw :: recs =>
    match words hd, (src.trimAscii.toString.splitOn " ").head?, (dlqw.trimAscii.toString.splitOn " ").head? with
    | ["wn", sz, th], some "src", some "dlqw" =>
      match sz.toNat?, th.toNat?, exprOrNil (src.trimAscii.toString.drop 3).toString,
            exprOrNil (dlqw.trimAscii.toString.drop 4).toString, recs.mapM recOf with
      | some sz, some th, some sx, some dx, some rs =>
        let names := sentinelUniverse (sx :: dx :: rs.flatMap (·.2))
        let code : Code := ⟨Generated.ErrPaths.emptyPositionCode.1, Generated.ErrPaths.emptyPositionCode.2⟩
        match workerNack sz th (rs.map (·.1)) (eval env sx) (eval env dx) code with
        | none => "model-error:template"
        | some (res, parts) =>
          let lost := parts.flatMap (lostOf names res)
          s!"{classifyVal names res} prop={if lost.isEmpty then "ok" else "lost:" ++ ",".intercalate lost}"
      | _, _, _, _, _ => "bad-op"
    | _, _, _ => "bad-op"
  | _ => "bad-op"

end Conduit.Driver
